(* CmpSpace.v — the comparison filter written with blanks around its operator: [?(@ steps   OP   number)], any number of
   blanks on either side.  The blanks after the operand are eaten by the operand itself (jsonpathParameter ends with
   `space`), those after the operator by the comparator's `space`; the tokens are those of the unspaced comparison with the
   text positions moved. *)
From JP Require Import Peg Grammar Text Tree Actions PegFacts PegMono PegEv FuelRules ParseFacts KeyDefs KeyParse IdxParse SliceParse UnionParse WildParse RecParse ChainParse SpacePath FunParse AggParse Frame FiltParse CmpParse NoDollar.
From Coq Require Import Lia.
Local Open Scope N_scope.
Open Scope list_scope.

Lemma blanks_S n : blanks (S n) = 32 :: blanks n.
Proof. reflexivity. Qed.

(* the operand @ steps, then n blanks, up to a character that ends it *)
Lemma ev_rule3_cur_sp isteps n c t pos : forallb rstep_ok isteps = true -> closer c ->
  evG (PRef 3) (64 :: render_steps isteps ++ blanks n ++ c :: t) pos
      (POk (c :: t) (pos + 1 + List.length (render_steps isteps) + n) (inner_tokens pos isteps)).
Proof.
  intros Hs Hc. pose proof Hc as (Hsym & H46 & H91 & H32 & H92 & H40). unfold inner_tokens.
  assert (Hd : dot_stop (blanks n ++ c :: t)).
  { destruct n as [|n]; [cbn; repeat split; assumption|]. rewrite blanks_S. cbn [app dot_stop]. repeat split; try reflexivity; discriminate. }
  assert (H7 : forall p, evG (PRef 7) (blanks n ++ c :: t) p PFail).
  { intros p. destruct n as [|n]; [apply (ev_rule7_closer c t p Hc)|]. rewrite blanks_S. cbn [app]. apply ev_rule7_blank. }
  assert (H8 : forall p, evG (PRef 8) (blanks n ++ c :: t) p PFail).
  { intros p. destruct n as [|n]; [apply (ev_rule8_closer c t p Hc)|]. rewrite blanks_S. cbn [app]. apply ev_rule8_blank. }
  eapply ev_conv.
  - eapply ev_ref; [reflexivity|].
    eapply ev_seq_ok; [apply ev_space_stop; discriminate| |reflexivity].
    eapply ev_seq_ok; [| |reflexivity].
    + eapply ev_ref; [reflexivity|]. apply ev_alt_r.
      * eapply ev_ref; [reflexivity|]. apply ev_seq_fail. apply (ev_lit_fail G [36]). reflexivity.
      * eapply ev_ref; [reflexivity|]. eapply ev_seq_ok; [apply (ev_lit_ok G [64]); apply strip1_ok|apply ev_act|reflexivity].
    + eapply ev_ref; [reflexivity|].
      eapply ev_seq_ok; [apply (ev_steps_star_gen isteps (blanks n ++ c :: t) _ Hs Hd H7)| |reflexivity].
      eapply ev_seq_ok; [apply ev_star_stop; apply H8| |reflexivity].
      eapply ev_seq_ok; [apply (ev_space_blanks n (c :: t)); exact H32|apply ev_act|reflexivity].
  - cbn [List.length app Nat.add]. replace (pos + 0 + 1)%nat with (pos + 1)%nat by lia. rewrite <- ?app_assoc. reflexivity.
Qed.

Definition left43_tokens_sp (pos : nat) (isteps : list rstep) (n : nat) : list token :=
  [TAct 38] ++ inner_tokens pos isteps ++ [TAct 39; TText pos (pos + 1 + List.length (render_steps isteps) + n); TAct 37].

Lemma ev_rule43_sp isteps n c t pos : forallb rstep_ok isteps = true -> closer c ->
  evG (PRef 43) (64 :: render_steps isteps ++ blanks n ++ c :: t) pos
      (POk (c :: t) (pos + 1 + List.length (render_steps isteps) + n) (left43_tokens_sp pos isteps n)).
Proof.
  intros Hs Hc. unfold left43_tokens_sp. eapply ev_conv.
  - eapply ev_ref; [reflexivity|]. eapply ev_seq_ok; [apply ev_cap|apply ev_act|reflexivity].
    eapply ev_ref; [reflexivity|].
    eapply ev_seq_ok; [apply ev_act| |reflexivity].
    eapply ev_seq_ok; [apply (ev_rule3_cur_sp isteps n c t pos Hs Hc)|apply ev_act|reflexivity].
  - cbn [app]. rewrite <- !app_assoc. reflexivity.
Qed.

(* a number literal up to any character that cannot continue it (a blank as well as `)`, `&`, `|`) *)
Lemma ev_tail_star_gen body c t pos : in_ranges c num_tail = false -> forallb (fun x => in_ranges x num_tail) body = true ->
  evG (PStar (PCls false num_tail)) (body ++ c :: t) pos (POk (c :: t) (pos + List.length body) []).
Proof.
  intros Hq. revert pos. induction body as [|x r IH]; intros pos Hb.
  - cbn [app List.length]. eapply ev_conv; [apply ev_star_stop; apply ev_cls_fail; rewrite Bool.xorb_false_l; exact Hq|f_equal; lia].
  - cbn [forallb] in Hb. apply andb_true_iff in Hb. destruct Hb as [H1 H2]. cbn [app].
    pose proof (ev_star_step G (PCls false num_tail) (x :: r ++ c :: t) pos _ (S pos) [] _ _ [] (ev_cls_ok G false num_tail x _ pos (eq_trans (Bool.xorb_false_l _) H1)) ltac:(lia) (IH (S pos) H2)) as E.
    eapply ev_conv; [exact E|]. f_equal. cbn [List.length]. lia.
Qed.
Lemma ev_rule45_lit_gen lit c t pos : in_ranges c num_tail = false -> lit_ok lit = true ->
  evG (PRef 45) (lit ++ c :: t) pos (POk (c :: t) (pos + List.length lit) [TText pos (pos + List.length lit); TAct 40]).
Proof.
  intros Hq H. destruct lit as [|c0 r]; [discriminate|]. cbn [lit_ok] in H. destruct (is_sign c0) eqn:Es.
  - destruct r as [|d body]; [discriminate|]. apply andb_true_iff in H. destruct H as [Hd Hb]. eapply ev_conv.
    + eapply ev_ref; [reflexivity|]. eapply ev_seq_ok; [apply ev_cap| apply ev_act |reflexivity].
      eapply ev_seq_ok; [apply ev_opt_some; apply ev_cls_ok; rewrite Bool.xorb_false_l, sign_ranges; exact Es| |reflexivity].
      eapply ev_seq_ok; [apply ev_cls_ok; rewrite Bool.xorb_false_l; exact Hd|apply (ev_tail_star_gen body c t _ Hq Hb)|reflexivity].
    + cbn [List.length app]. replace (pos + S (S (List.length body)))%nat with (S (S pos) + List.length body)%nat by lia. reflexivity.
  - apply andb_true_iff in H. destruct H as [Hd Hb]. eapply ev_conv.
    + eapply ev_ref; [reflexivity|]. eapply ev_seq_ok; [apply ev_cap| apply ev_act |reflexivity].
      eapply ev_seq_ok; [apply ev_opt_none; apply ev_cls_fail; rewrite Bool.xorb_false_l, sign_ranges; exact Es| |reflexivity].
      eapply ev_seq_ok; [apply ev_cls_ok; rewrite Bool.xorb_false_l; exact Hd|apply (ev_tail_star_gen r c t _ Hq Hb)|reflexivity].
    + cbn [List.length app]. replace (pos + S (List.length r))%nat with (S pos + List.length r)%nat by lia. reflexivity.
Qed.

Definition scmp39_tokens (pos : nat) (isteps : list rstep) (a : nat) (o : cmpop) (b : nat) (lit : list N) : list token :=
  let pr := (pos + 1 + List.length (render_steps isteps) + a + List.length (op_text o) + b)%nat in
  left43_tokens_sp pos isteps a ++ [TText pr (pr + List.length lit); TAct 40; TAct (lit_act o); TAct (op_act o)].

Section SCmpPeg.
  Variable isteps : list rstep.
  Variable lit t : list N.
  Variable c : N.
  Variable a b g1 : nat.
  Hypothesis Hq : qend c.
  Hypothesis Hs : forallb rstep_ok isteps = true.
  Hypothesis Hl : lit_ok lit = true.
  Notation L := (List.length (render_steps isteps)).
  Notation after := (blanks g1 ++ c :: t).
  Notation tail o := (op_text o ++ blanks b ++ lit ++ after).

  Lemma after_head : exists c1 r1, after = c1 :: r1 /\ in_ranges c1 num_tail = false.
  Proof.
    destruct g1 as [|n]; [exists c, t; split; [reflexivity|apply qend_not_tail; exact Hq]|].
    rewrite blanks_S. cbn [app]. eexists _, _. split; reflexivity.
  Qed.
  Lemma sright40 p : evG (PRef 40) (lit ++ after) p (POk after (p + List.length lit) [TText p (p + List.length lit); TAct 40; TAct 35]).
  Proof.
    destruct after_head as (c1 & r1 & E & Hn). rewrite E. eapply ev_conv.
    - eapply ev_ref; [reflexivity|]. apply ev_alt_l. eapply ev_seq_ok; [|apply ev_act|reflexivity].
      eapply ev_ref; [reflexivity|]. apply ev_alt_l. apply (ev_rule45_lit_gen lit c1 r1 p Hn Hl).
    - reflexivity.
  Qed.
  Lemma sright41 p : evG (PRef 41) (lit ++ after) p (POk after (p + List.length lit) [TText p (p + List.length lit); TAct 40; TAct 36]).
  Proof.
    destruct after_head as (c1 & r1 & E & Hn). rewrite E. eapply ev_conv.
    - eapply ev_ref; [reflexivity|]. apply ev_alt_l. eapply ev_seq_ok; [|apply ev_act|reflexivity]. apply (ev_rule45_lit_gen lit c1 r1 p Hn Hl).
    - reflexivity.
  Qed.

  Lemma sleft40 o pos : evG (PRef 40) (64 :: render_steps isteps ++ blanks a ++ tail o) pos (POk (tail o) (pos + 1 + L + a) (left43_tokens_sp pos isteps a)).
  Proof.
    destruct (closer_op o (blanks b ++ lit ++ after)) as (c1 & r' & E & Hc). rewrite E.
    eapply ev_ref; [reflexivity|]. apply ev_alt_r; [apply ev_seq_fail; apply ev_rule42_at|]. apply (ev_rule43_sp isteps a c1 r' pos Hs Hc).
  Qed.
  Lemma sleft41 o pos : evG (PRef 41) (64 :: render_steps isteps ++ blanks a ++ tail o) pos (POk (tail o) (pos + 1 + L + a) (left43_tokens_sp pos isteps a)).
  Proof.
    destruct (closer_op o (blanks b ++ lit ++ after)) as (c1 & r' & E & Hc). rewrite E.
    eapply ev_ref; [reflexivity|]. apply ev_alt_r; [apply ev_seq_fail; apply ev_rule45_at|]. apply (ev_rule43_sp isteps a c1 r' pos Hs Hc).
  Qed.
  Lemma sspace_lit p : evG (PRef 58) (blanks b ++ lit ++ after) p (POk (lit ++ after) (p + b) []).
  Proof. destruct (lit_head lit Hl) as (c1 & r & E & H32 & _). apply ev_space_blanks. rewrite E. cbn [app]. exact H32. Qed.
  Lemma sspace_op o p : evG (PRef 58) (tail o) p (POk (tail o) p []).
  Proof. destruct o; cbn [op_text app]; apply ev_space_stop; discriminate. Qed.

  (* a one-character operator is not the two-character one: a blank or the literal follows, neither is `=` *)
  Lemma sstrip_two_no x p : strip_prefix [x; 61] (x :: blanks b ++ lit ++ p) = None.
  Proof.
    destruct b as [|b']; [cbn [blanks repeat app]; destruct (lit_head lit Hl) as (c1 & r & E & _ & H61 & _); rewrite E; cbn [app strip_prefix]; rewrite N.eqb_refl;
                          assert (E2 : (61 =? c1) = false) by (apply N.eqb_neq; intros H; apply H61; symmetry; exact H); rewrite E2; reflexivity|].
    rewrite blanks_S. cbn [app strip_prefix]. rewrite N.eqb_refl. reflexivity.
  Qed.

  Lemma sop_then_right (ref : nat) (a35 : nat) o p k :
    (forall q, evG (PRef ref) (lit ++ after) q (POk after (q + List.length lit) [TText q (q + List.length lit); TAct 40; TAct a35])) ->
    evG (PSeq (PLit (op_text o)) (PSeq (PRef 58) (PSeq (PRef ref) (PAct k)))) (tail o) p
        (POk after (p + List.length (op_text o) + b + List.length lit)
             [TText (p + List.length (op_text o) + b) (p + List.length (op_text o) + b + List.length lit); TAct 40; TAct a35; TAct k]).
  Proof.
    intros Hr. eapply ev_conv.
    - eapply ev_seq_ok; [apply (ev_lit_ok G (op_text o)); destruct o; cbn [op_text app strip_prefix]; rewrite ?N.eqb_refl; reflexivity| |reflexivity].
      eapply ev_seq_ok; [apply sspace_lit| |reflexivity].
      eapply ev_seq_ok; [apply Hr|apply ev_act|reflexivity].
    - cbn [app]. reflexivity.
  Qed.

  Theorem ev_rule39_scmp o pos :
    evG (PRef 39) (64 :: render_steps isteps ++ blanks a ++ tail o) pos
        (POk after (pos + 1 + L + a + List.length (op_text o) + b + List.length lit) (scmp39_tokens pos isteps a o b lit)).
  Proof.
    unfold scmp39_tokens. cbv zeta.
    assert (A1fail : forall o', (o' = OLt \/ o' = OLe \/ o' = OGt \/ o' = OGe) ->
              evG (PSeq (PRef 40) (PSeq (PRef 58) (PAlt (PSeq (PLit [61; 61]) (PSeq (PRef 58) (PSeq (PRef 40) (PAct 28))))
                                                       (PSeq (PLit [33; 61]) (PSeq (PRef 58) (PSeq (PRef 40) (PAct 29)))))))
                  (64 :: render_steps isteps ++ blanks a ++ tail o') pos PFail).
    { intros o' Ho. eapply ev_seq_fail2; [apply sleft40|]. eapply ev_seq_fail2; [apply sspace_op|].
      destruct Ho as [E|[E|[E|E]]]; subst o'; cbn [op_text app]; apply ev_alt_r; apply ev_seq_fail; apply (ev_lit_fail G); reflexivity. }
    eapply ev_ref; [reflexivity|]. destruct o.
    - (* == *) apply ev_alt_l. eapply ev_conv.
      + eapply ev_seq_ok; [apply sleft40| |reflexivity]. eapply ev_seq_ok; [apply sspace_op| |reflexivity].
        apply ev_alt_l. apply (sop_then_right 40 35 OEq _ 28 sright40).
      + cbn [op_text List.length app lit_act op_act]. f_equal; lia.
    - (* != *) apply ev_alt_l. eapply ev_conv.
      + eapply ev_seq_ok; [apply sleft40| |reflexivity]. eapply ev_seq_ok; [apply sspace_op| |reflexivity].
        apply ev_alt_r; [apply ev_seq_fail; apply (ev_lit_fail G [61; 61]); reflexivity|]. apply (sop_then_right 40 35 ONe _ 29 sright40).
      + cbn [op_text List.length app lit_act op_act]. f_equal; lia.
    - (* < *) apply ev_alt_r; [apply (A1fail OLt); auto|]. apply ev_alt_l. eapply ev_conv.
      + eapply ev_seq_ok; [apply sleft41| |reflexivity]. eapply ev_seq_ok; [apply sspace_op| |reflexivity].
        apply ev_alt_r; [apply ev_seq_fail; apply (ev_lit_fail G [60; 61]); apply (sstrip_two_no 60)|].
        apply ev_alt_l. apply (sop_then_right 41 36 OLt _ 31 sright41).
      + cbn [op_text List.length app lit_act op_act]. f_equal; lia.
    - (* <= *) apply ev_alt_r; [apply (A1fail OLe); auto|]. apply ev_alt_l. eapply ev_conv.
      + eapply ev_seq_ok; [apply sleft41| |reflexivity]. eapply ev_seq_ok; [apply sspace_op| |reflexivity].
        apply ev_alt_l. apply (sop_then_right 41 36 OLe _ 30 sright41).
      + cbn [op_text List.length app lit_act op_act]. f_equal; lia.
    - (* > *) apply ev_alt_r; [apply (A1fail OGt); auto|]. apply ev_alt_l. eapply ev_conv.
      + eapply ev_seq_ok; [apply sleft41| |reflexivity]. eapply ev_seq_ok; [apply sspace_op| |reflexivity].
        apply ev_alt_r; [apply ev_seq_fail; apply (ev_lit_fail G [60; 61]); reflexivity|].
        apply ev_alt_r; [apply ev_seq_fail; apply (ev_lit_fail G [60]); reflexivity|].
        apply ev_alt_r; [apply ev_seq_fail; apply (ev_lit_fail G [62; 61]); apply (sstrip_two_no 62)|].
        apply (sop_then_right 41 36 OGt _ 33 sright41).
      + cbn [op_text List.length app lit_act op_act]. f_equal; lia.
    - (* >= *) apply ev_alt_r; [apply (A1fail OGe); auto|]. apply ev_alt_l. eapply ev_conv.
      + eapply ev_seq_ok; [apply sleft41| |reflexivity]. eapply ev_seq_ok; [apply sspace_op| |reflexivity].
        apply ev_alt_r; [apply ev_seq_fail; apply (ev_lit_fail G [60; 61]); reflexivity|].
        apply ev_alt_r; [apply ev_seq_fail; apply (ev_lit_fail G [60]); reflexivity|].
        apply ev_alt_l. apply (sop_then_right 41 36 OGe _ 32 sright41).
      + cbn [op_text List.length app lit_act op_act]. f_equal; lia.
  Qed.
End SCmpPeg.

Lemma blanks_len n : List.length (blanks n) = n.
Proof. unfold blanks. apply repeat_length. Qed.
Lemma scmp_inner_len i a o b lit : List.length (scmp_inner i a o b lit) = (1 + List.length (render_steps i) + a + List.length (op_text o) + b + List.length lit)%nat.
Proof. unfold scmp_inner. cbn [List.length]. rewrite !app_length, !blanks_len. lia. Qed.
Lemma scmp_text_len i g0 a o b g1 lit : List.length (scmp_text i g0 a o b g1 lit) = (6 + g0 + List.length (render_steps i) + a + List.length (op_text o) + b + List.length lit + g1)%nat.
Proof. unfold scmp_text. rewrite !app_length, scmp_inner_len, !blanks_len. cbn [List.length]. lia. Qed.

(* from a basicQuery to the bracket, with g0 blanks after `?(` and g1 before `)` *)
Lemma ev_rule33_of35_sp X g1 r pos p' toks : evG (PRef 35) (X ++ blanks g1 ++ 41 :: r) pos (POk (blanks g1 ++ 41 :: r) p' toks) ->
  evG (PRef 33) (X ++ blanks g1 ++ 41 :: r) pos (POk (blanks g1 ++ 41 :: r) p' toks).
Proof.
  intros E. eapply ev_conv.
  - eapply ev_ref; [reflexivity|].
    eapply ev_seq_ok; [| |reflexivity].
    + eapply ev_ref; [reflexivity|].
      eapply ev_seq_ok; [exact E| |reflexivity].
      apply ev_star_stop. apply ev_seq_fail. eapply ev_ref; [reflexivity|].
      eapply ev_seq_fail2; [apply (ev_space_blanks g1 (41 :: r)); discriminate|]. apply ev_seq_fail. apply (ev_lit_fail G [38; 38]). reflexivity.
    + apply ev_star_stop. apply ev_seq_fail. eapply ev_ref; [reflexivity|].
      eapply ev_seq_fail2; [apply (ev_space_blanks g1 (41 :: r)); discriminate|]. apply ev_seq_fail. apply (ev_lit_fail G [124; 124]). reflexivity.
  - rewrite !app_nil_r. reflexivity.
Qed.

Lemma ev_rule7_of35_sp g0 X g1 r pos toks : (forall x0 r0, X = x0 :: r0 -> x0 <> 32) -> X <> [] ->
  evG (PRef 35) (X ++ blanks g1 ++ 41 :: 93 :: r) (pos + 3 + g0) (POk (blanks g1 ++ 41 :: 93 :: r) (pos + 3 + g0 + List.length X) toks) ->
  evG (PRef 7) ([91; 63; 40] ++ blanks g0 ++ X ++ blanks g1 ++ [41; 93] ++ r) pos
      (POk r (pos + 5 + g0 + List.length X + g1) (toks ++ [TAct 23; TText pos (pos + 5 + g0 + List.length X + g1); TAct 7])).
Proof.
  intros Hx Hne E. destruct X as [|x0 X']; [contradiction Hne; reflexivity|]. pose proof (Hx x0 X' eq_refl) as E0.
  eapply ev_ref; [reflexivity|].
  apply ev_alt_r; [apply ev_seq_fail; apply (ev_lit_fail G [46; 46]); reflexivity|].
  apply ev_alt_r; [apply ev_seq_fail; apply ev_cap_fail; apply ev_seq_fail; apply (ev_lit_fail G [46]); reflexivity|].
  cbn [app]. eapply ev_conv.
  - eapply ev_ref; [reflexivity|].
    eapply ev_seq_ok; [apply ev_cap|apply ev_act|reflexivity].
    eapply ev_seq_ok; [| |reflexivity].
    + eapply ev_ref; [reflexivity|]. eapply ev_seq_ok; [apply (ev_lit_ok G [91]); apply strip1_ok|apply ev_space_stop; discriminate|reflexivity].
    + eapply ev_seq_ok; [| |reflexivity].
      * apply ev_alt_r; [apply ev_rule15_q|].
        eapply ev_ref; [reflexivity|].
        apply ev_alt_r; [apply ev_rule23_q|].
        apply ev_alt_r; [eapply ev_ref; [reflexivity|]; apply ev_seq_fail; eapply ev_ref; [reflexivity|]; apply ev_seq_fail; apply (ev_lit_fail G [40]); reflexivity|].
        eapply ev_ref; [reflexivity|].
        eapply ev_seq_ok; [| |reflexivity].
        -- eapply ev_ref; [reflexivity|]. eapply ev_seq_ok; [apply (ev_lit_ok G [63; 40]); reflexivity|apply (ev_space_blanks g0 ((x0 :: X') ++ blanks g1 ++ [41; 93] ++ r)); exact E0|reflexivity].
        -- eapply ev_seq_ok; [| |reflexivity].
           ++ pose proof (ev_rule33_of35_sp (x0 :: X') g1 (93 :: r) (pos + 3 + g0) _ _ E) as E33.
              assert (E33' : evG (PRef 33) ((x0 :: X') ++ blanks g1 ++ [41; 93] ++ r) (pos + List.length [91] + List.length [63; 40] + g0)%nat
                                 (POk (blanks g1 ++ 41 :: 93 :: r) (pos + 3 + g0 + List.length (x0 :: X')) toks))
                by (replace (pos + List.length [91] + List.length [63; 40] + g0)%nat with (pos + 3 + g0)%nat by (cbn [List.length]; lia); exact E33).
              exact E33'.
           ++ eapply ev_seq_ok; [|apply ev_act|reflexivity].
              eapply ev_ref; [reflexivity|]. eapply ev_seq_ok; [apply (ev_space_blanks g1 (41 :: 93 :: r)); discriminate|apply (ev_lit_ok G [41]); apply strip1_ok|reflexivity].
      * eapply ev_ref; [reflexivity|]. eapply ev_seq_ok; [apply ev_space_stop; discriminate|apply (ev_lit_ok G [93]); apply strip1_ok|reflexivity].
  - cbn [List.length app Nat.add]. f_equal; try lia.
    replace (pos + 3 + g0 + S (List.length X') + g1 + 1 + 1)%nat with (pos + 5 + g0 + S (List.length X') + g1)%nat by lia.
    repeat (progress (cbn [app]) || rewrite <- app_assoc || rewrite app_nil_r). reflexivity.
Qed.

Definition scmp_tokens (p : nat) (i : list rstep) (g0 a : nat) (o : cmpop) (b g1 : nat) (lit : list N) : list token :=
  let n := (1 + List.length (render_steps i) + a + List.length (op_text o) + b + List.length lit)%nat in
  scmp39_tokens (p + 3 + g0) i a o b lit ++ [TText (p + 3 + g0) (p + 3 + g0 + n); TAct 26; TAct 23; TText p (p + 5 + g0 + n + g1); TAct 7].

Lemma ev_rule7_scmp i g0 a o b g1 lit r pos : forallb rstep_ok i = true -> lit_ok lit = true ->
  evG (PRef 7) (scmp_text i g0 a o b g1 lit ++ r) pos (POk r (pos + List.length (scmp_text i g0 a o b g1 lit)) (scmp_tokens pos i g0 a o b g1 lit)).
Proof.
  intros Hs Hl. unfold scmp_tokens. cbv zeta.
  set (X := scmp_inner i a o b lit).
  pose proof (scmp_inner_len i a o b lit) as HX. fold X in HX.
  assert (E35 : evG (PRef 35) (X ++ blanks g1 ++ 41 :: 93 :: r) (pos + 3 + g0) (POk (blanks g1 ++ 41 :: 93 :: r) (pos + 3 + g0 + List.length X)
                    (scmp39_tokens (pos + 3 + g0) i a o b lit ++ [TText (pos + 3 + g0) (pos + 3 + g0 + List.length X); TAct 26]))).
  { unfold X, scmp_inner.
    replace ((64 :: render_steps i ++ blanks a ++ op_text o ++ blanks b ++ lit) ++ blanks g1 ++ 41 :: 93 :: r)
      with (64 :: render_steps i ++ blanks a ++ op_text o ++ blanks b ++ lit ++ blanks g1 ++ 41 :: 93 :: r)
      by (cbn [app]; rewrite <- !app_assoc; reflexivity).
    eapply ev_conv.
    - eapply ev_ref; [reflexivity|].
      apply ev_alt_r; [apply ev_seq_fail; eapply ev_ref; [reflexivity|]; apply ev_seq_fail; apply (ev_lit_fail G [40]); reflexivity|].
      apply ev_alt_l. eapply ev_seq_ok; [apply ev_cap; apply (ev_rule39_scmp i lit (93 :: r) 41 a b g1 (or_introl eq_refl) Hs Hl o (pos + 3 + g0))|apply ev_act|reflexivity].
    - fold (scmp_inner i a o b lit). fold X. rewrite HX.
      replace (pos + 3 + g0 + 1 + List.length (render_steps i) + a + List.length (op_text o) + b + List.length lit)%nat
        with (pos + 3 + g0 + (1 + List.length (render_steps i) + a + List.length (op_text o) + b + List.length lit))%nat by lia.
      rewrite <- !app_assoc. reflexivity. }
  replace (scmp_text i g0 a o b g1 lit ++ r) with ([91; 63; 40] ++ blanks g0 ++ X ++ blanks g1 ++ [41; 93] ++ r)
    by (unfold scmp_text; fold X; rewrite <- !app_assoc; reflexivity).
  eapply ev_conv; [apply (ev_rule7_of35_sp g0 X g1 r pos _ ltac:(unfold X, scmp_inner; intros x0 r0 E; inversion E; discriminate) ltac:(unfold X, scmp_inner; discriminate) E35)|].
  rewrite scmp_text_len, HX.
  replace (pos + (6 + g0 + List.length (render_steps i) + a + List.length (op_text o) + b + List.length lit + g1))%nat
    with (pos + 5 + g0 + (1 + List.length (render_steps i) + a + List.length (op_text o) + b + List.length lit) + g1)%nat by lia.
  rewrite <- !app_assoc. reflexivity.
Qed.

(* ---------- the token replay ---------- *)
Section SCmpExec.
  Variable cfg : config.
  Variable parse_float : string -> option num.
  Variable regex_ok : string -> bool.
  Notation execute := (execute cfg parse_float regex_ok).
  Notation exec_action := (exec_action cfg parse_float regex_ok).

  Definition scmp_basic (i : list rstep) (g0 a : nat) (o : cmpop) (b g1 : nat) (lit : list N) : basic :=
    mk_basic (text_of (scmp_text i g0 a o b g1 lit)) true (cfg_accessor cfg).
  Definition scmp_node (i : list rstep) (g0 a : nat) (o : cmpop) (b g1 : nat) (lit : list N) (f : num) : node :=
    Node (cmp_kind cfg i o f) (scmp_basic i g0 a o b g1 lit) ONone.

  Lemma exec_scmp input p i g0 a o b0 g1 lit f rest ps toks cps b : forallb rstep_ok i = true -> steps_vg i = false ->
    parse_float (text_of lit) = Some f ->
    skipn p input = scmp_text i g0 a o b0 g1 lit ++ rest ->
    exists cps' b', execute (scmp_tokens p i g0 a o b0 g1 lit ++ toks) input cps b (mk ps) =
                    execute toks input cps' b' (mk (ps ++ [INode (scmp_node i g0 a o b0 g1 lit f)])).
  Proof.
    intros Hs Hvg Hpf Hin. unfold scmp_tokens, scmp39_tokens, left43_tokens_sp. cbv zeta.
    set (L := List.length (render_steps i)). set (K := List.length (op_text o)). set (M := List.length lit).
    assert (Hin' : skipn p input = ([91; 63; 40] ++ blanks g0) ++ (64 :: render_steps i) ++ blanks a ++ op_text o ++ blanks b0 ++ lit ++ blanks g1 ++ [41; 93] ++ rest).
    { rewrite Hin. unfold scmp_text, scmp_inner. repeat (progress (cbn [app]) || rewrite <- app_assoc). reflexivity. }
    assert (Hsk3 : skipn (p + 3 + g0) input = 64 :: render_steps i ++ blanks a ++ op_text o ++ blanks b0 ++ lit ++ blanks g1 ++ [41; 93] ++ rest).
    { pose proof (skipn_next input p ([91; 63; 40] ++ blanks g0) _ Hin') as H. rewrite app_length, blanks_len in H. cbn [List.length] in H.
      replace (p + (3 + g0))%nat with (p + 3 + g0)%nat in H by lia. exact H. }
    set (sv0 := match ps with [] => [] | _ :: _ => [ps] end).
    rewrite <- !app_assoc. cbn [app Actions.execute].
    assert (E38 : exec_action 38 cps b (mk ps) = AOk (with_saved sv0 (mk []))) by (destruct ps; reflexivity).
    rewrite E38. cbn [abind].
    rewrite (execute_under cfg parse_float regex_ok sv0 (inner_tokens (p + 3 + g0) i) input cps b (mk []) _ ltac:(unfold inner_tokens; rewrite !frame_free_app, frame_free_steps; reflexivity)
               (exec_inner cfg parse_float regex_ok input (p + 3 + g0) i _ cps b Hs Hsk3)).
    cbn [Actions.execute].
    assert (E39 : forall c0 b1, exec_action 39 c0 b1 (with_saved sv0 (mk [INode (inner_root cfg i)])) =
                               AOk (mk (ps ++ [IPQ (filter_pq cfg i); IBool false]))).
    { intros c0 b1. cbn [Actions.exec_action].
      assert (El : load_params (with_saved sv0 (mk [INode (inner_root cfg i)])) = mk (ps ++ [INode (inner_root cfg i)])) by (destruct ps; reflexivity).
      rewrite El. unfold pop_node. rewrite pop_mk. cbn [abind]. rewrite inner_root_kind.
      unfold push, mk, with_params. cbn [params saved proot]. rewrite <- app_assoc. reflexivity. }
    rewrite E39. cbn [abind].
    assert (E37 : forall c0 b1, exec_action 37 c0 b1 (mk (ps ++ [IPQ (filter_pq cfg i); IBool false])) = AOk (mk (ps ++ [ICParam (cmp_left cfg i)]))).
    { intros c0 b1. cbn [Actions.exec_action].
      change (ps ++ [IPQ (filter_pq cfg i); IBool false]) with (ps ++ [IPQ (filter_pq cfg i)] ++ [IBool false]). rewrite app_assoc, pop_mk. cbn [abind].
      rewrite pop_mk. cbn [abind]. unfold cmp_left, filter_pq. rewrite (operand_vg cfg), Hvg. reflexivity. }
    rewrite E37. cbn [abind].
    assert (Elit : sub_list input (p + 3 + g0 + 1 + L + a + K + b0) (p + 3 + g0 + 1 + L + a + K + b0 + M) = lit).
    { pose proof (sub_at input p (3 + g0 + 1 + L + a + K + b0) (([91; 63; 40] ++ blanks g0) ++ (64 :: render_steps i) ++ blanks a ++ op_text o ++ blanks b0) lit (blanks g1 ++ [41; 93] ++ rest)) as H.
      replace (p + (3 + g0 + 1 + L + a + K + b0))%nat with (p + 3 + g0 + 1 + L + a + K + b0)%nat in H by lia. apply H.
      - rewrite Hin'. rewrite <- !app_assoc. reflexivity.
      - unfold L, K. repeat (first [rewrite app_length | rewrite blanks_len | progress cbn [List.length]]). lia. }
    fold L K M. rewrite Elit.
    assert (E40 : forall b1 st, exec_action 40 lit b1 st = AOk (push (INum f) st)) by (intros b1 st; cbn [Actions.exec_action]; rewrite Hpf; reflexivity).
    rewrite E40. cbn [abind].
    change (push (INum f) (mk (ps ++ [ICParam (cmp_left cfg i)]))) with (mk ((ps ++ [ICParam (cmp_left cfg i)]) ++ [INum f])).
    assert (Elt : forall c0 b1, exec_action (lit_act o) c0 b1 (mk ((ps ++ [ICParam (cmp_left cfg i)]) ++ [INum f])) =
                               AOk (mk ((ps ++ [ICParam (cmp_left cfg i)]) ++ [ICParam (cmp_right f)]))).
    { intros c0 b1. destruct o; cbn [lit_act Actions.exec_action]; rewrite pop_mk; reflexivity. }
    rewrite Elt. cbn [abind].
    assert (Eop : forall c0 b1, exec_action (op_act o) c0 b1 (mk ((ps ++ [ICParam (cmp_left cfg i)]) ++ [ICParam (cmp_right f)])) =
                               AOk (mk (ps ++ [IQuery (cmp_query cfg i o f)]))).
    { intros c0 b1. destruct o; cbn [op_act Actions.exec_action]; unfold two_operands, pop_cparam; rewrite pop_mk; cbn [abind]; rewrite pop_mk; cbn [abind]; try reflexivity.
      unfold pop_query. change (push_compare_eq (cmp_left cfg i) (cmp_right f) (mk ps)) with (mk (ps ++ [IQuery (QCmp (cmp_left cfg i) (cmp_right f) (CDirectEq VdNumeric))])).
      rewrite pop_mk. reflexivity. }
    rewrite Eop. cbn [abind].
    assert (E26 : forall c0 b1, exec_action 26 c0 b1 (mk (ps ++ [IQuery (cmp_query cfg i o f)])) = AOk (mk (ps ++ [IQuery (cmp_query cfg i o f)]))).
    { intros c0 b1. cbn [Actions.exec_action]. rewrite pop_mk. cbn [abind]. destruct o; reflexivity. }
    rewrite E26. cbn [abind].
    assert (E23 : forall c0 b1, exec_action 23 c0 b1 (mk (ps ++ [IQuery (cmp_query cfg i o f)])) =
                               AOk (mk (ps ++ [INode (Node (cmp_kind cfg i o f) (mk_basic "" true (cfg_accessor cfg)) ONone)]))).
    { intros c0 b1. cbn [Actions.exec_action]. unfold pop_query. rewrite pop_mk. reflexivity. }
    rewrite E23. cbn [abind].
    assert (Et : sub_list input p (p + 5 + g0 + (1 + L + a + K + b0 + M) + g1) = scmp_text i g0 a o b0 g1 lit).
    { pose proof (sub_at input p 0 [] (scmp_text i g0 a o b0 g1 lit) rest) as H. rewrite Nat.add_0_r in H.
      replace (p + 5 + g0 + (1 + L + a + K + b0 + M) + g1)%nat with (p + List.length (scmp_text i g0 a o b0 g1 lit))%nat by (rewrite scmp_text_len; unfold L, K, M; lia).
      apply H; [exact Hin|reflexivity]. }
    rewrite Et.
    assert (E7 : forall b1, exec_action 7 (scmp_text i g0 a o b0 g1 lit) b1 (mk (ps ++ [INode (Node (cmp_kind cfg i o f) (mk_basic "" true (cfg_accessor cfg)) ONone)])) =
                            AOk (mk (ps ++ [INode (scmp_node i g0 a o b0 g1 lit f)]))).
    { intros b1. cbn [Actions.exec_action]. unfold set_last_node_text, pop_node. rewrite pop_mk. reflexivity. }
    rewrite E7. cbn [abind]. eexists _, _. reflexivity.
  Qed.
End SCmpExec.
