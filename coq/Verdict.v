(* Verdict.v — the verdict-list protocol of the filter code (syntax_query_logical_*.go,
   syntax_node_qualifier_filter.go): what a list means (den), the well-formedness that keeps
   the two readings apart (vl_ok), and the set algebra of the merge functions of Eval.v. *)
From JP Require Import Eval.
From Coq Require Import Lia.
Open Scope nat_scope.
Arguments Nat.ltb : simpl never.
Arguments Nat.eqb : simpl never.
Arguments Nat.leb : simpl never.

(* the package-level lists hold their initial contents *)
Definition good (st : estate) : Prop := g_empty st = [None] /\ g_full st = [Some (VBool true)].

(* lists produced by the query code have one entry per member, or exactly one (whole match) *)
Definition vl_ok (n : nat) (l : list entry) : Prop := List.length l = n \/ List.length l = 1.

(* what the filter node (filter_loop) reads off a verdict list over n members: is member i selected? *)
Definition den (n : nat) (l : list entry) (i : nat) : bool :=
  (i <? n) &&
  (if Nat.eqb (List.length l) n then negb (isE (nth i l None)) else negb (isE (hd_entry l))).

Definition nonE (x : entry) : bool := negb (isE x).

Lemma has_value_existsb l : has_value l = existsb nonE l.
Proof. reflexivity. Qed.

Lemma existsb_false_nth (l : list entry) :
  existsb nonE l = false -> forall i, isE (nth i l None) = true.
Proof.
  induction l as [|a l IH]; intros H i; cbn [existsb] in H.
  - destruct i; reflexivity.
  - apply orb_false_iff in H as [Ha Hl]. destruct i; cbn [nth].
    + unfold nonE in Ha. destruct (isE a); [reflexivity|discriminate].
    + apply IH. exact Hl.
Qed.

(* ---------- and_merge ---------- *)
Definition and_pair (x y : entry) : entry := if isE y then None else x.

Lemma and_merge_spec : forall l r k, List.length l = List.length r ->
  let '(m, ws, hv) := and_merge l r k in
  m = map (fun p => and_pair (fst p) (snd p)) (combine l r) /\ hv = existsb nonE m.
Proof.
  induction l as [|x l IH]; intros [|y r] k Hl; cbn [List.length] in Hl; try discriminate.
  - cbn. split; reflexivity.
  - cbn [and_merge]. specialize (IH r (S k) ltac:(lia)).
    destruct (and_merge l r (S k)) as [[m ws] hv]. destruct IH as [Hm Hh].
    cbn [combine map fst snd]. unfold and_pair at 1.
    destruct (isE y) eqn:Ey.
    + split; [rewrite Hm; reflexivity|]. cbn [existsb]. unfold nonE at 1. cbn. exact Hh.
    + split; [rewrite Hm; reflexivity|]. cbn [existsb]. unfold nonE at 1. rewrite Hh. apply orb_comm.
Qed.

Lemma nth_map_combine (f : entry -> entry -> entry) : forall (l r : list entry) i,
  List.length l = List.length r -> i < List.length l ->
  nth i (map (fun p => f (fst p) (snd p)) (combine l r)) None = f (nth i l None) (nth i r None).
Proof.
  induction l as [|a l IH]; intros [|b r] i Hl Hi; cbn [List.length] in *; try lia.
  destruct i; cbn [combine map nth fst snd]; [reflexivity|]. apply IH; lia.
Qed.

Lemma length_map_combine (f : entry -> entry -> entry) (l r : list entry) :
  List.length l = List.length r ->
  List.length (map (fun p => f (fst p) (snd p)) (combine l r)) = List.length l.
Proof. intros H. rewrite map_length, combine_length. lia. Qed.

(* ---------- or_merge ---------- *)
Definition or_pair (x y : entry) : entry := if isE y then x else y.

Lemma or_merge_spec : forall l r k, List.length l = List.length r ->
  fst (or_merge l r k) = map (fun p => or_pair (fst p) (snd p)) (combine l r).
Proof.
  induction l as [|x l IH]; intros [|y r] k Hl; cbn [List.length] in Hl; try discriminate.
  - reflexivity.
  - cbn [or_merge]. specialize (IH r (S k) ltac:(lia)).
    destruct (or_merge l r (S k)) as [m ws]. cbn [fst] in IH.
    cbn [combine map fst snd]. unfold or_pair at 1.
    destruct (isE y); cbn [fst]; rewrite IH; reflexivity.
Qed.

(* ---------- not_flip ---------- *)
Definition not_entry (x : entry) : entry := if isE x then Some (VBool true) else None.

Lemma not_flip_spec : forall l k,
  let '(m, ws, hv) := not_flip l k in m = map not_entry l /\ hv = existsb nonE m.
Proof.
  induction l as [|x l IH]; intros k.
  - cbn. split; reflexivity.
  - cbn [not_flip]. specialize (IH (S k)). destruct (not_flip l (S k)) as [[m ws] hv].
    destruct IH as [Hm Hh]. cbn [map]. unfold not_entry at 1.
    destruct (isE x).
    + split; [rewrite Hm; reflexivity|]. reflexivity.
    + split; [rewrite Hm; reflexivity|]. cbn [existsb]. exact Hh.
Qed.

(* ---------- the three logical operators on operand lists (the branches of Eval.compute) ---------- *)
Definition and_lists (l r : list entry) : list entry :=
  if len1 l then (if isE (hd_entry l) then l else r)
  else if len1 r then (if isE (hd_entry r) then r else l)
  else let m := map (fun p => and_pair (fst p) (snd p)) (combine l r) in
       if existsb nonE m then m else [None].

Definition or_lists (l r : list entry) : list entry :=
  if len1 l then (if isE (hd_entry l) then r else l)
  else if len1 r then (if isE (hd_entry r) then l else r)
  else map (fun p => or_pair (fst p) (snd p)) (combine l r).

Definition not_list (l : list entry) : list entry :=
  if len1 l then (if isE (hd_entry l) then [Some (VBool true)] else [None])
  else let m := map not_entry l in if existsb nonE m then m else [None].

Lemma len1_cases (l : list entry) :
  (len1 l = true /\ exists x, l = [x]) \/ (len1 l = false /\ List.length l <> 1).
Proof.
  unfold len1. destruct l as [|x [|y l]]; cbn; [right|left|right]; try (split; [reflexivity|lia]).
  split; [reflexivity|]. exists x. reflexivity.
Qed.

Lemma den_single n x i : den n [x] i = (i <? n) && negb (isE x).
Proof.
  unfold den. destruct (i <? n) eqn:Hi; [|reflexivity]. cbn [andb List.length hd_entry].
  destruct (Nat.eqb 1 n) eqn:En; [|reflexivity].
  apply Nat.eqb_eq in En. subst n. apply Nat.ltb_lt in Hi. assert (i = 0) by lia. subst i. reflexivity.
Qed.

Lemma den_each n l i : List.length l = n -> den n l i = (i <? n) && negb (isE (nth i l None)).
Proof. intros H. unfold den. rewrite H, Nat.eqb_refl. reflexivity. Qed.

Theorem den_and n l r i : vl_ok n l -> vl_ok n r ->
  den n (and_lists l r) i = den n l i && den n r i.
Proof.
  intros Hl Hr. unfold and_lists.
  destruct (len1_cases l) as [[E1 [x Hx]]|[E1 N1]]; rewrite E1.
  - subst l. cbn [hd_entry]. rewrite (den_single n x i).
    destruct (isE x) eqn:Ex.
    + rewrite den_single, Ex. cbn. rewrite andb_false_r. reflexivity.
    + cbn. rewrite andb_true_r. unfold den. destruct (i <? n); reflexivity.
  - assert (Ln : List.length l = n) by (destruct Hl; [assumption|contradiction]).
    destruct (len1_cases r) as [[E2 [y Hy]]|[E2 N2]]; rewrite E2.
    + subst r. cbn [hd_entry]. rewrite (den_single n y i).
      destruct (isE y) eqn:Ey.
      * rewrite den_single, Ey. cbn. rewrite !andb_false_r. reflexivity.
      * cbn. rewrite andb_true_r. destruct (den n l i) eqn:D; [|reflexivity].
        unfold den in D. destruct (i <? n); [reflexivity|discriminate].
    + assert (Rn : List.length r = n) by (destruct Hr; [assumption|contradiction]).
      set (m := map (fun p => and_pair (fst p) (snd p)) (combine l r)).
      assert (Lm : List.length m = n) by (unfold m; rewrite length_map_combine; lia).
      rewrite (den_each n l i Ln), (den_each n r i Rn).
      destruct (i <? n) eqn:Hi; cbn [andb].
      2:{ destruct (existsb nonE m); unfold den; rewrite Hi; reflexivity. }
      apply Nat.ltb_lt in Hi.
      assert (Hn : nth i m None = and_pair (nth i l None) (nth i r None))
        by (unfold m; apply nth_map_combine; lia).
      destruct (existsb nonE m) eqn:Hex.
      * rewrite (den_each n m i Lm), Hn. apply Nat.ltb_lt in Hi. rewrite Hi. cbn [andb].
        unfold and_pair. destruct (isE (nth i r None)); cbn; [rewrite andb_false_r|rewrite andb_true_r]; reflexivity.
      * rewrite den_single. cbn. rewrite andb_false_r.
        pose proof (existsb_false_nth m Hex i) as Hz. rewrite Hn in Hz. unfold and_pair in Hz.
        destruct (isE (nth i r None)); cbn; [rewrite andb_false_r; reflexivity|].
        rewrite Hz. reflexivity.
Qed.

Theorem den_or n l r i : vl_ok n l -> vl_ok n r ->
  den n (or_lists l r) i = den n l i || den n r i.
Proof.
  intros Hl Hr. unfold or_lists.
  destruct (len1_cases l) as [[E1 [x Hx]]|[E1 N1]]; rewrite E1.
  - subst l. cbn [hd_entry]. rewrite (den_single n x i).
    destruct (isE x) eqn:Ex.
    + cbn. rewrite andb_false_r. reflexivity.
    + rewrite den_single, Ex. cbn. rewrite andb_true_r.
      destruct (i <? n) eqn:Hi; [reflexivity|]. unfold den. rewrite Hi. reflexivity.
  - assert (Ln : List.length l = n) by (destruct Hl; [assumption|contradiction]).
    destruct (len1_cases r) as [[E2 [y Hy]]|[E2 N2]]; rewrite E2.
    + subst r. cbn [hd_entry]. rewrite (den_single n y i).
      destruct (isE y) eqn:Ey.
      * cbn. rewrite andb_false_r, orb_false_r. reflexivity.
      * rewrite den_single, Ey. cbn. rewrite andb_true_r.
        destruct (i <? n) eqn:Hi; [rewrite orb_true_r; reflexivity|].
        unfold den. rewrite Hi. reflexivity.
    + assert (Rn : List.length r = n) by (destruct Hr; [assumption|contradiction]).
      set (m := map (fun p => or_pair (fst p) (snd p)) (combine l r)).
      assert (Lm : List.length m = n) by (unfold m; rewrite length_map_combine; lia).
      rewrite (den_each n l i Ln), (den_each n r i Rn), (den_each n m i Lm).
      destruct (i <? n) eqn:Hi; cbn [andb]; [|reflexivity].
      apply Nat.ltb_lt in Hi.
      assert (Hn : nth i m None = or_pair (nth i l None) (nth i r None))
        by (unfold m; apply nth_map_combine; lia).
      rewrite Hn. unfold or_pair.
      destruct (isE (nth i r None)) eqn:Er; cbn; [rewrite orb_false_r; reflexivity|].
      rewrite Er. cbn. rewrite orb_true_r. reflexivity.
Qed.

Theorem den_not n l i : vl_ok n l -> den n (not_list l) i = (i <? n) && negb (den n l i).
Proof.
  intros Hl. unfold not_list.
  destruct (len1_cases l) as [[E1 [x Hx]]|[E1 N1]]; rewrite E1.
  - subst l. cbn [hd_entry]. rewrite (den_single n x i).
    destruct (isE x); rewrite den_single; cbn; destruct (i <? n); reflexivity.
  - assert (Ln : List.length l = n) by (destruct Hl; [assumption|contradiction]).
    set (m := map not_entry l).
    assert (Lm : List.length m = n) by (unfold m; rewrite map_length; exact Ln).
    rewrite (den_each n l i Ln).
    destruct (i <? n) eqn:Hi; cbn [andb].
    2:{ destruct (existsb nonE m); unfold den; rewrite Hi; reflexivity. }
    apply Nat.ltb_lt in Hi.
    assert (Hn : nth i m None = not_entry (nth i l None)).
    { unfold m. change None with (not_entry (Some VNull)) at 1. rewrite map_nth.
      rewrite (nth_indep l (Some VNull) None) by lia. reflexivity. }
    destruct (existsb nonE m) eqn:Hex.
    + rewrite (den_each n m i Lm), Hn. apply Nat.ltb_lt in Hi. rewrite Hi. cbn [andb].
      unfold not_entry. destruct (isE (nth i l None)); reflexivity.
    + rewrite den_single. cbn. rewrite andb_false_r.
      pose proof (existsb_false_nth m Hex i) as Hz. rewrite Hn in Hz. unfold not_entry in Hz.
      destruct (isE (nth i l None)); [discriminate|reflexivity].
Qed.

(* well-formedness is preserved *)
Lemma vl_ok_and n l r : vl_ok n l -> vl_ok n r -> vl_ok n (and_lists l r).
Proof.
  intros Hl Hr. unfold and_lists.
  destruct (len1_cases l) as [[E1 [x Hx]]|[E1 N1]]; rewrite E1; [destruct (isE (hd_entry l)); assumption|].
  destruct (len1_cases r) as [[E2 [y Hy]]|[E2 N2]]; rewrite E2; [destruct (isE (hd_entry r)); assumption|].
  destruct (existsb nonE _); [|right; reflexivity].
  left. rewrite length_map_combine; destruct Hl, Hr; try contradiction; lia.
Qed.
Lemma vl_ok_or n l r : vl_ok n l -> vl_ok n r -> vl_ok n (or_lists l r).
Proof.
  intros Hl Hr. unfold or_lists.
  destruct (len1_cases l) as [[E1 [x Hx]]|[E1 N1]]; rewrite E1; [destruct (isE (hd_entry l)); assumption|].
  destruct (len1_cases r) as [[E2 [y Hy]]|[E2 N2]]; rewrite E2; [destruct (isE (hd_entry r)); assumption|].
  left. rewrite length_map_combine; destruct Hl, Hr; try contradiction; lia.
Qed.
Lemma vl_ok_not n l : vl_ok n l -> vl_ok n (not_list l).
Proof.
  intros Hl. unfold not_list.
  destruct (len1_cases l) as [[E1 [x Hx]]|[E1 N1]]; rewrite E1; [destruct (isE (hd_entry l)); right; reflexivity|].
  destruct (existsb nonE _); [|right; reflexivity].
  left. rewrite map_length. destruct Hl; [assumption|contradiction].
Qed.
