(* RootOp.v — a `$`-rooted path as a filter operand: [?($ steps)], [?(!$ steps)], [?(@ steps OP $ steps)] with an ordering
   operator.  The operand is read like an `@` operand (jsonpathParameter: rootIdentifier first), between saveParams and
   loadParams; loadParams' action recognises the root marker and pushes a root parameter flagged as a literal-like operand. *)
From JP Require Import Peg Grammar Text Tree Actions PegFacts PegMono PegEv FuelRules ParseFacts KeyDefs KeyParse IdxParse SliceParse UnionParse WildParse RecParse ChainParse SpacePath FunParse AggParse Frame FiltParse CmpParse NegFilt LitParse NoDollar.
From Coq Require Import Lia.
Local Open Scope N_scope.
Open Scope list_scope.

Definition rtok (p : nat) (j : list rstep) : list token := [TAct 8] ++ steps_tokens (p + 1) j ++ [TAct 2].
Definition right43_tokens (pos : nat) (j : list rstep) : list token :=
  [TAct 38] ++ rtok pos j ++ [TAct 39; TText pos (pos + 1 + List.length (render_steps j)); TAct 37].

Lemma ev_rule3_root j c t pos : forallb rstep_ok j = true -> closer c ->
  evG (PRef 3) (36 :: render_steps j ++ c :: t) pos (POk (c :: t) (pos + 1 + List.length (render_steps j)) (rtok pos j)).
Proof.
  intros Hs Hc. pose proof Hc as (Hsym & H46 & H91 & H32 & H92 & H40). unfold rtok. eapply ev_conv.
  - eapply ev_ref; [reflexivity|].
    eapply ev_seq_ok; [apply ev_space_stop; discriminate| |reflexivity].
    eapply ev_seq_ok; [| |reflexivity].
    + eapply ev_ref; [reflexivity|]. apply ev_alt_l.
      eapply ev_ref; [reflexivity|]. eapply ev_seq_ok; [apply (ev_lit_ok G [36]); apply strip1_ok|apply ev_act|reflexivity].
    + eapply ev_ref; [reflexivity|].
      assert (Hd : dot_stop (c :: t)) by (cbn; repeat split; assumption).
      eapply ev_seq_ok; [apply (ev_steps_star_gen j (c :: t) _ Hs Hd (fun p => ev_rule7_closer c t p Hc))| |reflexivity].
      eapply ev_seq_ok; [apply ev_star_stop; apply ev_rule8_closer; exact Hc| |reflexivity].
      eapply ev_seq_ok; [apply ev_space_stop; exact H32|apply ev_act|reflexivity].
  - cbn [List.length app Nat.add]. replace (pos + 0 + 1)%nat with (pos + 1)%nat by lia. rewrite <- ?app_assoc. reflexivity.
Qed.
Lemma ev_rule44_root j c t pos : forallb rstep_ok j = true -> closer c ->
  evG (PRef 44) (36 :: render_steps j ++ c :: t) pos (POk (c :: t) (pos + 1 + List.length (render_steps j)) ([TAct 38] ++ rtok pos j ++ [TAct 39])).
Proof.
  intros Hs Hc. eapply ev_ref; [reflexivity|].
  eapply ev_seq_ok; [apply ev_act| |reflexivity].
  eapply ev_seq_ok; [apply (ev_rule3_root j c t pos Hs Hc)|apply ev_act|reflexivity].
Qed.
Lemma ev_rule43_root j c t pos : forallb rstep_ok j = true -> closer c ->
  evG (PRef 43) (36 :: render_steps j ++ c :: t) pos (POk (c :: t) (pos + 1 + List.length (render_steps j)) (right43_tokens pos j)).
Proof.
  intros Hs Hc. unfold right43_tokens. eapply ev_conv.
  - eapply ev_ref; [reflexivity|]. eapply ev_seq_ok; [apply ev_cap|apply ev_act|reflexivity]. apply (ev_rule44_root j c t pos Hs Hc).
  - cbn [app]. rewrite <- !app_assoc. reflexivity.
Qed.

(* no literal starts with $ *)
Lemma ev_rule42_dollar r pos : evG (PRef 42) (36 :: r) pos PFail.
Proof.
  eapply ev_ref; [reflexivity|]. apply ev_alt_r; [apply ev_rule45_nonnum; reflexivity|].
  apply ev_alt_r.
  { eapply ev_ref; [reflexivity|]. apply ev_alt_r; apply ev_seq_fail;
      (apply ev_alt_r; [apply (ev_lit_fail G); reflexivity|]; apply ev_alt_r; apply (ev_lit_fail G); reflexivity). }
  apply ev_alt_r.
  { eapply ev_ref; [reflexivity|]. apply ev_alt_r; apply ev_seq_fail; apply (ev_lit_fail G); reflexivity. }
  eapply ev_ref; [reflexivity|]. apply ev_seq_fail.
  apply ev_alt_r; [apply (ev_lit_fail G); reflexivity|]; apply ev_alt_r; apply (ev_lit_fail G); reflexivity.
Qed.

(* an existence test on a root path: no comparison stands there *)
Lemma ev_rule39_root_q j c t pos : forallb rstep_ok j = true -> qend c ->
  evG (PRef 39) (36 :: render_steps j ++ c :: t) pos PFail.
Proof.
  intros Hs Hq. pose proof (ev_rule43_root j c t pos Hs (qend_closer c Hq)) as E43. pose proof (qend_32 c Hq) as H32.
  assert (Hlit : forall s, (s = [61; 61] \/ s = [33; 61] \/ s = [60; 61] \/ s = [60] \/ s = [62; 61] \/ s = [62] \/ s = [61; 126]) -> strip_prefix s (c :: t) = None).
  { intros s Hcase. destruct Hq as [E|[E|E]]; subst c; destruct Hcase as [E|[E|[E|[E|[E|[E|E]]]]]]; subst s; reflexivity. }
  eapply ev_ref; [reflexivity|].
  apply ev_alt_r.
  { eapply ev_seq_fail2.
    - eapply ev_ref; [reflexivity|]. apply ev_alt_r; [apply ev_seq_fail; apply ev_rule42_dollar|exact E43].
    - eapply ev_seq_fail2; [apply ev_space_stop; exact H32|].
      apply ev_alt_r; apply ev_seq_fail; apply (ev_lit_fail G); apply Hlit; auto 10. }
  apply ev_alt_r.
  { eapply ev_seq_fail2.
    - eapply ev_ref; [reflexivity|]. apply ev_alt_r; [apply ev_seq_fail; apply ev_rule45_nonnum; reflexivity|exact E43].
    - eapply ev_seq_fail2; [apply ev_space_stop; exact H32|].
      apply ev_alt_r; [apply ev_seq_fail; apply (ev_lit_fail G); apply Hlit; auto 10|].
      apply ev_alt_r; [apply ev_seq_fail; apply (ev_lit_fail G); apply Hlit; auto 10|].
      apply ev_alt_r; apply ev_seq_fail; apply (ev_lit_fail G); apply Hlit; auto 10. }
  eapply ev_seq_fail2; [exact E43|].
  eapply ev_seq_fail2; [apply ev_space_stop; exact H32|].
  apply ev_seq_fail. apply (ev_lit_fail G). apply Hlit. auto 10.
Qed.

Section RootExec.
  Variable cfg : config.
  Variable parse_float : string -> option num.
  Variable regex_ok : string -> bool.
  Notation execute := (execute cfg parse_float regex_ok).
  Notation exec_action := (exec_action cfg parse_float regex_ok).

  Definition root_inner (j : list rstep) : node := update_vg (Node KRoot (root_basic cfg) (link (pres cfg j))).
  Definition root_pq (j : list rstep) : pquery := PqRoot (clear_acc (delete_root (root_inner j))).

  Lemma exec_inner_root input p j rest cps b : forallb rstep_ok j = true ->
    skipn p input = 36 :: render_steps j ++ rest ->
    execute (rtok p j) input cps b (mk []) = AOk (mk [INode (root_inner j)]).
  Proof.
    intros Hs Hin. unfold rtok. cbn [app Actions.execute].
    change (exec_action 8 cps b (mk [])) with (AOk (mk [INode (Node KRoot (root_basic cfg) ONone)])). cbn [abind].
    assert (Hsk : skipn (p + 1) input = render_steps j ++ rest) by (apply (skipn_next input p [36] _ Hin)).
    destruct (exec_steps_tail cfg parse_float regex_ok input j rest (p + 1) [INode (Node KRoot (root_basic cfg) ONone)] [TAct 2] cps b Hs Hsk) as (c1 & b1 & E).
    rewrite E. clear E. cbn [Actions.execute].
    change (exec_action 2 c1 b1 ?st) with (abind (set_node_chain st) update_root_vg).
    assert (Hch : set_node_chain (mk ([INode (Node KRoot (root_basic cfg) ONone)] ++ map (fun s => INode (rpre_node cfg s)) j)) =
                  AOk (mk [INode (Node KRoot (root_basic cfg) (link (pres cfg j)))])).
    { unfold set_node_chain, mk. cbn [params app]. destruct j as [|x r]; [reflexivity|].
      pose proof (chain_fold_gen cfg KRoot (root_basic cfg) (x :: r) ltac:(split; intros; discriminate) [] ltac:(constructor)) as F.
      cbn [link app] in F. cbn [map] in *. rewrite F. reflexivity. }
    rewrite Hch. reflexivity.
  Qed.
  Lemma root_inner_kind j : node_kind (innermost (root_inner j)) = KRoot.
  Proof. unfold root_inner, update_vg. destruct (chain_vg _); reflexivity. Qed.

  Lemma exec_operand_root input p j rest ps toks cps b : forallb rstep_ok j = true -> skipn p input = 36 :: render_steps j ++ rest ->
    execute ([TAct 38] ++ rtok p j ++ [TAct 39] ++ toks) input cps b (mk ps) =
    execute toks input (last_cps (rtok p j) input cps) (last_begin (rtok p j) b) (mk (ps ++ [IPQ (root_pq j); IBool true])).
  Proof.
    intros Hs Hin. set (sv0 := match ps with [] => [] | _ :: _ => [ps] end).
    cbn [app Actions.execute].
    assert (E38 : exec_action 38 cps b (mk ps) = AOk (with_saved sv0 (mk []))) by (destruct ps; reflexivity).
    rewrite E38. cbn [abind].
    rewrite (execute_under cfg parse_float regex_ok sv0 (rtok p j) input cps b (mk []) _ ltac:(unfold rtok; rewrite !frame_free_app, frame_free_steps; reflexivity)
               (exec_inner_root input p j rest cps b Hs Hin)).
    cbn [app Actions.execute].
    assert (E39 : forall c0 b0, exec_action 39 c0 b0 (with_saved sv0 (mk [INode (root_inner j)])) =
                               AOk (mk (ps ++ [IPQ (root_pq j); IBool true]))).
    { intros c0 b0. cbn [Actions.exec_action].
      assert (El : load_params (with_saved sv0 (mk [INode (root_inner j)])) = mk (ps ++ [INode (root_inner j)])) by (destruct ps; reflexivity).
      rewrite El. unfold pop_node. rewrite pop_mk. cbn [abind]. rewrite root_inner_kind.
      unfold push, mk, with_params. cbn [params saved proot]. rewrite <- app_assoc. reflexivity. }
    rewrite E39. reflexivity.
  Qed.

  Lemma root_operand_vg j : vgroup (node_basic (clear_acc (delete_root (root_inner j)))) = steps_vg j.
  Proof.
    rewrite <- (pres_vg cfg). unfold root_inner. pose proof (pres_plain cfg j) as Hp. destruct (pres cfg j) as [|y l]; [reflexivity|].
    inversion Hp as [|? ? Hy Hl]; subst. unfold update_vg. cbn [chain_vg]. rewrite link_vg. cbn [root_basic mk_basic vgroup orb].
    destruct (any_vg (y :: l)) eqn:Ea.
    - cbn [set_node_vg link delete_root vgroup set_vgroup]. rewrite (clear_link (fst y) _ l (proj1 Hy) Hl). reflexivity.
    - cbn [link delete_root root_basic mk_basic vgroup]. rewrite (clear_link (fst y) _ l (proj1 Hy) Hl). cbn [node_basic set_accessor vgroup].
      cbn [any_vg existsb] in Ea. apply orb_false_iff in Ea. exact (proj1 Ea).
  Qed.
End RootExec.
