(* Prop_C11.v — property C11: index and slice arithmetic is exact and total.
   This file contains only the property theorems (each closed by `exact <lemma>`) and their
   Print Assumptions.  The model is coq/Slice.v (Go's int is modelled with explicit 64-bit
   wrap-around on every addition; the `make([]int, len)` buffer bound and running out of loop
   fuel are IPanic outcomes); the specification py_slice / py_index is Python's
   slice.indices + range, defined independently in Slice.v. *)
From JP Require Import Slice SliceProofs.
Open Scope Z_scope.

(* [start:end:step] as the grammar action builds it (omitted step = 1, implementation chosen by
   the sign of the step) selects exactly Python's slice, for every array length below 2^62 and
   every int64 start/end/step, each possibly omitted; in particular it never panics and the
   loop terminates within its fuel. *)
Theorem C11_slice_python : forall st en sp len,
  0 <= len < two62 -> in64 (number st) -> in64 (number en) -> in64 (number sp) ->
  get_indexes (mk_slice st en sp) len = IOk (py_slice (opt st) (opt en) (opt sp) len).
Proof. exact slice_python. Qed.
Print Assumptions C11_slice_python.

(* [n] selects element n from the front, or from the back when negative, or nothing *)
Theorem C11_index_python : forall n len,
  0 <= len < two62 -> in64 n -> get_indexes (SubIndex n) len = IOk (py_index n len).
Proof. exact index_python. Qed.
Print Assumptions C11_index_python.

(* every index Python's slice / index selects lies inside the array *)
Theorem C11_slice_in_range : forall st en sp len x,
  0 <= len -> In x (py_slice st en sp len) -> 0 <= x < len.
Proof. exact py_slice_in_range. Qed.
Print Assumptions C11_slice_in_range.

Theorem C11_index_in_range : forall n len x, In x (py_index n len) -> 0 <= x < len.
Proof. exact py_index_in_range. Qed.
Print Assumptions C11_index_in_range.

(* no subscript the parser can build panics, loops or selects an index outside the array *)
Theorem C11_total_in_range : forall s len, 0 <= len < two62 -> sub_built s ->
  exists l, get_indexes s len = IOk l /\ forall x, In x l -> 0 <= x < len.
Proof. exact get_indexes_total. Qed.
Print Assumptions C11_total_in_range.

(* non-vacuity: concrete instances of the hypotheses and of the conclusion *)
Example C11_example_neg_step :
  get_indexes (mk_slice {| number := -1; omitted := false |} {| number := 0; omitted := true |}
                        {| number := -2; omitted := false |}) 5 = IOk [4; 2; 0].
Proof. vm_compute. reflexivity. Qed.
Example C11_example_huge_step :
  get_indexes (mk_slice {| number := 1; omitted := false |} {| number := 0; omitted := true |}
                        {| number := 9223372036854775807; omitted := false |}) 3 = IOk [1].
Proof. vm_compute. reflexivity. Qed.


(* ---------- from the path text (SliceParse.v, ChainParse.v, ChainAddr.v) ---------- *)
From JP Require Import Peg Grammar Tree Actions Json Eval EvalInv1 EvalInv4 EvalTop KeyDefs KeyParse IdxParse SliceParse UnionParse WildParse RecParse ChainParse ChainAddr.
Open Scope list_scope.

(* For EVERY slice text [a:b] / [a:b:c] — each bound omitted or an optionally signed number that fits int64 — and
   every array: the path $[a:b:c] is accepted and returns exactly the elements Python's a[start:end:step] selects, in
   that order (a step of 0 selects nothing and the retrieval fails), from the path TEXT through the regenerated
   grammar (slice / anyIndex / sepSlice rules), actions 21/20/16/19 and C11_slice_python. *)
Theorem C11_slice_from_text : forall cfg parse_float regex_ok ffun afun regex_match,
  (forall f v w, small v -> ffun f v = Some w -> small w) ->
  (forall f l w, Forall small l -> afun f l = Some w -> small w) ->
  forall a b c xs st, step_ok (SSlice a b c) = true -> small (VArr xs) -> ok st ->
  exists t, parse_with cfg parse_float regex_ok jsonpath_grammar (chain_path [RPlain (SSlice a b c)]) = ParseOk t /\
            match nav_all [RPlain (SSlice a b c)] ([], VArr xs) with
            | [] => exists e, fst (eval_run ffun afun regex_match t (VArr xs) st) = OErr e
            | l => fst (eval_run ffun afun regex_match t (VArr xs) st) = OOk (map (loc_result cfg) l)
            end.
Proof.
  intros cfg pf rx ffun afun rm H1 H2 a b c xs st Hs Hsm Hok.
  apply (chain_retrieval cfg pf rx ffun afun rm H1 H2 (RPlain (SSlice a b c)) [] (VArr xs) st); [|exact Hsm|exact Hok].
  cbn [forallb rstep_ok]. rewrite Hs. reflexivity.
Qed.
Print Assumptions C11_slice_from_text.

(* what nav_all means for one slice step: the elements at Python's indices *)
Theorem C11_slice_nav : forall a b c xs,
  map snd (nav_all [RPlain (SSlice a b c)] ([], VArr xs)) =
  flat_map (fun i => match nth_value xs i with Some x => [x] | None => [] end)
           (py_slice (bopt a) (bopt b) (match c with Some t => bopt t | None => None end) (Z.of_nat (List.length xs))).
Proof.
  intros a b c xs. cbn [nav_all nav1r nav1 fst snd].
  generalize (py_slice (bopt a) (bopt b) (match c with Some t => bopt t | None => None end) (Z.of_nat (List.length xs))).
  intros l. induction l as [|i l IH]; [reflexivity|].
  cbn [flat_map]. rewrite flat_map_app, map_app, IH. destruct (nth_value xs i); reflexivity.
Qed.

Example C11_slice_text_example :
  chain_path [RPlain (SSlice [45; 51]%N [] (Some [50]%N))] = [36; 91; 45; 51; 58; 58; 50; 93]%N /\
  step_ok (SSlice [45; 51]%N [] (Some [50]%N)) = true /\
  map snd (nav_all [RPlain (SSlice [45; 51]%N [] (Some [50]%N))] ([], VArr [VNull; VBool true; VBool false; VNull; VBool true])) = [VBool false; VBool true].
Proof. repeat split; vm_compute; reflexivity. Qed.


(* For EVERY union text [s1,s2,...] — each subscript an optionally signed index, a slice or the wildcard (the first one
   not the wildcard: `[*,...]` is read by the multi-name rule first), all numbers fitting int64 — and every array: the path
   is accepted and returns, for each subscript in the order written, the elements that subscript selects (py_index for
   an index: from the front, from the back when negative, nothing when out of range; py_slice for a slice; every
   element for the wildcard), duplicates kept.  A single signed index `[-1]` is the one-subscript case. *)
Theorem C11_union_from_text : forall cfg parse_float regex_ok ffun afun regex_match,
  (forall f v w, small v -> ffun f v = Some w -> small w) ->
  (forall f l w, Forall small l -> afun f l = Some w -> small w) ->
  forall u us xs st, step_ok (SUnion u us) = true -> small (VArr xs) -> ok st ->
  exists t, parse_with cfg parse_float regex_ok jsonpath_grammar (chain_path [RPlain (SUnion u us)]) = ParseOk t /\
            match nav_all [RPlain (SUnion u us)] ([], VArr xs) with
            | [] => exists e, fst (eval_run ffun afun regex_match t (VArr xs) st) = OErr e
            | l => fst (eval_run ffun afun regex_match t (VArr xs) st) = OOk (map (loc_result cfg) l)
            end.
Proof.
  intros cfg pf rx ffun afun rm H1 H2 u us xs st Hs Hsm Hok.
  apply (chain_retrieval cfg pf rx ffun afun rm H1 H2 (RPlain (SUnion u us)) [] (VArr xs) st); [|exact Hsm|exact Hok].
  cbn [forallb rstep_ok]. rewrite Hs. reflexivity.
Qed.
Print Assumptions C11_union_from_text.

Theorem C11_union_nav : forall u us xs,
  map snd (nav_all [RPlain (SUnion u us)] ([], VArr xs)) =
  flat_map (fun v => flat_map (fun i => match nth_value xs i with Some x => [x] | None => [] end)
                              (sub_indexes v (Z.of_nat (List.length xs)))) (u :: us).
Proof.
  intros u us xs. cbn [nav_all nav1r nav1 fst snd].
  generalize (u :: us). intros l. induction l as [|v l IH]; [reflexivity|].
  cbn [flat_map]. rewrite flat_map_app, map_app, IH. f_equal.
  generalize (sub_indexes v (Z.of_nat (List.length xs))). intros is. induction is as [|i is IHi]; [reflexivity|].
  cbn [flat_map]. rewrite flat_map_app, map_app, IHi. destruct (nth_value xs i); reflexivity.
Qed.

Example C11_union_text_example :
  chain_path [RPlain (SUnion (UIdx [45; 49]%N) [UWild; USlice [49]%N [] None])] = [36; 91; 45; 49; 44; 42; 44; 49; 58; 93]%N /\
  step_ok (SUnion (UIdx [45; 49]%N) [UWild; USlice [49]%N [] None]) = true /\
  map snd (nav_all [RPlain (SUnion (UIdx [45; 49]%N) [UWild; USlice [49]%N [] None])] ([], VArr [VNull; VBool true; VBool false])) =
    [VBool false; VNull; VBool true; VBool false; VBool true; VBool false].
Proof. repeat split; vm_compute; reflexivity. Qed.
