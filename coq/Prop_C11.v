(* Prop_C11.v — property C11: index and slice arithmetic is exact and total.
   This file contains only the property theorems (each closed by `exact <lemma>`) and their
   Print Assumptions.  The model is coq/Slice.v (Go's int is modelled with explicit 64-bit
   wrap-around on every addition; the `make([]int, len)` buffer bound and running out of loop
   fuel are IPanic outcomes); the specification py_slice / py_index is Python's
   slice.indices + range, defined independently in Slice.v. *)
From JP Require Import Slice SliceProofs.
Open Scope Z_scope.

(* [start:end:step] as the grammar action builds it (omitted step = 1, implementation chosen by
   the sign of the step) selects exactly Python's slice, for every array length below 2^62 and
   every int64 start/end/step, each possibly omitted; in particular it never panics and the
   loop terminates within its fuel. *)
Theorem C11_slice_python : forall st en sp len,
  0 <= len < two62 -> in64 (number st) -> in64 (number en) -> in64 (number sp) ->
  get_indexes (mk_slice st en sp) len = IOk (py_slice (opt st) (opt en) (opt sp) len).
Proof. exact slice_python. Qed.
Print Assumptions C11_slice_python.

(* [n] selects element n from the front, or from the back when negative, or nothing *)
Theorem C11_index_python : forall n len,
  0 <= len < two62 -> in64 n -> get_indexes (SubIndex n) len = IOk (py_index n len).
Proof. exact index_python. Qed.
Print Assumptions C11_index_python.

(* every index Python's slice / index selects lies inside the array *)
Theorem C11_slice_in_range : forall st en sp len x,
  0 <= len -> In x (py_slice st en sp len) -> 0 <= x < len.
Proof. exact py_slice_in_range. Qed.
Print Assumptions C11_slice_in_range.

Theorem C11_index_in_range : forall n len x, In x (py_index n len) -> 0 <= x < len.
Proof. exact py_index_in_range. Qed.
Print Assumptions C11_index_in_range.

(* no subscript the parser can build panics, loops or selects an index outside the array *)
Theorem C11_total_in_range : forall s len, 0 <= len < two62 -> sub_built s ->
  exists l, get_indexes s len = IOk l /\ forall x, In x l -> 0 <= x < len.
Proof. exact get_indexes_total. Qed.
Print Assumptions C11_total_in_range.

(* non-vacuity: concrete instances of the hypotheses and of the conclusion *)
Example C11_example_neg_step :
  get_indexes (mk_slice {| number := -1; omitted := false |} {| number := 0; omitted := true |}
                        {| number := -2; omitted := false |}) 5 = IOk [4; 2; 0].
Proof. vm_compute. reflexivity. Qed.
Example C11_example_huge_step :
  get_indexes (mk_slice {| number := 1; omitted := false |} {| number := 0; omitted := true |}
                        {| number := 9223372036854775807; omitted := false |}) 3 = IOk [1].
Proof. vm_compute. reflexivity. Qed.
