(* SpecRootFree.v — a continuation without `$` (no root node, no `$`-rooted filter operand) and
   without aggregates selects the same values from a value wherever that value sits and whatever the
   root is: with SpecCompose this is property C08 on the specification. *)
From JP Require Import Eval WF Spec Actions EvalInv1 EvalInv3 EvalInv4 Refine1 SpecCompose.
From Coq Require Import Lia.
Open Scope string_scope.
Open Scope list_scope.

Fixpoint root_free (n : node) : bool :=
  match n with
  | Node k _ next =>
      (match k with
       | KRoot => false
       | KAgg _ _ => false
       | KMulti ids _ uq => root_free_ids ids && match uq with OSome u => root_free u | ONone => true end
       | KFilter q => root_free_q q
       | _ => true
       end) && match next with OSome m => root_free m | ONone => true end
  end
with root_free_ids (ids : nodes) : bool :=
  match ids with NNil => true | NCons n r => root_free n && root_free_ids r end
with root_free_q (q : query) : bool :=
  match q with
  | QAnd a b | QOr a b => root_free_q a && root_free_q b
  | QNot a => root_free_q a
  | QCmp (CP l _) (CP r _) _ => root_free_p l && root_free_p r
  | QParam p => root_free_p p
  end
with root_free_p (p : pquery) : bool :=
  match p with PqLit _ => true | PqCur n => root_free n | PqRoot _ => false end.

(* same emitting node, same settable flag, same value (the location may differ) *)
Definition sim (r r' : sres) : Prop := fst r = fst r' /\ snd (snd r) = snd (snd r').

Lemma Forall2_flat_map2 {A B} (R : A -> A -> Prop) (f g : A -> list B) (S : B -> B -> Prop) :
  forall l l', Forall2 R l l' -> (forall a a', R a a' -> Forall2 S (f a) (g a')) -> Forall2 S (flat_map f l) (flat_map g l').
Proof.
  induction 1 as [|a a' l l' Ha Hl IH]; intros H; cbn [flat_map]; [constructor|].
  apply Forall2_app; [apply H; exact Ha|apply IH; exact H].
Qed.
Lemma Forall2_flat_map1 {A B} (f g : A -> list B) (S : B -> B -> Prop) :
  forall l, (forall a, In a l -> Forall2 S (f a) (g a)) -> Forall2 S (flat_map f l) (flat_map g l).
Proof.
  induction l as [|a l IH]; intros H; cbn [flat_map]; [constructor|].
  apply Forall2_app; [apply H; left; reflexivity|apply IH; intros b Hb; apply H; right; exact Hb].
Qed.

Lemma wrap_sim r r' : sim r r' -> res_value (Spec.wrap r) = res_value (Spec.wrap r').
Proof.
  destruct r as [[b s] [l v]], r' as [[b' s'] [l' v']]. unfold sim. cbn. intros [H1 H2]. inversion H1; subst.
  destruct (accessor b'); reflexivity.
Qed.
Lemma map_wrap_sim : forall l l', Forall2 sim l l' ->
  map (fun x => res_value (Spec.wrap x)) l = map (fun x => res_value (Spec.wrap x)) l'.
Proof. induction 1 as [|a a' l l' Ha Hl IH]; cbn [map]; [reflexivity|]. rewrite (wrap_sim a a' Ha), IH. reflexivity. Qed.

Definition same_val (cu cu' : cursor) : Prop := snd cu = snd cu'.

Lemma containers_same_val : forall v l l', Forall2 same_val (containers l v) (containers l' v).
Proof.
  induction v as [|b|x|s x|s|xs IH|m IH|t i s] using value_ind_strong; intros l l'.
  1-5,8: (cbn [containers]; constructor).
  - rewrite !containers_arr. constructor; [reflexivity|].
    generalize 0%Z. induction xs as [|x xs IHxs]; intros z; cbn [index_list flat_map fst snd]; [constructor|].
    inversion IH as [|? ? Hx Hxs]; subst. apply Forall2_app; [apply Hx|apply IHxs; exact Hxs].
  - rewrite !containers_obj. constructor; [reflexivity|].
    apply Forall2_flat_map1. intros k _. destruct (lookup m k) as [x|] eqn:El; [|constructor].
    destruct (lookup_in m k x El) as [k' Hk']. rewrite Forall_forall in IH. apply (IH (k', x) Hk').
Qed.

Section RF.
  Variable ffun : string -> value -> option value.
  Variable afun : string -> list value -> option value.
  Variable regex_match : string -> string -> bool.
  Notation sp := (sp ffun afun regex_match).
  Notation sp_ids := (sp_ids ffun afun regex_match).
  Notation holds := (holds ffun afun regex_match).
  Notation operand := (operand ffun afun regex_match).
  Notation sfwd := (sfwd ffun afun regex_match).
  Notation skey := (skey ffun afun regex_match).
  Notation sidx := (sidx ffun afun regex_match).

  Definition S_node (n : node) : Prop :=
    root_free n = true -> forall root root' cur cur', same_val cur cur' -> Forall2 sim (sp n root cur) (sp n root' cur').
  Definition S_onode (o : onode) : Prop := match o with OSome n => S_node n | ONone => True end.
  Definition S_nodes (ids : nodes) : Prop :=
    root_free_ids ids = true -> forall root root' cur cur', same_val cur cur' -> Forall2 sim (sp_ids ids root cur) (sp_ids ids root' cur').
  Definition S_query (q : query) : Prop := root_free_q q = true -> forall root root' vals, holds q root vals = holds q root' vals.
  Definition S_pquery (p : pquery) : Prop := root_free_p p = true -> forall root root' vals, operand p root vals = operand p root' vals.
  Definition S_cparam (cp : cparam) : Prop := match cp with CP p _ => S_pquery p end.
  Definition S_kind (k : kind) : Prop :=
    match k with
    | KMulti ids _ uq => S_nodes ids /\ S_onode uq
    | KFilter q => S_query q
    | _ => True
    end.
  Definition rfo (o : onode) : bool := match o with OSome m => root_free m | ONone => true end.

  Lemma sfwd_sim b next root root' settable cu cu' : S_onode next -> rfo next = true -> same_val cu cu' ->
    Forall2 sim (sfwd b next root settable cu) (sfwd b next root' settable cu').
  Proof.
    intros IH Hr Hs. unfold Refine1.sfwd. destruct next as [|m]; [|apply IH; assumption].
    constructor; [|constructor]. split; [reflexivity|exact Hs].
  Qed.
  Lemma skey_sim b next root root' cur cur' m key : S_onode next -> rfo next = true ->
    Forall2 sim (skey b next root cur m key) (skey b next root' cur' m key).
  Proof. intros IH Hr. unfold Refine1.skey. destruct (lookup m key); [apply sfwd_sim; try assumption; reflexivity|constructor]. Qed.
  Lemma sidx_sim b next root root' cur cur' iv : S_onode next -> rfo next = true ->
    Forall2 sim (sidx b next root cur iv) (sidx b next root' cur' iv).
  Proof. intros IH Hr. unfold Refine1.sidx. apply sfwd_sim; try assumption; reflexivity. Qed.

  Lemma node_sim k b next : S_kind k -> S_onode next -> S_node (Node k b next).
  Proof.
    intros IHk IHn Hrf root root' cur cur' Hsv. cbn [root_free] in Hrf. apply andb_true_iff in Hrf. destruct Hrf as [Hk Hnx].
    change (match next with OSome m => root_free m | ONone => true end) with (rfo next) in Hnx.
    pose proof Hsv as Hsame. unfold same_val in Hsv. rewrite !sp_unfold. rewrite <- Hsv.
    destruct k as [| |key| |ids aw uq|mr lr|subs|q|f|f param]; try discriminate.
    - apply sfwd_sim; assumption.
    - destruct (snd cur); try constructor. apply skey_sim; assumption.
    - destruct (snd cur); try constructor.
      + apply Forall2_flat_map1. intros iv _. apply sidx_sim; assumption.
      + apply Forall2_flat_map1. intros key _. apply skey_sim; assumption.
    - destruct IHk as [IHids IHuq]. apply andb_true_iff in Hk. destruct Hk as [Hids Huq].
      destruct (snd cur) eqn:E; try (destruct aw; constructor).
      + destruct aw; [|constructor]. destruct uq as [|u]; [constructor|]. apply IHuq; assumption.
      + assert (H : Forall2 sim (sp_ids ids root cur) (sp_ids ids root' cur')) by (apply IHids; assumption).
        destruct aw; exact H.
    - destruct next as [|nx]; [constructor|].
      apply (Forall2_flat_map2 same_val).
      + destruct cur as [l v], cur' as [l' v']. cbn [fst snd] in *. subst v'. apply containers_same_val.
      + intros cu cu' Hcu. pose proof Hcu as Hcs. unfold same_val in Hcu. rewrite <- Hcu.
        destruct (snd cu); cbv iota; try apply Forall2_nil; [destruct lr|destruct mr]; try apply Forall2_nil; apply IHn; assumption.
    - destruct (snd cur); try constructor. apply Forall2_flat_map1. intros sub _.
      destruct (get_indexes sub _); [|constructor]. apply Forall2_flat_map1. intros i _.
      destruct (nth_value l i); [apply sidx_sim; assumption|constructor].
    - destruct (snd cur); try constructor; cbv zeta.
      + rewrite (IHk Hk root root' l). apply Forall2_flat_map1. intros [iv hb] _. cbn [fst snd].
        destruct hb; [apply sidx_sim; assumption|constructor].
      + rewrite (IHk Hk root root'). apply Forall2_flat_map1. intros [key hb] _. cbn [fst snd].
        destruct hb; [apply skey_sim; assumption|constructor].
    - destruct (ffun f (snd cur)); [apply sfwd_sim; try assumption; reflexivity|constructor].
  Qed.

  Lemma query_sim_cmp lp ll rp rl c : S_pquery lp -> S_pquery rp -> S_query (QCmp (CP lp ll) (CP rp rl) c).
  Proof.
    intros IHl IHr Hrf root root' vals. cbn [root_free_q] in Hrf. apply andb_true_iff in Hrf. destruct Hrf as [H1 H2].
    change (holds (QCmp (CP lp ll) (CP rp rl) c) root vals) with
      (cmp_holds regex_match c (List.length vals) (operand lp root vals) (hd None (operand rp root vals))).
    change (holds (QCmp (CP lp ll) (CP rp rl) c) root' vals) with
      (cmp_holds regex_match c (List.length vals) (operand lp root' vals) (hd None (operand rp root' vals))).
    rewrite (IHl H1 root root'), (IHr H2 root root'). reflexivity.
  Qed.

  Theorem root_free_sim :
    (forall n, S_node n) /\ (forall o, S_onode o) /\ (forall k, S_kind k) /\ (forall ns, S_nodes ns) /\
    (forall q, S_query q) /\ (forall cp, S_cparam cp) /\ (forall p, S_pquery p).
  Proof.
    apply tree_mutind; try (intros; exact I).
    - intros k IHk b next IHn. apply node_sim; assumption.
    - intros n IH. exact IH.
    - intros ids IHids aw uq IHuq. split; assumption.
    - intros q IH. exact IH.
    - intros _ root root' cur cur' _. constructor.
    - intros id IHid rest IHrest Hrf root root' cur cur' Hs.
      cbn [root_free_ids] in Hrf. apply andb_true_iff in Hrf. destruct Hrf as [H1 H2].
      change (sp_ids (NCons id rest) root cur) with (sp id root cur ++ sp_ids rest root cur).
      change (sp_ids (NCons id rest) root' cur') with (sp id root' cur' ++ sp_ids rest root' cur').
      apply Forall2_app; [apply IHid; assumption|apply IHrest; assumption].
    - intros a IHa b IHb Hrf root root' vals. cbn [root_free_q] in Hrf. apply andb_true_iff in Hrf. destruct Hrf as [H1 H2].
      change (holds (QAnd a b) root vals) with (andb_lists (holds a root vals) (holds b root vals)).
      change (holds (QAnd a b) root' vals) with (andb_lists (holds a root' vals) (holds b root' vals)).
      rewrite (IHa H1 root root'), (IHb H2 root root'). reflexivity.
    - intros a IHa b IHb Hrf root root' vals. cbn [root_free_q] in Hrf. apply andb_true_iff in Hrf. destruct Hrf as [H1 H2].
      change (holds (QOr a b) root vals) with (orb_lists (holds a root vals) (holds b root vals)).
      change (holds (QOr a b) root' vals) with (orb_lists (holds a root' vals) (holds b root' vals)).
      rewrite (IHa H1 root root'), (IHb H2 root root'). reflexivity.
    - intros a IHa Hrf root root' vals. cbn [root_free_q] in Hrf.
      change (holds (QNot a) root vals) with (map negb (holds a root vals)).
      change (holds (QNot a) root' vals) with (map negb (holds a root' vals)).
      rewrite (IHa Hrf root root'). reflexivity.
    - intros [lp ll] IHl [rp rl] IHr c. apply query_sim_cmp; assumption.
    - intros p IH Hrf root root' vals. cbn [root_free_q] in Hrf.
      change (holds (QParam p) root vals) with
        (let es := operand p root vals in
         if Nat.eqb (List.length es) (List.length vals) then map (fun x => negb (isE x)) es
         else repeat (negb (isE (hd None es))) (List.length vals)).
      change (holds (QParam p) root' vals) with
        (let es := operand p root' vals in
         if Nat.eqb (List.length es) (List.length vals) then map (fun x => negb (isE x)) es
         else repeat (negb (isE (hd None es))) (List.length vals)).
      rewrite (IH Hrf root root'). reflexivity.
    - intros p IH lit. exact IH.
    - intros v _ root root' vals. reflexivity.
    - intros n IH Hrf root root' vals. cbn [root_free_p] in Hrf.
      change (operand (PqCur n) root vals) with
        (let es := map (fun v => match sp n root (None, v) with x :: _ => Some (res_value (Spec.wrap x)) | [] => None end) vals in
         if existsb (fun x => negb (isE x)) es then es else [None]).
      change (operand (PqCur n) root' vals) with
        (let es := map (fun v => match sp n root' (None, v) with x :: _ => Some (res_value (Spec.wrap x)) | [] => None end) vals in
         if existsb (fun x => negb (isE x)) es then es else [None]).
      assert (Hm : map (fun v => match sp n root (None, v) with x :: _ => Some (res_value (Spec.wrap x)) | [] => None end) vals
                 = map (fun v => match sp n root' (None, v) with x :: _ => Some (res_value (Spec.wrap x)) | [] => None end) vals).
      { apply map_ext. intros v. pose proof (IH Hrf root root' (None, v) (None, v) eq_refl) as H.
        destruct H as [|a a' l l' Ha _]; [reflexivity|]. rewrite (wrap_sim a a' Ha). reflexivity. }
      cbv zeta. rewrite Hm. reflexivity.
    - intros n _ Hrf. discriminate.
  Qed.
End RF.

(* ---------- C08 on the specification ---------- *)
Section C08.
  Variable ffun : string -> value -> option value.
  Variable afun : string -> list value -> option value.
  Variable regex_match : string -> string -> bool.
  Notation sp := (sp ffun afun regex_match).

  Lemma sim_values : forall l l', Forall2 sim l l' -> map sres_value l = map sres_value l'.
  Proof. induction 1 as [|a a' l l' [_ Ha] _ IH]; cbn [map]; [reflexivity|]. unfold sres_value at 1 3. rewrite Ha, IH. reflexivity. Qed.

  Lemma map_flat_map {A B C} (h : B -> C) (g : A -> list B) : forall l, map h (flat_map g l) = flat_map (fun a => map h (g a)) l.
  Proof. induction l as [|a l IH]; cbn [flat_map map]; [reflexivity|]. rewrite map_app, IH. reflexivity. Qed.

  (* `$` followed by Q, evaluated on the value v as the whole document *)
  Definition dollar (b0 : basic) (q : node) : node := Node KRoot b0 (OSome q).

  Theorem compose_spec : forall p q b0 doc cur,
    wf_node p = true -> root_free q = true ->
    map sres_value (sp (append_deep p q) doc cur)
    = flat_map (fun r => map sres_value (sp (dollar b0 q) (sres_value r) (Some [], sres_value r))) (sp p doc cur).
  Proof.
    intros p q b0 doc cur Hwf Hrf.
    rewrite (sp_compose ffun afun regex_match p Hwf q doc cur). unfold then_. rewrite map_flat_map.
    apply flat_map_ext. intros r. unfold dollar. rewrite sp_unfold. unfold Refine1.sfwd.
    apply sim_values.
    destruct (root_free_sim ffun afun regex_match) as [HS _].
    apply (HS q Hrf doc (sres_value r) (snd r) (Some [], sres_value r)). reflexivity.
  Qed.
End C08.
