(* ErrFacts.v — error selection (C15) on the evaluator model: how addDeepestError ranks, and what the
   single-valued steps report. *)
From JP Require Import Eval WF EvalInv3.
From Coq Require Import Lia.
Open Scope string_scope.
Open Scope list_scope.

Definition depth_len (e : rerr) : nat := String.length (ctext (err_basic e)).
Definition is_type_err (e : rerr) : bool := match e with EType _ _ _ => true | _ => false end.

(* the selected error is always one of the candidates: never an invented one *)
Lemma add_deepest_choice err dl de : snd (add_deepest err dl de) = Some err \/ snd (add_deepest err dl de) = de.
Proof.
  unfold add_deepest. destruct (Nat.eqb dl 0 || Nat.ltb (String.length (ctext (err_basic err))) dl); [left; reflexivity|].
  destruct (Nat.eqb dl (String.length (ctext (err_basic err)))); [|right; reflexivity].
  destruct de as [[ | | ]|]; cbn; auto.
Qed.

(* a failure further along the path (shorter remaining text) replaces the remembered one *)
Lemma add_deepest_deeper err dl de : (depth_len err < dl)%nat -> add_deepest err dl de = (depth_len err, Some err).
Proof.
  intros H. unfold add_deepest, depth_len in *. apply Nat.ltb_lt in H. rewrite H, orb_true_r. reflexivity.
Qed.

(* a failure less far along the path never replaces it *)
Lemma add_deepest_shallower err dl de : (dl <> 0)%nat -> (dl < depth_len err)%nat -> add_deepest err dl de = (dl, de).
Proof.
  intros H0 H. unfold add_deepest, depth_len in *.
  assert (E0 : Nat.eqb dl 0 = false) by (apply Nat.eqb_neq; exact H0).
  assert (E1 : Nat.ltb (String.length (ctext (err_basic err))) dl = false) by (apply Nat.ltb_ge; lia).
  assert (E2 : Nat.eqb dl (String.length (ctext (err_basic err))) = false) by (apply Nat.eqb_neq; lia).
  rewrite E0, E1, E2. reflexivity.
Qed.

(* at the same depth a type mismatch yields to whatever comes next, anything else is kept:
   a missing member or a failed function is preferred over a type mismatch *)
Lemma add_deepest_tie err dl old : (dl <> 0)%nat -> dl = depth_len err ->
  add_deepest err dl (Some old) = (dl, Some (if is_type_err old then err else old)).
Proof.
  intros H0 H. unfold add_deepest, depth_len in *.
  assert (E0 : Nat.eqb dl 0 = false) by (apply Nat.eqb_neq; exact H0).
  assert (E1 : Nat.ltb (String.length (ctext (err_basic err))) dl = false) by (apply Nat.ltb_ge; lia).
  assert (E2 : Nat.eqb dl (String.length (ctext (err_basic err))) = true) by (apply Nat.eqb_eq; exact H).
  rewrite E0, E1, E2. destruct old; reflexivity.
Qed.

Section Single.
  Variable ffun : string -> value -> option value.
  Variable afun : string -> list value -> option value.
  Variable regex_match : string -> string -> bool.
  Notation retrieve := (retrieve ffun afun regex_match).

  (* what the single-valued navigation steps report: the right kind, their own text, the Go type found *)
  Lemma name_step_missing key b next root l m c st : lookup m key = None ->
    retrieve (Node (KSingle key) b next) root (l, VObj m) c st = (c, Some (EMember b), st).
  Proof. intros H. rewrite retrieve_unfold. cbn [snd]. unfold EvalInv3.map_next. rewrite H. reflexivity. Qed.

  Lemma name_step_type key b next root l v c st : (forall m, v <> VObj m) ->
    retrieve (Node (KSingle key) b next) root (l, v) c st = (c, Some (EType b "object" (go_type v)), st).
  Proof. intros H. rewrite retrieve_unfold. cbn [snd]. destruct v; try reflexivity. contradiction (H m). reflexivity. Qed.

  Lemma subscript_step_type subs b next root l v c st : (forall xs, v <> VArr xs) ->
    retrieve (Node (KUnion subs) b next) root (l, v) c st = (c, Some (EType b "array" (go_type v)), st).
  Proof. intros H. rewrite retrieve_unfold. cbn [snd]. destruct v; try reflexivity. contradiction (H l0). reflexivity. Qed.
End Single.
