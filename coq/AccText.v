(* AccText.v — accessors from the path text (C13): the path that spells a location of the document returns, in accessor
   mode, one accessor whose location is that location, which holds exactly the returned value; writing there is read back
   and changes nothing elsewhere.  The outputs of functions carry no location. *)
From JP Require Import Peg Grammar Slice Text Tree Actions Json Eval WF Spec EvalInv1 EvalInv4 EvalTop EndToEnd KeyDefs ChainParse ChainAddr FunParse FunAddr.
Open Scope list_scope.

Lemma nav_chain_get_loc : forall steps doc v, nav_chain doc steps = Some v -> get_loc doc (map step_loc steps) = Some v.
Proof.
  induction steps as [|s r IH]; intros doc v H; cbn [nav_chain map get_loc] in *; [exact H|].
  destruct (nav doc s) as [x|] eqn:En; [|discriminate H].
  assert (Es : step_into doc (step_loc s) = Some x).
  { destruct s as [q k|k|ds|d|sa sb sc|u us]; cbn [nav step_loc] in *; destruct doc; try discriminate En; exact En. }
  rewrite Es. apply IH. exact H.
Qed.

Section AccText.
  Variable cfg : config.
  Variable parse_float : string -> option num.
  Variable regex_ok : string -> bool.
  Variable ffun : string -> value -> option value.
  Variable afun : string -> list value -> option value.
  Variable regex_match : string -> string -> bool.
  Hypothesis ffun_small : forall f v w, small v -> ffun f v = Some w -> small w.
  Hypothesis afun_small : forall f l w, Forall small l -> afun f l = Some w -> small w.
  Hypothesis acc_on : cfg_accessor cfg = true.
  Notation parse := (parse_with cfg parse_float regex_ok jsonpath_grammar).
  Notation eval_run := (eval_run ffun afun regex_match).

  Theorem accessor_at_location s r doc v st : forallb step_ok (s :: r) = true -> no_wild (s :: r) = true -> small doc -> ok st ->
    nav_chain doc (s :: r) = Some v ->
    let p := map step_loc (s :: r) in
    exists t, parse (chain_path (map RPlain (s :: r))) = ParseOk t /\
              fst (eval_run t doc st) = OOk [RAcc true (Some p) v] /\
              get_loc doc p = Some v /\
              (forall w, get_loc (set_loc doc p w) p = Some w) /\
              (forall w q, disjoint p q -> get_loc (set_loc doc p w) q = get_loc doc q).
  Proof.
    intros Hs Hw Hd Hok Hn p.
    destruct (chain_addressable cfg parse_float regex_ok ffun afun regex_match ffun_small afun_small s r doc v st Hs Hw Hd Hok Hn) as (t & Hp & He).
    exists t. split; [exact Hp|]. unfold chain_result in He. rewrite acc_on in He. split; [exact He|].
    pose proof (nav_chain_get_loc (s :: r) doc v Hn) as Hg. split; [exact Hg|]. split.
    - intros w. apply get_set_same. intros E. unfold p in E. rewrite Hg in E. discriminate E.
    - intros w q Hdis. apply get_set_other. exact Hdis.
  Qed.

  Theorem function_outputs_not_settable x r f fs doc st : forallb rstep_ok (x :: r) = true -> forallb fname_ok (f :: fs) = true ->
    forallb (fun_known cfg) (f :: fs) = true -> small doc -> ok st ->
    exists t, parse (chain_fun_path (x :: r) (f :: fs)) = ParseOk t /\
              forall rs, fst (eval_run t doc st) = OOk rs -> Forall (fun x0 => exists w, x0 = RAcc false None w) rs.
  Proof.
    intros Hs Hf Hk Hd Hok.
    destruct (chain_fun_retrieval cfg parse_float regex_ok ffun afun regex_match ffun_small afun_small x r f fs doc st Hs Hf Hk Hd Hok) as (t & Hp & He).
    exists t. split; [exact Hp|]. intros rs Hr.
    assert (Hall : Forall (fun x0 => exists w, x0 = RAcc false None w) (funs_all cfg ffun (f :: fs) (nav_all (x :: r) ([], doc)))).
    { unfold funs_all. apply Forall_forall. intros y Hy. apply in_flat_map in Hy. destruct Hy as [lv [_ Hy]].
      destruct (apply_funs ffun (f :: fs) (snd lv)) as [w|]; [|contradiction]. destruct Hy as [E|[]]. subst y. exists w.
      unfold fun_result. rewrite acc_on. reflexivity. }
    destruct (funs_all cfg ffun (f :: fs) (nav_all (x :: r) ([], doc))) as [|a l].
    - destruct He as [e He]. rewrite He in Hr. discriminate.
    - rewrite He in Hr. inversion Hr; subst. exact Hall.
  Qed.
End AccText.
