(* EvalInv4.v — containers (recursive descent) facts and the main mutual induction. *)
From JP Require Import Eval WF Verdict VerdictCompute SliceProofs EvalInv1 EvalInv2 EvalInv3.
From Coq Require Import Lia.
Open Scope string_scope.
Open Scope list_scope.

(* ---------- recursive descent: equations and cursors ---------- *)
Lemma containers_arr l xs :
  containers l (VArr xs) =
  (l, VArr xs) :: flat_map (fun iv => containers (ext_loc l (PIdx (fst iv))) (snd iv)) (index_list xs 0).
Proof.
  cbn [containers]. f_equal. generalize 0%Z.
  induction xs as [|x xs IH]; intros z; cbn [index_list flat_map fst snd]; [reflexivity|].
  rewrite IH. reflexivity.
Qed.

Lemma containers_obj l m :
  containers l (VObj m) =
  (l, VObj m) :: flat_map (fun k => match lookup m k with
                                    | Some x => containers (ext_loc l (PKey k)) x
                                    | None => []
                                    end) (sorted_keys m).
Proof.
  cbn [containers]. f_equal. apply flat_map_ext. intros k.
  induction m as [|[k' x] m IH]; cbn [lookup]; [reflexivity|].
  destruct (String.eqb k k'); [reflexivity|exact IH].
Qed.

Lemma lookup_in m k x : lookup m k = Some x -> exists k', In (k', x) m.
Proof.
  induction m as [|[k' a] m IH]; cbn [lookup]; intros H; [discriminate|].
  destruct (String.eqb k k').
  - inversion H; subst. exists k'. left. reflexivity.
  - destruct (IH H) as [k2 H2]. exists k2. right. exact H2.
Qed.

Lemma containers_cur_ok root : forall v l, cur_ok root (l, v) ->
  forall cu, In cu (containers l v) -> cur_ok root cu /\ is_container (snd cu) = true.
Proof.
  induction v as [|b|x|s x|s|xs IH|m IH|t i s] using value_ind_strong; intros l Hc cu Hin;
    try (cbn [containers] in Hin; contradiction).
  - rewrite containers_arr in Hin. destruct Hin as [<-|Hin]; [split; [exact Hc|reflexivity]|].
    apply in_flat_map in Hin. destruct Hin as [[i x] [Hix Hin]]. cbn [fst snd] in Hin.
    pose proof (index_list_step xs i x Hix) as Hstep.
    rewrite Forall_forall in IH.
    apply (IH x (nth_value_in _ _ _ Hstep) (ext_loc l (PIdx i))); [|exact Hin].
    apply (cur_ok_ext root (l, VArr xs) (PIdx i) x Hc Hstep).
  - rewrite containers_obj in Hin. destruct Hin as [<-|Hin]; [split; [exact Hc|reflexivity]|].
    apply in_flat_map in Hin. destruct Hin as [k [Hk Hin]].
    destruct (lookup m k) as [x|] eqn:El; [|contradiction].
    destruct (lookup_in m k x El) as [k' Hk'].
    rewrite Forall_forall in IH.
    apply (IH (k', x) Hk' (ext_loc l (PKey k))); [|exact Hin].
    apply (cur_ok_ext root (l, VObj m) (PKey k) x Hc). exact El.
Qed.

(* ---------- sorted keys ---------- *)
Lemma in_insert_key k x l : In x (insert_key k l) <-> x = k \/ In x l.
Proof.
  induction l as [|y l IH]; cbn [insert_key].
  - cbn. intuition.
  - destruct (String.leb k y); cbn [In]; [intuition|]. rewrite IH. intuition.
Qed.
Lemma in_sort_keys x l : In x (sort_keys l) <-> In x l.
Proof.
  unfold sort_keys. induction l as [|y l IH]; cbn [fold_right]; [reflexivity|].
  rewrite in_insert_key, IH. cbn [In]. intuition.
Qed.
Lemma lookup_of_key m k : In k (map fst m) -> exists v, lookup m k = Some v.
Proof.
  induction m as [|[k' a] m IH]; cbn [map fst In lookup]; [contradiction|].
  intros [->|H].
  - rewrite String.eqb_refl. exists a. reflexivity.
  - destruct (String.eqb k k'); [exists a; reflexivity|apply IH; exact H].
Qed.
Lemma sorted_keys_lookup m k : In k (sorted_keys m) -> exists v, lookup m k = Some v.
Proof. unfold sorted_keys. rewrite in_sort_keys. apply lookup_of_key. Qed.

Lemma member_values_length m : forall ks, (forall k, In k ks -> exists v, lookup m k = Some v) ->
  List.length (flat_map (fun k => match lookup m k with Some v => [v] | None => [] end) ks) = List.length ks.
Proof.
  induction ks as [|k ks IH]; intros H; cbn [flat_map]; [reflexivity|].
  destruct (H k (or_introl eq_refl)) as [v Hv]. rewrite Hv. cbn [app List.length].
  rewrite IH; [reflexivity|]. intros k' Hk'. apply H. right. exact Hk'.
Qed.
Lemma member_values_small m : small (VObj m) -> forall ks,
  Forall small (flat_map (fun k => match lookup m k with Some v => [v] | None => [] end) ks).
Proof.
  intros Hs. induction ks as [|k ks IH]; cbn [flat_map]; [constructor|].
  apply Forall_app. split; [|exact IH].
  destruct (lookup m k) as [v|] eqn:El; [|constructor]. constructor; [|constructor].
  eapply small_obj_lookup; eassumption.
Qed.
Lemma small_arr_forall xs : small (VArr xs) -> Forall small xs.
Proof. intros H. apply Forall_forall. intros x Hx. eapply small_arr_in; eassumption. Qed.

Lemma nth_value_some : forall xs i, (0 <= i < Z.of_nat (List.length xs))%Z -> exists v, nth_value xs i = Some v.
Proof.
  induction xs as [|x xs IH]; intros i Hi; cbn [List.length] in Hi; [lia|]. cbn [nth_value].
  destruct (i =? 0)%Z eqn:E0; [exists x; reflexivity|].
  destruct (i <? 0)%Z eqn:E1; [lia|]. apply IH. lia.
Qed.

Lemma index_list_length : forall xs z, List.length (index_list xs z) = List.length xs.
Proof. induction xs as [|x xs IH]; intros z; cbn [index_list List.length]; [reflexivity|]. rewrite IH. reflexivity. Qed.

Lemma sub_okb_built s : sub_okb s = true -> sub_built s.
Proof.
  destruct s as [n|st en sp|st en sp|]; cbn [sub_okb sub_built]; intros H.
  - unfold in64b in H. unfold in64. lia.
  - repeat (apply andb_true_iff in H; destruct H as [H ?]).
    exists sp. unfold idx_okb, in64b in *. unfold idx_ok, in64. repeat split; try lia.
    unfold mk_slice. destruct (omitted sp) eqn:Eo.
    + cbn [number]. assert (number sp = 1%Z) by lia. destruct sp as [num om]. cbn in *. subst. reflexivity.
    + rewrite H1. reflexivity.
  - repeat (apply andb_true_iff in H; destruct H as [H ?]).
    exists sp. unfold idx_okb, in64b in *. unfold idx_ok, in64. repeat split; try lia.
    unfold mk_slice. apply negb_true_iff in H0. rewrite H0. apply negb_true_iff in H1. rewrite H1. reflexivity.
  - exact I.
Qed.

Section Main.
  Variable ffun : string -> value -> option value.
  Variable afun : string -> list value -> option value.
  Variable regex_match : string -> string -> bool.
  (* user functions return values that fit in memory *)
  Hypothesis ffun_small : forall f v w, small v -> ffun f v = Some w -> small w.
  Hypothesis afun_small : forall f l w, Forall small l -> afun f l = Some w -> small w.

  Notation retrieve := (retrieve ffun afun regex_match).
  Notation retrieve_ids := (retrieve_ids ffun afun regex_match).
  Notation compute := (compute ffun afun regex_match).
  Notation compute_p := (compute_p ffun afun regex_match).
  Notation fwd := (fwd ffun afun regex_match).
  Notation map_next := (map_next ffun afun regex_match).
  Notation list_next := (list_next ffun afun regex_match).
  Notation post := (post).

  Definition P_node (n : node) : Prop :=
    wf_node n = true ->
    (forall root cur, small root -> cur_ok root cur -> step_ok root (retrieve n root cur)) /\
    (single_chain n = true -> forall root cur, step_single (retrieve n root cur)).
  Definition P_onode (o : onode) : Prop := match o with OSome n => P_node n | ONone => True end.
  Definition P_nodes (ids : nodes) : Prop :=
    wf_nodes ids = true -> forall m root cur c0 st0 s, small root -> cur_ok root cur -> ok st0 ->
    linv root c0 st0 s -> linv root c0 st0 (retrieve_ids ids m root cur s).
  Definition qpost (n : nat) (st : estate) (out : lval * estate) : Prop :=
    let '(L, st') := out in frame st st' /\ vl_ok n (lget st' L).
  Definition P_query (q : query) : Prop :=
    wf_query q = true -> forall root vals st, small root -> Forall small vals -> ok st ->
    qpost (List.length vals) st (compute q root vals st).
  Definition P_pquery (p : pquery) : Prop :=
    wf_pquery p = true -> forall root vals st, small root -> Forall small vals -> ok st ->
    let '(L, st') := compute_p p root vals st in
    frame st st' /\ vl_ok (List.length vals) (lget st' L) /\
    (L = GFull -> match p with PqRoot n => single_chain n = false | _ => False end) /\
    (match p with PqCur _ => True | _ => List.length (lget st' L) = 1%nat end).
  Definition P_cparam (cp : cparam) : Prop := match cp with CP p _ => P_pquery p end.
  Definition P_kind (k : kind) : Prop :=
    match k with
    | KMulti ids _ uq => P_nodes ids /\ P_onode uq
    | KFilter q => P_query q
    | KAgg _ param => P_node param
    | _ => True
    end.

  Definition wf_onode (o : onode) : bool := match o with OSome m => wf_node m | ONone => true end.
  Definition single_onode (o : onode) : bool := match o with OSome m => single_chain m | ONone => true end.

  Lemma post_error root c st e : post root c st (c, Some e, st).
  Proof.
    split; [apply frame_refl|]. exists []. rewrite app_nil_r. split; [reflexivity|].
    split; [reflexivity|]. split; [intros H; discriminate|constructor].
  Qed.

  Lemma fwd_ok b next root settable cur' :
    P_onode next -> wf_onode next = true -> small root -> cur_ok root cur' ->
    step_ok root (fwd b next root settable cur').
  Proof.
    intros IH Hwf Hr Hc c st Hok. unfold EvalInv3.fwd. destruct next as [|nx].
    - split; [apply frame_refl|]. unfold append_res.
      destruct (accessor b).
      + eexists. split; [reflexivity|]. split; [intros H; contradiction H; reflexivity|].
        split; [intros _ H; apply app_eq_nil in H; destruct H; discriminate|].
        constructor; [|constructor]. destruct Hc as [Hc Hsm]. split; [|exact Hsm].
        destruct settable; [|exact I]. destruct (fst cur'); [exact Hc|exact I].
      + eexists. split; [reflexivity|]. split; [intros H; contradiction H; reflexivity|].
        split; [intros _ H; apply app_eq_nil in H; destruct H; discriminate|].
        constructor; [split; [exact I|apply Hc]|constructor].
    - apply (proj1 (IH Hwf) root cur' Hr Hc); assumption.
  Qed.

  Lemma fwd_single b next root settable cur' :
    P_onode next -> wf_onode next = true -> single_onode next = true ->
    step_single (fwd b next root settable cur').
  Proof.
    intros IH Hwf Hs c st. unfold EvalInv3.fwd. destruct next as [|nx].
    - cbn [fst]. unfold append_res. destruct (accessor b); rewrite app_length; cbn; lia.
    - apply (proj2 (IH Hwf) Hs root cur').
  Qed.

  Lemma map_next_ok b next root cur m key :
    P_onode next -> wf_onode next = true -> small root -> cur_ok root cur -> snd cur = VObj m ->
    step_ok root (map_next b next root cur m key).
  Proof.
    intros IH Hwf Hr Hc Hm c st Hok. unfold EvalInv3.map_next.
    destruct (lookup m key) as [v|] eqn:El; [|apply post_error].
    apply fwd_ok; try assumption. apply cur_ok_ext; [exact Hc|]. rewrite Hm. exact El.
  Qed.

  Lemma list_next_ok b next root cur xs iv :
    P_onode next -> wf_onode next = true -> small root -> cur_ok root cur -> snd cur = VArr xs ->
    step_into (VArr xs) (PIdx (fst iv)) = Some (snd iv) ->
    step_ok root (list_next b next root cur iv).
  Proof.
    intros IH Hwf Hr Hc Hm Hs. unfold EvalInv3.list_next.
    apply fwd_ok; try assumption. apply cur_ok_ext; [exact Hc|]. rewrite Hm. exact Hs.
  Qed.

  Lemma post_frame root c st st1 out : frame st st1 -> post root c st1 out -> post root c st out.
  Proof.
    intros Hf. destruct out as [[c' e] st']. intros [Hf' H]. split; [eapply frame_trans; eassumption|exact H].
  Qed.
  Lemma post_error_framed root c st st1 e : frame st st1 -> post root c st (c, Some e, st1).
  Proof. intros Hf. eapply post_frame; [exact Hf|apply post_error]. Qed.

  (* ---------- the value-producing node kinds ---------- *)
  Lemma wild_ok b next root cur :
    P_onode next -> wf_onode next = true -> small root -> cur_ok root cur ->
    forall c st, ok st ->
    post root c st (match snd cur with
                    | VObj m => run_loop b (map_next b next root cur m) (sorted_keys m) c st
                    | VArr xs => run_loop b (list_next b next root cur) (index_list xs 0) c st
                    | v => (c, Some (EType b "object/array" (go_type v)), st)
                    end).
  Proof.
    intros IH Hwf Hr Hc c st Hok. destruct (snd cur) eqn:E; try apply post_error.
    - apply run_loop_ok; [|exact Hok]. intros [i v] Hin. eapply list_next_ok; try eassumption.
      apply index_list_step. exact Hin.
    - apply run_loop_ok; [|exact Hok]. intros k Hin. eapply map_next_ok; eassumption.
  Qed.

  Lemma union_ok b next root cur xs subs :
    P_onode next -> wf_onode next = true -> small root -> cur_ok root cur -> snd cur = VArr xs ->
    forallb sub_okb subs = true ->
    forall c st, ok st ->
    post root c st (loop_finish b (fold_left (union_outer ffun afun regex_match b next root cur xs) subs (c, 0%nat, None, st))).
  Proof.
    intros IH Hwf Hr Hc Hx Hsubs c st Hok. apply linv_finish. apply fold_linv; [|apply linv_init].
    intros s sub Hin Hs. unfold union_outer.
    rewrite forallb_forall in Hsubs. pose proof (sub_okb_built sub (Hsubs sub Hin)) as Hb.
    assert (Hlen : (0 <= Z.of_nat (List.length xs) < two62)%Z).
    { apply small_arr_len. destruct Hc as [_ Hsm]. rewrite Hx in Hsm. exact Hsm. }
    destruct (get_indexes_total sub _ Hlen Hb) as [idxs [Hg Hrange]]. rewrite Hg.
    apply fold_linv; [|exact Hs].
    intros s' i Hi Hs'. unfold union_inner. destruct s' as [[[c' dl] de] st'].
    destruct (nth_value_some xs i (Hrange i Hi)) as [v Hv]. rewrite Hv.
    apply (linv_step root c st (c', dl, de, st') (list_next b next root cur (i, v)) Hok Hs').
    eapply list_next_ok; try eassumption.
  Qed.

  Lemma rec_ok b nx mr lr root cur :
    P_node nx -> wf_node nx = true -> small root -> cur_ok root cur ->
    step_ok root (run_loop b (rec_step ffun afun regex_match nx mr lr root) (containers (fst cur) (snd cur))).
  Proof.
    intros IH Hwf Hr Hc. apply run_loop_ok'. intros cu Hin c st Hok.
    destruct cur as [l v]. cbn [fst snd] in Hin.
    destruct (containers_cur_ok root v l Hc cu Hin) as [Hcu _].
    unfold rec_step. destruct (snd cu) eqn:E; try (right; reflexivity).
    - destruct lr; [left; apply (proj1 (IH Hwf) root cu Hr Hcu); exact Hok|right; reflexivity].
    - destruct mr; [left; apply (proj1 (IH Hwf) root cu Hr Hcu); exact Hok|right; reflexivity].
  Qed.

  Lemma filter_ok b next root cur q :
    P_query q -> wf_query q = true -> P_onode next -> wf_onode next = true -> small root -> cur_ok root cur ->
    forall c st, ok st ->
    post root c st
      (match snd cur with
       | VObj m =>
           let keys := sorted_keys m in
           let vals := flat_map (fun k => match lookup m k with Some v => [v] | None => [] end) keys in
           let '(lv, st1) := compute q root vals st in
           filter_loop b (map_next b next root cur m) keys lv c st1
       | VArr xs =>
           let '(lv, st1) := compute q root xs st in
           filter_loop b (list_next b next root cur) (index_list xs 0) lv c st1
       | v => (c, Some (EType b "object/array" (go_type v)), st)
       end).
  Proof.
    intros IHq Hwq IH Hwf Hr Hc c st Hok. destruct (snd cur) eqn:E; try apply post_error.
    - (* array *)
      assert (Hsm : Forall small l) by (apply small_arr_forall; destruct Hc as [_ H]; rewrite E in H; exact H).
      pose proof (IHq Hwq root l st Hr Hsm Hok) as Hq. unfold qpost in Hq.
      destruct (compute q root l st) as [lv st1]. destruct Hq as [Hfr Hvl].
      eapply post_frame; [exact Hfr|].
      apply filter_loop_ok; [| eapply ok_frame; eassumption |].
      + intros [i v] Hin. eapply list_next_ok; try eassumption. apply index_list_step. exact Hin.
      + rewrite index_list_length. exact Hvl.
    - (* object *)
      cbv zeta.
      set (keys := sorted_keys m).
      set (vals := flat_map (fun k => match lookup m k with Some v => [v] | None => [] end) keys).
      assert (Hsm : Forall small vals) by (apply member_values_small; destruct Hc as [_ H]; rewrite E in H; exact H).
      pose proof (IHq Hwq root vals st Hr Hsm Hok) as Hq. unfold qpost in Hq.
      destruct (compute q root vals st) as [lv st1]. destruct Hq as [Hfr Hvl].
      eapply post_frame; [exact Hfr|].
      apply filter_loop_ok; [| eapply ok_frame; eassumption |].
      + intros k Hin. eapply map_next_ok; eassumption.
      + unfold vals in Hvl. rewrite member_values_length in Hvl; [exact Hvl|].
        intros k Hk. apply sorted_keys_lookup. exact Hk.
  Qed.

  Lemma res_value_small root x : loc_ok root x -> small (res_value x).
  Proof. destruct x as [v|se w v]; cbn [res_value]; intros [_ H]; [exact H|exact I]. Qed.

  Lemma node_step_ok k b next : P_kind k -> P_onode next -> wf_node (Node k b next) = true ->
    forall root cur, small root -> cur_ok root cur -> step_ok root (retrieve (Node k b next) root cur).
  Proof.
    intros IHk IHn Hwf root cur Hr Hc c st Hok.
    cbn [wf_node] in Hwf. apply andb_true_iff in Hwf. destruct Hwf as [Hk Hnx].
    change (match next with OSome m => wf_node m | ONone => true end) with (wf_onode next) in Hnx.
    rewrite retrieve_unfold. destruct k as [| |key| |ids aw uq|mr lr|subs|q|f|f param].
    - apply fwd_ok; try assumption. apply cur_ok_root. exact Hr.
    - apply fwd_ok; assumption.
    - destruct (snd cur) eqn:E; try apply post_error. eapply map_next_ok; eassumption.
    - apply wild_ok; assumption.
    - (* multi *)
      destruct IHk as [IHids IHuq]. apply andb_true_iff in Hk. destruct Hk as [Hids Huq].
      destruct (snd cur) eqn:E; try (destruct aw; apply post_error).
      + destruct aw; [|apply post_error].
        destruct uq as [|u]; [discriminate|]. apply (proj1 (IHuq Huq) root cur Hr Hc). exact Hok.
      + assert (Hl : post root c st (loop_finish b (retrieve_ids ids m root cur (c, 0%nat, None, st)))).
        { apply linv_finish. apply IHids; try assumption. apply linv_init. }
        destruct aw; exact Hl.
    - (* recursive descent *)
      destruct (is_container (snd cur)); [|apply post_error].
      destruct next as [|nx]; [discriminate|]. apply rec_ok; assumption.
    - destruct (snd cur) eqn:E; try apply post_error. eapply union_ok; eassumption.
    - apply filter_ok; assumption.
    - (* filter function *)
      cbv zeta. destruct (ffun f (snd cur)) as [v|] eqn:Ef.
      + assert (Hok1 : ok (log_call (CallF f (snd cur)) st)) by (eapply ok_frame; [exact Hok|apply frame_log_call]).
        eapply post_frame; [apply frame_log_call|].
        apply fwd_ok; try assumption.
        apply cur_ok_none. eapply ffun_small; [|exact Ef]. apply Hc.
      + apply post_error_framed. apply frame_log_call.
    - (* aggregate function *)
      pose proof (proj1 (IHk Hk) root cur Hr Hc) as Hp. specialize (Hp [] st Hok). unfold EvalInv3.post in Hp.
      destruct (retrieve param root cur [] st) as [[vals e] st1].
      destruct Hp as [Hfr [r [Hvals [He1 [He2 Hloc]]]]]. cbn [app] in Hvals. subst r.
      destruct e as [err|]; [apply post_error_framed; exact Hfr|].
      specialize (He2 eq_refl). cbv zeta.
      set (plain := map res_value vals).
      assert (Hst2 : (if vgroup (node_basic param) then st1
                      else match vals with [] => set_panic "aggregate: values.result[0]" st1 | _ => st1 end) = st1).
      { destruct (vgroup (node_basic param)); [reflexivity|]. destruct vals; [contradiction He2; reflexivity|reflexivity]. }
      rewrite Hst2.
      set (args := if vgroup (node_basic param) then plain
                   else match plain with VArr xs :: _ => xs | _ => plain end).
      assert (Hplain : Forall small plain).
      { unfold plain. apply Forall_forall. intros v Hv. apply in_map_iff in Hv. destruct Hv as [x [<- Hx]].
        rewrite Forall_forall in Hloc. eapply res_value_small. apply Hloc. exact Hx. }
      assert (Hargs : Forall small args).
      { unfold args. destruct (vgroup (node_basic param)); [exact Hplain|].
        destruct plain as [|v0 rest]; [exact Hplain|]. destruct v0; try exact Hplain.
        apply small_arr_forall. inversion Hplain; assumption. }
      assert (Hfr3 : frame st (log_call (CallA f args) st1)) by (eapply frame_trans; [exact Hfr|apply frame_log_call]).
      destruct (afun f args) as [v|] eqn:Ea.
      + assert (Hok3 : ok (log_call (CallA f args) st1)) by (eapply ok_frame; eassumption).
        eapply post_frame; [exact Hfr3|].
        apply fwd_ok; try assumption.
        apply cur_ok_none. eapply afun_small; eassumption.
      + apply post_error_framed. exact Hfr3.
  Qed.

  (* ---------- single-valued chains append at most one result ---------- *)
  Definition lcont (s : lstate) : cont := fst (fst (fst s)).
  Lemma loop_finish_cont b s : fst (fst (loop_finish b s)) = lcont s.
  Proof. destruct s as [[[c dl] de] st]. unfold loop_finish, lcont. destruct c; reflexivity. Qed.
  Lemma loop_step_cont out dl de : lcont (loop_step out dl de) = fst (fst out).
  Proof.
    destruct out as [[c e] st]. unfold loop_step, lcont. destruct e; [|reflexivity].
    destruct c; [|reflexivity]. destruct (add_deepest r dl de). reflexivity.
  Qed.

  Lemma node_single k b next : P_kind k -> P_onode next -> wf_node (Node k b next) = true ->
    single_chain (Node k b next) = true -> forall root cur, step_single (retrieve (Node k b next) root cur).
  Proof.
    intros IHk IHn Hwf Hs root cur c st.
    cbn [wf_node] in Hwf. apply andb_true_iff in Hwf. destruct Hwf as [Hk Hnx].
    change (match next with OSome m => wf_node m | ONone => true end) with (wf_onode next) in Hnx.
    cbn [single_chain] in Hs. apply andb_true_iff in Hs. destruct Hs as [Hsk Hsn].
    change (match next with ONone => true | OSome m => single_chain m end) with (single_onode next) in Hsn.
    rewrite retrieve_unfold. destruct k as [| |key| |ids aw uq|mr lr|subs|q|f|f param]; try discriminate.
    - apply fwd_single; assumption.
    - apply fwd_single; assumption.
    - destruct (snd cur) eqn:E; try (cbn [fst]; lia).
      unfold EvalInv3.map_next. destruct (lookup m key) eqn:El; [|cbn [fst]; lia].
      apply fwd_single; assumption.
    - (* [n] *)
      destruct subs as [|[n| | |] [|s2 rest]]; try discriminate.
      destruct (snd cur) eqn:E; try (cbn [fst]; lia).
      rewrite loop_finish_cont. cbn [fold_left]. unfold union_outer.
      cbn [get_indexes]. unfold get_indexes_index.
      destruct ((_ <? 0)%Z || (_ >=? _)%Z); cbn [fold_left]; [unfold lcont; cbn [fst]; lia|].
      unfold union_inner. destruct (nth_value l _) as [v|] eqn:En; [|unfold lcont; cbn [fst]; lia].
      rewrite loop_step_cont. unfold EvalInv3.list_next. apply fwd_single; assumption.
    - cbv zeta. destruct (ffun f (snd cur)) as [v|] eqn:Ef; [|cbn [fst]; lia].
      apply fwd_single; assumption.
    - destruct (retrieve param root cur [] st) as [[vals e] st1] eqn:Ep.
      destruct e as [err|]; [cbn [fst]; lia|]. cbv zeta.
      match goal with |- context [afun f ?a] => destruct (afun f a) as [v|] eqn:Ea end; [|cbn [fst]; lia].
      apply fwd_single; assumption.
  Qed.

  (* ---------- multi-name selector loop ---------- *)
  Lemma nodes_case id rest : P_node id -> P_nodes rest -> P_nodes (NCons id rest).
  Proof.
    intros IHid IHrest Hwf m root cur c0 st0 s Hr Hc Hok Hs.
    cbn [wf_nodes] in Hwf. apply andb_true_iff in Hwf. destruct Hwf as [Hwid Hwrest].
    rewrite retrieve_ids_unfold. destruct s as [[[c dl] de] st]. cbv zeta.
    match goal with |- context [if ?sk then _ else _] => destruct sk end.
    - apply IHrest; assumption.
    - apply IHrest; try assumption.
      apply (linv_step root c0 st0 (c, dl, de, st) (retrieve id root cur) Hok Hs).
      apply (proj1 (IHid Hwid) root cur Hr Hc).
  Qed.

  (* ---------- queries ---------- *)
  Lemma frame_good st st' : good st -> frame st st' -> good st'.
  Proof. intros [A B] (C & D & _). split; congruence. Qed.

  Lemma query_and a b : P_query a -> P_query b -> P_query (QAnd a b).
  Proof.
    intros IHa IHb Hwf root vals st Hr Hv Hok.
    cbn [wf_query] in Hwf. apply andb_true_iff in Hwf. destruct Hwf as [Hwa Hwb].
    pose proof (IHa Hwa root vals st Hr Hv Hok) as Ha. unfold qpost in *.
    destruct (compute a root vals st) as [L st1] eqn:Ea. destruct Ha as [Hf1 Hv1].
    assert (Hok1 : ok st1) by (eapply ok_frame; eassumption).
    pose proof (IHb Hwb root vals st1 Hr Hv Hok1) as Hb.
    destruct (compute b root vals st1) as [R st2] eqn:Eb. destruct Hb as [Hf2 Hv2].
    assert (Hok2 : ok st2) by (eapply ok_frame; eassumption).
    destruct (compute (QAnd a b) root vals st) as [X st3] eqn:Eab.
    destruct (compute_and ffun afun regex_match _ a b root vals st L st1 R st2 X st3 Ea Eb Eab (proj1 Hok1) (proj1 Hok2) Hv1 Hv2)
      as [HX [_ [->| ->]]]; (split; [|rewrite HX; apply vl_ok_and; assumption]).
    - exact Hf1.
    - eapply frame_trans; eassumption.
  Qed.

  Lemma query_or a b : P_query a -> P_query b -> P_query (QOr a b).
  Proof.
    intros IHa IHb Hwf root vals st Hr Hv Hok.
    cbn [wf_query] in Hwf. apply andb_true_iff in Hwf. destruct Hwf as [Hwa Hwb].
    pose proof (IHa Hwa root vals st Hr Hv Hok) as Ha. unfold qpost in *.
    destruct (compute a root vals st) as [L st1] eqn:Ea. destruct Ha as [Hf1 Hv1].
    assert (Hok1 : ok st1) by (eapply ok_frame; eassumption).
    pose proof (IHb Hwb root vals st1 Hr Hv Hok1) as Hb.
    destruct (compute b root vals st1) as [R st2] eqn:Eb. destruct Hb as [Hf2 Hv2].
    assert (Hok2 : ok st2) by (eapply ok_frame; eassumption).
    destruct (compute (QOr a b) root vals st) as [X st3] eqn:Eab.
    destruct (compute_or ffun afun regex_match _ a b root vals st L st1 R st2 X st3 Ea Eb Eab (proj1 Hok1) (proj1 Hok2) Hv1 Hv2)
      as [HX [_ [->| ->]]]; (split; [|rewrite HX; apply vl_ok_or; assumption]).
    - exact Hf1.
    - eapply frame_trans; eassumption.
  Qed.

  Lemma query_not a : P_query a -> P_query (QNot a).
  Proof.
    intros IHa Hwf root vals st Hr Hv Hok. cbn [wf_query] in Hwf.
    pose proof (IHa Hwf root vals st Hr Hv Hok) as Ha. unfold qpost in *.
    destruct (compute a root vals st) as [L st1] eqn:Ea. destruct Ha as [Hf1 Hv1].
    assert (Hok1 : ok st1) by (eapply ok_frame; eassumption).
    destruct (compute (QNot a) root vals st) as [X st2] eqn:En.
    destruct (compute_not ffun afun regex_match _ a root vals st L st1 X st2 Ea En (proj1 Hok1) Hv1) as [HX [_ ->]].
    split; [exact Hf1|]. rewrite HX. apply vl_ok_not. exact Hv1.
  Qed.

  (* ---------- operands ---------- *)
  Definition pcur_step (n : node) (root : value) (acc : list entry * bool * estate) (v : value) : list entry * bool * estate :=
    let '(result, hv, st) := acc in
    let '(c, e, st1) := retrieve n root (None, v) [] st in
    match e with
    | Some _ => (result ++ [None], hv, st1)
    | None =>
        match c with
        | r :: _ => (result ++ [Some (res_value r)], true, st1)
        | [] => (result ++ [None], true, set_panic "param: container.result[0]" st1)
        end
    end.
  Lemma compute_p_cur_eq n root vals st :
    compute_p (PqCur n) root vals st =
    let '(result, hv, st') := fold_left (pcur_step n root) vals ([], false, st) in
    if hv then (Own result, st') else (GEmpty, st').
  Proof. reflexivity. Qed.
  Lemma compute_p_root_eq n root vals st :
    compute_p (PqRoot n) root vals st =
    let '(c, e, st1) := retrieve n root (Some [], root) [] st in
    match e with
    | Some _ => (GEmpty, st1)
    | None => match c with [r] => (Own [Some (res_value r)], st1) | _ => (GFull, st1) end
    end.
  Proof. reflexivity. Qed.

  Lemma pquery_cur n : P_node n -> P_pquery (PqCur n).
  Proof.
    intros IH Hwf root vals st Hr Hv Hok. cbn [wf_pquery] in Hwf. rewrite compute_p_cur_eq.
    assert (Hfold : forall vs acc, Forall small vs ->
              (let '(res, hv, st') := acc in frame st st') ->
              let '(res, hv, st') := acc in
              let '(res2, hv2, st2) := fold_left (pcur_step n root) vs acc in
              frame st st2 /\ List.length res2 = (List.length res + List.length vs)%nat).
    { induction vs as [|v vs IHvs]; intros [[res hv] st'] Hsm Hacc; cbn [fold_left].
      - split; [exact Hacc|cbn; lia].
      - inversion Hsm as [|? ? Hv0 Hvs]; subst.
        assert (Hok' : ok st') by (eapply ok_frame; eassumption).
        pose proof (proj1 (IH Hwf) root (None, v) Hr (cur_ok_none root v Hv0) [] st' Hok') as Hp.
        unfold pcur_step at 2. unfold EvalInv3.post in Hp.
        destruct (retrieve n root (None, v) [] st') as [[c e] st1]. destruct Hp as [Hfr [r [Hc [He1 [He2 _]]]]].
        assert (Hfr1 : frame st st1) by (eapply frame_trans; eassumption).
        destruct e as [err|].
        + specialize (IHvs (res ++ [None], hv, st1) Hvs Hfr1). cbv beta iota in IHvs.
          destruct (fold_left (pcur_step n root) vs (res ++ [None], hv, st1)) as [[res2 hv2] st2].
          destruct IHvs as [A B]. split; [exact A|]. rewrite B, app_length. cbn. lia.
        + destruct c as [|x c']; [contradiction (He2 eq_refl); reflexivity|].
          specialize (IHvs (res ++ [Some (res_value x)], true, st1) Hvs Hfr1). cbv beta iota in IHvs.
          destruct (fold_left (pcur_step n root) vs (res ++ [Some (res_value x)], true, st1)) as [[res2 hv2] st2].
          destruct IHvs as [A B]. split; [exact A|]. rewrite B, app_length. cbn. lia. }
    specialize (Hfold vals ([], false, st) Hv (frame_refl st)). cbv beta iota in Hfold.
    destruct (fold_left (pcur_step n root) vals ([], false, st)) as [[res hv] st'].
    destruct Hfold as [Hfr Hlen]. cbn [List.length plus] in Hlen.
    destruct hv.
    - split; [exact Hfr|]. split; [left; exact Hlen|]. split; [discriminate|exact I].
    - split; [exact Hfr|]. split; [|split; [discriminate|exact I]].
      right. cbn [lget]. destruct (ok_frame _ _ Hok Hfr) as [[G _] _]. rewrite G. reflexivity.
  Qed.

  Lemma pquery_root n : P_node n -> P_pquery (PqRoot n).
  Proof.
    intros IH Hwf root vals st Hr Hv Hok. cbn [wf_pquery] in Hwf. rewrite compute_p_root_eq.
    pose proof (proj1 (IH Hwf) root (Some [], root) Hr (cur_ok_root root Hr) [] st Hok) as Hp.
    pose proof (proj2 (IH Hwf)) as Hs.
    unfold EvalInv3.post in Hp. unfold step_single in Hs.
    destruct (retrieve n root (Some [], root) [] st) as [[c e] st1] eqn:Er.
    destruct Hp as [Hfr [r [Hc [He1 [He2 _]]]]].
    destruct (ok_frame _ _ Hok Hfr) as [[Ge Gf] _].
    destruct e as [err|].
    - split; [exact Hfr|]. cbn [lget]. rewrite Ge. split; [right; reflexivity|]. split; [discriminate|reflexivity].
    - destruct c as [|x [|y c']].
      + contradiction (He2 eq_refl). reflexivity.
      + split; [exact Hfr|]. cbn [lget]. split; [right; reflexivity|]. split; [discriminate|reflexivity].
      + split; [exact Hfr|]. cbn [lget]. rewrite Gf. split; [right; reflexivity|]. split; [|reflexivity].
        intros _. destruct (single_chain n) eqn:Es; [|reflexivity].
        specialize (Hs eq_refl root (Some [], root) [] st). rewrite Er in Hs. cbn in Hs. lia.
  Qed.

  Lemma pquery_lit v : P_pquery (PqLit v).
  Proof.
    intros _ root vals st Hr Hv Hok. cbn [compute_p]. split; [apply frame_refl|].
    split; [right; reflexivity|]. split; [discriminate|reflexivity].
  Qed.

  Lemma compute_cmp_eq lp ll rp rl cmp root vals st :
    compute (QCmp (CP lp ll) (CP rp rl) cmp) root vals st =
    let '(L, st1) := compute_p lp root vals st in
    let '(lf, L1, st2) := validate cmp L st1 in
    let '(R, st3) := compute_p rp root vals st2 in
    let '(rf, R1, st4) := validate cmp R st3 in
    if lf && rf then
      let rl := lget st4 R1 in
      let st5 := match rl with [] => set_panic "compare: rightValues[0]" st4 | _ => st4 end in
      let '(hv, L2, st6) := comparator_run regex_match cmp L1 (hd_entry rl) st5 in
      if hv then (L2, st6) else (GEmpty, st6)
    else if Bool.eqb lf rf then
      match cmp with
      | CDeepEq => (GFull, st4)
      | _ => (GEmpty, st4)
      end
    else (GEmpty, st4).
  Proof. reflexivity. Qed.

  (* what validate does to an operand list that is not the package-level full list *)
  Lemma validate_facts cmp L st : good st -> L <> GFull ->
    exists lf L1, validate cmp L st = (lf, L1, st) /\
      List.length (lget st L1) = List.length (lget st L) /\
      (lf = true -> exists l1, L1 = Own l1 /\
          Forall (fun x => match validator_of cmp with Some vd => validated vd x | None => True end) l1) /\
      (lf = true -> List.length (lget st L) = 1%nat -> exists v, L1 = Own [Some v]) /\
      L1 <> GFull.
  Proof.
    intros Hg Hn. destruct L as [l| |]; [| |contradiction Hn; reflexivity].
    - destruct (validate_own cmp l st) as [l' [Hv [Hl [Hval H1]]]].
      eexists _, (Own l'). split; [exact Hv|]. cbn [lget]. split; [exact Hl|].
      split; [intros _; exists l'; split; [reflexivity|exact Hval]|].
      split; [intros Hlf H1'; destruct (H1 H1' Hlf) as [v ->]; exists v; reflexivity|discriminate].
    - rewrite (validate_gempty cmp st Hg). exists false, GEmpty. split; [reflexivity|].
      split; [reflexivity|]. split; [discriminate|]. split; [discriminate|discriminate].
  Qed.

  Lemma cmp_safe_of cmp v :
    (match validator_of cmp with Some vd => validated vd (Some v) | None => True end) -> cmp_safe cmp (Some v).
  Proof.
    destruct cmp as [vd| | | | | |re]; cbn [validator_of cmp_safe]; intros H; try exact I; try exact H;
      destruct v; cbn in H; try contradiction; eexists; reflexivity.
  Qed.

  Lemma query_cmp lp ll rp rl cmp : P_pquery lp -> P_pquery rp -> P_query (QCmp (CP lp ll) (CP rp rl) cmp).
  Proof.
    intros IHl IHr Hwf root vals st Hr Hv Hok. unfold qpost. rewrite compute_cmp_eq.
    cbn [wf_query] in Hwf. repeat (apply andb_true_iff in Hwf; destruct Hwf as [Hwf ?]).
    rename H into Hrs, H0 into Hls, H1 into Hwr.
    pose proof (IHl Hwf root vals st Hr Hv Hok) as Hl.
    destruct (compute_p lp root vals st) as [L st1]. destruct Hl as [Hf1 [Hv1 [HnF1 _]]].
    assert (Hok1 : ok st1) by (eapply ok_frame; eassumption).
    assert (HL : L <> GFull).
    { intros ->. specialize (HnF1 eq_refl). destruct lp; try contradiction. rewrite HnF1 in Hls. discriminate. }
    destruct (validate_facts cmp L st1 (proj1 Hok1) HL) as [lf [L1 [Ev1 [Hlen1 [Hown1 [_ HL1]]]]]]. rewrite Ev1.
    pose proof (IHr Hwr root vals st1 Hr Hv Hok1) as Hrr.
    destruct (compute_p rp root vals st1) as [R st3]. destruct Hrr as [Hf3 [Hv3 [HnF3 Hone]]].
    assert (Hok3 : ok st3) by (eapply ok_frame; eassumption).
    assert (Hf13 : frame st st3) by (eapply frame_trans; eassumption).
    assert (HR : R <> GFull).
    { intros ->. specialize (HnF3 eq_refl). destruct rp; try contradiction. rewrite HnF3 in Hrs. discriminate. }
    assert (Hone' : List.length (lget st3 R) = 1%nat) by (destruct rp; [exact Hone|discriminate|exact Hone]).
    destruct (validate_facts cmp R st3 (proj1 Hok3) HR) as [rf [R1 [Ev3 [Hlen3 [Hown3 [Hsingle3 _]]]]]]. rewrite Ev3.
    assert (Hge : g_empty st3 = [None]) by apply Hok3.
    assert (Hgf : g_full st3 = [Some (VBool true)]) by apply Hok3.
    assert (VL1 : vl_ok (List.length vals) (lget st3 L1)).
    { destruct L1 as [l1| |]; [| right; cbn [lget]; rewrite Hge; reflexivity | contradiction HL1; reflexivity].
      cbn [lget] in *. unfold vl_ok. rewrite Hlen1. destruct L as [l| |]; cbn [lget] in *; [exact Hv1| |contradiction HL; reflexivity].
      right. destruct Hok1 as [[G _] _]. rewrite G. reflexivity. }
    destruct (lf && rf) eqn:Eb.
    - apply andb_true_iff in Eb. destruct Eb as [-> ->].
      destruct (Hown1 eq_refl) as [l1 [-> Hval1]].
      destruct (Hsingle3 eq_refl Hone') as [v ->]. cbn [lget hd_entry].
      destruct (Hown3 eq_refl) as [r1 [Er1 Hvalr]]. inversion Er1; subst r1.
      unfold comparator_run. cbn [lget].
      pose proof (cmp_list_safe regex_match cmp (Some v) l1 0) as Hsafe.
      pose proof (cmp_list_length regex_match cmp (Some v) l1 0) as Hclen.
      destruct (cmp_list regex_match cmp (Some v) l1 0) as [[[l2 ws] hv] pn]. cbn [fst snd] in *.
      rewrite Hsafe; [|apply cmp_safe_of; inversion Hvalr; assumption|exact Hval1].
      cbn [commit]. destruct hv.
      + split; [exact Hf13|]. cbn [lget] in *. unfold vl_ok in *. rewrite Hclen. exact VL1.
      + split; [exact Hf13|]. right. cbn [lget]. rewrite Hge. reflexivity.
    - destruct (Bool.eqb lf rf); [destruct cmp|]; (split; [exact Hf13|right; cbn [lget]; rewrite ?Hge, ?Hgf; reflexivity]).
  Qed.

  Lemma query_param p : P_pquery p -> P_query (QParam p).
  Proof.
    intros IH Hwf root vals st Hr Hv Hok. cbn [wf_query] in Hwf. unfold qpost.
    change (compute (QParam p) root vals st) with (compute_p p root vals st).
    pose proof (IH Hwf root vals st Hr Hv Hok) as H. destruct (compute_p p root vals st) as [L st'].
    destruct H as [A [B _]]. split; assumption.
  Qed.

  (* ---------- the invariant, for every tree ---------- *)
  Theorem evaluator_invariant :
    (forall n, P_node n) /\ (forall o, P_onode o) /\ (forall k, P_kind k) /\ (forall ns, P_nodes ns) /\
    (forall q, P_query q) /\ (forall cp, P_cparam cp) /\ (forall p, P_pquery p).
  Proof.
    apply tree_mutind.
    - (* Node *) intros k IHk b next IHn Hwf. split.
      + intros root cur Hr Hc. apply node_step_ok; assumption.
      + intros Hs root cur. apply node_single; assumption.
    - exact I.
    - intros n IH. exact IH.
    - exact I. - exact I. - intros; exact I. - exact I.
    - intros ids IHids aw uq IHuq. split; assumption.
    - intros; exact I. - intros; exact I.
    - intros q IH. exact IH.
    - intros; exact I.
    - intros f param IH. exact IH.
    - intros _ m root cur c0 st0 s _ _ _ Hs. rewrite retrieve_ids_unfold. exact Hs.
    - intros id IHid rest IHrest. apply nodes_case; assumption.
    - intros a IHa b IHb. apply query_and; assumption.
    - intros a IHa b IHb. apply query_or; assumption.
    - intros a IHa. apply query_not; assumption.
    - intros [lp ll] IHl [rp rl] IHr c. apply query_cmp; assumption.
    - intros p IH. apply query_param; assumption.
    - intros p IH lit. exact IH.
    - intros v. apply pquery_lit.
    - intros n IH. apply pquery_cur; assumption.
    - intros n IH. apply pquery_root; assumption.
  Qed.
End Main.
