(* Tree.v — the syntax tree the parser builds, with every field the Go nodes have (DESIGN §3.2). *)
From JP Require Export Json Slice.
Open Scope string_scope.

(* syntaxBasicNode: text, connectedText, valueGroup, accessorMode *)
Record basic := { text : string; ctext : string; vgroup : bool; accessor : bool }.

Inductive validator := VdNumeric | VdBool | VdString | VdNil.

Inductive comparator :=
| CDirectEq (vd : validator)       (* == against a literal of that type *)
| CDeepEq                          (* == between two paths: reflect.DeepEqual *)
| CLt | CLe | CGt | CGe
| CRegex (re : string).            (* =~ /re/ *)

Inductive node := Node (k : kind) (b : basic) (next : onode)
with onode := ONone | OSome (n : node)
with kind :=
| KRoot | KCurrent
| KSingle (key : string)
| KWild
| KMulti (ids : nodes) (allWild : bool) (uq : onode)   (* inner identifiers are separate nodes *)
| KRec (mapReq listReq : bool)
| KUnion (subs : list subscript)
| KFilter (q : query)
| KFFun (f : string)
| KAgg (f : string) (param : node)
with nodes := NNil | NCons (n : node) (ns : nodes)
with query :=
| QAnd (a b : query) | QOr (a b : query) | QNot (a : query)
| QCmp (l r : cparam) (c : comparator)
| QParam (p : pquery)                                   (* existence test *)
with cparam := CP (p : pquery) (isLiteral : bool)
with pquery := PqLit (v : value) | PqCur (n : node) | PqRoot (n : node).

Definition node_kind (n : node) := match n with Node k _ _ => k end.
Definition node_basic (n : node) := match n with Node _ b _ => b end.
Definition node_next (n : node) := match n with Node _ _ nx => nx end.

Fixpoint nodes_to_list (ns : nodes) : list node :=
  match ns with NNil => [] | NCons n r => n :: nodes_to_list r end.
Fixpoint nodes_of_list (l : list node) : nodes :=
  match l with [] => NNil | n :: r => NCons n (nodes_of_list r) end.

Definition set_text (t : string) (b : basic) : basic :=
  {| text := t; ctext := ctext b; vgroup := vgroup b; accessor := accessor b |}.
Definition set_ctext (t : string) (b : basic) : basic :=
  {| text := text b; ctext := t; vgroup := vgroup b; accessor := accessor b |}.
Definition set_vgroup (v : bool) (b : basic) : basic :=
  {| text := text b; ctext := ctext b; vgroup := v; accessor := accessor b |}.
Definition set_accessor (a : bool) (b : basic) : basic :=
  {| text := text b; ctext := ctext b; vgroup := vgroup b; accessor := a |}.
