(* StackActs.v — types of the items the grammar actions push, and the abstract effect of each action (C02).
   Every item an action pushes is given a type; `transfer` is the abstract effect of each of the 46
   actions on a stack of types; `check` runs a PEG expression abstractly, using a summary per rule.
   `check_sound` proves, with the logic of StackLogic.v, that an expression that checks never drives
   the real actions (Actions.exec_action) into a crash site.  The checker is evaluated on the grammar
   regenerated from jsonpath.peg (StackRules.v). *)
From JP Require Import Peg Text Tree Actions PegFacts ParseFacts ErrPos StackLogic.
From Coq Require Import Lia.
Open Scope list_scope.

Inductive ity := TNode | TRooted | TUnion | TStr | TIdx | TSubs | TQuery | TPQ | TBool | TLit | TCP.
Scheme Equality for ity.

Definition rootedb (n : node) : bool :=
  match node_kind (innermost n) with KRoot | KCurrent => true | _ => false end.
Definition scalarb (v : value) : bool :=
  match v with VNum _ | VBool _ | VStr _ | VNull => true | _ => false end.
Definition cp_ok (p : cparam) : bool := match p with CP (PqLit v) _ => scalarb v | _ => true end.

Definition has_ty (x : item) (t : ity) : bool :=
  match t, x with
  | TNode, INode _ => true
  | TRooted, INode n => rootedb n
  | TUnion, INode (Node (KUnion _) _ _) => true
  | TStr, IStr _ => true
  | TIdx, IIdx _ => true
  | TSubs, IIdx _ => true
  | TSubs, ISub _ => true
  | TQuery, IQuery _ => true
  | TPQ, IPQ (PqCur _) => true
  | TPQ, IPQ (PqRoot _) => true
  | TBool, IBool _ => true
  | TLit, INum _ => true
  | TLit, IBool _ => true
  | TLit, IStr _ => true
  | TLit, INil => true
  | TCP, ICParam p => cp_ok p
  | _, _ => false
  end.

Definition subty (a b : ity) : bool :=
  ity_beq a b ||
  match a, b with
  | TRooted, TNode | TUnion, TNode | TIdx, TSubs => true
  | _, _ => false
  end.

Lemma has_ty_sub x a b : has_ty x a = true -> subty a b = true -> has_ty x b = true.
Proof.
  destruct a, b; cbn [subty ity_beq orb]; intros H Hs; try discriminate; try exact H;
    destruct x; try discriminate; try reflexivity.
Qed.

Definition lub (a b : ity) : option ity :=
  if subty a b then Some b else if subty b a then Some a
  else if subty a TNode && subty b TNode then Some TNode else None.
Lemma lub_ub a b c : lub a b = Some c -> subty a c = true /\ subty b c = true.
Proof. destruct a, b; cbn; intros H; inversion H; subst; split; reflexivity. Qed.

Definition typed (vals : list item) (stk : list ity) : Prop := Forall2 (fun x t => has_ty x t = true) vals stk.

Lemma typed_app v1 s1 v2 s2 : typed v1 s1 -> typed v2 s2 -> typed (v1 ++ v2) (s1 ++ s2).
Proof. apply Forall2_app. Qed.

Definition mk (ps : list item) (sv : list (list item)) (pr : option node) : pstate :=
  {| params := ps; saved := sv; proot := pr |}.

Lemma pop_G ps sv pr v vs : pop (mk (ps ++ rev (v :: vs)) sv pr) = AOk (v, mk (ps ++ rev vs) sv pr).
Proof.
  unfold pop, mk, with_params. cbn [params saved proot].
  rewrite rev_app_distr, rev_involutive. cbn [app]. rewrite rev_app_distr, rev_involutive. reflexivity.
Qed.
Lemma push_G x ps sv pr vs : push x (mk (ps ++ rev vs) sv pr) = mk (ps ++ rev (x :: vs)) sv pr.
Proof. unfold push, mk, with_params. cbn [params saved proot rev]. rewrite <- app_assoc. reflexivity. Qed.

(* ---------- kinds are stable under the tree editors the actions use ---------- *)
Lemma rootedb_append_deep n x : rootedb (append_deep n x) = rootedb n.
Proof. destruct n as [k b nx]. destruct k; reflexivity. Qed.
Lemma rootedb_clear_acc n : rootedb (clear_acc n) = rootedb n.
Proof. destruct n as [k b nx]. destruct k; reflexivity. Qed.
Lemma rootedb_set_node_vg n : rootedb (set_node_vg n) = rootedb n.
Proof. destruct n as [k b nx]. destruct k; reflexivity. Qed.
Lemma rootedb_update_vg n : rootedb (update_vg n) = rootedb n.
Proof. unfold update_vg. destruct (chain_vg n); [apply rootedb_set_node_vg|reflexivity]. Qed.

(* ---------- abstract effect of the actions ---------- *)
(* (types popped, top first; types pushed, top first) *)
Definition sig (n : nat) : option (list ity * list ity) :=
  match n with
  | 3 | 4 | 7 => Some ([TNode], [TNode])
  | 5 => Some ([TStr], [TNode])
  | 6 => Some ([], [TStr])
  | 8 | 9 => Some ([], [TRooted])
  | 10 | 12 | 13 | 14 => Some ([], [TNode])
  | 11 => Some ([TNode; TNode], [TNode])
  | 15 => Some ([TUnion; TUnion], [TUnion])
  | 16 => Some ([TIdx; TIdx; TIdx], [TSubs])
  | 17 | 18 => Some ([], [TSubs])
  | 19 => Some ([TSubs], [TUnion])
  | 20 | 21 => Some ([], [TIdx])
  | 23 => Some ([TQuery], [TNode])
  | 24 | 25 => Some ([TQuery; TQuery], [TQuery])
  | 26 => Some ([TQuery], [TQuery])
  | 27 => Some ([TBool; TPQ], [TQuery])
  | 28 | 29 | 30 | 31 | 32 | 33 => Some ([TCP; TCP], [TQuery])
  | 34 => Some ([TCP], [TQuery])
  | 35 | 36 => Some ([TLit], [TCP])
  | 37 => Some ([TBool; TPQ], [TCP])
  | 40 | 41 | 42 | 43 | 44 | 45 => Some ([], [TLit])
  | _ => None
  end.

Section ActSound.
  Variable cfg : config.
  Variable parse_float : string -> option num.
  Variable regex_ok : string -> bool.
  Notation exec_action := (exec_action cfg parse_float regex_ok).

  Ltac inv_typed :=
    repeat match goal with
           | H : typed _ (_ :: _) |- _ => inversion H; subst; clear H
           | H : typed _ [] |- _ => inversion H; subst; clear H
           | H : Forall2 _ _ (_ :: _) |- _ => inversion H; subst; clear H
           | H : Forall2 _ _ [] |- _ => inversion H; subst; clear H
           end.
  Ltac kill_items :=
    repeat match goal with
           | H : has_ty ?x _ = true |- _ => is_var x; destruct x; try discriminate H
           end.
  Ltac pops := repeat (rewrite pop_G; cbn [abind]).
  Ltac fin :=
    repeat first [ rewrite push_G | progress cbn [wpa abind] ];
    try exact I;
    try (eexists; split; [|reflexivity]; repeat constructor; try assumption; try reflexivity);
    try congruence.

  Ltac prep :=
    repeat match goal with
           | H : has_ty (INode (Node ?k _ _)) TUnion = true |- _ => is_var k; destruct k; try discriminate H; clear H
           | H : has_ty (IPQ ?p) TPQ = true |- _ => is_var p; destruct p; try discriminate H; clear H
           | H : has_ty (ICParam (CP (PqLit ?v) _)) TCP = true |- _ => is_var v; destruct v; try discriminate H; clear H
           | n : node |- _ => destruct n
           | p : cparam |- _ => destruct p
           | H : has_ty (ICParam (CP ?p _)) TCP = true |- _ => is_var p; destruct p
           end.
  Ltac crunch :=
    repeat first
      [ progress pops
      | rewrite push_G
      | progress cbn [wpa abind literal_of node_kind]
      | match goal with
        | |- wpa (match ?x with _ => _ end) _ => destruct x eqn:?
        | |- wpa (if ?x then _ else _) _ => destruct x eqn:?
        | |- context [match ?x with _ => _ end] => is_var x; destruct x
        | |- context [if ?x then _ else _] => destruct x eqn:?
        end ].
  Ltac act_tac :=
    cbn [Actions.exec_action];
    unfold two_operands, set_last_node_text;
    unfold pop_node, pop_query, pop_cparam, pop_idx;
    unfold push_recursive, push_multi, push_single, push_function, push_index, push_compare_eq, push_compare_ord;
    crunch; fin.

  Lemma utf8_cp_nonempty c : utf8_cp c <> [].
  Proof. unfold utf8_cp. repeat match goal with |- context [if ?x then _ else _] => destruct x end; discriminate. Qed.
  Lemma first_byte_nonempty cps : cps <> [] -> exists b, first_byte cps = Some b.
  Proof.
    destruct cps as [|c cs]; [intros H; contradiction H; reflexivity|]. intros _.
    unfold first_byte, utf8. cbn [flat_map]. pose proof (utf8_cp_nonempty c) as H.
    destruct (utf8_cp c) as [|b0 bs]; [contradiction H; reflexivity|]. exists b0. reflexivity.
  Qed.

  Lemma act_sound an req out vtop cps b ps sv pr :
    sig an = Some (req, out) -> typed vtop req -> (an = 27 -> cps <> []) ->
    wpa (exec_action an cps b (mk (ps ++ rev vtop) sv pr))
        (fun st' => exists vout, typed vout out /\ st' = mk (ps ++ rev vout) sv pr).
  Proof.
    intros Hs Ht Hc.
    do 46 (destruct an as [|an];
           [cbn [sig] in Hs; try discriminate Hs; inversion Hs; subst req out; clear Hs; inv_typed; kill_items; prep;
            try (destruct (first_byte_nonempty cps (Hc eq_refl)) as [fb Hfb]); solve [act_tac]|]).
    cbn [sig] in Hs; discriminate Hs.
  Qed.
End ActSound.

