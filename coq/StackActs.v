(* StackActs.v — types of the items the grammar actions push, and the abstract effect of each action (C02).
   Every item an action pushes is given a type; `transfer` is the abstract effect of each of the 46
   actions on a stack of types; `check` runs a PEG expression abstractly, using a summary per rule.
   `check_sound` proves, with the logic of StackLogic.v, that an expression that checks never drives
   the real actions (Actions.exec_action) into a crash site.  The checker is evaluated on the grammar
   regenerated from jsonpath.peg (StackRules.v). *)
From JP Require Import Peg Text Tree Actions Eval WF AccDefs PegFacts ParseFacts ErrPos StackLogic TreeWf TreeText.
From Coq Require Import Lia.
Open Scope list_scope.
Open Scope nat_scope.

Inductive ity := TNodeT | TRooted | TRootedH | TUnion | TF | TFT | TFI | TFIT | TFM
                | TStr | TIdx | TSubs | TQuery | TQueryRaw | TPQ | TBool | TLit | TCP.
Scheme Equality for ity.

Definition rootedb (n : node) : bool :=
  match node_kind (innermost n) with KRoot | KCurrent => true | _ => false end.
Definition scalarb (v : value) : bool :=
  match v with VNum _ | VBool _ | VStr _ | VNull => true | _ => false end.

(* a node on the parameter stack: well formed, value-group flags consistent with the node kinds *)
Definition nwf (n : node) : bool := wf_node n && vgc n && acc_clean n.
(* a comparison operand: the literal flag agrees with the kind of operand, paths are single-valued *)
Definition cpwf (p : cparam) : bool :=
  match p with
  | CP (PqLit v) lit => lit && scalarb v
  | CP (PqRoot n) lit => lit && wf_node n && single_chain n && all_false n
  | CP (PqCur n) lit => negb lit && wf_node n && single_chain n && all_false n
  end.
Definition cp_ok (p : cparam) : bool := match p with CP (PqLit v) _ => scalarb v | _ => true end.
Definition rawcmp (l r : cparam) : bool := cpwf l && cpwf r && Nat.leb (rank l) (rank r).
(* a comparison as the comparator rule leaves it: possibly `@ op @`, which the next action rejects *)
Definition rawq (q : query) : bool :=
  wf_query q ||
  match q with
  | QCmp l r _ => rawcmp l r
  | QNot (QCmp l r _) => rawcmp l r
  | _ => false
  end.
Definition pqwf (p : pquery) : bool :=
  match p with PqCur n | PqRoot n => nwf n && hvg n && all_false n | PqLit _ => false end.

(* a node as the bracket rules leave it: well formed, no continuation anywhere, identifiers plain *)
Definition fwf (n : node) : bool := nwf n && flat n && tlp false n.
Definition ntext (n : node) : bool := nonempty_s (text (node_basic n)).

Definition has_ty (x : item) (t : ity) : bool :=
  match t, x with
  | TNodeT, INode n => nwf n && tlp true n
  | TRooted, INode n => nwf n && tlp true n && rootedb n
  | TRootedH, INode n => nwf n && tlp true n && rootedb n && hvg n
  | TUnion, INode (Node (KUnion subs) b nx) => fwf (Node (KUnion subs) b nx)
  | TF, INode n => fwf n
  | TFT, INode n => fwf n && ntext n
  | TFI, INode n => fwf n && simple_id n
  | TFIT, INode n => fwf n && simple_id n && ntext n
  | TFM, INode n => fwf n && (simple_id n || is_multi n)
  | TStr, IStr _ => true
  | TIdx, IIdx i => idx_okb i
  | TSubs, IIdx i => idx_okb i
  | TSubs, ISub s => sub_okb s
  | TQuery, IQuery q => wf_query q && all_false_q q
  | TQueryRaw, IQuery q => rawq q && all_false_q q
  | TPQ, IPQ p => pqwf p
  | TBool, IBool _ => true
  | TLit, INum _ => true
  | TLit, IBool _ => true
  | TLit, IStr _ => true
  | TLit, INil => true
  | TCP, ICParam p => cpwf p
  | _, _ => false
  end.

Definition subty (a b : ity) : bool :=
  ity_beq a b ||
  match a, b with
  | TRootedH, TRooted | TRootedH, TNodeT | TRooted, TNodeT => true
  | TFIT, TFI | TFIT, TFT | TFIT, TFM | TFIT, TF | TFIT, TNodeT => true
  | TFI, TFM | TFI, TF | TFT, TF | TFT, TNodeT | TFM, TF | TUnion, TF => true
  | TIdx, TSubs | TQuery, TQueryRaw => true
  | _, _ => false
  end.

Lemma fwf_tnode n : fwf n = true -> ntext n = true -> nwf n && tlp true n = true.
Proof.
  unfold fwf, ntext. intros H Ht. apply andb_true_iff in H. destruct H as [H Htl]. apply andb_true_iff in H. destruct H as [Hn Hf].
  rewrite Hn, (flat_tlp n Hf Htl Ht). reflexivity.
Qed.

Ltac split_hyps :=
  repeat match goal with
         | H : _ && _ = true |- _ => apply andb_true_iff in H; destruct H
         end.
Ltac split_goal :=
  repeat match goal with
         | |- _ && _ = true => apply andb_true_iff; split
         end.

Lemma has_ty_sub x a b : has_ty x a = true -> subty a b = true -> has_ty x b = true.
Proof.
  destruct a, b; cbn [subty ity_beq orb]; intros H Hs; try discriminate Hs; try exact H;
    destruct x; try discriminate H; cbn [has_ty] in *.
  all: try (destruct n as [k bb nx]; destruct k; try discriminate H; exact H).
  all: try (unfold rawq; split_hyps; split_goal; try assumption;
            match goal with Hw : wf_query _ = true |- _ => rewrite Hw; reflexivity end).
  all: try (split_hyps; split_goal; try assumption; fail).
  all: try (split_hyps; apply fwf_tnode; assumption).
  all: try (split_hyps; split_goal; try assumption;
            match goal with Hs' : simple_id _ = true |- _ => rewrite Hs'; reflexivity end).
Qed.

Definition lub (a b : ity) : option ity :=
  if subty a b then Some b else if subty b a then Some a
  else if subty a TF && subty b TF then Some TF
  else if subty a TNodeT && subty b TNodeT then Some TNodeT else None.
Lemma lub_ub a b c : lub a b = Some c -> subty a c = true /\ subty b c = true.
Proof. destruct a, b; cbn; intros H; inversion H; subst; split; reflexivity. Qed.

Definition typed (vals : list item) (stk : list ity) : Prop := Forall2 (fun x t => has_ty x t = true) vals stk.

Lemma typed_app v1 s1 v2 s2 : typed v1 s1 -> typed v2 s2 -> typed (v1 ++ v2) (s1 ++ s2).
Proof. apply Forall2_app. Qed.

Definition mk (ps : list item) (sv : list (list item)) (pr : option node) : pstate :=
  {| params := ps; saved := sv; proot := pr |}.

Lemma pop_G ps sv pr v vs : pop (mk (ps ++ rev (v :: vs)) sv pr) = AOk (v, mk (ps ++ rev vs) sv pr).
Proof.
  unfold pop, mk, with_params. cbn [params saved proot].
  rewrite rev_app_distr, rev_involutive. cbn [app]. rewrite rev_app_distr, rev_involutive. reflexivity.
Qed.
Lemma push_G x ps sv pr vs : push x (mk (ps ++ rev vs) sv pr) = mk (ps ++ rev (x :: vs)) sv pr.
Proof. unfold push, mk, with_params. cbn [params saved proot rev]. rewrite <- app_assoc. reflexivity. Qed.

(* ---------- kinds are stable under the tree editors the actions use ---------- *)
Lemma rootedb_append_deep n x : rootedb (append_deep n x) = rootedb n.
Proof. destruct n as [k b nx]. destruct k; reflexivity. Qed.
Lemma rootedb_clear_acc n : rootedb (clear_acc n) = rootedb n.
Proof. destruct n as [k b nx]. destruct k; reflexivity. Qed.
Lemma rootedb_set_node_vg n : rootedb (set_node_vg n) = rootedb n.
Proof. destruct n as [k b nx]. destruct k; reflexivity. Qed.
Lemma rootedb_update_vg n : rootedb (update_vg n) = rootedb n.
Proof. unfold update_vg. destruct (chain_vg n); [apply rootedb_set_node_vg|reflexivity]. Qed.

(* ---------- abstract effect of the actions ---------- *)
(* (types popped, top first; types pushed, top first) *)
Definition sig (n : nat) : option (list ity * list ity) :=
  match n with
  | 3 => Some ([TNodeT], [TNodeT])
  | 4 | 7 => Some ([TF], [TFT])
  | 5 => Some ([TStr], [TFT])
  | 6 => Some ([], [TStr])
  | 8 | 9 => Some ([], [TRooted])
  | 10 | 12 => Some ([], [TFIT])
  | 13 | 14 => Some ([], [TFI])
  | 11 => Some ([TFI; TFM], [TFM])
  | 15 => Some ([TUnion; TUnion], [TUnion])
  | 16 => Some ([TIdx; TIdx; TIdx], [TSubs])
  | 17 | 18 => Some ([], [TSubs])
  | 19 => Some ([TSubs], [TUnion])
  | 20 | 21 => Some ([], [TIdx])
  | 23 => Some ([TQuery], [TF])
  | 24 | 25 => Some ([TQuery; TQuery], [TQuery])
  | 26 => Some ([TQueryRaw], [TQuery])
  | 27 => Some ([TBool; TPQ], [TQuery])
  | 28 | 29 | 30 | 31 | 32 | 33 => Some ([TCP; TCP], [TQueryRaw])
  | 34 => Some ([TCP], [TQuery])
  | 35 | 36 => Some ([TLit], [TCP])
  | 40 | 41 | 42 | 43 | 44 | 45 => Some ([], [TLit])
  | _ => None
  end.
(* actions that look at the captured text: it must be non-empty *)
Definition needs_cap (n : nat) : bool :=
  match n with 4 | 5 | 7 | 10 | 27 => true | _ => false end.


(* ---------- facts the action proofs use ---------- *)
Fixpoint flat_ids_snoc (ids : nodes) (x : node) : flat_ids (nodes_snoc ids x) = flat_ids ids && flat_ids (NCons x NNil).
Proof.
  destruct ids as [|[ik ib inx] r]; cbn [nodes_snoc flat_ids].
  - destruct x as [xk xb xn]. cbn [flat_ids]. reflexivity.
  - rewrite flat_ids_snoc, andb_assoc. reflexivity.
Qed.
Fixpoint tlp_ids_snoc (s : bool) (ids : nodes) (x : node) : tlp_ids s (nodes_snoc ids x) = tlp_ids s ids && tlp_ids s (NCons x NNil).
Proof.
  destruct ids as [|[ik ib inx] r]; cbn [nodes_snoc tlp_ids].
  - destruct x as [xk xb xn]. cbn [tlp_ids]. reflexivity.
  - rewrite tlp_ids_snoc, andb_assoc. reflexivity.
Qed.
Fixpoint wf_nodes_snoc (ids : nodes) (x : node) : wf_nodes (nodes_snoc ids x) = wf_nodes ids && wf_node x.
Proof.
  destruct ids as [|i r]; cbn [nodes_snoc wf_nodes].
  - rewrite andb_true_r. reflexivity.
  - rewrite wf_nodes_snoc, andb_assoc. reflexivity.
Qed.
Fixpoint acc_clean_ids_snoc (ids : nodes) (x : node) : acc_clean_ids (nodes_snoc ids x) = acc_clean_ids ids && acc_clean x.
Proof.
  destruct ids as [|i r]; cbn [nodes_snoc acc_clean_ids].
  - rewrite andb_true_r. reflexivity.
  - rewrite acc_clean_ids_snoc, andb_assoc. reflexivity.
Qed.
Lemma atoi_in64 cps z : atoi cps = Some z -> in64b z = true.
Proof.
  unfold atoi. destruct (match cps with c :: r => _ | [] => _ end) as [neg ds].
  destruct ds; [discriminate|]. destruct (digits_val _ _) as [v|]; [|discriminate].
  destruct (in64b (if neg then (- v)%Z else v)) eqn:E; [|discriminate]. intros H. inversion H; subst. exact E.
Qed.
Lemma sub_okb_mk_slice a b c : idx_okb a = true -> idx_okb b = true -> idx_okb c = true -> sub_okb (mk_slice a b c) = true.
Proof.
  intros Ha Hb Hc. unfold mk_slice.
  assert (Hs : forall sp', idx_okb sp' = true -> (omitted sp' = true -> number sp' = 1%Z) ->
               sub_okb (if (number sp' >=? 0)%Z then SubSlicePos a b sp' else SubSliceNeg a b sp') = true).
  { intros sp' Hsp Hom. destruct (number sp' >=? 0)%Z eqn:En; cbn [sub_okb]; rewrite Ha, Hb, Hsp, En; cbn [andb negb].
    - destruct (omitted sp') eqn:Eo; [rewrite (Hom eq_refl); reflexivity|reflexivity].
    - destruct (omitted sp') eqn:Eo; [|reflexivity]. rewrite (Hom eq_refl) in En. discriminate. }
  apply Hs.
  - destruct (omitted c); [reflexivity|exact Hc].
  - destruct (omitted c) eqn:Eo; [reflexivity|]. intros H. cbn in H. congruence.
Qed.
Lemma sub_single_or_group s : match s with SubIndex _ => true | _ => false end || sub_value_group s = true.
Proof. destruct s; reflexivity. Qed.

Definition two_cur (q : query) : bool :=
  match (match q with QNot q' => q' | _ => q end) with
  | QCmp (CP (PqCur _) _) (CP (PqCur _) _) _ => true
  | _ => false
  end.
Lemma rawcmp_wf l r c : rawcmp l r = true -> two_cur (QCmp l r c) = false -> wf_query (QCmp l r c) = true.
Proof.
  destruct l as [lp ll], r as [rp rl]. unfold rawcmp. intros H Ht.
  apply andb_true_iff in H. destruct H as [H Hr]. apply andb_true_iff in H. destruct H as [Hl Hrr].
  apply Nat.leb_le in Hr.
  destruct lp as [lv|ln|ln], rp as [rv|rn|rn]; cbn [cpwf wf_query wf_pquery two_cur rank] in *;
    repeat match goal with
           | H : _ && _ = true |- _ => apply andb_true_iff in H; destruct H
           | H : negb ?x = true |- _ => apply negb_true_iff in H; subst x
           | H : ?x = true |- _ => is_var x; subst x
           end; cbn [rank] in Hr; try lia; try discriminate;
    repeat (apply andb_true_iff; split); try assumption; reflexivity.
Qed.
Lemma rawq_wf q : rawq q = true -> two_cur q = false -> wf_query q = true.
Proof.
  unfold rawq. intros H Ht. apply orb_true_iff in H. destruct H as [H|H]; [exact H|].
  destruct q as [a b|a b|a|l r c|p]; try discriminate.
  - destruct a as [| | |l r c|]; try discriminate. cbn [wf_query]. apply (rawcmp_wf l r c H Ht).
  - apply rawcmp_wf; assumption.
Qed.
Lemma rawq_cmp l r c : cpwf l = true -> cpwf r = true -> rank l <= rank r -> rawq (QCmp l r c) = true.
Proof. intros Hl Hr Hk. unfold rawq, rawcmp. rewrite Hl, Hr. apply Nat.leb_le in Hk. rewrite Hk. apply orb_true_r. Qed.
Lemma rawq_not_cmp l r c : cpwf l = true -> cpwf r = true -> rank l <= rank r -> rawq (QNot (QCmp l r c)) = true.
Proof. intros Hl Hr Hk. unfold rawq, rawcmp. rewrite Hl, Hr. apply Nat.leb_le in Hk. rewrite Hk. apply orb_true_r. Qed.

Lemma cpwf_all_false p : cpwf p = true -> all_false_p (match p with CP q _ => q end) = true.
Proof.
  destruct p as [q lit]. destruct q as [v|n|n]; cbn [cpwf all_false_p]; intros H; [reflexivity| |];
    apply andb_true_iff in H; apply H.
Qed.
Lemma all_false_cmp l r c : cpwf l = true -> cpwf r = true -> all_false_q (QCmp l r c) = true.
Proof.
  intros Hl Hr. pose proof (cpwf_all_false l Hl) as A. pose proof (cpwf_all_false r Hr) as B.
  destruct l as [lp ll], r as [rp rl]. cbn [all_false_q]. rewrite A, B. reflexivity.
Qed.
Lemma compare_ord_raw c l r st : cpwf l = true -> cpwf r = true ->
  exists q, push_compare_ord c l r st = push (IQuery q) st /\ rawq q && all_false_q q = true.
Proof.
  intros Hl Hr. unfold push_compare_ord, swap_required. destruct (Nat.ltb (rank r) (rank l)) eqn:E.
  - apply Nat.ltb_lt in E. eexists. split; [reflexivity|]. rewrite rawq_cmp, all_false_cmp; [reflexivity| | | | |]; try assumption. lia.
  - apply Nat.ltb_ge in E. eexists. split; [reflexivity|]. rewrite rawq_cmp, all_false_cmp; [reflexivity| | | | |]; assumption.
Qed.
Lemma compare_eq_raw l r st : cpwf l = true -> cpwf r = true ->
  exists q, push_compare_eq l r st = push (IQuery q) st /\ rawq q && all_false_q q = true /\ rawq (QNot q) && all_false_q (QNot q) = true.
Proof.
  intros Hl Hr. unfold push_compare_eq, swap_required.
  assert (Hgen : forall a b, cpwf a = true -> cpwf b = true -> rank a <= rank b ->
            exists q, match b with
                      | CP (PqLit v) _ =>
                          match v with
                          | VNum _ => push (IQuery (QCmp a b (CDirectEq VdNumeric))) st
                          | VBool _ => push (IQuery (QCmp a b (CDirectEq VdBool))) st
                          | VStr _ => push (IQuery (QCmp a b (CDirectEq VdString))) st
                          | VNull => push (IQuery (QCmp a b (CDirectEq VdNil))) st
                          | _ => st
                          end
                      | _ => push (IQuery (QCmp a b CDeepEq)) st
                      end = push (IQuery q) st /\ rawq q && all_false_q q = true /\ rawq (QNot q) && all_false_q (QNot q) = true).
  { intros a b Ha Hb Hk. destruct b as [bp bl] eqn:Eb. destruct bp as [v|n|n].
    - cbn [cpwf] in Hb. apply andb_true_iff in Hb. destruct Hb as [Hb1 Hb2].
      assert (Hb' : cpwf (CP (PqLit v) bl) = true) by (cbn [cpwf]; rewrite Hb1, Hb2; reflexivity).
      destruct v; try discriminate Hb2;
        (eexists; split; [reflexivity|]; cbn [all_false_q]; fold (all_false_q (QCmp a (CP (PqLit VNull) bl) CDeepEq));
         split; [rewrite rawq_cmp by assumption|rewrite rawq_not_cmp by assumption]; cbn [andb];
         apply (all_false_cmp a _ CDeepEq Ha Hb')).
    - eexists. split; [reflexivity|]. cbn [all_false_q]. split; [rewrite rawq_cmp by assumption|rewrite rawq_not_cmp by assumption]; cbn [andb]; apply (all_false_cmp a _ CDeepEq Ha Hb).
    - eexists. split; [reflexivity|]. cbn [all_false_q]. split; [rewrite rawq_cmp by assumption|rewrite rawq_not_cmp by assumption]; cbn [andb]; apply (all_false_cmp a _ CDeepEq Ha Hb). }
  destruct (Nat.ltb (rank r) (rank l)) eqn:E.
  - apply Nat.ltb_lt in E. apply Hgen; [assumption|assumption|lia].
  - apply Nat.ltb_ge in E. apply Hgen; assumption.
Qed.


(* ---------- equations (the mutual fixpoints are unfolded by rewriting, never by cbn) ---------- *)
Lemma wf_node_eq k b next :
  wf_node (Node k b next) =
  (match k with
   | KMulti ids aw uq => wf_nodes ids && (match uq with OSome u => wf_node u | ONone => negb aw end)
   | KRec _ _ => match next with OSome _ => true | ONone => false end
   | KUnion subs => forallb sub_okb subs
   | KFilter q => wf_query q
   | KAgg _ param => wf_node param
   | _ => true
   end) && match next with OSome m => wf_node m | ONone => true end.
Proof. reflexivity. Qed.
Lemma acc_clean_eq k b next :
  acc_clean (Node k b next) =
  (match k with
   | KMulti ids _ uq => acc_clean_ids ids && match uq with OSome u => acc_clean u | ONone => true end
   | KFilter q => all_false_q q
   | KAgg _ p => all_false p
   | _ => true
   end) && match next with OSome m => acc_clean m | ONone => true end.
Proof. reflexivity. Qed.
Lemma tlp_eq s k b next :
  tlp s (Node k b next) =
  (match k with
   | KMulti ids _ uq =>
       tlp_ids s ids &&
       match uq with
       | OSome (Node uk _ unx) =>
           (match uk with KUnion _ => true | _ => false end) && match unx with OSome m => tlp s m | ONone => true end
       | ONone => true
       end
   | KAgg _ param => tlp false param
   | _ => true
   end) && match next with ONone => negb s || nonempty_s (text b) | OSome m => tlp s m end.
Proof. reflexivity. Qed.
Lemma wf_nodes_two a b : wf_nodes (NCons a (NCons b NNil)) = wf_node a && wf_node b.
Proof. cbn [wf_nodes]. rewrite andb_true_r. reflexivity. Qed.
Lemma acc_ids_two a b : acc_clean_ids (NCons a (NCons b NNil)) = acc_clean a && acc_clean b.
Proof. cbn [acc_clean_ids]. rewrite andb_true_r. reflexivity. Qed.

Section PushMulti.
  Variable cfg : config.
  Lemma push_multi_ok n app st : has_ty (INode n) TFM = true -> has_ty (INode app) TFI = true ->
    exists m, push_multi cfg n app st = push (INode m) st /\ has_ty (INode m) TFM = true.
  Proof.
    cbn [has_ty]. unfold fwf, nwf. intros Hn Ha. split_hyps.
    destruct app as [ak ab an]. destruct n as [k b nx].
    match goal with H : flat (Node ak ab an) = true |- _ => cbn [flat] in H; destruct an; [|discriminate H] end.
    match goal with H : flat (Node k b nx) = true |- _ => cbn [flat] in H; destruct nx; [|discriminate H] end.
    assert (Haid : match ak with KSingle _ | KWild => true | _ => false end = true) by assumption.
    destruct k as [| |key| |ids aw uq|mr lr|subs|q|f|f param];
      try (match goal with H : simple_id _ || is_multi _ = true |- _ => discriminate H end).
    - (* a name and an identifier: a new multi-name selector *)
      eexists. split; [reflexivity|]. cbn [has_ty]. unfold fwf, nwf.
      rewrite !wf_node_eq, !acc_clean_eq, !tlp_eq, wf_nodes_two, acc_ids_two in *.
      cbn [vgc single_kind orb andb flat flat_ids tlp_ids simple_id is_multi node_kind mk_basic vgroup is_wild].
      split_hyps. destruct ak; try discriminate Haid; cbn [andb negb orb]; repeat (rewrite ?andb_true_r; try reflexivity); split_goal; try assumption; try reflexivity.
    - eexists. split; [reflexivity|]. cbn [has_ty]. unfold fwf, nwf.
      rewrite !wf_node_eq, !acc_clean_eq, !tlp_eq, wf_nodes_two, acc_ids_two in *.
      cbn [vgc single_kind orb andb flat flat_ids tlp_ids simple_id is_multi node_kind mk_basic vgroup is_wild].
      split_hyps. destruct ak; try discriminate Haid; cbn [andb negb orb wf_node acc_clean tlp forallb sub_okb]; split_goal; try assumption; try reflexivity.
    - (* an existing multi-name selector grows *)
      cbn [push_multi]. eexists. split; [reflexivity|]. cbn [has_ty]. unfold fwf, nwf.
      rewrite !wf_node_eq, !acc_clean_eq, !tlp_eq in *. rewrite wf_nodes_snoc, acc_clean_ids_snoc, tlp_ids_snoc.
      cbn [vgc single_kind orb andb flat simple_id is_multi node_kind] in *. rewrite flat_ids_snoc.
      split_hyps.
      assert (Hta : tlp_ids false (NCons (Node ak ab ONone) NNil) = true) by (cbn [tlp_ids]; rewrite Haid; reflexivity).
      assert (Hfa : flat_ids (NCons (Node ak ab ONone) NNil) = true) by reflexivity.
      rewrite Hta, Hfa.
      destruct (aw && is_wild (Node ak ab ONone)) eqn:Eaw.
      + apply andb_true_iff in Eaw. destruct Eaw as [-> Ew].
        destruct uq as [|[uk ub unx]]; [match goal with H : negb true = true |- _ => discriminate H end|].
        destruct uk; try (match goal with H : false && _ = true |- _ => discriminate H | H : false = true |- _ => discriminate H end);
          cbn [andb negb orb] in *; rewrite ?wf_node_eq, ?acc_clean_eq in *; split_hyps; rewrite ?forallb_app; cbn [forallb sub_okb andb];
          split_goal; try assumption; try reflexivity; rewrite ?wf_node_eq, ?acc_clean_eq, ?andb_true_r; assumption.
      + cbn [andb negb orb]. split_goal; try assumption; try reflexivity; rewrite ?wf_node_eq, ?acc_clean_eq, ?andb_true_r; assumption.
  Qed.
End PushMulti.

Lemma act26_eq (q : query) (bg : nat) (st1 : pstate) :
  match (match IQuery q with IQuery (QNot q') => Some q' | IQuery q' => Some q' | _ => None end) with
  | Some (QCmp (CP (PqCur _) _) (CP (PqCur _) _) _) => AErr (ESyntax bg RTwoCurrent)
  | _ => AOk (push (IQuery q) st1)
  end = if two_cur q then AErr (ESyntax bg RTwoCurrent) else AOk (push (IQuery q) st1).
Proof.
  destruct q as [x y|x y|a|[lp ll] [rp rl] c|p]; try reflexivity.
  - destruct a as [x y|x y|a'|[lp ll] [rp rl] c|p]; try reflexivity. destruct lp, rp; reflexivity.
  - destruct lp, rp; reflexivity.
Qed.

Section ActSound.
  Variable cfg : config.
  Variable parse_float : string -> option num.
  Variable regex_ok : string -> bool.
  Notation exec_action := (exec_action cfg parse_float regex_ok).

  Ltac inv_typed :=
    repeat match goal with
           | H : typed _ (_ :: _) |- _ => inversion H; subst; clear H
           | H : typed _ [] |- _ => inversion H; subst; clear H
           | H : Forall2 _ _ (_ :: _) |- _ => inversion H; subst; clear H
           | H : Forall2 _ _ [] |- _ => inversion H; subst; clear H
           end.
  Ltac kill_items :=
    repeat match goal with
           | H : has_ty ?x _ = true |- _ => is_var x; destruct x; try discriminate H
           end.
  Ltac pops := repeat (rewrite pop_G; cbn [abind]).
  Ltac norm_in H :=
    cbn [has_ty wf_node wf_nodes wf_query wf_pquery vgc single_kind node_kind node_basic vgroup
         acc_clean acc_clean_ids all_false all_false_ids all_false_q all_false_p accessor
         flat flat_ids tlp tlp_ids simple_id is_multi text
         cpwf scalarb negb andb orb forallb] in H.
  Ltac unpack :=
    repeat match goal with
           | H : has_ty _ _ = true |- _ => progress norm_in H
           | H : nwf _ = true |- _ => unfold nwf in H
           | H : fwf _ = true |- _ => unfold fwf in H
           | H : ntext _ = true |- _ => unfold ntext in H; cbn [node_basic] in H
           | H : flat (Node _ _ _) = true |- _ => progress norm_in H
           | H : tlp _ (Node _ _ _) = true |- _ => progress norm_in H
           | H : pqwf _ = true |- _ => unfold pqwf in H
           | H : wf_node (Node _ _ _) = true |- _ => progress norm_in H
           | H : vgc (Node _ _ _) = true |- _ => progress norm_in H
           | H : acc_clean (Node _ _ _) = true |- _ => progress norm_in H
           | H : all_false (Node _ _ _) = true |- _ => progress norm_in H
           | H : cpwf (CP _ _) = true |- _ => progress norm_in H
           | H : _ && _ = true |- _ => apply andb_true_iff in H; destruct H
           | H : true = true |- _ => clear H
           | H : false = true |- _ => discriminate H
           | H : negb true = true |- _ => discriminate H
           | H : ?x = true |- _ => is_var x; subst x
           | H : ?x = false |- _ => is_var x; subst x
           end.
  Ltac close_goal :=
    first
      [ assumption | reflexivity
      | apply orb_true_r
      | apply sub_single_or_group
      | apply sub_okb_mk_slice; assumption
      | rewrite forallb_app; apply andb_true_iff; split; assumption
      | apply text_of_nonempty; assumption
      | apply text_of_nonempty; apply unescape_cps_nonempty; assumption
      | match goal with
        | H : atoi _ = Some ?z |- _ => exact (atoi_in64 _ _ H)
        | H : idx_okb ?i = true |- sub_okb (SubIndex (number ?i)) = true => exact H
        end ].
  Ltac inv_goal :=
    unpack;
    cbn [has_ty]; unfold nwf, pqwf, fwf, ntext;
    rewrite ?wf_nodes_snoc, ?acc_clean_ids_snoc, ?flat_ids_snoc, ?tlp_ids_snoc, ?forallb_app;
    cbn [wf_node wf_query wf_pquery vgc single_kind node_kind node_basic vgroup mk_basic set_vgroup set_text
         acc_clean all_false all_false_q all_false_p accessor
         flat tlp simple_id is_multi text
         cpwf scalarb negb andb orb];
    rewrite ?wf_nodes_snoc, ?acc_clean_ids_snoc, ?flat_ids_snoc, ?tlp_ids_snoc, ?forallb_app;
    cbn [wf_node wf_nodes acc_clean acc_clean_ids all_false_ids flat_ids tlp_ids forallb sub_okb andb negb orb];
    rewrite ?forallb_app;
    cbn [forallb sub_okb andb];
    repeat (first [ close_goal | (apply andb_true_iff; split) ]).
  Ltac fin :=
    repeat first [ rewrite push_G | progress cbn [wpa abind] ];
    try exact I;
    try (eexists; split; [|reflexivity]; repeat (constructor; [inv_goal|]); try constructor);
    try congruence.

  Ltac prep :=
    repeat match goal with
           | H : has_ty (INode (Node ?k _ _)) TUnion = true |- _ => is_var k; destruct k; try discriminate H
           | H : has_ty (IPQ ?p) TPQ = true |- _ => is_var p; destruct p; try discriminate H
           | H : has_ty (ICParam (CP (PqLit ?v) ?l)) TCP = true |- _ => is_var v; destruct v; try (cbn [has_ty cpwf scalarb] in H; rewrite andb_false_r in H; discriminate H)
           | n : node |- _ => destruct n
           | p : cparam |- _ => destruct p
           | H : has_ty (ICParam (CP ?p _)) TCP = true |- _ => is_var p; destruct p
           end.
  Ltac crunch :=
    repeat first
      [ progress pops
      | rewrite push_G
      | progress cbn [wpa abind literal_of node_kind]
      | match goal with
        | |- wpa (match ?x with _ => _ end) _ => destruct x eqn:?
        | |- wpa (if ?x then _ else _) _ => destruct x eqn:?
        | |- context [match ?x with _ => _ end] => is_var x; destruct x
        | |- context [if ?x then _ else _] => destruct x eqn:?
        end ].
  Ltac act_tac :=
    cbn [Actions.exec_action];
    unfold two_operands, set_last_node_text;
    unfold pop_node, pop_query, pop_cparam, pop_idx;
    unfold push_recursive, push_multi, push_single, push_function, push_index, push_compare_eq, push_compare_ord;
    crunch; fin.

  Lemma utf8_cp_nonempty c : utf8_cp c <> [].
  Proof. unfold utf8_cp. repeat match goal with |- context [if ?x then _ else _] => destruct x end; discriminate. Qed.
  Lemma first_byte_nonempty cps : cps <> [] -> exists b, first_byte cps = Some b.
  Proof.
    destruct cps as [|c cs]; [intros H; contradiction H; reflexivity|]. intros _.
    unfold first_byte, utf8. cbn [flat_map]. pose proof (utf8_cp_nonempty c) as H.
    destruct (utf8_cp c) as [|b0 bs]; [contradiction H; reflexivity|]. exists b0. reflexivity.
  Qed.

  Lemma act_sound an req out vtop cps b ps sv pr :
    sig an = Some (req, out) -> typed vtop req -> (needs_cap an = true -> cps <> []) ->
    wpa (exec_action an cps b (mk (ps ++ rev vtop) sv pr))
        (fun st' => exists vout, typed vout out /\ st' = mk (ps ++ rev vout) sv pr).
  Proof.
    intros Hs Ht Hc.
    destruct an as [|an]. { cbn [sig] in Hs; try discriminate Hs; inversion Hs; subst req out; clear Hs; inv_typed; kill_items; prep; unpack; try (pose proof (Hc eq_refl) as Hcps; try (destruct (first_byte_nonempty cps Hcps) as [fb Hfb])); solve [act_tac]. }
    destruct an as [|an]. { cbn [sig] in Hs; try discriminate Hs; inversion Hs; subst req out; clear Hs; inv_typed; kill_items; prep; unpack; try (pose proof (Hc eq_refl) as Hcps; try (destruct (first_byte_nonempty cps Hcps) as [fb Hfb])); solve [act_tac]. }
    destruct an as [|an]. { cbn [sig] in Hs; try discriminate Hs; inversion Hs; subst req out; clear Hs; inv_typed; kill_items; prep; unpack; try (pose proof (Hc eq_refl) as Hcps; try (destruct (first_byte_nonempty cps Hcps) as [fb Hfb])); solve [act_tac]. }
    destruct an as [|an]. { cbn [sig] in Hs; try discriminate Hs; inversion Hs; subst req out; clear Hs; inv_typed; kill_items; prep; unpack; try (pose proof (Hc eq_refl) as Hcps; try (destruct (first_byte_nonempty cps Hcps) as [fb Hfb])); solve [act_tac]. }
    destruct an as [|an]. { cbn [sig] in Hs; try discriminate Hs; inversion Hs; subst req out; clear Hs; inv_typed; kill_items; prep; unpack; try (pose proof (Hc eq_refl) as Hcps; try (destruct (first_byte_nonempty cps Hcps) as [fb Hfb])); solve [act_tac]. }
    destruct an as [|an]. { cbn [sig] in Hs; try discriminate Hs; inversion Hs; subst req out; clear Hs; inv_typed; kill_items; prep; unpack; try (pose proof (Hc eq_refl) as Hcps; try (destruct (first_byte_nonempty cps Hcps) as [fb Hfb])); solve [act_tac]. }
    destruct an as [|an]. { cbn [sig] in Hs; try discriminate Hs; inversion Hs; subst req out; clear Hs; inv_typed; kill_items; prep; unpack; try (pose proof (Hc eq_refl) as Hcps; try (destruct (first_byte_nonempty cps Hcps) as [fb Hfb])); solve [act_tac]. }
    destruct an as [|an]. { cbn [sig] in Hs; try discriminate Hs; inversion Hs; subst req out; clear Hs; inv_typed; kill_items; prep; unpack; try (pose proof (Hc eq_refl) as Hcps; try (destruct (first_byte_nonempty cps Hcps) as [fb Hfb])); solve [act_tac]. }
    destruct an as [|an]. { cbn [sig] in Hs; try discriminate Hs; inversion Hs; subst req out; clear Hs; inv_typed; kill_items; prep; unpack; try (pose proof (Hc eq_refl) as Hcps; try (destruct (first_byte_nonempty cps Hcps) as [fb Hfb])); solve [act_tac]. }
    destruct an as [|an]. { cbn [sig] in Hs; try discriminate Hs; inversion Hs; subst req out; clear Hs; inv_typed; kill_items; prep; unpack; try (pose proof (Hc eq_refl) as Hcps; try (destruct (first_byte_nonempty cps Hcps) as [fb Hfb])); solve [act_tac]. }
    destruct an as [|an]. { cbn [sig] in Hs; try discriminate Hs; inversion Hs; subst req out; clear Hs; inv_typed; kill_items; prep; unpack; try (pose proof (Hc eq_refl) as Hcps; try (destruct (first_byte_nonempty cps Hcps) as [fb Hfb])); solve [act_tac]. }
    destruct an as [|an]. { cbn [sig] in Hs; try discriminate Hs; inversion Hs; subst req out; clear Hs; inv_typed; kill_items; cbn [Actions.exec_action]; unfold pop_node; repeat (rewrite pop_G; cbn [abind]); match goal with Hm : has_ty (INode ?a) TFM = true, Hi : has_ty (INode ?c) TFI = true |- context [push_multi _ ?a ?c ?st] => destruct (push_multi_ok cfg a c st Hm Hi) as (m & E & T); rewrite E end; cbn [wpa]; rewrite push_G; exists [INode m]; split; [constructor; [exact T|constructor]|reflexivity]. }
    destruct an as [|an]. { cbn [sig] in Hs; try discriminate Hs; inversion Hs; subst req out; clear Hs; inv_typed; kill_items; prep; unpack; try (pose proof (Hc eq_refl) as Hcps; try (destruct (first_byte_nonempty cps Hcps) as [fb Hfb])); solve [act_tac]. }
    destruct an as [|an]. { cbn [sig] in Hs; try discriminate Hs; inversion Hs; subst req out; clear Hs; inv_typed; kill_items; prep; unpack; try (pose proof (Hc eq_refl) as Hcps; try (destruct (first_byte_nonempty cps Hcps) as [fb Hfb])); solve [act_tac]. }
    destruct an as [|an]. { cbn [sig] in Hs; try discriminate Hs; inversion Hs; subst req out; clear Hs; inv_typed; kill_items; prep; unpack; try (pose proof (Hc eq_refl) as Hcps; try (destruct (first_byte_nonempty cps Hcps) as [fb Hfb])); solve [act_tac]. }
    destruct an as [|an]. { cbn [sig] in Hs; try discriminate Hs; inversion Hs; subst req out; clear Hs; inv_typed; kill_items; prep; unpack; try (pose proof (Hc eq_refl) as Hcps; try (destruct (first_byte_nonempty cps Hcps) as [fb Hfb])); solve [act_tac]. }
    destruct an as [|an]. { cbn [sig] in Hs; try discriminate Hs; inversion Hs; subst req out; clear Hs; inv_typed; kill_items; prep; unpack; try (pose proof (Hc eq_refl) as Hcps; try (destruct (first_byte_nonempty cps Hcps) as [fb Hfb])); solve [act_tac]. }
    destruct an as [|an]. { cbn [sig] in Hs; try discriminate Hs; inversion Hs; subst req out; clear Hs; inv_typed; kill_items; prep; unpack; try (pose proof (Hc eq_refl) as Hcps; try (destruct (first_byte_nonempty cps Hcps) as [fb Hfb])); solve [act_tac]. }
    destruct an as [|an]. { cbn [sig] in Hs; try discriminate Hs; inversion Hs; subst req out; clear Hs; inv_typed; kill_items; prep; unpack; try (pose proof (Hc eq_refl) as Hcps; try (destruct (first_byte_nonempty cps Hcps) as [fb Hfb])); solve [act_tac]. }
    destruct an as [|an]. { cbn [sig] in Hs; try discriminate Hs; inversion Hs; subst req out; clear Hs; inv_typed; kill_items; prep; unpack; try (pose proof (Hc eq_refl) as Hcps; try (destruct (first_byte_nonempty cps Hcps) as [fb Hfb])); solve [act_tac]. }
    destruct an as [|an]. { cbn [sig] in Hs; try discriminate Hs; inversion Hs; subst req out; clear Hs; inv_typed; kill_items; prep; unpack; try (pose proof (Hc eq_refl) as Hcps; try (destruct (first_byte_nonempty cps Hcps) as [fb Hfb])); solve [act_tac]. }
    destruct an as [|an]. { cbn [sig] in Hs; try discriminate Hs; inversion Hs; subst req out; clear Hs; inv_typed; kill_items; prep; unpack; try (pose proof (Hc eq_refl) as Hcps; try (destruct (first_byte_nonempty cps Hcps) as [fb Hfb])); solve [act_tac]. }
    destruct an as [|an]. { cbn [sig] in Hs; try discriminate Hs; inversion Hs; subst req out; clear Hs; inv_typed; kill_items; prep; unpack; try (pose proof (Hc eq_refl) as Hcps; try (destruct (first_byte_nonempty cps Hcps) as [fb Hfb])); solve [act_tac]. }
    destruct an as [|an]. { cbn [sig] in Hs; try discriminate Hs; inversion Hs; subst req out; clear Hs; inv_typed; kill_items; prep; unpack; try (pose proof (Hc eq_refl) as Hcps; try (destruct (first_byte_nonempty cps Hcps) as [fb Hfb])); solve [act_tac]. }
    destruct an as [|an]. { cbn [sig] in Hs; try discriminate Hs; inversion Hs; subst req out; clear Hs; inv_typed; kill_items; prep; unpack; try (pose proof (Hc eq_refl) as Hcps; try (destruct (first_byte_nonempty cps Hcps) as [fb Hfb])); solve [act_tac]. }
    destruct an as [|an]. { cbn [sig] in Hs; try discriminate Hs; inversion Hs; subst req out; clear Hs; inv_typed; kill_items; prep; unpack; try (pose proof (Hc eq_refl) as Hcps; try (destruct (first_byte_nonempty cps Hcps) as [fb Hfb])); solve [act_tac]. }
    destruct an as [|an]. { cbn [sig] in Hs; try discriminate Hs; inversion Hs; subst req out; clear Hs; inv_typed; kill_items; cbn [has_ty] in *; cbn [Actions.exec_action]; rewrite pop_G; cbn [abind]; rewrite act26_eq; match goal with |- context [two_cur ?q] => destruct (two_cur q) eqn:Et end; [exact I|]; cbn [wpa]; rewrite push_G; exists [IQuery q]; split; [constructor; [cbn [has_ty]; repeat match goal with H : _ && _ = true |- _ => apply andb_true_iff in H; destruct H end; apply andb_true_iff; split; [apply rawq_wf; assumption|assumption]|constructor]|reflexivity]. }
    destruct an as [|an]. { cbn [sig] in Hs; try discriminate Hs; inversion Hs; subst req out; clear Hs; inv_typed; kill_items; prep; unpack; try (pose proof (Hc eq_refl) as Hcps; try (destruct (first_byte_nonempty cps Hcps) as [fb Hfb])); solve [act_tac]. }
    destruct an as [|an]. { cbn [sig] in Hs; try discriminate Hs; inversion Hs; subst req out; clear Hs; inv_typed; kill_items; cbn [has_ty] in *; cbn [Actions.exec_action]; unfold two_operands, pop_cparam; repeat (rewrite pop_G; cbn [abind]); match goal with |- context [push_compare_eq ?l ?r ?st] => destruct (compare_eq_raw l r st ltac:(assumption) ltac:(assumption)) as (q & E & R1 & R2); rewrite E end; cbn [abind wpa]; rewrite push_G; exists [IQuery q]; split; [constructor; [exact R1|constructor]|reflexivity]. }
    destruct an as [|an]. { cbn [sig] in Hs; try discriminate Hs; inversion Hs; subst req out; clear Hs; inv_typed; kill_items; cbn [has_ty] in *; cbn [Actions.exec_action]; unfold two_operands, pop_cparam; repeat (rewrite pop_G; cbn [abind]); match goal with |- context [push_compare_eq ?l ?r ?st] => destruct (compare_eq_raw l r st ltac:(assumption) ltac:(assumption)) as (q & E & R1 & R2); rewrite E end; unfold pop_query; rewrite push_G, pop_G; cbn [abind wpa]; rewrite push_G; exists [IQuery (QNot q)]; split; [constructor; [exact R2|constructor]|reflexivity]. }
    destruct an as [|an]. { cbn [sig] in Hs; try discriminate Hs; inversion Hs; subst req out; clear Hs; inv_typed; kill_items; cbn [has_ty] in *; cbn [Actions.exec_action]; unfold two_operands, pop_cparam; repeat (rewrite pop_G; cbn [abind]); match goal with |- context [push_compare_ord ?c ?l ?r ?st] => destruct (compare_ord_raw c l r st ltac:(assumption) ltac:(assumption)) as (q & E & R1); rewrite E end; cbn [abind wpa]; rewrite push_G; exists [IQuery q]; split; [constructor; [exact R1|constructor]|reflexivity]. }
    destruct an as [|an]. { cbn [sig] in Hs; try discriminate Hs; inversion Hs; subst req out; clear Hs; inv_typed; kill_items; cbn [has_ty] in *; cbn [Actions.exec_action]; unfold two_operands, pop_cparam; repeat (rewrite pop_G; cbn [abind]); match goal with |- context [push_compare_ord ?c ?l ?r ?st] => destruct (compare_ord_raw c l r st ltac:(assumption) ltac:(assumption)) as (q & E & R1); rewrite E end; cbn [abind wpa]; rewrite push_G; exists [IQuery q]; split; [constructor; [exact R1|constructor]|reflexivity]. }
    destruct an as [|an]. { cbn [sig] in Hs; try discriminate Hs; inversion Hs; subst req out; clear Hs; inv_typed; kill_items; cbn [has_ty] in *; cbn [Actions.exec_action]; unfold two_operands, pop_cparam; repeat (rewrite pop_G; cbn [abind]); match goal with |- context [push_compare_ord ?c ?l ?r ?st] => destruct (compare_ord_raw c l r st ltac:(assumption) ltac:(assumption)) as (q & E & R1); rewrite E end; cbn [abind wpa]; rewrite push_G; exists [IQuery q]; split; [constructor; [exact R1|constructor]|reflexivity]. }
    destruct an as [|an]. { cbn [sig] in Hs; try discriminate Hs; inversion Hs; subst req out; clear Hs; inv_typed; kill_items; cbn [has_ty] in *; cbn [Actions.exec_action]; unfold two_operands, pop_cparam; repeat (rewrite pop_G; cbn [abind]); match goal with |- context [push_compare_ord ?c ?l ?r ?st] => destruct (compare_ord_raw c l r st ltac:(assumption) ltac:(assumption)) as (q & E & R1); rewrite E end; cbn [abind wpa]; rewrite push_G; exists [IQuery q]; split; [constructor; [exact R1|constructor]|reflexivity]. }
    destruct an as [|an]. { cbn [sig] in Hs; try discriminate Hs; inversion Hs; subst req out; clear Hs; inv_typed; kill_items; prep; unpack; try (pose proof (Hc eq_refl) as Hcps; try (destruct (first_byte_nonempty cps Hcps) as [fb Hfb])); solve [act_tac]. }
    destruct an as [|an]. { cbn [sig] in Hs; try discriminate Hs; inversion Hs; subst req out; clear Hs; inv_typed; kill_items; prep; unpack; try (pose proof (Hc eq_refl) as Hcps; try (destruct (first_byte_nonempty cps Hcps) as [fb Hfb])); solve [act_tac]. }
    destruct an as [|an]. { cbn [sig] in Hs; try discriminate Hs; inversion Hs; subst req out; clear Hs; inv_typed; kill_items; prep; unpack; try (pose proof (Hc eq_refl) as Hcps; try (destruct (first_byte_nonempty cps Hcps) as [fb Hfb])); solve [act_tac]. }
    destruct an as [|an]. { cbn [sig] in Hs; try discriminate Hs; inversion Hs; subst req out; clear Hs; inv_typed; kill_items; prep; unpack; try (pose proof (Hc eq_refl) as Hcps; try (destruct (first_byte_nonempty cps Hcps) as [fb Hfb])); solve [act_tac]. }
    destruct an as [|an]. { cbn [sig] in Hs; try discriminate Hs; inversion Hs; subst req out; clear Hs; inv_typed; kill_items; prep; unpack; try (pose proof (Hc eq_refl) as Hcps; try (destruct (first_byte_nonempty cps Hcps) as [fb Hfb])); solve [act_tac]. }
    destruct an as [|an]. { cbn [sig] in Hs; try discriminate Hs; inversion Hs; subst req out; clear Hs; inv_typed; kill_items; prep; unpack; try (pose proof (Hc eq_refl) as Hcps; try (destruct (first_byte_nonempty cps Hcps) as [fb Hfb])); solve [act_tac]. }
    destruct an as [|an]. { cbn [sig] in Hs; try discriminate Hs; inversion Hs; subst req out; clear Hs; inv_typed; kill_items; prep; unpack; try (pose proof (Hc eq_refl) as Hcps; try (destruct (first_byte_nonempty cps Hcps) as [fb Hfb])); solve [act_tac]. }
    destruct an as [|an]. { cbn [sig] in Hs; try discriminate Hs; inversion Hs; subst req out; clear Hs; inv_typed; kill_items; prep; unpack; try (pose proof (Hc eq_refl) as Hcps; try (destruct (first_byte_nonempty cps Hcps) as [fb Hfb])); solve [act_tac]. }
    destruct an as [|an]. { cbn [sig] in Hs; try discriminate Hs; inversion Hs; subst req out; clear Hs; inv_typed; kill_items; prep; unpack; try (pose proof (Hc eq_refl) as Hcps; try (destruct (first_byte_nonempty cps Hcps) as [fb Hfb])); solve [act_tac]. }
    destruct an as [|an]. { cbn [sig] in Hs; try discriminate Hs; inversion Hs; subst req out; clear Hs; inv_typed; kill_items; prep; unpack; try (pose proof (Hc eq_refl) as Hcps; try (destruct (first_byte_nonempty cps Hcps) as [fb Hfb])); solve [act_tac]. }
    destruct an as [|an]. { cbn [sig] in Hs; try discriminate Hs; inversion Hs; subst req out; clear Hs; inv_typed; kill_items; prep; unpack; try (pose proof (Hc eq_refl) as Hcps; try (destruct (first_byte_nonempty cps Hcps) as [fb Hfb])); solve [act_tac]. }
    destruct an as [|an]. { cbn [sig] in Hs; try discriminate Hs; inversion Hs; subst req out; clear Hs; inv_typed; kill_items; prep; unpack; try (pose proof (Hc eq_refl) as Hcps; try (destruct (first_byte_nonempty cps Hcps) as [fb Hfb])); solve [act_tac]. }
    cbn [sig] in Hs; discriminate Hs.
  Qed.
End ActSound.

