(* StackActs.v — types of the items the grammar actions push, and the abstract effect of each action (C02).
   Every item an action pushes is given a type; `transfer` is the abstract effect of each of the 46
   actions on a stack of types; `check` runs a PEG expression abstractly, using a summary per rule.
   `check_sound` proves, with the logic of StackLogic.v, that an expression that checks never drives
   the real actions (Actions.exec_action) into a crash site.  The checker is evaluated on the grammar
   regenerated from jsonpath.peg (StackRules.v). *)
From JP Require Import Peg Text Tree Actions Eval WF AccDefs PegFacts ParseFacts ErrPos StackLogic TreeWf.
From Coq Require Import Lia.
Open Scope list_scope.
Open Scope nat_scope.

Inductive ity := TNode | TRooted | TRootedH | TUnion | TStr | TIdx | TSubs | TQuery | TQueryRaw | TPQ | TBool | TLit | TCP.
Scheme Equality for ity.

Definition rootedb (n : node) : bool :=
  match node_kind (innermost n) with KRoot | KCurrent => true | _ => false end.
Definition scalarb (v : value) : bool :=
  match v with VNum _ | VBool _ | VStr _ | VNull => true | _ => false end.

(* a node on the parameter stack: well formed, value-group flags consistent with the node kinds *)
Definition nwf (n : node) : bool := wf_node n && vgc n && acc_clean n.
(* a comparison operand: the literal flag agrees with the kind of operand, paths are single-valued *)
Definition cpwf (p : cparam) : bool :=
  match p with
  | CP (PqLit v) lit => lit && scalarb v
  | CP (PqRoot n) lit => lit && wf_node n && single_chain n && all_false n
  | CP (PqCur n) lit => negb lit && wf_node n && single_chain n && all_false n
  end.
Definition cp_ok (p : cparam) : bool := match p with CP (PqLit v) _ => scalarb v | _ => true end.
Definition rawcmp (l r : cparam) : bool := cpwf l && cpwf r && Nat.leb (rank l) (rank r).
(* a comparison as the comparator rule leaves it: possibly `@ op @`, which the next action rejects *)
Definition rawq (q : query) : bool :=
  wf_query q ||
  match q with
  | QCmp l r _ => rawcmp l r
  | QNot (QCmp l r _) => rawcmp l r
  | _ => false
  end.
Definition pqwf (p : pquery) : bool :=
  match p with PqCur n | PqRoot n => nwf n && hvg n && all_false n | PqLit _ => false end.

Definition has_ty (x : item) (t : ity) : bool :=
  match t, x with
  | TNode, INode n => nwf n
  | TRooted, INode n => nwf n && rootedb n
  | TRootedH, INode n => nwf n && rootedb n && hvg n
  | TUnion, INode (Node (KUnion subs) b nx) => nwf (Node (KUnion subs) b nx)
  | TStr, IStr _ => true
  | TIdx, IIdx i => idx_okb i
  | TSubs, IIdx i => idx_okb i
  | TSubs, ISub s => sub_okb s
  | TQuery, IQuery q => wf_query q && all_false_q q
  | TQueryRaw, IQuery q => rawq q && all_false_q q
  | TPQ, IPQ p => pqwf p
  | TBool, IBool _ => true
  | TLit, INum _ => true
  | TLit, IBool _ => true
  | TLit, IStr _ => true
  | TLit, INil => true
  | TCP, ICParam p => cpwf p
  | _, _ => false
  end.

Definition subty (a b : ity) : bool :=
  ity_beq a b ||
  match a, b with
  | TRooted, TNode | TRootedH, TNode | TRootedH, TRooted | TUnion, TNode | TIdx, TSubs | TQuery, TQueryRaw => true
  | _, _ => false
  end.

Lemma has_ty_sub x a b : has_ty x a = true -> subty a b = true -> has_ty x b = true.
Proof.
  destruct a, b; cbn [subty ity_beq orb]; intros H Hs; try discriminate; try exact H;
    destruct x; try discriminate; cbn [has_ty] in *.
  - apply andb_true_iff in H. apply H.
  - apply andb_true_iff in H. destruct H as [H _]. apply andb_true_iff in H. apply H.
  - apply andb_true_iff in H. apply H.
  - destruct n as [k bb nx]. destruct k; try discriminate. exact H.
  - exact H.
  - apply andb_true_iff in H. destruct H as [H1 H2]. unfold rawq. rewrite H1, H2. reflexivity.
Qed.

Definition lub (a b : ity) : option ity :=
  if subty a b then Some b else if subty b a then Some a
  else if subty a TNode && subty b TNode then Some TNode else None.
Lemma lub_ub a b c : lub a b = Some c -> subty a c = true /\ subty b c = true.
Proof. destruct a, b; cbn; intros H; inversion H; subst; split; reflexivity. Qed.

Definition typed (vals : list item) (stk : list ity) : Prop := Forall2 (fun x t => has_ty x t = true) vals stk.

Lemma typed_app v1 s1 v2 s2 : typed v1 s1 -> typed v2 s2 -> typed (v1 ++ v2) (s1 ++ s2).
Proof. apply Forall2_app. Qed.

Definition mk (ps : list item) (sv : list (list item)) (pr : option node) : pstate :=
  {| params := ps; saved := sv; proot := pr |}.

Lemma pop_G ps sv pr v vs : pop (mk (ps ++ rev (v :: vs)) sv pr) = AOk (v, mk (ps ++ rev vs) sv pr).
Proof.
  unfold pop, mk, with_params. cbn [params saved proot].
  rewrite rev_app_distr, rev_involutive. cbn [app]. rewrite rev_app_distr, rev_involutive. reflexivity.
Qed.
Lemma push_G x ps sv pr vs : push x (mk (ps ++ rev vs) sv pr) = mk (ps ++ rev (x :: vs)) sv pr.
Proof. unfold push, mk, with_params. cbn [params saved proot rev]. rewrite <- app_assoc. reflexivity. Qed.

(* ---------- kinds are stable under the tree editors the actions use ---------- *)
Lemma rootedb_append_deep n x : rootedb (append_deep n x) = rootedb n.
Proof. destruct n as [k b nx]. destruct k; reflexivity. Qed.
Lemma rootedb_clear_acc n : rootedb (clear_acc n) = rootedb n.
Proof. destruct n as [k b nx]. destruct k; reflexivity. Qed.
Lemma rootedb_set_node_vg n : rootedb (set_node_vg n) = rootedb n.
Proof. destruct n as [k b nx]. destruct k; reflexivity. Qed.
Lemma rootedb_update_vg n : rootedb (update_vg n) = rootedb n.
Proof. unfold update_vg. destruct (chain_vg n); [apply rootedb_set_node_vg|reflexivity]. Qed.

(* ---------- abstract effect of the actions ---------- *)
(* (types popped, top first; types pushed, top first) *)
Definition sig (n : nat) : option (list ity * list ity) :=
  match n with
  | 3 | 4 | 7 => Some ([TNode], [TNode])
  | 5 => Some ([TStr], [TNode])
  | 6 => Some ([], [TStr])
  | 8 | 9 => Some ([], [TRooted])
  | 10 | 12 | 13 | 14 => Some ([], [TNode])
  | 11 => Some ([TNode; TNode], [TNode])
  | 15 => Some ([TUnion; TUnion], [TUnion])
  | 16 => Some ([TIdx; TIdx; TIdx], [TSubs])
  | 17 | 18 => Some ([], [TSubs])
  | 19 => Some ([TSubs], [TUnion])
  | 20 | 21 => Some ([], [TIdx])
  | 23 => Some ([TQuery], [TNode])
  | 24 | 25 => Some ([TQuery; TQuery], [TQuery])
  | 26 => Some ([TQueryRaw], [TQuery])
  | 27 => Some ([TBool; TPQ], [TQuery])
  | 28 | 29 | 30 | 31 | 32 | 33 => Some ([TCP; TCP], [TQueryRaw])
  | 34 => Some ([TCP], [TQuery])
  | 35 | 36 => Some ([TLit], [TCP])
  | 40 | 41 | 42 | 43 | 44 | 45 => Some ([], [TLit])
  | _ => None
  end.


(* ---------- facts the action proofs use ---------- *)
Fixpoint wf_nodes_snoc (ids : nodes) (x : node) : wf_nodes (nodes_snoc ids x) = wf_nodes ids && wf_node x.
Proof.
  destruct ids as [|i r]; cbn [nodes_snoc wf_nodes].
  - rewrite andb_true_r. reflexivity.
  - rewrite wf_nodes_snoc, andb_assoc. reflexivity.
Qed.
Fixpoint acc_clean_ids_snoc (ids : nodes) (x : node) : acc_clean_ids (nodes_snoc ids x) = acc_clean_ids ids && acc_clean x.
Proof.
  destruct ids as [|i r]; cbn [nodes_snoc acc_clean_ids].
  - rewrite andb_true_r. reflexivity.
  - rewrite acc_clean_ids_snoc, andb_assoc. reflexivity.
Qed.
Lemma atoi_in64 cps z : atoi cps = Some z -> in64b z = true.
Proof.
  unfold atoi. destruct (match cps with c :: r => _ | [] => _ end) as [neg ds].
  destruct ds; [discriminate|]. destruct (digits_val _ _) as [v|]; [|discriminate].
  destruct (in64b (if neg then (- v)%Z else v)) eqn:E; [|discriminate]. intros H. inversion H; subst. exact E.
Qed.
Lemma sub_okb_mk_slice a b c : idx_okb a = true -> idx_okb b = true -> idx_okb c = true -> sub_okb (mk_slice a b c) = true.
Proof.
  intros Ha Hb Hc. unfold mk_slice.
  assert (Hs : forall sp', idx_okb sp' = true -> (omitted sp' = true -> number sp' = 1%Z) ->
               sub_okb (if (number sp' >=? 0)%Z then SubSlicePos a b sp' else SubSliceNeg a b sp') = true).
  { intros sp' Hsp Hom. destruct (number sp' >=? 0)%Z eqn:En; cbn [sub_okb]; rewrite Ha, Hb, Hsp, En; cbn [andb negb].
    - destruct (omitted sp') eqn:Eo; [rewrite (Hom eq_refl); reflexivity|reflexivity].
    - destruct (omitted sp') eqn:Eo; [|reflexivity]. rewrite (Hom eq_refl) in En. discriminate. }
  apply Hs.
  - destruct (omitted c); [reflexivity|exact Hc].
  - destruct (omitted c) eqn:Eo; [reflexivity|]. intros H. cbn in H. congruence.
Qed.
Lemma sub_single_or_group s : match s with SubIndex _ => true | _ => false end || sub_value_group s = true.
Proof. destruct s; reflexivity. Qed.

Definition two_cur (q : query) : bool :=
  match (match q with QNot q' => q' | _ => q end) with
  | QCmp (CP (PqCur _) _) (CP (PqCur _) _) _ => true
  | _ => false
  end.
Lemma rawcmp_wf l r c : rawcmp l r = true -> two_cur (QCmp l r c) = false -> wf_query (QCmp l r c) = true.
Proof.
  destruct l as [lp ll], r as [rp rl]. unfold rawcmp. intros H Ht.
  apply andb_true_iff in H. destruct H as [H Hr]. apply andb_true_iff in H. destruct H as [Hl Hrr].
  apply Nat.leb_le in Hr.
  destruct lp as [lv|ln|ln], rp as [rv|rn|rn]; cbn [cpwf wf_query wf_pquery two_cur rank] in *;
    repeat match goal with
           | H : _ && _ = true |- _ => apply andb_true_iff in H; destruct H
           | H : negb ?x = true |- _ => apply negb_true_iff in H; subst x
           | H : ?x = true |- _ => is_var x; subst x
           end; cbn [rank] in Hr; try lia; try discriminate;
    repeat (apply andb_true_iff; split); try assumption; reflexivity.
Qed.
Lemma rawq_wf q : rawq q = true -> two_cur q = false -> wf_query q = true.
Proof.
  unfold rawq. intros H Ht. apply orb_true_iff in H. destruct H as [H|H]; [exact H|].
  destruct q as [a b|a b|a|l r c|p]; try discriminate.
  - destruct a as [| | |l r c|]; try discriminate. cbn [wf_query]. apply (rawcmp_wf l r c H Ht).
  - apply rawcmp_wf; assumption.
Qed.
Lemma rawq_cmp l r c : cpwf l = true -> cpwf r = true -> rank l <= rank r -> rawq (QCmp l r c) = true.
Proof. intros Hl Hr Hk. unfold rawq, rawcmp. rewrite Hl, Hr. apply Nat.leb_le in Hk. rewrite Hk. apply orb_true_r. Qed.
Lemma rawq_not_cmp l r c : cpwf l = true -> cpwf r = true -> rank l <= rank r -> rawq (QNot (QCmp l r c)) = true.
Proof. intros Hl Hr Hk. unfold rawq, rawcmp. rewrite Hl, Hr. apply Nat.leb_le in Hk. rewrite Hk. apply orb_true_r. Qed.

Lemma cpwf_all_false p : cpwf p = true -> all_false_p (match p with CP q _ => q end) = true.
Proof.
  destruct p as [q lit]. destruct q as [v|n|n]; cbn [cpwf all_false_p]; intros H; [reflexivity| |];
    apply andb_true_iff in H; apply H.
Qed.
Lemma all_false_cmp l r c : cpwf l = true -> cpwf r = true -> all_false_q (QCmp l r c) = true.
Proof.
  intros Hl Hr. pose proof (cpwf_all_false l Hl) as A. pose proof (cpwf_all_false r Hr) as B.
  destruct l as [lp ll], r as [rp rl]. cbn [all_false_q]. rewrite A, B. reflexivity.
Qed.
Lemma compare_ord_raw c l r st : cpwf l = true -> cpwf r = true ->
  exists q, push_compare_ord c l r st = push (IQuery q) st /\ rawq q && all_false_q q = true.
Proof.
  intros Hl Hr. unfold push_compare_ord, swap_required. destruct (Nat.ltb (rank r) (rank l)) eqn:E.
  - apply Nat.ltb_lt in E. eexists. split; [reflexivity|]. rewrite rawq_cmp, all_false_cmp; [reflexivity| | | | |]; try assumption. lia.
  - apply Nat.ltb_ge in E. eexists. split; [reflexivity|]. rewrite rawq_cmp, all_false_cmp; [reflexivity| | | | |]; assumption.
Qed.
Lemma compare_eq_raw l r st : cpwf l = true -> cpwf r = true ->
  exists q, push_compare_eq l r st = push (IQuery q) st /\ rawq q && all_false_q q = true /\ rawq (QNot q) && all_false_q (QNot q) = true.
Proof.
  intros Hl Hr. unfold push_compare_eq, swap_required.
  assert (Hgen : forall a b, cpwf a = true -> cpwf b = true -> rank a <= rank b ->
            exists q, match b with
                      | CP (PqLit v) _ =>
                          match v with
                          | VNum _ => push (IQuery (QCmp a b (CDirectEq VdNumeric))) st
                          | VBool _ => push (IQuery (QCmp a b (CDirectEq VdBool))) st
                          | VStr _ => push (IQuery (QCmp a b (CDirectEq VdString))) st
                          | VNull => push (IQuery (QCmp a b (CDirectEq VdNil))) st
                          | _ => st
                          end
                      | _ => push (IQuery (QCmp a b CDeepEq)) st
                      end = push (IQuery q) st /\ rawq q && all_false_q q = true /\ rawq (QNot q) && all_false_q (QNot q) = true).
  { intros a b Ha Hb Hk. destruct b as [bp bl] eqn:Eb. destruct bp as [v|n|n].
    - cbn [cpwf] in Hb. apply andb_true_iff in Hb. destruct Hb as [Hb1 Hb2].
      assert (Hb' : cpwf (CP (PqLit v) bl) = true) by (cbn [cpwf]; rewrite Hb1, Hb2; reflexivity).
      destruct v; try discriminate Hb2;
        (eexists; split; [reflexivity|]; cbn [all_false_q]; fold (all_false_q (QCmp a (CP (PqLit VNull) bl) CDeepEq));
         split; [rewrite rawq_cmp by assumption|rewrite rawq_not_cmp by assumption]; cbn [andb];
         apply (all_false_cmp a _ CDeepEq Ha Hb')).
    - eexists. split; [reflexivity|]. cbn [all_false_q]. split; [rewrite rawq_cmp by assumption|rewrite rawq_not_cmp by assumption]; cbn [andb]; apply (all_false_cmp a _ CDeepEq Ha Hb).
    - eexists. split; [reflexivity|]. cbn [all_false_q]. split; [rewrite rawq_cmp by assumption|rewrite rawq_not_cmp by assumption]; cbn [andb]; apply (all_false_cmp a _ CDeepEq Ha Hb). }
  destruct (Nat.ltb (rank r) (rank l)) eqn:E.
  - apply Nat.ltb_lt in E. apply Hgen; [assumption|assumption|lia].
  - apply Nat.ltb_ge in E. apply Hgen; assumption.
Qed.

Lemma act26_eq (q : query) (bg : nat) (st1 : pstate) :
  match (match IQuery q with IQuery (QNot q') => Some q' | IQuery q' => Some q' | _ => None end) with
  | Some (QCmp (CP (PqCur _) _) (CP (PqCur _) _) _) => AErr (ESyntax bg RTwoCurrent)
  | _ => AOk (push (IQuery q) st1)
  end = if two_cur q then AErr (ESyntax bg RTwoCurrent) else AOk (push (IQuery q) st1).
Proof.
  destruct q as [x y|x y|a|[lp ll] [rp rl] c|p]; try reflexivity.
  - destruct a as [x y|x y|a'|[lp ll] [rp rl] c|p]; try reflexivity. destruct lp, rp; reflexivity.
  - destruct lp, rp; reflexivity.
Qed.

Section ActSound.
  Variable cfg : config.
  Variable parse_float : string -> option num.
  Variable regex_ok : string -> bool.
  Notation exec_action := (exec_action cfg parse_float regex_ok).

  Ltac inv_typed :=
    repeat match goal with
           | H : typed _ (_ :: _) |- _ => inversion H; subst; clear H
           | H : typed _ [] |- _ => inversion H; subst; clear H
           | H : Forall2 _ _ (_ :: _) |- _ => inversion H; subst; clear H
           | H : Forall2 _ _ [] |- _ => inversion H; subst; clear H
           end.
  Ltac kill_items :=
    repeat match goal with
           | H : has_ty ?x _ = true |- _ => is_var x; destruct x; try discriminate H
           end.
  Ltac pops := repeat (rewrite pop_G; cbn [abind]).
  Ltac norm_in H :=
    cbn [has_ty wf_node wf_nodes wf_query wf_pquery vgc single_kind node_kind node_basic vgroup
         acc_clean acc_clean_ids all_false all_false_ids all_false_q all_false_p accessor
         cpwf scalarb negb andb orb forallb] in H.
  Ltac unpack :=
    repeat match goal with
           | H : has_ty _ _ = true |- _ => progress norm_in H
           | H : nwf _ = true |- _ => unfold nwf in H
           | H : pqwf _ = true |- _ => unfold pqwf in H
           | H : wf_node (Node _ _ _) = true |- _ => progress norm_in H
           | H : vgc (Node _ _ _) = true |- _ => progress norm_in H
           | H : acc_clean (Node _ _ _) = true |- _ => progress norm_in H
           | H : all_false (Node _ _ _) = true |- _ => progress norm_in H
           | H : cpwf (CP _ _) = true |- _ => progress norm_in H
           | H : _ && _ = true |- _ => apply andb_true_iff in H; destruct H
           | H : true = true |- _ => clear H
           | H : false = true |- _ => discriminate H
           | H : negb true = true |- _ => discriminate H
           | H : ?x = true |- _ => is_var x; subst x
           | H : ?x = false |- _ => is_var x; subst x
           end.
  Ltac close_goal :=
    first
      [ assumption | reflexivity
      | apply orb_true_r
      | apply sub_single_or_group
      | apply sub_okb_mk_slice; assumption
      | match goal with
        | H : atoi _ = Some ?z |- _ => exact (atoi_in64 _ _ H)
        | H : idx_okb ?i = true |- sub_okb (SubIndex (number ?i)) = true => exact H
        end ].
  Ltac inv_goal :=
    unpack;
    cbn [has_ty]; unfold nwf, pqwf;
    rewrite ?wf_nodes_snoc, ?acc_clean_ids_snoc, ?forallb_app;
    cbn [wf_node wf_nodes wf_query wf_pquery vgc single_kind node_kind node_basic vgroup mk_basic set_vgroup set_text
         acc_clean acc_clean_ids all_false all_false_ids all_false_q all_false_p accessor
         cpwf scalarb negb andb orb forallb];
    rewrite ?wf_nodes_snoc, ?acc_clean_ids_snoc, ?forallb_app;
    cbn [wf_node wf_nodes acc_clean acc_clean_ids forallb sub_okb andb];
    repeat (first [ close_goal | (apply andb_true_iff; split) ]).
  Ltac fin :=
    repeat first [ rewrite push_G | progress cbn [wpa abind] ];
    try exact I;
    try (eexists; split; [|reflexivity]; repeat (constructor; [inv_goal|]); try constructor);
    try congruence.

  Ltac prep :=
    repeat match goal with
           | H : has_ty (INode (Node ?k _ _)) TUnion = true |- _ => is_var k; destruct k; try discriminate H
           | H : has_ty (IPQ ?p) TPQ = true |- _ => is_var p; destruct p; try discriminate H
           | H : has_ty (ICParam (CP (PqLit ?v) ?l)) TCP = true |- _ => is_var v; destruct v; try (cbn [has_ty cpwf scalarb] in H; rewrite andb_false_r in H; discriminate H)
           | n : node |- _ => destruct n
           | p : cparam |- _ => destruct p
           | H : has_ty (ICParam (CP ?p _)) TCP = true |- _ => is_var p; destruct p
           end.
  Ltac crunch :=
    repeat first
      [ progress pops
      | rewrite push_G
      | progress cbn [wpa abind literal_of node_kind]
      | match goal with
        | |- wpa (match ?x with _ => _ end) _ => destruct x eqn:?
        | |- wpa (if ?x then _ else _) _ => destruct x eqn:?
        | |- context [match ?x with _ => _ end] => is_var x; destruct x
        | |- context [if ?x then _ else _] => destruct x eqn:?
        end ].
  Ltac act_tac :=
    cbn [Actions.exec_action];
    unfold two_operands, set_last_node_text;
    unfold pop_node, pop_query, pop_cparam, pop_idx;
    unfold push_recursive, push_multi, push_single, push_function, push_index, push_compare_eq, push_compare_ord;
    crunch; fin.

  Lemma utf8_cp_nonempty c : utf8_cp c <> [].
  Proof. unfold utf8_cp. repeat match goal with |- context [if ?x then _ else _] => destruct x end; discriminate. Qed.
  Lemma first_byte_nonempty cps : cps <> [] -> exists b, first_byte cps = Some b.
  Proof.
    destruct cps as [|c cs]; [intros H; contradiction H; reflexivity|]. intros _.
    unfold first_byte, utf8. cbn [flat_map]. pose proof (utf8_cp_nonempty c) as H.
    destruct (utf8_cp c) as [|b0 bs]; [contradiction H; reflexivity|]. exists b0. reflexivity.
  Qed.

  Lemma act_sound an req out vtop cps b ps sv pr :
    sig an = Some (req, out) -> typed vtop req -> (an = 27 -> cps <> []) ->
    wpa (exec_action an cps b (mk (ps ++ rev vtop) sv pr))
        (fun st' => exists vout, typed vout out /\ st' = mk (ps ++ rev vout) sv pr).
  Proof.
    intros Hs Ht Hc.
    destruct an as [|an]. { cbn [sig] in Hs; try discriminate Hs; inversion Hs; subst req out; clear Hs; inv_typed; kill_items; prep; unpack; try (destruct (first_byte_nonempty cps (Hc eq_refl)) as [fb Hfb]); solve [act_tac]. }
    destruct an as [|an]. { cbn [sig] in Hs; try discriminate Hs; inversion Hs; subst req out; clear Hs; inv_typed; kill_items; prep; unpack; try (destruct (first_byte_nonempty cps (Hc eq_refl)) as [fb Hfb]); solve [act_tac]. }
    destruct an as [|an]. { cbn [sig] in Hs; try discriminate Hs; inversion Hs; subst req out; clear Hs; inv_typed; kill_items; prep; unpack; try (destruct (first_byte_nonempty cps (Hc eq_refl)) as [fb Hfb]); solve [act_tac]. }
    destruct an as [|an]. { cbn [sig] in Hs; try discriminate Hs; inversion Hs; subst req out; clear Hs; inv_typed; kill_items; prep; unpack; try (destruct (first_byte_nonempty cps (Hc eq_refl)) as [fb Hfb]); solve [act_tac]. }
    destruct an as [|an]. { cbn [sig] in Hs; try discriminate Hs; inversion Hs; subst req out; clear Hs; inv_typed; kill_items; prep; unpack; try (destruct (first_byte_nonempty cps (Hc eq_refl)) as [fb Hfb]); solve [act_tac]. }
    destruct an as [|an]. { cbn [sig] in Hs; try discriminate Hs; inversion Hs; subst req out; clear Hs; inv_typed; kill_items; prep; unpack; try (destruct (first_byte_nonempty cps (Hc eq_refl)) as [fb Hfb]); solve [act_tac]. }
    destruct an as [|an]. { cbn [sig] in Hs; try discriminate Hs; inversion Hs; subst req out; clear Hs; inv_typed; kill_items; prep; unpack; try (destruct (first_byte_nonempty cps (Hc eq_refl)) as [fb Hfb]); solve [act_tac]. }
    destruct an as [|an]. { cbn [sig] in Hs; try discriminate Hs; inversion Hs; subst req out; clear Hs; inv_typed; kill_items; prep; unpack; try (destruct (first_byte_nonempty cps (Hc eq_refl)) as [fb Hfb]); solve [act_tac]. }
    destruct an as [|an]. { cbn [sig] in Hs; try discriminate Hs; inversion Hs; subst req out; clear Hs; inv_typed; kill_items; prep; unpack; try (destruct (first_byte_nonempty cps (Hc eq_refl)) as [fb Hfb]); solve [act_tac]. }
    destruct an as [|an]. { cbn [sig] in Hs; try discriminate Hs; inversion Hs; subst req out; clear Hs; inv_typed; kill_items; prep; unpack; try (destruct (first_byte_nonempty cps (Hc eq_refl)) as [fb Hfb]); solve [act_tac]. }
    destruct an as [|an]. { cbn [sig] in Hs; try discriminate Hs; inversion Hs; subst req out; clear Hs; inv_typed; kill_items; prep; unpack; try (destruct (first_byte_nonempty cps (Hc eq_refl)) as [fb Hfb]); solve [act_tac]. }
    destruct an as [|an]. { cbn [sig] in Hs; try discriminate Hs; inversion Hs; subst req out; clear Hs; inv_typed; kill_items; prep; unpack; try (destruct (first_byte_nonempty cps (Hc eq_refl)) as [fb Hfb]); solve [act_tac]. }
    destruct an as [|an]. { cbn [sig] in Hs; try discriminate Hs; inversion Hs; subst req out; clear Hs; inv_typed; kill_items; prep; unpack; try (destruct (first_byte_nonempty cps (Hc eq_refl)) as [fb Hfb]); solve [act_tac]. }
    destruct an as [|an]. { cbn [sig] in Hs; try discriminate Hs; inversion Hs; subst req out; clear Hs; inv_typed; kill_items; prep; unpack; try (destruct (first_byte_nonempty cps (Hc eq_refl)) as [fb Hfb]); solve [act_tac]. }
    destruct an as [|an]. { cbn [sig] in Hs; try discriminate Hs; inversion Hs; subst req out; clear Hs; inv_typed; kill_items; prep; unpack; try (destruct (first_byte_nonempty cps (Hc eq_refl)) as [fb Hfb]); solve [act_tac]. }
    destruct an as [|an]. { cbn [sig] in Hs; try discriminate Hs; inversion Hs; subst req out; clear Hs; inv_typed; kill_items; prep; unpack; try (destruct (first_byte_nonempty cps (Hc eq_refl)) as [fb Hfb]); solve [act_tac]. }
    destruct an as [|an]. { cbn [sig] in Hs; try discriminate Hs; inversion Hs; subst req out; clear Hs; inv_typed; kill_items; prep; unpack; try (destruct (first_byte_nonempty cps (Hc eq_refl)) as [fb Hfb]); solve [act_tac]. }
    destruct an as [|an]. { cbn [sig] in Hs; try discriminate Hs; inversion Hs; subst req out; clear Hs; inv_typed; kill_items; prep; unpack; try (destruct (first_byte_nonempty cps (Hc eq_refl)) as [fb Hfb]); solve [act_tac]. }
    destruct an as [|an]. { cbn [sig] in Hs; try discriminate Hs; inversion Hs; subst req out; clear Hs; inv_typed; kill_items; prep; unpack; try (destruct (first_byte_nonempty cps (Hc eq_refl)) as [fb Hfb]); solve [act_tac]. }
    destruct an as [|an]. { cbn [sig] in Hs; try discriminate Hs; inversion Hs; subst req out; clear Hs; inv_typed; kill_items; prep; unpack; try (destruct (first_byte_nonempty cps (Hc eq_refl)) as [fb Hfb]); solve [act_tac]. }
    destruct an as [|an]. { cbn [sig] in Hs; try discriminate Hs; inversion Hs; subst req out; clear Hs; inv_typed; kill_items; prep; unpack; try (destruct (first_byte_nonempty cps (Hc eq_refl)) as [fb Hfb]); solve [act_tac]. }
    destruct an as [|an]. { cbn [sig] in Hs; try discriminate Hs; inversion Hs; subst req out; clear Hs; inv_typed; kill_items; prep; unpack; try (destruct (first_byte_nonempty cps (Hc eq_refl)) as [fb Hfb]); solve [act_tac]. }
    destruct an as [|an]. { cbn [sig] in Hs; try discriminate Hs; inversion Hs; subst req out; clear Hs; inv_typed; kill_items; prep; unpack; try (destruct (first_byte_nonempty cps (Hc eq_refl)) as [fb Hfb]); solve [act_tac]. }
    destruct an as [|an]. { cbn [sig] in Hs; try discriminate Hs; inversion Hs; subst req out; clear Hs; inv_typed; kill_items; prep; unpack; try (destruct (first_byte_nonempty cps (Hc eq_refl)) as [fb Hfb]); solve [act_tac]. }
    destruct an as [|an]. { cbn [sig] in Hs; try discriminate Hs; inversion Hs; subst req out; clear Hs; inv_typed; kill_items; prep; unpack; try (destruct (first_byte_nonempty cps (Hc eq_refl)) as [fb Hfb]); solve [act_tac]. }
    destruct an as [|an]. { cbn [sig] in Hs; try discriminate Hs; inversion Hs; subst req out; clear Hs; inv_typed; kill_items; prep; unpack; try (destruct (first_byte_nonempty cps (Hc eq_refl)) as [fb Hfb]); solve [act_tac]. }
    destruct an as [|an]. { cbn [sig] in Hs; try discriminate Hs; inversion Hs; subst req out; clear Hs; inv_typed; kill_items; cbn [has_ty] in *; cbn [Actions.exec_action]; rewrite pop_G; cbn [abind]; rewrite act26_eq; match goal with |- context [two_cur ?q] => destruct (two_cur q) eqn:Et end; [exact I|]; cbn [wpa]; rewrite push_G; exists [IQuery q]; split; [constructor; [cbn [has_ty]; repeat match goal with H : _ && _ = true |- _ => apply andb_true_iff in H; destruct H end; apply andb_true_iff; split; [apply rawq_wf; assumption|assumption]|constructor]|reflexivity]. }
    destruct an as [|an]. { cbn [sig] in Hs; try discriminate Hs; inversion Hs; subst req out; clear Hs; inv_typed; kill_items; prep; unpack; try (destruct (first_byte_nonempty cps (Hc eq_refl)) as [fb Hfb]); solve [act_tac]. }
    destruct an as [|an]. { cbn [sig] in Hs; try discriminate Hs; inversion Hs; subst req out; clear Hs; inv_typed; kill_items; cbn [has_ty] in *; cbn [Actions.exec_action]; unfold two_operands, pop_cparam; repeat (rewrite pop_G; cbn [abind]); match goal with |- context [push_compare_eq ?l ?r ?st] => destruct (compare_eq_raw l r st ltac:(assumption) ltac:(assumption)) as (q & E & R1 & R2); rewrite E end; cbn [abind wpa]; rewrite push_G; exists [IQuery q]; split; [constructor; [exact R1|constructor]|reflexivity]. }
    destruct an as [|an]. { cbn [sig] in Hs; try discriminate Hs; inversion Hs; subst req out; clear Hs; inv_typed; kill_items; cbn [has_ty] in *; cbn [Actions.exec_action]; unfold two_operands, pop_cparam; repeat (rewrite pop_G; cbn [abind]); match goal with |- context [push_compare_eq ?l ?r ?st] => destruct (compare_eq_raw l r st ltac:(assumption) ltac:(assumption)) as (q & E & R1 & R2); rewrite E end; unfold pop_query; rewrite push_G, pop_G; cbn [abind wpa]; rewrite push_G; exists [IQuery (QNot q)]; split; [constructor; [exact R2|constructor]|reflexivity]. }
    destruct an as [|an]. { cbn [sig] in Hs; try discriminate Hs; inversion Hs; subst req out; clear Hs; inv_typed; kill_items; cbn [has_ty] in *; cbn [Actions.exec_action]; unfold two_operands, pop_cparam; repeat (rewrite pop_G; cbn [abind]); match goal with |- context [push_compare_ord ?c ?l ?r ?st] => destruct (compare_ord_raw c l r st ltac:(assumption) ltac:(assumption)) as (q & E & R1); rewrite E end; cbn [abind wpa]; rewrite push_G; exists [IQuery q]; split; [constructor; [exact R1|constructor]|reflexivity]. }
    destruct an as [|an]. { cbn [sig] in Hs; try discriminate Hs; inversion Hs; subst req out; clear Hs; inv_typed; kill_items; cbn [has_ty] in *; cbn [Actions.exec_action]; unfold two_operands, pop_cparam; repeat (rewrite pop_G; cbn [abind]); match goal with |- context [push_compare_ord ?c ?l ?r ?st] => destruct (compare_ord_raw c l r st ltac:(assumption) ltac:(assumption)) as (q & E & R1); rewrite E end; cbn [abind wpa]; rewrite push_G; exists [IQuery q]; split; [constructor; [exact R1|constructor]|reflexivity]. }
    destruct an as [|an]. { cbn [sig] in Hs; try discriminate Hs; inversion Hs; subst req out; clear Hs; inv_typed; kill_items; cbn [has_ty] in *; cbn [Actions.exec_action]; unfold two_operands, pop_cparam; repeat (rewrite pop_G; cbn [abind]); match goal with |- context [push_compare_ord ?c ?l ?r ?st] => destruct (compare_ord_raw c l r st ltac:(assumption) ltac:(assumption)) as (q & E & R1); rewrite E end; cbn [abind wpa]; rewrite push_G; exists [IQuery q]; split; [constructor; [exact R1|constructor]|reflexivity]. }
    destruct an as [|an]. { cbn [sig] in Hs; try discriminate Hs; inversion Hs; subst req out; clear Hs; inv_typed; kill_items; cbn [has_ty] in *; cbn [Actions.exec_action]; unfold two_operands, pop_cparam; repeat (rewrite pop_G; cbn [abind]); match goal with |- context [push_compare_ord ?c ?l ?r ?st] => destruct (compare_ord_raw c l r st ltac:(assumption) ltac:(assumption)) as (q & E & R1); rewrite E end; cbn [abind wpa]; rewrite push_G; exists [IQuery q]; split; [constructor; [exact R1|constructor]|reflexivity]. }
    destruct an as [|an]. { cbn [sig] in Hs; try discriminate Hs; inversion Hs; subst req out; clear Hs; inv_typed; kill_items; prep; unpack; try (destruct (first_byte_nonempty cps (Hc eq_refl)) as [fb Hfb]); solve [act_tac]. }
    destruct an as [|an]. { cbn [sig] in Hs; try discriminate Hs; inversion Hs; subst req out; clear Hs; inv_typed; kill_items; prep; unpack; try (destruct (first_byte_nonempty cps (Hc eq_refl)) as [fb Hfb]); solve [act_tac]. }
    destruct an as [|an]. { cbn [sig] in Hs; try discriminate Hs; inversion Hs; subst req out; clear Hs; inv_typed; kill_items; prep; unpack; try (destruct (first_byte_nonempty cps (Hc eq_refl)) as [fb Hfb]); solve [act_tac]. }
    destruct an as [|an]. { cbn [sig] in Hs; try discriminate Hs; inversion Hs; subst req out; clear Hs; inv_typed; kill_items; prep; unpack; try (destruct (first_byte_nonempty cps (Hc eq_refl)) as [fb Hfb]); solve [act_tac]. }
    destruct an as [|an]. { cbn [sig] in Hs; try discriminate Hs; inversion Hs; subst req out; clear Hs; inv_typed; kill_items; prep; unpack; try (destruct (first_byte_nonempty cps (Hc eq_refl)) as [fb Hfb]); solve [act_tac]. }
    destruct an as [|an]. { cbn [sig] in Hs; try discriminate Hs; inversion Hs; subst req out; clear Hs; inv_typed; kill_items; prep; unpack; try (destruct (first_byte_nonempty cps (Hc eq_refl)) as [fb Hfb]); solve [act_tac]. }
    destruct an as [|an]. { cbn [sig] in Hs; try discriminate Hs; inversion Hs; subst req out; clear Hs; inv_typed; kill_items; prep; unpack; try (destruct (first_byte_nonempty cps (Hc eq_refl)) as [fb Hfb]); solve [act_tac]. }
    destruct an as [|an]. { cbn [sig] in Hs; try discriminate Hs; inversion Hs; subst req out; clear Hs; inv_typed; kill_items; prep; unpack; try (destruct (first_byte_nonempty cps (Hc eq_refl)) as [fb Hfb]); solve [act_tac]. }
    destruct an as [|an]. { cbn [sig] in Hs; try discriminate Hs; inversion Hs; subst req out; clear Hs; inv_typed; kill_items; prep; unpack; try (destruct (first_byte_nonempty cps (Hc eq_refl)) as [fb Hfb]); solve [act_tac]. }
    destruct an as [|an]. { cbn [sig] in Hs; try discriminate Hs; inversion Hs; subst req out; clear Hs; inv_typed; kill_items; prep; unpack; try (destruct (first_byte_nonempty cps (Hc eq_refl)) as [fb Hfb]); solve [act_tac]. }
    destruct an as [|an]. { cbn [sig] in Hs; try discriminate Hs; inversion Hs; subst req out; clear Hs; inv_typed; kill_items; prep; unpack; try (destruct (first_byte_nonempty cps (Hc eq_refl)) as [fb Hfb]); solve [act_tac]. }
    destruct an as [|an]. { cbn [sig] in Hs; try discriminate Hs; inversion Hs; subst req out; clear Hs; inv_typed; kill_items; prep; unpack; try (destruct (first_byte_nonempty cps (Hc eq_refl)) as [fb Hfb]); solve [act_tac]. }
    cbn [sig] in Hs; discriminate Hs.
  Qed.
End ActSound.

