(* Json.v — values as the Go library sees them (DESIGN §3.1).
   Model only; no proofs here so that the model still runs when a proof breaks. *)
From Coq Require Export List String Ascii ZArith NArith Bool Arith.
Export ListNotations.
Open Scope Z_scope.

(* ---------- float64 values: exact m·2^e (normalised by the producer: m odd, or m = e = 0) ---------- *)
Inductive num := Fin (m e : Z) | PInf | NInf | NaN.

Definition num_eqb (a b : num) : bool :=
  match a, b with
  | Fin m1 e1, Fin m2 e2 =>
      (* compare m1·2^e1 with m2·2^e2 by aligning exponents *)
      let lo := Z.min e1 e2 in
      (m1 * 2 ^ (e1 - lo) =? m2 * 2 ^ (e2 - lo))
  | PInf, PInf => true
  | NInf, NInf => true
  | _, _ => false                      (* NaN is not equal to anything, itself included *)
  end.

Definition num_ltb (a b : num) : bool :=
  match a, b with
  | Fin m1 e1, Fin m2 e2 =>
      let lo := Z.min e1 e2 in
      (m1 * 2 ^ (e1 - lo) <? m2 * 2 ^ (e2 - lo))
  | NInf, Fin _ _ | NInf, PInf | Fin _ _, PInf => true
  | _, _ => false
  end.

Definition num_leb (a b : num) : bool := num_ltb a b || num_eqb a b.

(* float64(n) for a small non-negative integer n (lengths): exact, normalised *)
Fixpoint strip_twos (fuel : nat) (m e : Z) : Z * Z :=
  match fuel with
  | O => (m, e)
  | S f => if (m =? 0) then (0, 0) else if Z.even m then strip_twos f (m / 2) (e + 1) else (m, e)
  end.
Definition num_norm (m e : Z) : num := let '(m', e') := strip_twos 2200 m e in Fin m' e'.
Definition num_of_Z (z : Z) : num := num_norm z 0.
Definition num_double (x : num) : num :=
  match x with Fin m e => if m =? 0 then x else Fin m (e + 1) | _ => x end.

(* ---------- values ---------- *)
Inductive value :=
| VNull
| VBool (b : bool)
| VNum (x : num)                              (* float64 *)
| VJNum (spelling : string) (x : num)         (* json.Number; x = its Float64() *)
| VStr (s : string)
| VArr (l : list value)
| VObj (m : list (string * value))            (* association list, keys pairwise distinct, ANY order *)
| VOpaque (ty : string) (id : Z) (selfeq : bool).
  (* a non-JSON Go value: reflect.TypeOf(x).String(), an identity, and whether
     reflect.DeepEqual(x, x) holds (false for funcs, NaN) *)

(* what reflect.TypeOf(v).String() prints; nil is reported as "null" by the library *)
Definition go_type (v : value) : string :=
  match v with
  | VNull => "null"
  | VBool _ => "bool"
  | VNum _ => "float64"
  | VJNum _ _ => "json.Number"
  | VStr _ => "string"
  | VArr _ => "[]interface {}"
  | VObj _ => "map[string]interface {}"
  | VOpaque ty _ _ => ty
  end%string.

Fixpoint lookup (m : list (string * value)) (k : string) : option value :=
  match m with
  | [] => None
  | (k', v) :: r => if String.eqb k k' then Some v else lookup r k
  end.

(* ---------- reflect.DeepEqual on these values ---------- *)
Section DeepEq.
  Variable deq : value -> value -> bool.
  Fixpoint deq_list (a b : list value) : bool :=
    match a, b with
    | [], [] => true
    | x :: a', y :: b' => deq x y && deq_list a' b'
    | _, _ => false
    end.
  (* every key of a is in b with a deep-equal value (lengths compared separately) *)
  Fixpoint deq_obj (a b : list (string * value)) : bool :=
    match a with
    | [] => true
    | (k, x) :: a' => match lookup b k with Some y => deq x y && deq_obj a' b | None => false end
    end.
End DeepEq.

Fixpoint deep_eq (a b : value) {struct a} : bool :=
  match a, b with
  | VNull, VNull => true
  | VBool x, VBool y => Bool.eqb x y
  | VNum x, VNum y => num_eqb x y
  | VJNum s _, VJNum t _ => String.eqb s t          (* json.Number is a string type *)
  | VStr s, VStr t => String.eqb s t
  | VArr l, VArr l' => deq_list deep_eq l l'
  | VObj m, VObj m' =>
      Nat.eqb (List.length m) (List.length m') &&
      (fix go (a : list (string * value)) : bool :=
         match a with
         | [] => true
         | (k, x) :: a' => match lookup m' k with Some y => deep_eq x y && go a' | None => false end
         end) m
  | VOpaque t i s, VOpaque t' i' _ => String.eqb t t' && (i =? i') && s
  | _, _ => false
  end.

(* ---------- sorted keys (cache.go getSortedKeys: byte-wise ascending) ---------- *)
Fixpoint insert_key (k : string) (l : list string) : list string :=
  match l with
  | [] => [k]
  | x :: r => if String.leb k x then k :: l else x :: insert_key k r
  end.
Definition sort_keys (l : list string) : list string := fold_right insert_key [] l.
Definition sorted_keys (m : list (string * value)) : list string := sort_keys (map fst m).

(* the members of an object in the order the library visits them *)
Definition members_obj (m : list (string * value)) : list (string * value) :=
  flat_map (fun k => match lookup m k with Some v => [(k, v)] | None => [] end) (sorted_keys m).

Definition is_container (v : value) : bool :=
  match v with VArr _ | VObj _ => true | _ => false end.
