(* RecParse.v — recursive descent ..step through the regenerated grammar: `..` then a bracket node or a dot child,
   then action 3 (pushRecursiveChildIdentifier). *)
From JP Require Import Peg Grammar Text Tree Actions PegFacts PegMono PegEv FuelRules ParseFacts KeyDefs KeyParse IdxParse WildParse.
From Coq Require Import Lia.
Local Open Scope N_scope.
Open Scope list_scope.

Lemma ev_rule10_fail c r pos : c <> 91 -> evG (PRef 10) (c :: r) pos PFail.
Proof.
  intros H. eapply ev_ref; [reflexivity|]. apply ev_seq_fail. apply ev_cap_fail. apply ev_seq_fail.
  eapply ev_ref; [reflexivity|]. apply ev_seq_fail. apply (ev_lit_fail G [91]). apply strip1_no. exact H.
Qed.

(* `..` followed by a bracket node: whatever bracketNode yields, plus action 3 *)
Lemma ev_rule7_rec_br body rest pos toks n :
  evG (PRef 10) (body ++ rest) (pos + 2)%nat (POk rest (pos + 2 + n)%nat toks) ->
  evG (PRef 7) (46 :: 46 :: body ++ rest) pos (POk rest (pos + 2 + n)%nat (toks ++ [TAct 3])).
Proof.
  intros H. eapply ev_ref; [reflexivity|]. apply ev_alt_l.
  eapply ev_seq_ok; [apply (ev_lit_ok G [46; 46]); cbn [strip_prefix]; rewrite !N.eqb_refl; reflexivity| |reflexivity].
  eapply ev_seq_ok; [apply ev_alt_l; exact H|apply ev_act|reflexivity].
Qed.

(* `..name` with the name in the dot spelling *)
Lemma ev_rule7_rec_dot c k rest pos : forallb dot_char (c :: k) = true -> dot_stop rest ->
  evG (PRef 7) (46 :: 46 :: esc_dot_cps (c :: k) ++ rest) pos
      (POk rest (pos + 2 + List.length (esc_dot_cps (c :: k)))%nat
           [TText (pos + 2) (pos + 2 + List.length (esc_dot_cps (c :: k))); TAct 10; TAct 3]).
Proof.
  intros Hk Hs. eapply ev_ref; [reflexivity|]. apply ev_alt_l.
  destruct (dot_first c k) as (x & r & Hx & H42 & H46).
  eapply ev_conv.
  - eapply ev_seq_ok; [apply (ev_lit_ok G [46; 46]); cbn [strip_prefix]; rewrite !N.eqb_refl; reflexivity| |reflexivity].
    eapply ev_seq_ok; [|apply ev_act|reflexivity].
    apply ev_alt_r; [|apply ev_rule13; [exact Hk|exact Hs]].
    rewrite Hx. cbn [app]. apply ev_rule10_fail.
    intros ->. unfold esc_dot_cps in Hx. cbn [flat_map] in Hx. destruct (dot_sym c) eqn:Es.
    + cbn [app] in Hx. inversion Hx.
    + cbn [app] in Hx. inversion Hx; subst. discriminate Es.
  - cbn [List.length app]. reflexivity.
Qed.

(* `..*` *)
Lemma ev_rule7_rec_wild rest pos :
  evG (PRef 7) (46 :: 46 :: 42 :: rest) pos (POk rest (pos + 3)%nat [TAct 12; TAct 3]).
Proof.
  eapply ev_ref; [reflexivity|]. apply ev_alt_l. eapply ev_conv.
  - eapply ev_seq_ok; [apply (ev_lit_ok G [46; 46]); reflexivity| |reflexivity].
    eapply ev_seq_ok; [|apply ev_act|reflexivity].
    apply ev_alt_r; [apply ev_rule10_fail; discriminate|].
    eapply ev_ref; [exact rule13_shape|]. apply ev_alt_l. apply ev_rule17.
  - cbn [List.length app]. replace (S (pos + 2)) with (pos + 3)%nat by lia. reflexivity.
Qed.
