(* Refine2.v — refinement, part 2: operands and filter queries (the verdict list a query computes
   denotes the per-member Boolean of the specification), then every node, then whole calls. *)
From JP Require Import Eval WF Verdict VerdictCompute Spec SliceProofs EvalInv1 EvalInv2 EvalInv3 EvalInv4 Refine1.
From Coq Require Import Lia.
Open Scope string_scope.
Open Scope list_scope.
Arguments Nat.ltb : simpl never.
Arguments Nat.eqb : simpl never.

(* ---------- list-level facts ---------- *)
Lemma rewrite_list_map f : forall l i,
  fst (rewrite_list f l i) = map (fun x => match f x with Some y => y | None => x end) l.
Proof.
  induction l as [|x l IH]; intros i; cbn [rewrite_list map]; [reflexivity|].
  specialize (IH (S i)). destruct (rewrite_list f l (S i)) as [r ws]. cbn [fst] in IH.
  destruct (f x); cbn [fst]; rewrite IH; reflexivity.
Qed.

Lemma den_nth_each n l i : List.length l = n -> (i < n)%nat -> den n l i = negb (isE (nth i l None)).
Proof. intros H Hi. rewrite den_each by exact H. apply Nat.ltb_lt in Hi. rewrite Hi. reflexivity. Qed.
Lemma den_whole n x i : (i < n)%nat -> den n [x] i = negb (isE x).
Proof. intros Hi. rewrite den_single. apply Nat.ltb_lt in Hi. rewrite Hi. reflexivity. Qed.

Lemma nth_map_lt {A B} (f : A -> B) (d : A) (d' : B) : forall l i, (i < List.length l)%nat -> nth i (map f l) d' = f (nth i l d).
Proof. induction l as [|x l IH]; intros i Hi; cbn in *; [lia|]. destruct i; [reflexivity|apply IH; lia]. Qed.

Lemma nth_repeat {A} (x d : A) n i : (i < n)%nat -> nth i (repeat x n) d = x.
Proof. revert i. induction n as [|n IH]; intros i Hi; [lia|]. destruct i; cbn; [reflexivity|apply IH; lia]. Qed.

Section BoolLists.
  Variable ffun : string -> value -> option value.
  Variable afun : string -> list value -> option value.
  Variable regex_match : string -> string -> bool.
  Lemma andb_lists_nth : forall a b i, List.length a = List.length b ->
    nth i (andb_lists a b) false = nth i a false && nth i b false.
  Proof.
    induction a as [|x a IH]; intros [|y b] i H; cbn in H; try discriminate; cbn [andb_lists].
    - destruct i; reflexivity.
    - destruct i; cbn [nth]; [reflexivity|apply IH; lia].
  Qed.
  Lemma andb_lists_length : forall a b, List.length a = List.length b -> List.length (andb_lists a b) = List.length a.
  Proof. induction a as [|x a IH]; intros [|y b] H; cbn in *; try discriminate; [reflexivity|]. rewrite IH; lia. Qed.
  Lemma orb_lists_nth : forall a b i, List.length a = List.length b ->
    nth i (orb_lists a b) false = nth i a false || nth i b false.
  Proof.
    induction a as [|x a IH]; intros [|y b] i H; cbn in H; try discriminate; cbn [orb_lists].
    - destruct i; reflexivity.
    - destruct i; cbn [nth]; [reflexivity|apply IH; lia].
  Qed.
  Lemma orb_lists_length : forall a b, List.length a = List.length b -> List.length (orb_lists a b) = List.length a.
  Proof. induction a as [|x a IH]; intros [|y b] H; cbn in *; try discriminate; [reflexivity|]. rewrite IH; lia. Qed.
End BoolLists.

(* ---------- validate and the comparator, as maps ---------- *)
Lemma validate_spec c L st : good st -> L <> GFull ->
  exists L1, validate c L st = (existsb (is_valid c) (lget st L), L1, st) /\
             lget st L1 = map (validate_to c) (lget st L) /\ L1 <> GFull /\ (forall l, L = Own l -> exists l1, L1 = Own l1).
Proof.
  intros Hg Hn. destruct L as [l| |]; [| |contradiction Hn; reflexivity].
  - unfold validate, is_valid, validate_to. cbn [lget]. destruct (validator_of c) as [vd|] eqn:Ev.
    + pose proof (rewrite_list_map (validate_entry vd) l 0) as Hm.
      destruct (rewrite_list (validate_entry vd) l 0) as [l' ws]. cbn [fst] in Hm. cbn [commit].
      exists (Own l'). split; [reflexivity|]. split; [exact Hm|]. split; [discriminate|]. intros; eexists; reflexivity.
    + exists (Own l). split; [reflexivity|]. split; [symmetry; apply map_id|]. split; [discriminate|]. intros; eexists; reflexivity.
  - rewrite (validate_gempty c st Hg). exists GEmpty. cbn [lget]. destruct Hg as [Ge _]. rewrite Ge. cbn [existsb map].
    split; [|split; [|split; [discriminate|intros; discriminate]]].
    + unfold is_valid. destruct (validator_of c); reflexivity.
    + unfold validate_to. destruct (validator_of c); reflexivity.
Qed.

Section CmpSpec.
  Variable regex_match : string -> string -> bool.
  Notation cmp_keeps := (cmp_keeps regex_match).

  Definition cmp_new (c : comparator) (right x : entry) : entry :=
    match fst (cmp_entry regex_match c right x) with Some false => None | _ => x end.

  Lemma cmp_list_spec c right : forall l i,
    let '(l2, ws, hv, pn) := cmp_list regex_match c right l i in
    l2 = map (cmp_new c right) l /\ hv = existsb (cmp_keeps c right) l.
  Proof.
    induction l as [|x l IH]; intros i; cbn [cmp_list map existsb]; [split; reflexivity|].
    specialize (IH (S i)). destruct (cmp_list regex_match c right l (S i)) as [[[r ws] hv] pn]. destruct IH as [-> ->].
    destruct (cmp_entry regex_match c right x) as [[[|]|] pn0] eqn:E; cbn [fst];
      (split; [unfold cmp_new; rewrite E; reflexivity|unfold Spec.cmp_keeps; rewrite E; reflexivity]).
  Qed.

  (* with a present right operand, an element stays a value exactly when the comparator keeps it *)
  Lemma cmp_new_nonE c w x : negb (isE (cmp_new c (Some w) x)) = cmp_keeps c (Some w) x.
  Proof.
    unfold cmp_new, Spec.cmp_keeps.
    destruct c as [vd| | | | | |re]; cbn [cmp_entry].
    - destruct x as [v|]; cbn [iface_eq].
      + destruct v, w; cbn; try reflexivity;
          match goal with |- context [if ?b then _ else _] => destruct b; reflexivity | _ => idtac end;
          try (match goal with |- context [Bool.eqb ?a ?b] => destruct (Bool.eqb a b) end; reflexivity);
          try (match goal with |- context [num_eqb ?a ?b] => destruct (num_eqb a b) end; reflexivity);
          try (match goal with |- context [String.eqb ?a ?b] => destruct (String.eqb a b) end; reflexivity);
          try (match goal with |- context [(?a && ?b)%bool] => destruct (a && b)%bool end; reflexivity).
      + reflexivity.
    - destruct x as [v|]; cbn [fst]; [destruct (deep_eq v w); reflexivity|reflexivity].
    - destruct x as [[]|]; cbn [fst]; try reflexivity. destruct w; cbn [fst]; try reflexivity. destruct (num_ltb x x0); reflexivity.
    - destruct x as [[]|]; cbn [fst]; try reflexivity. destruct w; cbn [fst]; try reflexivity. destruct (num_leb x x0); reflexivity.
    - destruct x as [[]|]; cbn [fst]; try reflexivity. destruct w; cbn [fst]; try reflexivity. destruct (num_ltb x0 x); reflexivity.
    - destruct x as [[]|]; cbn [fst]; try reflexivity. destruct w; cbn [fst]; try reflexivity. destruct (num_leb x0 x); reflexivity.
    - destruct x as [[]|]; cbn [fst]; try reflexivity. destruct (regex_match re s); reflexivity.
  Qed.
End CmpSpec.

Lemma is_valid_some c x : is_valid c x = true -> exists w, validate_to c x = Some w.
Proof.
  unfold is_valid, validate_to. destruct (validator_of c) as [vd|].
  - destruct x as [v|]; [|discriminate]. destruct vd, v; cbn; intros H; try discriminate; eexists; reflexivity.
  - destruct x as [v|]; [|discriminate]. intros _. exists v. reflexivity.
Qed.

Section R2.
  Variable ffun : string -> value -> option value.
  Variable afun : string -> list value -> option value.
  Variable regex_match : string -> string -> bool.
  Hypothesis ffun_small : forall f v w, small v -> ffun f v = Some w -> small w.
  Hypothesis afun_small : forall f l w, Forall small l -> afun f l = Some w -> small w.

  Notation retrieve := (retrieve ffun afun regex_match).
  Notation retrieve_ids := (retrieve_ids ffun afun regex_match).
  Notation compute := (compute ffun afun regex_match).
  Notation compute_p := (compute_p ffun afun regex_match).
  Notation sp := (sp ffun afun regex_match).
  Notation sp_ids := (sp_ids ffun afun regex_match).
  Notation holds := (holds ffun afun regex_match).
  Notation operand := (operand ffun afun regex_match).
  Notation Q_node := (Q_node ffun afun regex_match).
  Notation Q_onode := (Q_onode ffun afun regex_match).
  Notation step_eq := (step_eq).

  Definition Q_query (q : query) : Prop :=
    wf_query q = true -> forall root vals st, small root -> Forall small vals -> ok st ->
    let '(L, st') := compute q root vals st in
    List.length (holds q root vals) = List.length vals /\
    forall i, (i < List.length vals)%nat -> den (List.length vals) (lget st' L) i = nth i (holds q root vals) false.
  Definition Q_pquery (p : pquery) : Prop :=
    wf_pquery p = true -> forall root vals st, small root -> Forall small vals -> ok st ->
    let '(L, st') := compute_p p root vals st in lget st' L = operand p root vals.
  Definition Q_cparam (cp : cparam) : Prop := match cp with CP p _ => Q_pquery p end.
  Definition Q_nodes (ids : nodes) : Prop :=
    wf_nodes ids = true -> forall m root cur c0 st0 s acc, small root -> cur_ok root cur -> snd cur = VObj m -> ok st0 ->
    linv2 root c0 st0 acc s -> linv2 root c0 st0 (acc ++ sp_ids ids root cur) (retrieve_ids ids m root cur s).
  Definition Q_kind (k : kind) : Prop :=
    match k with
    | KMulti ids _ uq => Q_nodes ids /\ Q_onode uq
    | KFilter q => Q_query q
    | KAgg _ param => Q_node param
    | _ => True
    end.

  Lemma A_query q root vals st : wf_query q = true -> small root -> Forall small vals -> ok st ->
    qpost (List.length vals) st (compute q root vals st).
  Proof.
    intros Hwf Hr Hv Hok.
    destruct (evaluator_invariant ffun afun regex_match ffun_small afun_small) as (_ & _ & _ & _ & HQ & _).
    exact (HQ q Hwf root vals st Hr Hv Hok).
  Qed.
  Lemma A_pquery p : P_pquery ffun afun regex_match p.
  Proof. destruct (evaluator_invariant ffun afun regex_match ffun_small afun_small) as (_ & _ & _ & _ & _ & _ & HP). apply HP. Qed.
  Lemma A_nodes ids : P_nodes ffun afun regex_match ids.
  Proof. destruct (evaluator_invariant ffun afun regex_match ffun_small afun_small) as (_ & _ & _ & HN & _). apply HN. Qed.

  (* ---------- operands ---------- *)
  Lemma operand_cur_eq n root vals :
    operand (PqCur n) root vals =
    let es := map (fun v => match sp n root (None, v) with x :: _ => Some (res_value (wrap x)) | [] => None end) vals in
    if existsb (fun x => negb (isE x)) es then es else [None].
  Proof. reflexivity. Qed.
  Lemma operand_root_eq n root vals :
    operand (PqRoot n) root vals =
    match sp n root (Some [], root) with
    | [] => [None]
    | [x] => [Some (res_value (wrap x))]
    | _ => [Some (VBool true)]
    end.
  Proof. reflexivity. Qed.
  Definition entry_of (c : cont) : entry := match c with r :: _ => Some (res_value r) | [] => None end.

  Lemma pquery_cur_eq n : Q_node n -> Q_pquery (PqCur n).
  Proof.
    intros IH Hwf root vals st Hr Hv Hok. cbn [wf_pquery] in Hwf. rewrite compute_p_cur_eq.
    set (ent := fun v => match sp n root (None, v) with x :: _ => Some (res_value (wrap x)) | [] => None end).
    assert (Hfold : forall vs res hv st', Forall small vs -> frame st st' ->
              let '(res2, hv2, st2) := fold_left (pcur_step ffun afun regex_match n root) vs (res, hv, st') in
              frame st st2 /\ res2 = res ++ map ent vs /\ hv2 = hv || existsb (fun x => negb (isE x)) (map ent vs)).
    { induction vs as [|v vs IHvs]; intros res hv st' Hsm Hfr; cbn [fold_left map existsb].
      - rewrite app_nil_r, orb_false_r. split; [assumption|split; reflexivity].
      - inversion Hsm as [|? ? Hv0 Hvs]; subst.
        assert (Hok' : ok st') by (eapply ok_frame; eassumption).
        pose proof (A_node ffun afun regex_match ffun_small afun_small n root (None, v) Hwf Hr (cur_ok_none root v Hv0) [] st' Hok') as Hp.
        pose proof (IH Hwf root (None, v) Hr (cur_ok_none root v Hv0) [] st' Hok') as Heq.
        unfold pcur_step at 2. unfold post in Hp.
        destruct (retrieve n root (None, v) [] st') as [[c e] st1]. cbn [fst app] in Heq.
        destruct Hp as [Hfr1 [r [Hc [He1 [He2 _]]]]]. cbn [app] in Hc. subst r.
        assert (Hfr2 : frame st st1) by (eapply frame_trans; eassumption).
        assert (Hent : entry_of c = ent v).
        { unfold ent, entry_of. rewrite Heq. destruct (sp n root (None, v)); reflexivity. }
        destruct e as [err|].
        + assert (Hc0 : c = []) by (apply He1; discriminate). rewrite Hc0 in Hent. cbn [entry_of] in Hent.
          specialize (IHvs (res ++ [None]) hv st1 Hvs Hfr2).
          destruct (fold_left (pcur_step ffun afun regex_match n root) vs (res ++ [None], hv, st1)) as [[res2 hv2] st2].
          destruct IHvs as (A & B & C). split; [exact A|]. rewrite <- Hent. cbn [isE negb orb].
          split; [rewrite B, <- app_assoc; reflexivity|exact C].
        + destruct c as [|x c']; [contradiction (He2 eq_refl); reflexivity|]. cbn [entry_of] in Hent.
          specialize (IHvs (res ++ [Some (res_value x)]) true st1 Hvs Hfr2).
          destruct (fold_left (pcur_step ffun afun regex_match n root) vs (res ++ [Some (res_value x)], true, st1)) as [[res2 hv2] st2].
          destruct IHvs as (A & B & C). split; [exact A|]. rewrite <- Hent. cbn [isE negb orb].
          split; [rewrite B, <- app_assoc; reflexivity|]. rewrite C. cbn. symmetry. apply orb_true_r. }
    specialize (Hfold vals [] false st Hv (frame_refl st)).
    destruct (fold_left (pcur_step ffun afun regex_match n root) vals ([], false, st)) as [[res hv] st'].
    destruct Hfold as (Hfr & -> & ->). cbn [app orb]. rewrite operand_cur_eq. cbv zeta. fold ent.
    destruct (existsb (fun x => negb (isE x)) (map ent vals)); [reflexivity|].
    cbn [lget]. destruct (ok_frame _ _ Hok Hfr) as [[G _] _]. exact G.
  Qed.

  Lemma pquery_root_eq n : Q_node n -> Q_pquery (PqRoot n).
  Proof.
    intros IH Hwf root vals st Hr Hv Hok. cbn [wf_pquery] in Hwf. rewrite compute_p_root_eq.
    pose proof (A_node ffun afun regex_match ffun_small afun_small n root (Some [], root) Hwf Hr (cur_ok_root root Hr) [] st Hok) as Hp.
    pose proof (IH Hwf root (Some [], root) Hr (cur_ok_root root Hr) [] st Hok) as Heq.
    unfold post in Hp. destruct (retrieve n root (Some [], root) [] st) as [[c e] st1]. cbn [fst app] in Heq.
    destruct Hp as [Hfr [r [Hc [He1 [He2 _]]]]]. cbn [app] in Hc. subst r.
    destruct (ok_frame _ _ Hok Hfr) as [[Ge Gf] _]. rewrite operand_root_eq.
    destruct e as [err|].
    - assert (Hc0 : c = []) by (apply He1; discriminate). rewrite Hc0 in Heq.
      destruct (sp n root (Some [], root)); [|discriminate]. exact Ge.
    - destruct (sp n root (Some [], root)) as [|x [|y l]]; cbn [map] in Heq; rewrite Heq in *.
      + contradiction (He2 eq_refl). reflexivity.
      + reflexivity.
      + exact Gf.
  Qed.

  Lemma pquery_lit_eq v : Q_pquery (PqLit v).
  Proof. intros _ root vals st _ _ _. reflexivity. Qed.

  (* ---------- logical operators ---------- *)
  Lemma holds_and_eq a b root vals : holds (QAnd a b) root vals = andb_lists (holds a root vals) (holds b root vals).
  Proof. reflexivity. Qed.
  Lemma holds_or_eq a b root vals : holds (QOr a b) root vals = orb_lists (holds a root vals) (holds b root vals).
  Proof. reflexivity. Qed.
  Lemma holds_not_eq a root vals : holds (QNot a) root vals = map negb (holds a root vals).
  Proof. reflexivity. Qed.
  Lemma holds_param_eq p root vals :
    holds (QParam p) root vals =
    let es := operand p root vals in
    if Nat.eqb (List.length es) (List.length vals) then map (fun x => negb (isE x)) es
    else repeat (negb (isE (hd None es))) (List.length vals).
  Proof. reflexivity. Qed.
  Lemma holds_cmp_eq lp ll rp rl c root vals :
    holds (QCmp (CP lp ll) (CP rp rl) c) root vals =
    cmp_holds regex_match c (List.length vals) (operand lp root vals) (hd None (operand rp root vals)).
  Proof. reflexivity. Qed.

  Lemma query_and_eq a b : Q_query a -> Q_query b -> Q_query (QAnd a b).
  Proof.
    intros IHa IHb Hwf root vals st Hr Hv Hok.
    cbn [wf_query] in Hwf. apply andb_true_iff in Hwf. destruct Hwf as [Hwa Hwb].
    pose proof (IHa Hwa root vals st Hr Hv Hok) as Ha. pose proof (A_query a root vals st Hwa Hr Hv Hok) as Aa.
    destruct (compute a root vals st) as [L st1] eqn:Ea. destruct Aa as [Hf1 Hv1]. destruct Ha as [Hla Hda].
    assert (Hok1 : ok st1) by (eapply ok_frame; eassumption).
    pose proof (IHb Hwb root vals st1 Hr Hv Hok1) as Hb. pose proof (A_query b root vals st1 Hwb Hr Hv Hok1) as Ab.
    destruct (compute b root vals st1) as [R st2] eqn:Eb. destruct Ab as [Hf2 Hv2]. destruct Hb as [Hlb Hdb].
    assert (Hok2 : ok st2) by (eapply ok_frame; eassumption).
    destruct (compute (QAnd a b) root vals st) as [X st3] eqn:Eab.
    destruct (compute_and ffun afun regex_match _ a b root vals st L st1 R st2 X st3 Ea Eb Eab (proj1 Hok1) (proj1 Hok2) Hv1 Hv2) as [HX _].
    rewrite holds_and_eq. split; [rewrite andb_lists_length; congruence|].
    intros i Hi. rewrite HX, den_and by assumption. rewrite andb_lists_nth by congruence.
    rewrite Hda, Hdb by exact Hi. reflexivity.
  Qed.

  Lemma query_or_eq a b : Q_query a -> Q_query b -> Q_query (QOr a b).
  Proof.
    intros IHa IHb Hwf root vals st Hr Hv Hok.
    cbn [wf_query] in Hwf. apply andb_true_iff in Hwf. destruct Hwf as [Hwa Hwb].
    pose proof (IHa Hwa root vals st Hr Hv Hok) as Ha. pose proof (A_query a root vals st Hwa Hr Hv Hok) as Aa.
    destruct (compute a root vals st) as [L st1] eqn:Ea. destruct Aa as [Hf1 Hv1]. destruct Ha as [Hla Hda].
    assert (Hok1 : ok st1) by (eapply ok_frame; eassumption).
    pose proof (IHb Hwb root vals st1 Hr Hv Hok1) as Hb. pose proof (A_query b root vals st1 Hwb Hr Hv Hok1) as Ab.
    destruct (compute b root vals st1) as [R st2] eqn:Eb. destruct Ab as [Hf2 Hv2]. destruct Hb as [Hlb Hdb].
    assert (Hok2 : ok st2) by (eapply ok_frame; eassumption).
    destruct (compute (QOr a b) root vals st) as [X st3] eqn:Eab.
    destruct (compute_or ffun afun regex_match _ a b root vals st L st1 R st2 X st3 Ea Eb Eab (proj1 Hok1) (proj1 Hok2) Hv1 Hv2) as [HX _].
    rewrite holds_or_eq. split; [rewrite orb_lists_length; congruence|].
    intros i Hi. rewrite HX, den_or by assumption. rewrite orb_lists_nth by congruence.
    rewrite Hda, Hdb by exact Hi. reflexivity.
  Qed.

  Lemma query_not_eq a : Q_query a -> Q_query (QNot a).
  Proof.
    intros IHa Hwf root vals st Hr Hv Hok. cbn [wf_query] in Hwf.
    pose proof (IHa Hwf root vals st Hr Hv Hok) as Ha. pose proof (A_query a root vals st Hwf Hr Hv Hok) as Aa.
    destruct (compute a root vals st) as [L st1] eqn:Ea. destruct Aa as [Hf1 Hv1]. destruct Ha as [Hla Hda].
    assert (Hok1 : ok st1) by (eapply ok_frame; eassumption).
    destruct (compute (QNot a) root vals st) as [X st2] eqn:En.
    destruct (compute_not ffun afun regex_match _ a root vals st L st1 X st2 Ea En (proj1 Hok1) Hv1) as [HX _].
    rewrite holds_not_eq. split; [rewrite map_length; exact Hla|].
    intros i Hi. rewrite HX, den_not by assumption. rewrite Hda by exact Hi.
    apply Nat.ltb_lt in Hi. rewrite Hi. cbn [andb]. apply Nat.ltb_lt in Hi.
    rewrite (nth_map_lt negb false false) by lia. reflexivity.
  Qed.

  Lemma query_param_eq p : Q_pquery p -> Q_query (QParam p).
  Proof.
    intros IH Hwf root vals st Hr Hv Hok. cbn [wf_query] in Hwf.
    change (compute (QParam p) root vals st) with (compute_p p root vals st).
    pose proof (IH Hwf root vals st Hr Hv Hok) as Hp.
    destruct (compute_p p root vals st) as [L st']. rewrite holds_param_eq. cbv zeta. rewrite <- Hp.
    set (es := lget st' L).
    destruct (Nat.eqb (List.length es) (List.length vals)) eqn:E.
    - apply Nat.eqb_eq in E. split; [rewrite map_length; exact E|].
      intros i Hi. rewrite den_nth_each by assumption.
      rewrite (nth_map_lt (fun x => negb (isE x)) None false) by lia. reflexivity.
    - split; [apply repeat_length|]. intros i Hi. rewrite nth_repeat by exact Hi.
      unfold den. rewrite E. apply Nat.ltb_lt in Hi. rewrite Hi. reflexivity.
  Qed.

  (* ---------- comparisons ---------- *)
  Lemma is_valid_none c : is_valid c None = false.
  Proof. unfold is_valid. destruct (validator_of c); reflexivity. Qed.

  Lemma existsb_false_all {A} (f : A -> bool) (l : list A) : existsb f l = false -> forall x, In x l -> f x = false.
  Proof.
    induction l as [|a l IH]; intros H x Hx; [contradiction|]. cbn in H. apply orb_false_iff in H. destruct H as [Ha Hl].
    destruct Hx as [->|Hx]; [exact Ha|apply IH; assumption].
  Qed.

  Lemma cmp_holds_length c n lefts right : vl_ok n lefts -> List.length (cmp_holds regex_match c n lefts right) = n.
  Proof.
    intros Hvl. unfold cmp_holds.
    destruct (existsb (is_valid c) lefts && is_valid c right).
    - destruct (Nat.eqb (List.length lefts) n) eqn:E; [apply Nat.eqb_eq in E; rewrite !map_length; exact E|apply repeat_length].
    - destruct (Bool.eqb _ _); [destruct c|]; apply repeat_length.
  Qed.

  Lemma let_pair_intro {A B} (e : A * B) (P : Prop) (R : A -> B -> nat -> Prop) :
    P -> (forall i, let '(a, b) := e in R a b i) -> let '(a, b) := e in P /\ forall i, R a b i.
  Proof. destruct e as [a b]. intros HP HR. split; [exact HP|exact HR]. Qed.

  Lemma query_cmp_eq lp ll rp rl cmp : Q_pquery lp -> Q_pquery rp -> Q_query (QCmp (CP lp ll) (CP rp rl) cmp).
  Proof.
    intros IHl IHr Hwf root vals st Hr Hv Hok. rewrite compute_cmp_eq. rewrite holds_cmp_eq.
    cbn [wf_query] in Hwf. repeat (apply andb_true_iff in Hwf; destruct Hwf as [Hwf ?]).
    rename H into Hrs, H0 into Hls, H1 into Hwr.
    pose proof (IHl Hwf root vals st Hr Hv Hok) as Hl.
    pose proof (A_pquery lp Hwf root vals st Hr Hv Hok) as Al.
    destruct (compute_p lp root vals st) as [L st1]. destruct Al as [Hf1 [Hv1 [HnF1 _]]].
    assert (Hok1 : ok st1) by (eapply ok_frame; eassumption).
    assert (HL : L <> GFull).
    { intros ->. specialize (HnF1 eq_refl). destruct lp; try contradiction. rewrite HnF1 in Hls. discriminate. }
    destruct (validate_spec cmp L st1 (proj1 Hok1) HL) as [L1 [Ev1 [HL1 [HL1n HL1o]]]]. rewrite Ev1.
    pose proof (IHr Hwr root vals st1 Hr Hv Hok1) as Hrr.
    pose proof (A_pquery rp Hwr root vals st1 Hr Hv Hok1) as Ar.
    destruct (compute_p rp root vals st1) as [R st3]. destruct Ar as [Hf3 [Hv3 [HnF3 Hone]]].
    assert (Hok3 : ok st3) by (eapply ok_frame; eassumption).
    assert (HR : R <> GFull).
    { intros ->. specialize (HnF3 eq_refl). destruct rp; try contradiction. rewrite HnF3 in Hrs. discriminate. }
    assert (Hone' : List.length (lget st3 R) = 1%nat) by (destruct rp; [exact Hone|discriminate|exact Hone]).
    destruct (validate_spec cmp R st3 (proj1 Hok3) HR) as [R1 [Ev3 [HR1 [_ _]]]]. rewrite Ev3.
    assert (Hge : g_empty st3 = [None]) by apply Hok3.
    assert (Hgf : g_full st3 = [Some (VBool true)]) by apply Hok3.
    (* name the specification's operands *)
    rewrite <- Hl, <- Hrr.
    set (lefts := lget st1 L) in *.
    destruct (length1 _ Hone') as [x Hx]. rewrite Hx in *. cbn [hd existsb] in *. rewrite orb_false_r.
    refine (let_pair_intro _ _ (fun L0 st0 i => (i < List.length vals)%nat ->
              den (List.length vals) (lget st0 L0) i = nth i (cmp_holds regex_match cmp (List.length vals) lefts x) false) _ _);
      [apply cmp_holds_length; exact Hv1|].
    intros i. unfold cmp_holds.
    set (lf := existsb (is_valid cmp) lefts). set (rf := is_valid cmp x).
    destruct (lf && rf) eqn:Eb.
    - apply andb_true_iff in Eb. destruct Eb as [Elf Erf].
      (* the left list is owned *)
      assert (HLo : exists l, L = Own l).
      { destruct L as [l| |]; [exists l; reflexivity| |contradiction HL; reflexivity].
        exfalso. unfold lf, lefts in Elf. cbn [lget] in Elf. destruct Hok1 as [[G _] _]. rewrite G in Elf.
        cbn [existsb] in Elf. rewrite is_valid_none in Elf. discriminate. }
      destruct HLo as [l ->]. destruct (HL1o l eq_refl) as [l1 ->]. cbn [lget] in HL1. subst l1.
      cbn [lget map hd_entry] in HR1. rewrite HR1. cbn [hd_entry].
      destruct (is_valid_some cmp x Erf) as [w Hw]. rewrite Hw.
      unfold comparator_run. cbn [lget].
      pose proof (cmp_list_spec regex_match cmp (Some w) (map (validate_to cmp) lefts) 0) as Hs.
      destruct (cmp_list regex_match cmp (Some w) (map (validate_to cmp) lefts) 0) as [[[l2 ws] hv] pn].
      destruct Hs as [Hl2 Hhv]. cbn [commit].
      set (lv := map (validate_to cmp) lefts) in *.
      set (kept := map (Spec.cmp_keeps regex_match cmp (Some w)) lv).
      assert (Hkept : forall y, negb (isE (cmp_new regex_match cmp (Some w) y)) = Spec.cmp_keeps regex_match cmp (Some w) y)
        by (intros y; apply cmp_new_nonE).
      assert (Hlenl : List.length lv = List.length lefts) by (unfold lv; apply map_length).
      destruct hv.
      + (* some member is kept *)
        intros Hi.
        assert (Hlg : forall s0, lget (match pn with Some s => set_panic s s0 | None => s0 end) (Own l2) = l2) by reflexivity.
        rewrite Hlg. subst l2.
        destruct (Nat.eqb (List.length lefts) (List.length vals)) eqn:En.
        * apply Nat.eqb_eq in En.
          rewrite den_nth_each by (rewrite ?map_length; congruence || exact Hi).
          rewrite (nth_map_lt (cmp_new regex_match cmp (Some w)) None None) by lia.
          rewrite Hkept. unfold kept. rewrite (nth_map_lt (Spec.cmp_keeps regex_match cmp (Some w)) None false) by lia. reflexivity.
        * apply Nat.eqb_neq in En.
          assert (H1 : List.length lefts = 1%nat) by (destruct Hv1; [contradiction|assumption]).
          rewrite nth_repeat by exact Hi.
          destruct (length1 _ H1) as [y Hy]. unfold kept, lv. rewrite Hy. cbn [map hd].
          rewrite den_whole by exact Hi. apply Hkept.
      + (* nothing is kept: the package-level empty list *)
        intros Hi.
        assert (Hlg : lget (match pn with Some s => set_panic s st3 | None => st3 end) GEmpty = [None]).
        { destruct pn; cbn [lget]; [unfold set_panic; destruct (panicked st3); cbn; exact Hge|exact Hge]. }
        rewrite Hlg. rewrite den_whole by exact Hi. cbn [isE negb].
        symmetry in Hhv.
        destruct (Nat.eqb (List.length lefts) (List.length vals)) eqn:En.
        * apply Nat.eqb_eq in En. unfold kept.
          rewrite (nth_map_lt (Spec.cmp_keeps regex_match cmp (Some w)) None false) by lia.
          symmetry. apply (existsb_false_all _ _ Hhv). apply nth_In. lia.
        * rewrite nth_repeat by exact Hi. unfold kept. destruct lv as [|y lv']; [reflexivity|]. cbn [map hd].
          symmetry. apply (existsb_false_all _ _ Hhv). left. reflexivity.
    - destruct (Bool.eqb lf rf).
      + destruct cmp; intros Hi; cbn [lget]; rewrite ?Hge, ?Hgf; rewrite den_whole by exact Hi; rewrite nth_repeat by exact Hi; reflexivity.
      + intros Hi. cbn [lget]. rewrite Hge. rewrite den_whole by exact Hi. rewrite nth_repeat by exact Hi. reflexivity.
  Qed.

  (* ---------- the multi-name loop ---------- *)
  Lemma sp_single_missing key b next root cur m :
    snd cur = VObj m -> lookup m key = None -> sp (Node (KSingle key) b next) root cur = [].
  Proof. intros Hm Hl. rewrite sp_unfold. rewrite Hm. unfold skey. rewrite Hl. reflexivity. Qed.

  Lemma nodes_case_eq id rest : Q_node id -> Q_nodes rest -> Q_nodes (NCons id rest).
  Proof.
    intros IHid IHrest Hwf m root cur c0 st0 s acc Hr Hc Hm Hok Hs.
    cbn [wf_nodes] in Hwf. apply andb_true_iff in Hwf. destruct Hwf as [Hwid Hwrest].
    rewrite retrieve_ids_unfold.
    change (sp_ids (NCons id rest) root cur) with (sp id root cur ++ sp_ids rest root cur).
    rewrite app_assoc. destruct s as [[[c dl] de] st]. cbv zeta.
    destruct id as [k b next]. cbn [node_kind].
    assert (Hstep : linv2 root c0 st0 (acc ++ sp (Node k b next) root cur)
                      (loop_step (retrieve (Node k b next) root cur c st) dl de)).
    { apply (linv2_step root c0 st0 acc (c, dl, de, st) (retrieve (Node k b next) root cur) _ Hok Hs).
      - apply step_ok_weaken. apply A_node; assumption.
      - apply (IHid Hwid root cur Hr Hc). }
    destruct k; try (apply IHrest; assumption).
    destruct (lookup m key) eqn:El; [apply IHrest; assumption|].
    rewrite (sp_single_missing key b next root cur m Hm El), app_nil_r. apply IHrest; assumption.
  Qed.

  (* ---------- every node ---------- *)
  Lemma node_eq k b next : Q_kind k -> Q_onode next -> Q_node (Node k b next).
  Proof.
    intros IHk IHn Hwf root cur Hr Hc.
    cbn [wf_node] in Hwf. apply andb_true_iff in Hwf. destruct Hwf as [Hk Hnx].
    change (match next with OSome m => wf_node m | ONone => true end) with (wf_onode next) in Hnx.
    intros c st Hok. rewrite retrieve_unfold, sp_unfold.
    destruct k as [| |key| |ids aw uq|mr lr|subs|q|f|f param].
    - apply fwd_eq; try assumption. apply cur_ok_root. exact Hr.
    - apply fwd_eq; assumption.
    - destruct (snd cur) eqn:E; try (cbn; rewrite app_nil_r; reflexivity). eapply map_next_eq; eassumption.
    - apply (wild_eq ffun afun regex_match ffun_small afun_small b next root cur IHn Hnx Hr Hc c st Hok).
    - (* multi *)
      destruct IHk as [IHids IHuq]. apply andb_true_iff in Hk. destruct Hk as [Hids Huq].
      destruct (snd cur) eqn:E; try (destruct aw; cbn; rewrite app_nil_r; reflexivity).
      + destruct aw; [|cbn; rewrite app_nil_r; reflexivity].
        destruct uq as [|u]; [discriminate|]. apply (IHuq Huq root cur Hr Hc c st Hok).
      + assert (Hl : fst (fst (loop_finish b (retrieve_ids ids m root cur (c, 0%nat, None, st)))) = c ++ map wrap (sp_ids ids root cur)).
        { rewrite loop_finish_cont.
          apply (proj2 (IHids Hids m root cur c st (c, 0%nat, None, st) [] Hr Hc E Hok (linv2_init root c st))). }
        destruct aw; exact Hl.
    - (* recursive descent *)
      destruct (is_container (snd cur)) eqn:Ec.
      + destruct next as [|nx]; [discriminate|].
        apply (rec_eq ffun afun regex_match ffun_small afun_small b nx mr lr root cur IHn Hnx Hr Hc c st Hok).
      + cbn [fst]. destruct next as [|nx]; [rewrite app_nil_r; reflexivity|].
        destruct cur as [l v]. cbn [fst snd] in *. destruct v; try discriminate; cbn [containers flat_map map]; rewrite app_nil_r; reflexivity.
    - destruct (snd cur) eqn:E; try (cbn; rewrite app_nil_r; reflexivity).
      apply (union_eq ffun afun regex_match ffun_small afun_small b next root cur l subs IHn Hnx Hr Hc E Hk c st Hok).
    - (* filter *)
      destruct (snd cur) eqn:E; try (cbn; rewrite app_nil_r; reflexivity).
      + assert (Hsm : Forall small l) by (apply small_arr_forall; destruct Hc as [_ H]; rewrite E in H; exact H).
        pose proof (IHk Hk root l st Hr Hsm Hok) as Hq. pose proof (A_query q root l st Hk Hr Hsm Hok) as Aq.
        destruct (compute q root l st) as [lv st1]. destruct Aq as [Hfr Hvl]. destruct Hq as [Hlen Hden].
        assert (Hok1 : ok st1) by (eapply ok_frame; eassumption).
        apply (filter_loop_eq root b (list_next ffun afun regex_match b next root cur)
                 (sidx ffun afun regex_match b next root cur) (index_list l 0) lv (holds q root l)); try assumption.
        * intros [i v] Hin. split.
          -- eapply list_next_ok; try eassumption; try apply A_onode; try assumption. apply index_list_step. exact Hin.
          -- eapply list_next_eq; try eassumption. apply index_list_step. exact Hin.
        * rewrite index_list_length. exact Hvl.
        * rewrite index_list_length. exact Hlen.
        * rewrite index_list_length. exact Hden.
      + cbv zeta.
        set (keys := sorted_keys m).
        set (vals := flat_map (fun k => match lookup m k with Some v => [v] | None => [] end) keys).
        assert (Hsm : Forall small vals) by (apply member_values_small; destruct Hc as [_ H]; rewrite E in H; exact H).
        assert (Hvlen : List.length vals = List.length keys).
        { unfold vals. apply member_values_length. intros k Hk'. apply sorted_keys_lookup. exact Hk'. }
        pose proof (IHk Hk root vals st Hr Hsm Hok) as Hq. pose proof (A_query q root vals st Hk Hr Hsm Hok) as Aq.
        destruct (compute q root vals st) as [lv st1]. destruct Aq as [Hfr Hvl]. destruct Hq as [Hlen Hden].
        assert (Hok1 : ok st1) by (eapply ok_frame; eassumption).
        rewrite Hvlen in *.
        apply (filter_loop_eq root b (map_next ffun afun regex_match b next root cur m)
                 (skey ffun afun regex_match b next root cur m) keys lv (holds q root vals)); try assumption.
        intros k Hin. split.
        -- eapply map_next_ok; try eassumption; try apply A_onode; assumption.
        -- eapply map_next_eq; eassumption.
    - (* filter function *)
      cbv zeta. destruct (ffun f (snd cur)) as [v|] eqn:Ef; [|cbn; rewrite app_nil_r; reflexivity].
      assert (Hok1 : ok (log_call (CallF f (snd cur)) st)) by (eapply ok_frame; [exact Hok|apply frame_log_call]).
      apply fwd_eq; try assumption.
      apply cur_ok_none. eapply ffun_small; [|exact Ef]. apply Hc.
    - (* aggregate function *)
      pose proof (A_node ffun afun regex_match ffun_small afun_small param root cur Hk Hr Hc [] st Hok) as Hp.
      pose proof (IHk Hk root cur Hr Hc [] st Hok) as Heq. unfold post in Hp.
      destruct (retrieve param root cur [] st) as [[vals e] st1]. cbn [fst app] in Heq.
      destruct Hp as [Hfr [r [Hvals [He1 [He2 Hloc]]]]]. cbn [app] in Hvals. subst r.
      cbv zeta.
      destruct e as [err|].
      + assert (Hv0 : vals = []) by (apply He1; discriminate). rewrite Hv0 in Heq.
        destruct (sp param root cur); [cbn; rewrite app_nil_r; reflexivity|discriminate].
      + specialize (He2 eq_refl).
        destruct (sp param root cur) as [|x0 xs0] eqn:Esp; [cbn [map] in Heq; contradiction|].
        assert (Hplain : map res_value vals = map (fun x => res_value (wrap x)) (x0 :: xs0)).
        { rewrite Heq, map_map. reflexivity. }
        rewrite Hplain.
        match goal with |- context [afun f ?a] => set (args := a) end.
        assert (Hargs : Forall small args).
        { assert (Hpl : Forall small (map (fun x => res_value (wrap x)) (x0 :: xs0))).
          { rewrite <- Hplain. apply Forall_forall. intros v Hv'. apply in_map_iff in Hv'. destruct Hv' as [y [<- Hy]].
            rewrite Forall_forall in Hloc. eapply res_value_small. apply Hloc. exact Hy. }
          unfold args. destruct (vgroup (node_basic param)); [exact Hpl|].
          destruct (map (fun x => res_value (wrap x)) (x0 :: xs0)) as [|v0 rest]; [exact Hpl|]. destruct v0; try exact Hpl.
          apply small_arr_forall. inversion Hpl; assumption. }
        destruct (afun f args) as [v|] eqn:Ea; [|cbn; rewrite app_nil_r; reflexivity].
        match goal with |- context [log_call (CallA f args) ?s2] => assert (Hok3 : ok (log_call (CallA f args) s2)) end.
        { eapply ok_frame; [|apply frame_log_call].
          destruct (vgroup (node_basic param)); [eapply ok_frame; eassumption|].
          destruct vals; [contradiction He2; reflexivity|eapply ok_frame; eassumption]. }
        apply fwd_eq; try assumption.
        apply cur_ok_none. eapply afun_small; eassumption.
  Qed.

  Theorem refinement :
    (forall n, Q_node n) /\ (forall o, Q_onode o) /\ (forall k, Q_kind k) /\ (forall ns, Q_nodes ns) /\
    (forall q, Q_query q) /\ (forall cp, Q_cparam cp) /\ (forall p, Q_pquery p).
  Proof.
    apply tree_mutind.
    - intros k IHk b next IHn. apply node_eq; assumption.
    - exact I.
    - intros n IH. exact IH.
    - exact I. - exact I. - intros; exact I. - exact I.
    - intros ids IHids aw uq IHuq. split; assumption.
    - intros; exact I. - intros; exact I.
    - intros q IH. exact IH.
    - intros; exact I.
    - intros f param IH. exact IH.
    - intros _ m root cur c0 st0 s acc _ _ _ _ Hs. rewrite retrieve_ids_unfold.
      change (sp_ids NNil root cur) with (@nil sres). rewrite app_nil_r. exact Hs.
    - intros id IHid rest IHrest. apply nodes_case_eq; assumption.
    - intros a IHa b IHb. apply query_and_eq; assumption.
    - intros a IHa b IHb. apply query_or_eq; assumption.
    - intros a IHa. apply query_not_eq; assumption.
    - intros [lp ll] IHl [rp rl] IHr c. apply query_cmp_eq; assumption.
    - intros p IH. apply query_param_eq; assumption.
    - intros p IH lit. exact IH.
    - intros v. apply pquery_lit_eq.
    - intros n IH. apply pquery_cur_eq; assumption.
    - intros n IH. apply pquery_root_eq; assumption.
  Qed.
End R2.
