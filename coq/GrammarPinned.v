(* GrammarPinned.v — the grammar of the pinned tree, as tools/peg2coq.py translated it when the theorems were proved (a committed
   copy of the definition in the regenerated Grammar.v).  The checks run every generated string through THIS grammar as well:
   when jsonpath.peg changes, Grammar.v follows it and the proofs about it break; a string on which the implementation and
   the pinned grammar disagree is then the concrete input the violation is reported with.  GrammarPinnedEq.v states that the
   two are the same grammar on the current tree. *)
From JP Require Import Peg.
Open Scope N_scope.
Definition pinned_grammar : grammar := [
  (*  0 expression *) (PAlt (PSeq (PRef 2) (PSeq (PRef 1) (PAct 0))) (PSeq (POpt (PRef 2)) (PSeq (PCap (PStar PAny)) (PSeq (PRef 1) (PAct 1)))));
  (*  1 END *) (PNot PAny);
  (*  2 jsonpath *) (PSeq (PRef 58) (PSeq (PRef 5) (PRef 4)));
  (*  3 jsonpathParameter *) (PSeq (PRef 58) (PSeq (PRef 6) (PRef 4)));
  (*  4 continuedJsonpath *) (PSeq (PStar (PRef 7)) (PSeq (PStar (PRef 8)) (PSeq (PRef 58) (PAct 2))));
  (*  5 rootNode *) (PAlt (PRef 11) (PAlt (PRef 10) (PRef 13)));
  (*  6 parameterRootNode *) (PAlt (PRef 11) (PRef 12));
  (*  7 childNode *) (PAlt (PSeq (PLit [46; 46]) (PSeq (PAlt (PRef 10) (PRef 13)) (PAct 3))) (PAlt (PSeq (PCap (PSeq (PLit [46]) (PRef 13))) (PAct 4)) (PRef 10)));
  (*  8 function *) (PSeq (PCap (PSeq (PLit [46]) (PSeq (PRef 9) (PLit [40; 41])))) (PAct 5));
  (*  9 functionName *) (PSeq (PCap (PPlus (PCls false [(45, 45); (95, 95); (97, 122); (65, 90); (48, 57)]))) (PAct 6));
  (* 10 bracketNode *) (PSeq (PCap (PSeq (PRef 50) (PSeq (PAlt (PRef 15) (PRef 22)) (PRef 51)))) (PAct 7));
  (* 11 rootIdentifier *) (PSeq (PLit [36]) (PAct 8));
  (* 12 currentRootIdentifier *) (PSeq (PLit [64]) (PAct 9));
  (* 13 dotChildIdentifier *) (PAlt (PRef 17) (PSeq (PCap (PPlus (PAlt (PSeq (PLit [92]) (PRef 14)) (PSeq (PNot (PCls false [(0, 31); (127, 127)])) (PSeq (PNot (PRef 14)) PAny))))) (PSeq (PNot (PLit [40; 41])) (PAct 10))));
  (* 14 signsWithoutHyphenUnderscore *) (PCls false [(32, 44); (46, 46); (47, 47); (58, 64); (91, 94); (96, 96); (123, 126)]);
  (* 15 bracketChildIdentifier *) (PSeq (PRef 16) (PSeq (PStar (PSeq (PRef 28) (PSeq (PRef 16) (PAct 11)))) (PNot (PRef 28))));
  (* 16 bracketNodeIdentifier *) (PAlt (PRef 17) (PAlt (PRef 18) (PRef 19)));
  (* 17 wildcardIdentifier *) (PSeq (PLit [42]) (PAct 12));
  (* 18 singleQuotedNodeIdentifier *) (PSeq (PLit [39]) (PSeq (PCap (PStar (PAlt (PSeq (PLit [92]) (PAlt (PCls false [(39, 39); (47, 47); (92, 92); (98, 98); (102, 102); (110, 110); (114, 114); (116, 116)]) (PRef 20))) (PCls true [(39, 39); (92, 92)])))) (PSeq (PLit [39]) (PAct 13))));
  (* 19 doubleQuotedNodeIdentifier *) (PSeq (PLit [34]) (PSeq (PCap (PStar (PAlt (PSeq (PLit [92]) (PAlt (PCls false [(34, 34); (47, 47); (92, 92); (98, 98); (102, 102); (110, 110); (114, 114); (116, 116)]) (PRef 20))) (PCls true [(34, 34); (92, 92)])))) (PSeq (PLit [34]) (PAct 14))));
  (* 20 hexDigits *) (PSeq (PLit [117]) (PSeq (PRef 21) (PSeq (PRef 21) (PSeq (PRef 21) (PRef 21)))));
  (* 21 hexDigit *) (PCls false [(97, 102); (65, 70); (48, 57)]);
  (* 22 qualifier *) (PAlt (PRef 23) (PAlt (PRef 30) (PRef 32)));
  (* 23 union *) (PSeq (PRef 24) (PSeq (PStar (PSeq (PRef 28) (PSeq (PRef 24) (PAct 15)))) (PNot (PRef 28))));
  (* 24 index *) (PSeq (PAlt (PSeq (PRef 25) (PAct 16)) (PAlt (PSeq (PCap (PRef 27)) (PAct 17)) (PSeq (PLit [42]) (PAct 18)))) (PAct 19));
  (* 25 slice *) (PSeq (PRef 26) (PSeq (PRef 29) (PSeq (PRef 26) (PAlt (PSeq (PRef 29) (PRef 26)) (PSeq (PRef 58) (PAct 20))))));
  (* 26 anyIndex *) (PSeq (PCap (POpt (PRef 27))) (PAct 21));
  (* 27 indexNumber *) (PSeq (POpt (PCls false [(45, 45); (43, 43)])) (PPlus (PCls false [(48, 57)])));
  (* 28 sep *) (PSeq (PRef 58) (PSeq (PLit [44]) (PRef 58)));
  (* 29 sepSlice *) (PSeq (PRef 58) (PSeq (PLit [58]) (PRef 58)));
  (* 30 script *) (PSeq (PRef 52) (PSeq (PCap (PRef 31)) (PSeq (PRef 53) (PAct 22))));
  (* 31 command *) (PPlus (PSeq (PNot (PRef 53)) PAny));
  (* 32 filter *) (PSeq (PRef 54) (PSeq (PRef 33) (PSeq (PRef 55) (PAct 23))));
  (* 33 query *) (PSeq (PRef 34) (PStar (PSeq (PRef 36) (PSeq (PRef 34) (PAct 24)))));
  (* 34 andQuery *) (PSeq (PRef 35) (PStar (PSeq (PRef 37) (PSeq (PRef 35) (PAct 25)))));
  (* 35 basicQuery *) (PAlt (PSeq (PRef 56) (PSeq (PRef 33) (PRef 57))) (PAlt (PSeq (PCap (PRef 39)) (PAct 26)) (PSeq (PCap (PSeq (POpt (PRef 38)) (PRef 44))) (PAct 27))));
  (* 36 logicOr *) (PSeq (PRef 58) (PSeq (PLit [124; 124]) (PRef 58)));
  (* 37 logicAnd *) (PSeq (PRef 58) (PSeq (PLit [38; 38]) (PRef 58)));
  (* 38 logicNot *) (PSeq (PLit [33]) (PRef 58));
  (* 39 comparator *) (PAlt (PSeq (PRef 40) (PSeq (PRef 58) (PAlt (PSeq (PLit [61; 61]) (PSeq (PRef 58) (PSeq (PRef 40) (PAct 28)))) (PSeq (PLit [33; 61]) (PSeq (PRef 58) (PSeq (PRef 40) (PAct 29))))))) (PAlt (PSeq (PRef 41) (PSeq (PRef 58) (PAlt (PSeq (PLit [60; 61]) (PSeq (PRef 58) (PSeq (PRef 41) (PAct 30)))) (PAlt (PSeq (PLit [60]) (PSeq (PRef 58) (PSeq (PRef 41) (PAct 31)))) (PAlt (PSeq (PLit [62; 61]) (PSeq (PRef 58) (PSeq (PRef 41) (PAct 32)))) (PSeq (PLit [62]) (PSeq (PRef 58) (PSeq (PRef 41) (PAct 33))))))))) (PSeq (PRef 43) (PSeq (PRef 58) (PSeq (PLit [61; 126]) (PSeq (PRef 58) (PSeq (PLit [47]) (PSeq (PCap (PRef 49)) (PSeq (PLit [47]) (PAct 34))))))))));
  (* 40 qParam *) (PAlt (PSeq (PRef 42) (PAct 35)) (PRef 43));
  (* 41 qNumericParam *) (PAlt (PSeq (PRef 45) (PAct 36)) (PRef 43));
  (* 42 qLiteral *) (PAlt (PRef 45) (PAlt (PRef 46) (PAlt (PRef 47) (PRef 48))));
  (* 43 singleJsonpathFilter *) (PSeq (PCap (PRef 44)) (PAct 37));
  (* 44 jsonpathFilter *) (PSeq (PAct 38) (PSeq (PRef 3) (PAct 39)));
  (* 45 lNumber *) (PSeq (PCap (PSeq (POpt (PCls false [(45, 45); (43, 43)])) (PSeq (PCls false [(48, 57)]) (PStar (PCls false [(45, 45); (43, 43); (46, 46); (48, 57); (97, 122); (65, 90)]))))) (PAct 40));
  (* 46 lBool *) (PAlt (PSeq (PAlt (PLit [116; 114; 117; 101]) (PAlt (PLit [84; 114; 117; 101]) (PLit [84; 82; 85; 69]))) (PAct 41)) (PSeq (PAlt (PLit [102; 97; 108; 115; 101]) (PAlt (PLit [70; 97; 108; 115; 101]) (PLit [70; 65; 76; 83; 69]))) (PAct 42)));
  (* 47 lString *) (PAlt (PSeq (PLit [39]) (PSeq (PCap (PStar (PAlt (PSeq (PLit [92]) (PCls false [(92, 92); (39, 39)])) (PCls true [(39, 39)])))) (PSeq (PLit [39]) (PAct 43)))) (PSeq (PLit [34]) (PSeq (PCap (PStar (PAlt (PSeq (PLit [92]) (PCls false [(92, 92); (34, 34)])) (PCls true [(34, 34)])))) (PSeq (PLit [34]) (PAct 44)))));
  (* 48 lNull *) (PSeq (PAlt (PLit [110; 117; 108; 108]) (PAlt (PLit [78; 117; 108; 108]) (PLit [78; 85; 76; 76]))) (PAct 45));
  (* 49 regex *) (PStar (PAlt (PSeq (PLit [92]) (PCls false [(92, 92); (47, 47)])) (PCls true [(47, 47)])));
  (* 50 squareBracketStart *) (PSeq (PLit [91]) (PRef 58));
  (* 51 squareBracketEnd *) (PSeq (PRef 58) (PLit [93]));
  (* 52 scriptStart *) (PSeq (PLit [40]) (PRef 58));
  (* 53 scriptEnd *) (PSeq (PRef 58) (PLit [41]));
  (* 54 filterStart *) (PSeq (PLit [63; 40]) (PRef 58));
  (* 55 filterEnd *) (PSeq (PRef 58) (PLit [41]));
  (* 56 subQueryStart *) (PSeq (PLit [40]) (PRef 58));
  (* 57 subQueryEnd *) (PSeq (PRef 58) (PLit [41]));
  (* 58 space *) (PStar (PLit [32]))
].
