(* ErrSelect.v — what the ranking of addDeepestError selects from a list of candidate errors (C15):
   one of the candidates, with the shortest remaining path text; among those a type mismatch is
   reported only when every candidate of that length is a type mismatch.  Needs every candidate to
   carry a non-empty remaining text (length 0 doubles as "nothing recorded yet" in the Go code). *)
From JP Require Import Eval WF ErrSpec ErrFacts.
From Coq Require Import Lia.
Open Scope list_scope.

Definition coherent (s : nat * option rerr) : Prop :=
  match snd s with
  | None => fst s = 0%nat
  | Some e => fst s = depth_len e /\ (1 <= depth_len e)%nat
  end.

Lemma sel_step_cases s x : coherent s -> (1 <= depth_len x)%nat ->
  coherent (sel_step s x) /\
  match snd s with
  | None => sel_step s x = (depth_len x, Some x)
  | Some d0 =>
      (depth_len x < depth_len d0 /\ sel_step s x = (depth_len x, Some x))%nat \/
      (depth_len x = depth_len d0 /\ sel_step s x = (depth_len d0, Some (if is_type_err d0 then x else d0))) \/
      (depth_len d0 < depth_len x /\ sel_step s x = s)%nat
  end.
Proof.
  destruct s as [dl de]. unfold coherent, sel_step. cbn [fst snd]. intros Hc Hx.
  destruct de as [d0|].
  - destruct Hc as [-> Hd0].
    destruct (Nat.lt_trichotomy (depth_len x) (depth_len d0)) as [Hlt|[Heq|Hgt]].
    + rewrite (add_deepest_deeper x _ _ Hlt). cbn [fst snd]. split; [split; [reflexivity|exact Hx]|left; split; [exact Hlt|reflexivity]].
    + rewrite (add_deepest_tie x (depth_len d0) d0 ltac:(lia) (eq_sym Heq)). cbn [fst snd].
      split; [|right; left; split; [exact Heq|reflexivity]].
      destruct (is_type_err d0); split; try lia; try reflexivity.
    + rewrite (add_deepest_shallower x (depth_len d0) (Some d0) ltac:(lia) Hgt). cbn [fst snd].
      split; [split; [reflexivity|exact Hd0]|right; right; split; [exact Hgt|reflexivity]].
  - subst dl. unfold add_deepest. cbn [Nat.eqb orb]. fold (depth_len x). cbn [fst snd].
    split; [split; [reflexivity|exact Hx]|reflexivity].
Qed.

(* the invariant of a whole selection: relative to what was held before (de0) and the candidates seen (es) *)
Definition chosen (de0 : option rerr) (es : list rerr) (r : option rerr) : Prop :=
  match r with
  | None => de0 = None /\ es = []
  | Some e =>
      (de0 = Some e \/ In e es) /\
      (forall x, In x es -> depth_len e <= depth_len x)%nat /\
      (forall d0, de0 = Some d0 -> depth_len e <= depth_len d0)%nat /\
      (is_type_err e = true ->
       (forall x, In x es -> depth_len x = depth_len e -> is_type_err x = true) /\
       (forall d0, de0 = Some d0 -> depth_len d0 = depth_len e -> is_type_err d0 = true))
  end.

Lemma select_inv : forall es s, coherent s -> (forall x, In x es -> (1 <= depth_len x)%nat) ->
  coherent (fold_left sel_step es s) /\ chosen (snd s) es (snd (fold_left sel_step es s)).
Proof.
  induction es as [|x es IH]; intros s Hc Hpos; cbn [fold_left].
  - split; [exact Hc|]. unfold chosen. destruct (snd s) as [e|]; [|split; reflexivity].
    split; [left; reflexivity|]. split; [intros y []|]. split; [intros d0 H; inversion H; lia|].
    intros Ht. split; [intros y []|]. intros d0 H _. inversion H; subst. exact Ht.
  - destruct (sel_step_cases s x Hc (Hpos x (or_introl eq_refl))) as [Hc1 Hcase].
    destruct (IH (sel_step s x) Hc1 (fun y Hy => Hpos y (or_intror Hy))) as [Hc2 Hch].
    split; [exact Hc2|].
    destruct (snd (fold_left sel_step es (sel_step s x))) as [e|] eqn:Er; cbn [chosen] in *.
    + destruct Hch as (Hin & Hmin & Hold & Hty).
      destruct (snd s) as [d0|] eqn:Es.
      * destruct Hcase as [[Hlt Eq]|[[Heq Eq]|[Hgt Eq]]]; rewrite Eq in *; cbn [snd] in *.
        -- (* x replaced d0 *)
           specialize (Hold x eq_refl).
           repeat split.
           ++ destruct Hin as [Hin|Hin]; [inversion Hin; subst; right; left; reflexivity|right; right; exact Hin].
           ++ intros y [<-|Hy]; [exact Hold|apply Hmin; exact Hy].
           ++ intros d1 Hd1. inversion Hd1; subst. lia.
           ++ intros y [<-|Hy] Hd; [apply (proj2 (Hty H) x eq_refl Hd)|apply (proj1 (Hty H) y Hy Hd)].
           ++ intros d1 Hd1 Hd. inversion Hd1; subst. lia.
        -- (* same depth *)
           destruct (is_type_err d0) eqn:Et.
           ++ specialize (Hold x eq_refl). repeat split.
              ** destruct Hin as [Hin|Hin]; [inversion Hin; subst; right; left; reflexivity|right; right; exact Hin].
              ** intros y [<-|Hy]; [exact Hold|apply Hmin; exact Hy].
              ** intros d1 Hd1. inversion Hd1; subst. lia.
              ** intros y [<-|Hy] Hd; [apply (proj2 (Hty H) x eq_refl Hd)|apply (proj1 (Hty H) y Hy Hd)].
              ** intros d1 Hd1 Hd. inversion Hd1; subst. exact Et.
           ++ specialize (Hold d0 eq_refl). repeat split.
              ** destruct Hin as [Hin|Hin]; [inversion Hin; subst; left; reflexivity|right; right; exact Hin].
              ** intros y [<-|Hy]; [lia|apply Hmin; exact Hy].
              ** intros d1 Hd1. inversion Hd1; subst. exact Hold.
              ** intros y [<-|Hy] Hd; [|apply (proj1 (Hty H) y Hy Hd)].
                 pose proof (proj2 (Hty H) d0 eq_refl ltac:(lia)) as Hc0. rewrite Et in Hc0. discriminate.
              ** intros d1 Hd1 Hd. inversion Hd1; subst. apply (proj2 (Hty H) d1 eq_refl Hd).
        -- (* x ignored *)
           rewrite Es in *. specialize (Hold d0 eq_refl). repeat split.
           ++ destruct Hin as [Hin|Hin]; [left; exact Hin|right; right; exact Hin].
           ++ intros y [<-|Hy]; [lia|apply Hmin; exact Hy].
           ++ intros d1 Hd1. inversion Hd1; subst. exact Hold.
           ++ intros y [<-|Hy] Hd; [lia|apply (proj1 (Hty H) y Hy Hd)].
           ++ intros d1 Hd1 Hd. inversion Hd1; subst. apply (proj2 (Hty H) d1 eq_refl Hd).
      * rewrite Hcase in *. cbn [snd] in *. specialize (Hold x eq_refl). repeat split.
        -- destruct Hin as [Hin|Hin]; [inversion Hin; subst; right; left; reflexivity|right; right; exact Hin].
        -- intros y [<-|Hy]; [exact Hold|apply Hmin; exact Hy].
        -- intros d1 Hd1. discriminate.
        -- intros y [<-|Hy] Hd; [apply (proj2 (Hty H) x eq_refl Hd)|apply (proj1 (Hty H) y Hy Hd)].
        -- intros d1 Hd1. discriminate.
    + destruct Hch as [Hn _]. exfalso.
      destruct (snd s) as [d0|] eqn:Es.
      * destruct Hcase as [[_ Eq]|[[_ Eq]|[_ Eq]]]; rewrite Eq in Hn; cbn [snd] in Hn; try discriminate.
        rewrite Es in Hn. discriminate.
      * rewrite Hcase in Hn. discriminate.
Qed.

(* the selection among the candidates of one loop *)
Theorem select_spec es : (forall x, In x es -> (1 <= depth_len x)%nat) ->
  match select es with
  | None => es = []
  | Some e => In e es /\ (forall x, In x es -> depth_len e <= depth_len x)%nat /\
              (is_type_err e = true -> forall x, In x es -> depth_len x = depth_len e -> is_type_err x = true)
  end.
Proof.
  intros Hpos. unfold select.
  destruct (select_inv es (0%nat, None) eq_refl Hpos) as [_ Hch]. cbn [snd] in Hch.
  destruct (snd (fold_left sel_step es (0%nat, None))) as [e|]; cbn [chosen] in Hch.
  - destruct Hch as ([Hin|Hin] & Hmin & _ & Hty); [discriminate|].
    split; [exact Hin|]. split; [exact Hmin|]. intros Ht. apply (proj1 (Hty Ht)).
  - apply Hch.
Qed.
