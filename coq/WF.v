(* WF.v — well-formedness of syntax trees (a decidable predicate, evaluated by the harness on
   every tree the parser model builds) and document locations.  Definitions only. *)
From JP Require Export Eval.
Open Scope string_scope.

(* ---------- subscripts the parser can build ---------- *)
Definition idx_okb (i : idx) : bool := in64b (number i).
Definition sub_okb (s : subscript) : bool :=
  match s with
  | SubIndex n => in64b n
  | SubSlicePos st en sp =>
      idx_okb st && idx_okb en && idx_okb sp && (number sp >=? 0)%Z &&
      (if omitted sp then (number sp =? 1)%Z else true)
  | SubSliceNeg st en sp =>
      idx_okb st && idx_okb en && idx_okb sp && negb (number sp >=? 0)%Z && negb (omitted sp)
  | SubWild => true
  end.

(* ---------- single-valued chains: what a comparison operand must be ---------- *)
Definition single_kind (k : kind) : bool :=
  match k with
  | KRoot | KCurrent | KSingle _ | KFFun _ | KAgg _ _ => true
  | KUnion [SubIndex _] => true
  | _ => false
  end.
Fixpoint single_chain (n : node) : bool :=
  match n with
  | Node k _ next => single_kind k && match next with ONone => true | OSome m => single_chain m end
  end.

(* ---------- well-formed trees ---------- *)
Fixpoint wf_node (n : node) : bool :=
  match n with
  | Node k b next =>
      (match k with
       | KMulti ids aw uq =>
           wf_nodes ids &&
           (match uq with OSome u => wf_node u | ONone => negb aw end)
       | KRec _ _ => match next with OSome _ => true | ONone => false end
       | KUnion subs => forallb sub_okb subs
       | KFilter q => wf_query q
       | KAgg _ param => wf_node param
       | _ => true
       end) &&
      match next with OSome m => wf_node m | ONone => true end
  end
with wf_nodes (ns : nodes) : bool :=
  match ns with NNil => true | NCons n r => wf_node n && wf_nodes r end
with wf_query (q : query) : bool :=
  match q with
  | QAnd a b | QOr a b => wf_query a && wf_query b
  | QNot a => wf_query a
  | QCmp (CP l _) (CP r _) c =>
      wf_pquery l && wf_pquery r &&
      (match l with PqCur n | PqRoot n => single_chain n | PqLit _ => true end) &&
      (match r with PqRoot n => single_chain n | PqLit _ => true | PqCur _ => false end)
  | QParam p => wf_pquery p
  end
with wf_pquery (p : pquery) : bool :=
  match p with
  | PqLit _ => true
  | PqCur n | PqRoot n => wf_node n
  end.

(* ---------- locations of a document ---------- *)
Definition step_into (v : value) (s : pstep) : option value :=
  match s, v with
  | PKey k, VObj m => lookup m k
  | PIdx i, VArr xs => nth_value xs i
  | _, _ => None
  end.
Fixpoint get_loc (v : value) (p : loc) : option value :=
  match p with
  | [] => Some v
  | s :: r => match step_into v s with Some w => get_loc w r | None => None end
  end.

(* Accessor.Set / Get on the model: replace the value at a location *)
Fixpoint set_assoc (m : list (string * value)) (k : string) (w : value) : list (string * value) :=
  match m with
  | [] => []
  | (k', v) :: r => if String.eqb k k' then (k', w) :: r else (k', v) :: set_assoc r k w
  end.
Fixpoint set_nth (xs : list value) (i : Z) (w : value) : list value :=
  match xs with
  | [] => []
  | x :: r => if (i =? 0)%Z then w :: r else if (i <? 0)%Z then xs else x :: set_nth r (i - 1)%Z w
  end.
Fixpoint set_loc (v : value) (p : loc) (w : value) {struct p} : value :=
  match p with
  | [] => w
  | s :: r =>
      match s, v with
      | PKey k, VObj m => match lookup m k with
                          | Some x => VObj (set_assoc m k (set_loc x r w))
                          | None => v
                          end
      | PIdx i, VArr xs => match nth_value xs i with
                           | Some x => VArr (set_nth xs i (set_loc x r w))
                           | None => v
                           end
      | _, _ => v
      end
  end.
