(* ParseFacts.v — facts about the parser model (Actions.parse_with over the regenerated grammar):
   the start rule never fails, and a syntax error always points inside the path. *)
From JP Require Import Peg Grammar Text Tree Actions PegFacts.
From Coq Require Import Lia.
Open Scope list_scope.

(* the regenerated grammar has the catch-all shape (checked on the grammar as it is now) *)
Lemma grammar_catch_all : catch_all_shape jsonpath_grammar.
Proof. unfold catch_all_shape. do 3 eexists. split; reflexivity. Qed.

Theorem expression_total : forall fuel s pos, run jsonpath_grammar fuel (PRef 0) s pos <> PFail.
Proof. exact (catch_all_never_fails jsonpath_grammar grammar_catch_all). Qed.

(* ---------- where syntax errors point ---------- *)
Definition epo {A} (b : nat) (r : ares A) : Prop :=
  match r with AErr (ESyntax p _) => p = b | _ => True end.

Lemma epo_bind {A B} b (r : ares A) (f : A -> ares B) :
  epo b r -> (forall x, epo b (f x)) -> epo b (abind r f).
Proof. destruct r as [x|e|s]; cbn [abind]; intros H Hf; [apply Hf|exact H|exact I]. Qed.

Ltac epo_step :=
  first [ exact I | reflexivity
        | apply epo_bind; [|intros ?]
        | match goal with
          | |- epo _ (let '(_, _) := ?x in _) => destruct x
          | |- epo _ (match ?x with _ => _ end) => destruct x
          | |- epo _ (if ?x then _ else _) => destruct x
          end ].
Ltac epo_solve := repeat epo_step.

Lemma epo_pop b st : epo b (pop st).
Proof. unfold pop. epo_solve. Qed.
Lemma epo_pop_node b st : epo b (pop_node st).
Proof. unfold pop_node. apply epo_bind; [apply epo_pop|]. intros [x st']. epo_solve. Qed.
Lemma epo_pop_query b st : epo b (pop_query st).
Proof. unfold pop_query. apply epo_bind; [apply epo_pop|]. intros [x st']. epo_solve. Qed.
Lemma epo_pop_cparam b st : epo b (pop_cparam st).
Proof. unfold pop_cparam. apply epo_bind; [apply epo_pop|]. intros [x st']. epo_solve. Qed.
Lemma epo_pop_idx b st : epo b (pop_idx st).
Proof. unfold pop_idx. apply epo_bind; [apply epo_pop|]. intros [x st']. epo_solve. Qed.
Lemma epo_two_operands b st : epo b (two_operands st).
Proof.
  unfold two_operands. apply epo_bind; [apply epo_pop_cparam|]. intros [r st1].
  apply epo_bind; [apply epo_pop_cparam|]. intros [l st2]. exact I.
Qed.

Lemma epo_fold_chain b : forall rest acc, epo b acc -> epo b (fold_left chain_step rest acc).
Proof.
  induction rest as [|x rest IH]; intros acc H; cbn [fold_left]; [exact H|].
  apply IH. unfold chain_step. apply epo_bind; [exact H|]. intros root. epo_solve.
Qed.
Lemma epo_set_node_chain b st : epo b (set_node_chain st).
Proof.
  unfold set_node_chain. destruct (params st) as [|first [|second rest]]; try exact I.
  destruct first; try exact I. apply epo_bind; [apply epo_fold_chain; exact I|]. intros; exact I.
Qed.
Lemma epo_update_root_vg b st : epo b (update_root_vg st).
Proof. unfold update_root_vg. epo_solve. Qed.
Lemma epo_set_last b t st : epo b (set_last_node_text t st).
Proof. unfold set_last_node_text. apply epo_bind; [apply epo_pop_node|]. intros [n st']. epo_solve. Qed.
Lemma epo_push_function cfg b t name st : epo b (push_function cfg t name st).
Proof. unfold push_function. epo_solve. Qed.
Lemma epo_push_index b cps om st : epo b (push_index cps om st).
Proof. unfold push_index. epo_solve. Qed.
Lemma epo_literal_of b x : epo b (literal_of x).
Proof. unfold literal_of. epo_solve. Qed.

Section EP.
  Variable cfg : config.
  Variable parse_float : string -> option num.
  Variable regex_ok : string -> bool.

  Ltac epo_action :=
    cbn [exec_action];
    repeat first
      [ exact I | reflexivity
      | apply epo_pop_node | apply epo_pop_query | apply epo_pop_cparam | apply epo_pop_idx | apply epo_pop
      | apply epo_two_operands | apply epo_set_node_chain | apply epo_update_root_vg | apply epo_set_last
      | apply epo_push_function | apply epo_push_index | apply epo_literal_of
      | apply epo_bind; [|intros ?]
      | match goal with
        | |- epo _ (let '(_, _) := ?x in _) => destruct x
        | |- epo _ (match ?x with _ => _ end) => destruct x
        | |- epo _ (if ?x then _ else _) => destruct x
        end ].

  Lemma exec_action_epo n cps b st : epo b (exec_action cfg parse_float regex_ok n cps b st).
  Proof.
    do 46 (destruct n as [|n]; [epo_action|]).
    cbn [exec_action]. exact I.
  Qed.

  Lemma execute_epo N : forall toks input cps b st p r,
    b <= N -> Forall (tok_ok 0 N) toks ->
    execute cfg parse_float regex_ok toks input cps b st = AErr (ESyntax p r) -> p <= N.
  Proof.
    induction toks as [|t toks IH]; intros input cps b st p r Hb Ht H; cbn [execute] in H; [discriminate|].
    inversion Ht as [|? ? Ht0 Ht']; subst.
    destruct t as [tb te|n].
    - cbn [tok_ok] in Ht0. eapply IH; [|exact Ht'|exact H]. lia.
    - pose proof (exec_action_epo n cps b st) as He.
      destruct (exec_action cfg parse_float regex_ok n cps b st) as [st'|e|s]; cbn [abind] in H.
      + eapply IH; eassumption.
      + inversion H; subst e. cbn [epo] in He. lia.
      + discriminate.
  Qed.

  (* a syntax error reports a character offset inside the path *)
  Theorem syntax_error_inside : forall g input p r,
    parse_with cfg parse_float regex_ok g input = ParseErr (ESyntax p r) -> p <= List.length input.
  Proof.
    intros g input p r. unfold parse_with, parse_from, peg_parse.
    generalize (parse_fuel input). intros fuel H.
    destruct (run g fuel (PRef 0) input 0) as [| |rest pos toks] eqn:Er; try discriminate.
    destruct (run_accounting g _ _ _ _ _ _ _ Er) as (A1 & A2 & A3).
    destruct (execute cfg parse_float regex_ok toks input [] 0 ps_init) as [st|e|s] eqn:Ee.
    - destruct (proot st); discriminate.
    - inversion H; subst e. eapply (execute_epo (List.length input)); [| |exact Ee]; [lia|].
      eapply Forall_tok_weaken; [| |exact A3]; lia.
    - discriminate.
  Qed.

End EP.
