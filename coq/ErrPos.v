(* ErrPos.v — the offset of `unrecognized input` is exactly the end of the match of `jsonpath?`
   (C17): action 1 is only emitted by the catch-all alternative of the start rule, after the capture
   <.*> that begins where `jsonpath?` stopped. *)
From JP Require Import Peg Grammar Text Tree Actions PegFacts ParseFacts.
From Coq Require Import Lia.
Open Scope list_scope.

(* the token list of a successful match only contains actions of a fixed set A that is closed under the
   grammar: A contains the actions written in e and, for every rule, the actions written in its body *)
Fixpoint direct_acts (e : pexp) : list nat :=
  match e with
  | PSeq a b | PAlt a b => direct_acts a ++ direct_acts b
  | PStar a | PPlus a | POpt a | PCap a => direct_acts a
  | PAct n => [n]
  | _ => []
  end.
Fixpoint refs (e : pexp) : list nat :=
  match e with
  | PSeq a b | PAlt a b => refs a ++ refs b
  | PStar a | PPlus a | POpt a | PCap a => refs a
  | PRef r => [r]
  | _ => []
  end.

Definition tok_in (A : list nat) (t : token) : Prop := match t with TAct n => In n A | TText _ _ => True end.

(* R: a set of rules closed under references; A: contains every action written in those rules *)
Definition closed (g : grammar) (R A : list nat) : Prop :=
  forall r body, In r R -> nth_error g r = Some body ->
    (forall n, In n (direct_acts body) -> In n A) /\ (forall r', In r' (refs body) -> In r' R).

Lemma run_tokens_in g R A : closed g R A -> forall f e rest pos r p t,
  (forall n, In n (direct_acts e) -> In n A) -> (forall r', In r' (refs e) -> In r' R) ->
  run g f e rest pos = POk r p t -> Forall (tok_in A) t.
Proof.
  intros Hcl. induction f as [|f IHf]; intros e; [intros; discriminate|].
  induction e as [ |s|neg rs|a IHa b IHb|a IHa b IHb|a IHa|a IHa|a IHa|a IHa|a IHa|n|a IHa|n| ];
    intros rest pos r p t Hd Hr H.
  - rewrite run_any in H. destruct rest; inversion H; constructor.
  - change (run g (S f) (PLit s) rest pos) with
      (match strip_prefix s rest with Some r => POk r (pos + List.length s) [] | None => PFail end) in H.
    destruct (strip_prefix s rest); inversion H; constructor.
  - change (run g (S f) (PCls neg rs) rest pos) with
      (match rest with c :: r => if xorb neg (in_ranges c rs) then POk r (S pos) [] else PFail | [] => PFail end) in H.
    destruct rest as [|c rest']; [discriminate|]. destruct (xorb neg (in_ranges c rs)); inversion H; constructor.
  - rewrite run_seq in H. cbn [direct_acts refs] in Hd, Hr.
    destruct (run g (S f) a rest pos) as [| |r1 p1 t1] eqn:Ea; try discriminate.
    destruct (run g (S f) b r1 p1) as [| |r2 p2 t2] eqn:Eb; try discriminate. inversion H; subst.
    apply Forall_app. split.
    + eapply IHa; [| |exact Ea]; intros x Hx; [apply Hd|apply Hr]; apply in_or_app; left; exact Hx.
    + eapply IHb; [| |exact Eb]; intros x Hx; [apply Hd|apply Hr]; apply in_or_app; right; exact Hx.
  - rewrite run_alt in H. cbn [direct_acts refs] in Hd, Hr.
    destruct (run g (S f) a rest pos) as [| |r1 p1 t1] eqn:Ea; try discriminate.
    + eapply IHb; [| |exact H]; intros x Hx; [apply Hd|apply Hr]; apply in_or_app; right; exact Hx.
    + inversion H; subst. eapply IHa; [| |exact Ea]; intros x Hx; [apply Hd|apply Hr]; apply in_or_app; left; exact Hx.
  - rewrite run_star in H. destruct (run g (S f) a rest pos) as [| |r1 p1 t1] eqn:Ea; try discriminate.
    + inversion H; constructor.
    + destruct (Nat.eqb p1 pos); [discriminate|].
      destruct (run g f (PStar a) r1 p1) as [| |r2 p2 t2] eqn:Es; try discriminate. inversion H; subst.
      apply Forall_app. split; [eapply IHa; [exact Hd|exact Hr|exact Ea]|eapply (IHf (PStar a)); [exact Hd|exact Hr|exact Es]].
  - change (run g (S f) (PPlus a) rest pos) with
      (match run g (S f) a rest pos with
       | POk r p t => if Nat.eqb p pos then PFuel
                      else match run g f (PStar a) r p with POk r' p' t' => POk r' p' (t ++ t') | x => x end
       | x => x end) in H.
    destruct (run g (S f) a rest pos) as [| |r1 p1 t1] eqn:Ea; try discriminate.
    destruct (Nat.eqb p1 pos); [discriminate|].
    destruct (run g f (PStar a) r1 p1) as [| |r2 p2 t2] eqn:Es; try discriminate. inversion H; subst.
    apply Forall_app. split; [eapply IHa; [exact Hd|exact Hr|exact Ea]|eapply (IHf (PStar a)); [exact Hd|exact Hr|exact Es]].
  - rewrite run_opt in H. destruct (run g (S f) a rest pos) as [| |r1 p1 t1] eqn:Ea; try discriminate.
    + inversion H; constructor.
    + inversion H; subst. eapply IHa; [exact Hd|exact Hr|exact Ea].
  - rewrite run_not in H. destruct (run g (S f) a rest pos); try discriminate. inversion H; constructor.
  - change (run g (S f) (PAnd a) rest pos) with
      (match run g (S f) a rest pos with POk _ _ _ => POk rest pos [] | x => x end) in H.
    destruct (run g (S f) a rest pos); try discriminate. inversion H; constructor.
  - rewrite run_ref in H. destruct (nth_error g n) as [body|] eqn:En; [|discriminate].
    assert (HnR : In n R) by (apply Hr; left; reflexivity).
    destruct (Hcl n body HnR En) as [Hd' Hr']. eapply IHf; [exact Hd'|exact Hr'|exact H].
  - rewrite run_cap in H. destruct (run g (S f) a rest pos) as [| |r1 p1 t1] eqn:Ea; try discriminate.
    inversion H; subst. apply Forall_app. split; [eapply IHa; [exact Hd|exact Hr|exact Ea]|constructor; [exact I|constructor]].
  - rewrite run_act in H. inversion H; subst. constructor; [|constructor]. apply Hd. left. reflexivity.
  - change (run g (S f) PEps rest pos) with (POk rest pos []) in H. inversion H; constructor.
Qed.

(* a decidable version of `closed`, evaluated on the regenerated grammar *)
Definition closedb (g : grammar) (R A : list nat) : bool :=
  forallb (fun r => match nth_error g r with
                    | Some body => forallb (fun n => existsb (Nat.eqb n) A) (direct_acts body) &&
                                   forallb (fun r' => existsb (Nat.eqb r') R) (refs body)
                    | None => true
                    end) R.
Lemma existsb_eqb_in n l : existsb (Nat.eqb n) l = true -> In n l.
Proof. intros H. apply existsb_exists in H. destruct H as [x [Hx He]]. apply Nat.eqb_eq in He. subst. exact Hx. Qed.
Lemma closedb_sound g R A : closedb g R A = true -> closed g R A.
Proof.
  unfold closedb, closed. intros H r body Hr Hn. rewrite forallb_forall in H. specialize (H r Hr). rewrite Hn in H.
  apply andb_true_iff in H. destruct H as [H1 H2]. rewrite forallb_forall in H1, H2.
  split; [intros n Hin; apply existsb_eqb_in; apply H1; exact Hin|intros r' Hin; apply existsb_eqb_in; apply H2; exact Hin].
Qed.

(* the rules reachable from `jsonpath` (rule 2) are all rules but the start rule, and none of them writes action 1 *)
Definition rules_below_jsonpath : list nat := seq 1 58.
Definition actions_below_jsonpath : list nat := 0%nat :: seq 2 44.
Lemma jsonpath_closed : closed jsonpath_grammar rules_below_jsonpath actions_below_jsonpath.
Proof. apply closedb_sound. vm_compute. reflexivity. Qed.

(* ---------- only action 1 reports `unrecognized input` ---------- *)
Definition nur {A} (r : ares A) : Prop := match r with AErr (ESyntax _ RUnrecognized) => False | _ => True end.
Lemma nur_bind {A B} (r : ares A) (f : A -> ares B) : nur r -> (forall x, nur (f x)) -> nur (abind r f).
Proof. destruct r as [x|e|s]; cbn [abind]; intros H Hf; [apply Hf|exact H|exact I]. Qed.

Ltac nur_solve :=
  repeat first
    [ exact I
    | apply nur_bind; [|intros ?]
    | match goal with
      | |- nur (let '(_, _) := ?x in _) => destruct x
      | |- nur (match ?x with _ => _ end) => destruct x
      | |- nur (if ?x then _ else _) => destruct x
      end ].

Lemma nur_pop st : nur (pop st). Proof. unfold pop. nur_solve. Qed.
Lemma nur_pop_node st : nur (pop_node st). Proof. unfold pop_node. apply nur_bind; [apply nur_pop|]. intros [x st']. nur_solve. Qed.
Lemma nur_pop_query st : nur (pop_query st). Proof. unfold pop_query. apply nur_bind; [apply nur_pop|]. intros [x st']. nur_solve. Qed.
Lemma nur_pop_cparam st : nur (pop_cparam st). Proof. unfold pop_cparam. apply nur_bind; [apply nur_pop|]. intros [x st']. nur_solve. Qed.
Lemma nur_pop_idx st : nur (pop_idx st). Proof. unfold pop_idx. apply nur_bind; [apply nur_pop|]. intros [x st']. nur_solve. Qed.
Lemma nur_two_operands st : nur (two_operands st).
Proof.
  unfold two_operands. apply nur_bind; [apply nur_pop_cparam|]. intros [r st1].
  apply nur_bind; [apply nur_pop_cparam|]. intros [l st2]. exact I.
Qed.
Lemma nur_fold_chain : forall rest acc, nur acc -> nur (fold_left chain_step rest acc).
Proof.
  induction rest as [|x rest IH]; intros acc H; cbn [fold_left]; [exact H|].
  apply IH. unfold chain_step. apply nur_bind; [exact H|]. intros root. nur_solve.
Qed.
Lemma nur_set_node_chain st : nur (set_node_chain st).
Proof.
  unfold set_node_chain. destruct (params st) as [|first [|second rest]]; try exact I.
  destruct first; try exact I. apply nur_bind; [apply nur_fold_chain; exact I|]. intros; exact I.
Qed.
Lemma nur_update_root_vg st : nur (update_root_vg st). Proof. unfold update_root_vg. nur_solve. Qed.
Lemma nur_set_last t st : nur (set_last_node_text t st).
Proof. unfold set_last_node_text. apply nur_bind; [apply nur_pop_node|]. intros [n st']. nur_solve. Qed.
Lemma nur_push_function cfg t name st : nur (push_function cfg t name st). Proof. unfold push_function. nur_solve. Qed.
Lemma nur_push_index cps om st : nur (push_index cps om st). Proof. unfold push_index. nur_solve. Qed.
Lemma nur_literal_of x : nur (literal_of x). Proof. unfold literal_of. nur_solve. Qed.

Section UR.
  Variable cfg : config.
  Variable parse_float : string -> option num.
  Variable regex_ok : string -> bool.
  Notation exec_action := (exec_action cfg parse_float regex_ok).
  Notation execute := (execute cfg parse_float regex_ok).

  Ltac nur_action :=
    cbn [Actions.exec_action];
    repeat first
      [ exact I
      | apply nur_pop_node | apply nur_pop_query | apply nur_pop_cparam | apply nur_pop_idx | apply nur_pop
      | apply nur_two_operands | apply nur_set_node_chain | apply nur_update_root_vg | apply nur_set_last
      | apply nur_push_function | apply nur_push_index | apply nur_literal_of
      | apply nur_bind; [|intros ?]
      | match goal with
        | |- nur (let '(_, _) := ?x in _) => destruct x
        | |- nur (match ?x with _ => _ end) => destruct x
        | |- nur (if ?x then _ else _) => destruct x
        end ].

  Lemma exec_action_nur n cps b st : n <> 1 -> nur (exec_action n cps b st).
  Proof.
    intros Hn. destruct n as [|n]; [nur_action|]. destruct n as [|n]; [contradiction Hn; reflexivity|].
    do 44 (destruct n as [|n]; [nur_action|]).
    cbn [Actions.exec_action]. exact I.
  Qed.

  (* execution with the capture state made explicit, so that token lists can be split *)
  Fixpoint xrun (toks : list token) (input : list N) (cps : list N) (b : nat) (st : pstate) : ares (list N * nat * pstate) :=
    match toks with
    | [] => AOk (cps, b, st)
    | TText tb te :: r => xrun r input (sub_list input tb te) tb st
    | TAct n :: r => abind (exec_action n cps b st) (fun st' => xrun r input cps b st')
    end.
  Lemma execute_xrun : forall toks input cps b st,
    execute toks input cps b st = abind (xrun toks input cps b st) (fun x => AOk (snd x)).
  Proof.
    induction toks as [|t toks IH]; intros input cps b st; cbn [Actions.execute xrun]; [reflexivity|].
    destruct t as [tb te|n]; [apply IH|].
    destruct (exec_action n cps b st) as [st'|e|s]; cbn [abind]; [apply IH|reflexivity|reflexivity].
  Qed.
  Lemma xrun_app : forall t1 t2 input cps b st,
    xrun (t1 ++ t2) input cps b st = abind (xrun t1 input cps b st) (fun x => xrun t2 input (fst (fst x)) (snd (fst x)) (snd x)).
  Proof.
    induction t1 as [|t t1 IH]; intros t2 input cps b st; cbn [app xrun]; [reflexivity|].
    destruct t as [tb te|n]; [apply IH|].
    destruct (exec_action n cps b st) as [st'|e|s]; cbn [abind]; [apply IH|reflexivity|reflexivity].
  Qed.

  Definition no_act1 (t : token) : Prop := match t with TAct n => n <> 1 | TText _ _ => True end.
  Lemma xrun_nur : forall toks input cps b st, Forall no_act1 toks -> nur (xrun toks input cps b st).
  Proof.
    induction toks as [|t toks IH]; intros input cps b st H; cbn [xrun]; [exact I|].
    inversion H as [|? ? Ht Hts]; subst. destruct t as [tb te|n]; [apply IH; exact Hts|].
    apply nur_bind; [apply exec_action_nur; exact Ht|]. intros st'. apply IH. exact Hts.
  Qed.

  Lemma below_no_act1 t : tok_in actions_below_jsonpath t -> no_act1 t.
  Proof.
    destruct t as [tb te|n]; [trivial|]. cbn [tok_in no_act1]. intros Hin ->.
    revert Hin. vm_compute. intuition discriminate.
  Qed.

  (* for unrecognised input the reported offset is the end of the match of `jsonpath?` *)
  Theorem unrecognized_offset : forall input p,
    parse_with cfg parse_float regex_ok jsonpath_grammar input = ParseErr (ESyntax p RUnrecognized) ->
    exists fuel rest toks, run jsonpath_grammar fuel (POpt (PRef 2)) input 0 = POk rest p toks.
  Proof.
    intros input p. unfold parse_with, parse_from, peg_parse. generalize (parse_fuel input). intros fuel H.
    destruct (run jsonpath_grammar fuel (PRef 0) input 0) as [| |rest pos toks] eqn:Er; try discriminate.
    rewrite execute_xrun in H.
    destruct fuel as [|f]; [discriminate|]. rewrite run_ref in Er.
    change (nth_error jsonpath_grammar 0) with
      (Some (PAlt (PSeq (PRef 2) (PSeq (PRef 1) (PAct 0))) (PSeq (POpt (PRef 2)) (PSeq (PCap (PStar PAny)) (PSeq (PRef 1) (PAct 1)))))) in Er.
    destruct f as [|f]; [discriminate|]. rewrite run_alt in Er.
    assert (Hcl := jsonpath_closed).
    assert (HA0 : forall n, In n (direct_acts (PSeq (PRef 2) (PSeq (PRef 1) (PAct 0)))) -> In n actions_below_jsonpath)
      by (intros n Hn; cbn in Hn; destruct Hn as [<-|[]]; left; reflexivity).
    assert (HR0 : forall r', In r' (refs (PSeq (PRef 2) (PSeq (PRef 1) (PAct 0)))) -> In r' rules_below_jsonpath)
      by (intros r' Hr'; cbn in Hr'; destruct Hr' as [<-|[<-|[]]]; vm_compute; tauto).
    assert (Hnur : forall t, Forall (tok_in actions_below_jsonpath) t -> forall cps b st, nur (xrun t input cps b st)).
    { intros t Ht cps b st. apply xrun_nur. eapply Forall_impl; [|exact Ht]. intros x. apply below_no_act1. }
    destruct (run jsonpath_grammar (S f) (PSeq (PRef 2) (PSeq (PRef 1) (PAct 0))) input 0) as [| |r1 p1 t1] eqn:E1.
    - (* the catch-all alternative *)
      rewrite run_seq in Er.
      destruct (run jsonpath_grammar (S f) (POpt (PRef 2)) input 0) as [| |rj pj tj] eqn:Ej; try discriminate.
      assert (Htj : Forall (tok_in actions_below_jsonpath) tj).
      { eapply (run_tokens_in _ _ _ Hcl); [| |exact Ej].
        - intros n Hn. cbn in Hn. contradiction.
        - intros r' Hr'. cbn in Hr'. destruct Hr' as [<-|[]]. vm_compute. tauto. }
      rewrite run_seq, run_cap in Er.
      pose proof (run_star_any jsonpath_grammar (S f) rj pj) as Hs.
      destruct (run jsonpath_grammar (S f) (PStar PAny) rj pj) as [| |rs ps ts]; try contradiction; try discriminate.
      destruct Hs as (-> & -> & ->). rewrite run_seq, run_ref in Er.
      change (nth_error jsonpath_grammar 1) with (Some (PNot PAny)) in Er.
      destruct f as [|f]; [discriminate|]. rewrite run_not, run_any, run_act in Er.
      inversion Er; subst. clear Er.
      (* execute: the tokens of jsonpath?, then the capture, then action 1 *)
      cbn [app] in H. rewrite xrun_app in H.
      pose proof (Hnur tj Htj [] 0 ps_init) as Hn1.
      destruct (xrun tj input [] 0 ps_init) as [[[cps b] st]|e|s]; cbn [abind fst snd] in H.
      + cbn [xrun Actions.exec_action abind] in H. inversion H; subst.
        exists (S (S f)), rj, tj. exact Ej.
      + inversion H; subst e. contradiction.
      + discriminate.
    - discriminate.
    - (* the first alternative matched: no action 1 among its tokens *)
      injection Er as E_r E_p E_t. rewrite <- E_t in H. clear E_t.
      assert (Ht1 : Forall (tok_in actions_below_jsonpath) t1) by (eapply (run_tokens_in _ _ _ Hcl); [exact HA0|exact HR0|exact E1]).
      pose proof (Hnur t1 Ht1 [] 0 ps_init) as Hn1.
      destruct (xrun t1 input [] 0 ps_init) as [[[cps b] st]|e|s]; cbn [abind snd] in H.
      + destruct (proot st); discriminate.
      + inversion H; subst e. contradiction.
      + discriminate.
  Qed.
End UR.
