(* Actions.v — hand model of the 46 grammar actions and the helpers of jsonpath_parser.go
   as a value-semantics stack machine that builds Tree.node (DESIGN §4.2).
   Every Go failure is explicit: documented panics are AErr, anything else (pop on an empty
   stack, a failed type assertion, slicing an empty capture) is ACrash.  Model only.

   The model describes the repaired parser (DESIGN §7): operand ranking in the comparison
   builders (D1/D8), nested aggregates unwrapped in the filter operand action (D2), inner
   identifiers of a multi-name selector linked under `..` (D6), the value-group flag computed
   over the whole parameter chain of an aggregate (D7), accessor flag cleared (D9) and
   connected text set (D17) on inner identifiers. *)
From JP Require Export Tree Peg Text.
Open Scope string_scope.
Open Scope list_scope.
Open Scope nat_scope.

Inductive item :=
| INode (n : node)
| IStr (s : string)          (* functionName, string literal *)
| IIdx (i : idx)             (* *syntaxIndexSubscript *)
| ISub (s : subscript)       (* slice / wildcard subscript *)
| IQuery (q : query)
| IPQ (p : pquery)           (* *syntaxQueryParamRoot / *syntaxQueryParamCurrentRoot *)
| ICParam (p : cparam)       (* *syntaxBasicCompareParameter *)
| IBool (b : bool)           (* isLiteral flag, or a boolean literal *)
| INum (x : num)             (* float64 literal *)
| INil.                      (* null literal *)

Inductive sreason := RUnrecognized | RTwoCurrent | RValueGroup.
Inductive perr :=
| ESyntax (pos : nat) (reason : sreason)
| EArgument (arg : string)
| EFuncNotFound (text : string)
| ENotSupported (feature path : string).

Inductive ares (A : Type) := AOk (x : A) | AErr (e : perr) | ACrash (site : string).
Arguments AOk {A} x.
Arguments AErr {A} e.
Arguments ACrash {A} site.

Definition abind {A B} (r : ares A) (f : A -> ares B) : ares B :=
  match r with AOk x => f x | AErr e => AErr e | ACrash s => ACrash s end.
Notation "'do' x <- r ; k" := (abind r (fun x => k)) (at level 200, x pattern, r at level 100, k at level 200).

(* jsonPathParser: params, paramsList, root *)
Record pstate := { params : list item; saved : list (list item); proot : option node }.
Definition ps_init : pstate := {| params := []; saved := []; proot := None |}.
Definition with_params (st : pstate) (ps : list item) : pstate :=
  {| params := ps; saved := saved st; proot := proot st |}.

Record config := { cfg_filters : list string; cfg_aggs : list string; cfg_accessor : bool }.
Definition cfg_none : config := {| cfg_filters := []; cfg_aggs := []; cfg_accessor := false |}.

(* ---------- stack primitives ---------- *)
Definition push (x : item) (st : pstate) : pstate := with_params st (params st ++ [x]).

Definition pop (st : pstate) : ares (item * pstate) :=
  match rev (params st) with
  | [] => ACrash "pop: empty parameter stack"
  | x :: r => AOk (x, with_params st (rev r))
  end.

Definition pop_node (st : pstate) : ares (node * pstate) :=
  do (x, st') <- pop st;
  match x with INode n => AOk (n, st') | _ => ACrash "type assertion .(syntaxNode)" end.
Definition pop_query (st : pstate) : ares (query * pstate) :=
  do (x, st') <- pop st;
  match x with
  | IQuery q => AOk (q, st')
  | IPQ p => AOk (QParam p, st')
  | _ => ACrash "type assertion .(syntaxQuery)"
  end.
Definition pop_cparam (st : pstate) : ares (cparam * pstate) :=
  do (x, st') <- pop st;
  match x with ICParam p => AOk (p, st') | _ => ACrash "type assertion .(*syntaxBasicCompareParameter)" end.
Definition pop_idx (st : pstate) : ares (idx * pstate) :=
  do (x, st') <- pop st;
  match x with IIdx i => AOk (i, st') | _ => ACrash "type assertion .(*syntaxIndexSubscript)" end.

(* saveParams / loadParams *)
Definition save_params (st : pstate) : pstate :=
  match params st with
  | [] => st
  | ps => {| params := []; saved := saved st ++ [ps]; proot := proot st |}
  end.
Definition load_params (st : pstate) : pstate :=
  match rev (saved st) with
  | [] => st
  | top :: r => {| params := top ++ params st; saved := rev r; proot := proot st |}
  end.

(* ---------- node helpers ---------- *)
Definition mk_basic (t : string) (vg acc : bool) : basic :=
  {| text := t; ctext := ""; vgroup := vg; accessor := acc |}.
Definition set_node_vg (n : node) : node :=
  match n with Node k b nx => Node k (set_vgroup true b) nx end.
Definition is_wild (n : node) : bool := match node_kind n with KWild => true | _ => false end.
Definition nil_node : node := Node KRoot (mk_basic "" false false) ONone.   (* a Go nil param; never evaluated *)

Fixpoint nodes_snoc (ns : nodes) (x : node) : nodes :=
  match ns with NNil => NCons x NNil | NCons n r => NCons n (nodes_snoc r x) end.

(* last.setNext(next), together with the links the inner identifiers of every multi-name
   selector on the chain receive (they point at the same node objects in Go) *)
Fixpoint append_deep (n x : node) {struct n} : node :=
  match n with
  | Node k b next =>
      let k' := match k with
                | KMulti ids aw uq =>
                    KMulti (append_ids ids x) aw
                           (match uq with OSome u => OSome (append_deep u x) | ONone => ONone end)
                | _ => k
                end in
      Node k' b (match next with ONone => OSome x | OSome m => OSome (append_deep m x) end)
  end
with append_ids (ids : nodes) (x : node) {struct ids} : nodes :=
  match ids with
  | NNil => NNil
  | NCons i r => NCons (append_deep i x) (append_ids r x)
  end.

(* updateAccessorMode(node, false) *)
Fixpoint clear_acc (n : node) {struct n} : node :=
  match n with
  | Node k b next =>
      let k' := match k with
                | KMulti ids aw uq =>
                    KMulti (clear_ids ids) aw
                           (match uq with OSome u => OSome (clear_acc u) | ONone => ONone end)
                | _ => k
                end in
      Node k' (set_accessor false b) (match next with ONone => ONone | OSome m => OSome (clear_acc m) end)
  end
with clear_ids (ids : nodes) {struct ids} : nodes :=
  match ids with
  | NNil => NNil
  | NCons i r => NCons (clear_acc i) (clear_ids r)
  end.

(* updateRootValueGroup / updateValueGroup *)
Fixpoint chain_vg (n : node) : bool :=
  match n with
  | Node _ b next => vgroup b || match next with ONone => false | OSome m => chain_vg m end
  end.
Definition update_vg (n : node) : node := if chain_vg n then set_node_vg n else n.

(* deleteRootIdentifier *)
Fixpoint delete_root (n : node) : node :=
  match n with
  | Node KRoot b (OSome nx) | Node KCurrent b (OSome nx) => if vgroup b then set_node_vg nx else nx
  | Node (KAgg f param) b next => Node (KAgg f (delete_root param)) b next
  | _ => n
  end.

(* setConnectedText *)
Fixpoint set_ctext_deep (n : node) (postfix : string) {struct n} : node :=
  match n with
  | Node k b next =>
      let next' := match next with ONone => ONone | OSome m => OSome (set_ctext_deep m postfix) end in
      let append_text := match next' with OSome m' => ctext (node_basic m') | ONone => postfix end in
      let ct := (text b ++ append_text)%string in
      let k' := match k with
                | KMulti ids aw uq =>
                    KMulti (ctext_ids ids ct postfix) aw
                           (match uq with
                            | OSome (Node uk ub unx) =>
                                OSome (Node uk (set_ctext ct ub)
                                            (match unx with ONone => ONone | OSome m => OSome (set_ctext_deep m postfix) end))
                            | ONone => ONone
                            end)
                | KAgg f param => KAgg f (set_ctext_deep param ct)
                | _ => k
                end in
      Node k' (set_ctext ct b) next'
  end
with ctext_ids (ids : nodes) (ct postfix : string) {struct ids} : nodes :=
  match ids with
  | NNil => NNil
  | NCons (Node ik ib inx) r =>
      NCons (Node ik (set_ctext ct ib)
                  (match inx with ONone => ONone | OSome m => OSome (set_ctext_deep m postfix) end))
            (ctext_ids r ct postfix)
  end.

(* setNodeChain *)
Definition chain_step (root : ares node) (x : item) : ares node :=
  do root <- root;
  match x with
  | INode (Node (KAgg f _) fb fnx) => AOk (Node (KAgg f (clear_acc (update_vg root))) fb fnx)
  | INode nx => AOk (append_deep root nx)
  | _ => ACrash "setNodeChain: type assertion .(syntaxNode)"
  end.
Definition set_node_chain (st : pstate) : ares pstate :=
  match params st with
  | [] | [_] => AOk st
  | first :: rest =>
      match first with
      | INode root0 =>
          do root <- fold_left chain_step rest (AOk root0);
          AOk (with_params st [INode root])
      | _ => ACrash "setNodeChain: params[0].(syntaxNode)"
      end
  end.
Definition update_root_vg (st : pstate) : ares pstate :=
  match params st with
  | INode r :: rest => AOk (with_params st (INode (update_vg r) :: rest))
  | [] => ACrash "updateRootValueGroup: params[0] on empty stack"
  | _ => ACrash "updateRootValueGroup: params[0].(syntaxNode)"
  end.

(* setLastNodeText *)
Definition set_last_node_text (t : string) (st : pstate) : ares pstate :=
  do (n, st') <- pop_node st;
  match n with
  | Node k b nx =>
      let k' := match k with
                | KMulti ids true (OSome (Node uk ub unx)) => KMulti ids true (OSome (Node uk (set_text t ub) unx))
                | _ => k
                end in
      AOk (push (INode (Node k' (set_text t b) nx)) st')
  end.

Section Actions.
  Variable cfg : config.
  Variable parse_float : string -> option num.     (* strconv.ParseFloat(text, 64); None = error *)
  Variable regex_ok : string -> bool.              (* regexp.Compile(text) succeeds *)

  Definition acc := cfg_accessor cfg.
  Definition mem (s : string) (l : list string) : bool := existsb (String.eqb s) l.

  Definition push_function (t name : string) (st : pstate) : ares pstate :=
    if mem name (cfg_filters cfg) then AOk (push (INode (Node (KFFun name) (mk_basic t false acc) ONone)) st)
    else if mem name (cfg_aggs cfg) then AOk (push (INode (Node (KAgg name nil_node) (mk_basic t false acc) ONone)) st)
    else AErr (EFuncNotFound t).

  Definition push_single (key : string) (st : pstate) : pstate :=
    push (INode (Node (KSingle key) (mk_basic key false acc) ONone)) st.

  Definition push_multi (n app_ : node) (st : pstate) : pstate :=
    match n with
    | Node (KMulti ids aw uq) b nx =>
        let aw' := aw && is_wild app_ in
        let uq' := if aw' then
                     match uq with
                     | OSome (Node (KUnion subs) ub unx) => OSome (Node (KUnion (subs ++ [SubWild])) ub unx)
                     | other => other
                     end
                   else ONone in
        push (INode (Node (KMulti (nodes_snoc ids app_) aw' uq') b nx)) st
    | _ =>
        let aw := is_wild n && is_wild app_ in
        let uq := if aw then OSome (Node (KUnion [SubWild; SubWild]) (mk_basic "" true acc) ONone) else ONone in
        push (INode (Node (KMulti (NCons n (NCons app_ NNil)) aw uq) (mk_basic "" true acc) ONone)) st
    end.

  Definition push_recursive (n : node) (st : pstate) : pstate :=
    let '(mr, lr) := match node_kind n with
                     | KWild | KMulti _ _ _ | KFilter _ => (true, true)
                     | KSingle _ => (true, false)
                     | KUnion _ => (false, true)
                     | _ => (false, false)
                     end in
    push (INode (Node (KRec mr lr) (mk_basic ".." true acc) (OSome n))) st.

  Definition push_index (cps : list N) (omitted_ : bool) (st : pstate) : ares pstate :=
    match atoi cps with
    | Some v => AOk (push (IIdx {| number := v; omitted := omitted_ |}) st)
    | None => AErr (EArgument (text_of cps))
    end.

  (* operand ranking of the D1/D8 repair: @ < $ < literal *)
  Definition rank (p : cparam) : nat :=
    match p with
    | CP (PqLit _) _ => 2
    | CP _ true => 1
    | CP _ false => 0
    end.
  Definition swap_required (l r : cparam) : bool := Nat.ltb (rank r) (rank l).

  Definition push_compare_eq (l r : cparam) (st : pstate) : pstate :=
    let '(l, r) := if swap_required l r then (r, l) else (l, r) in
    match r with
    | CP (PqLit v) _ =>
        match v with
        | VNum _ => push (IQuery (QCmp l r (CDirectEq VdNumeric))) st
        | VBool _ => push (IQuery (QCmp l r (CDirectEq VdBool))) st
        | VStr _ => push (IQuery (QCmp l r (CDirectEq VdString))) st
        | VNull => push (IQuery (QCmp l r (CDirectEq VdNil))) st
        | _ => st
        end
    | _ => push (IQuery (QCmp l r CDeepEq)) st
    end.

  Definition mirror (c : comparator) : comparator :=
    match c with CLt => CGt | CGt => CLt | CLe => CGe | CGe => CLe | other => other end.
  Definition push_compare_ord (c : comparator) (l r : cparam) (st : pstate) : pstate :=
    if swap_required l r then push (IQuery (QCmp r l (mirror c))) st
    else push (IQuery (QCmp l r c)) st.

  Definition literal_of (x : item) : ares value :=
    match x with
    | INum f => AOk (VNum f)
    | IBool b => AOk (VBool b)
    | IStr s => AOk (VStr s)
    | INil => AOk VNull
    | _ => ACrash "literal of a non-literal stack item"
    end.

  Definition two_operands (st : pstate) : ares (cparam * cparam * pstate) :=
    do (r, st1) <- pop_cparam st;
    do (l, st2) <- pop_cparam st1;
    AOk (l, r, st2).

  Fixpoint innermost (n : node) : node :=
    match n with Node (KAgg _ param) _ _ => innermost param | _ => n end.

  Definition first_byte (cps : list N) : option N :=
    match utf8 cps with b :: _ => Some b | [] => None end.

  (* the action numbered n in jsonpath.peg, run with the current capture (code points cps,
     starting at rune index begin_) *)
  Definition exec_action (n : nat) (cps : list N) (begin_ : nat) (st : pstate) : ares pstate :=
    let t := text_of cps in
    match n with
    | 0 => do (r, st1) <- pop_node st;
           let root := set_ctext_deep (delete_root r) "" in
           AOk {| params := params st1; saved := saved st1; proot := Some root |}
    | 1 => AErr (ESyntax begin_ RUnrecognized)
    | 2 => do st1 <- set_node_chain st; update_root_vg st1
    | 3 => do (nd, st1) <- pop_node st; AOk (push_recursive nd st1)
    | 4 => set_last_node_text t st
    | 5 => do (x, st1) <- pop st;
           match x with
           | IStr name => push_function t name st1
           | _ => ACrash "type assertion .(string)"
           end
    | 6 => AOk (push (IStr t) st)
    | 7 => set_last_node_text t st
    | 8 => AOk (push (INode (Node KRoot (mk_basic "$" false acc) ONone)) st)
    | 9 => AOk (push (INode (Node KCurrent (mk_basic "@" false acc) ONone)) st)
    | 10 => AOk (push_single (text_of (unescape_cps cps)) st)
    | 11 => do (id2, st1) <- pop_node st;
            do (id1, st2) <- pop_node st1;
            AOk (push_multi id1 id2 st2)
    | 12 => AOk (push (INode (Node KWild (mk_basic "*" true acc) ONone)) st)
    | 13 => match unescape_single (utf8 cps) with
            | Some key => AOk (push_single (string_of_bytes key) st)
            | None => AErr (EArgument t)
            end
    | 14 => match unescape_double (utf8 cps) with
            | Some key => AOk (push_single (string_of_bytes key) st)
            | None => AErr (EArgument t)
            end
    | 15 => do (child, st1) <- pop_node st;
            do (parent, st2) <- pop_node st1;
            match child, parent with
            | Node (KUnion csubs) _ _, Node (KUnion psubs) pb pnx =>
                AOk (push (INode (Node (KUnion (psubs ++ csubs)) (set_vgroup true pb) pnx)) st2)
            | _, _ => ACrash "type assertion .(*syntaxUnionQualifier)"
            end
    | 16 => do (step, st1) <- pop_idx st;
            do (en, st2) <- pop_idx st1;
            do (start, st3) <- pop_idx st2;
            AOk (push (ISub (mk_slice start en step)) st3)
    | 17 => push_index cps false st
    | 18 => AOk (push (ISub SubWild) st)
    | 19 => do (x, st1) <- pop st;
            match x with
            | IIdx i => AOk (push (INode (Node (KUnion [SubIndex (number i)]) (mk_basic "" false acc) ONone)) st1)
            | ISub s => AOk (push (INode (Node (KUnion [s]) (mk_basic "" (sub_value_group s) acc) ONone)) st1)
            | _ => ACrash "type assertion .(syntaxSubscript)"
            end
    | 20 => push_index [49%N] false st
    | 21 => match cps with
            | [] => push_index [48%N] true st
            | _ => push_index cps false st
            end
    | 22 => AErr (ENotSupported "script" ("[(" ++ t ++ ")]")%string)
    | 23 => do (q, st1) <- pop_query st;
            AOk (push (INode (Node (KFilter q) (mk_basic "" true acc) ONone)) st1)
    | 24 => do (r, st1) <- pop_query st;
            do (l, st2) <- pop_query st1;
            AOk (push (IQuery (QOr l r)) st2)
    | 25 => do (r, st1) <- pop_query st;
            do (l, st2) <- pop_query st1;
            AOk (push (IQuery (QAnd l r)) st2)
    | 26 => do (x, st1) <- pop st;
            let q := match x with IQuery (QNot q') => Some q' | IQuery q' => Some q' | _ => None end in
            match q with
            | Some (QCmp (CP (PqCur _) _) (CP (PqCur _) _) _) => AErr (ESyntax begin_ RTwoCurrent)
            | _ => AOk (push x st1)
            end
    | 27 => do (_, st1) <- pop st;
            do (q, st2) <- pop_query st1;
            match first_byte cps with
            | None => ACrash "text[0:1] on an empty capture"
            | Some b => if N.eqb b 33%N then AOk (push (IQuery (QNot q)) st2) else AOk (push (IQuery q) st2)
            end
    | 28 => do (l, r, st1) <- two_operands st; AOk (push_compare_eq l r st1)
    | 29 => do (l, r, st1) <- two_operands st;
            do (q, st2) <- pop_query (push_compare_eq l r st1);
            AOk (push (IQuery (QNot q)) st2)
    | 30 => do (l, r, st1) <- two_operands st; AOk (push_compare_ord CLe l r st1)
    | 31 => do (l, r, st1) <- two_operands st; AOk (push_compare_ord CLt l r st1)
    | 32 => do (l, r, st1) <- two_operands st; AOk (push_compare_ord CGe l r st1)
    | 33 => do (l, r, st1) <- two_operands st; AOk (push_compare_ord CGt l r st1)
    | 34 => do (l, st1) <- pop_cparam st;
            if regex_ok t then
              AOk (push (IQuery (QCmp l (CP (PqLit (VStr "regex")) true) (CRegex t))) st1)
            else AErr (EArgument t)
    | 35 | 36 => do (x, st1) <- pop st;
                 do v <- literal_of x;
                 AOk (push (ICParam (CP (PqLit v) true)) st1)
    | 37 => do (x, st1) <- pop st;
            match x with
            | IBool is_lit =>
                do (y, st2) <- pop st1;
                match y with
                | IPQ (PqLit _) => ACrash "type assertion .(syntaxQueryJSONPathParameter)"
                | IPQ p =>
                    let head := match p with PqCur h | PqRoot h => h | PqLit _ => nil_node end in
                    if vgroup (node_basic head) then AErr (ESyntax begin_ RValueGroup)
                    else AOk (push (ICParam (CP p is_lit)) st2)
                | _ => ACrash "type assertion .(syntaxQueryJSONPathParameter)"
                end
            | _ => ACrash "type assertion .(bool)"
            end
    | 38 => AOk (save_params st)
    | 39 => do (nd, st1) <- pop_node (load_params st);
            match node_kind (innermost nd) with
            | KRoot => AOk (push (IBool true) (push (IPQ (PqRoot (clear_acc (delete_root nd)))) st1))
            | KCurrent => AOk (push (IBool false) (push (IPQ (PqCur (clear_acc (delete_root nd)))) st1))
            | _ => AOk st1
            end
    | 40 => match parse_float t with
            | Some f => AOk (push (INum f) st)
            | None => AErr (EArgument t)
            end
    | 41 => AOk (push (IBool true) st)
    | 42 => AOk (push (IBool false) st)
    | 43 | 44 => AOk (push (IStr (text_of (unescape_cps cps))) st)
    | 45 => AOk (push INil st)
    | _ => ACrash "unknown action"
    end.

  (* pegJSONPathParser.Execute: replay the tokens of the successful parse *)
  Definition sub_list {A} (l : list A) (b e : nat) : list A := firstn (e - b) (skipn b l).

  Fixpoint execute (toks : list token) (input : list N) (cps : list N) (begin_ : nat) (st : pstate)
    : ares pstate :=
    match toks with
    | [] => AOk st
    | TText b e :: r => execute r input (sub_list input b e) b st
    | TAct n :: r => do st' <- exec_action n cps begin_ st; execute r input cps begin_ st'
    end.

  Inductive presult :=
  | ParseOk (t : node)
  | ParseErr (e : perr)
  | ParseCrash (site : string).

  (* Parse, started from an arbitrary action state (what the global parser holds when the call begins) *)
  Definition parse_from (st0 : pstate) (g : grammar) (input : list N) : presult :=
    match peg_parse g input with
    | POk _ _ toks =>
        match execute toks input [] 0 st0 with
        | AOk st => match proot st with
                    | Some t => ParseOk t
                    | None => ParseCrash "Execute finished without a root"
                    end
        | AErr e => ParseErr e
        | ACrash s => ParseCrash s
        end
    | PFail => ParseCrash "PEG: expression did not match"
    | PFuel => ParseCrash "PEG: out of fuel"
    end.
  (* Parse, for one call on a freshly reset parser *)
  Definition parse_with (g : grammar) (input : list N) : presult := parse_from ps_init g input.
End Actions.
