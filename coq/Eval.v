(* Eval.v — executable model of the Go evaluator (syntax_*.go), DESIGN §3.3.
   One Gallina function per Go method, same control structure: shared result container,
   per-member / whole-match verdict lists with the empty marker, in-place list writes
   (recorded in a write log), deepest-error selection, explicit panic sites.
   Model only; proofs are in other files. *)
From JP Require Export Tree.
Open Scope string_scope.
Open Scope list_scope.

(* ---------- locations, results, errors ---------- *)
Inductive pstep := PKey (k : string) | PIdx (i : Z).
Definition loc := list pstep.

(* what ends up in container.result: a plain value, or an Accessor{Get,Set}.
   settable = (Set != nil); where = the document location Set writes, when it is known to
   be a location of the document (None after a function has detached the cursor) *)
Inductive res := RVal (v : value) | RAcc (settable : bool) (where_ : option loc) (v : value).

(* the Go value a function or filter operand sees when it is handed a result *)
Definition res_value (r : res) : value :=
  match r with
  | RVal v => v
  | RAcc _ _ _ => VOpaque "jsonpath.Accessor" 0 false
  end.

Inductive rerr :=
| EMember (b : basic)
| EType (b : basic) (expected found : string)
| EFunc (b : basic).
Definition err_basic (e : rerr) : basic :=
  match e with EMember b | EType b _ _ | EFunc b => b end.

(* ---------- verdict lists ---------- *)
Definition entry := option value.                (* None = the library's emptyEntity marker *)
Inductive lval := Own (l : list entry) | GEmpty | GFull.   (* a fresh slice / the package-level lists *)
Inductive gref := RefEmpty | RefFull.

Inductive call := CallF (f : string) (arg : value) | CallA (f : string) (args : list value).

Record estate := {
  g_empty : list entry;            (* current contents of the package-level emptyList *)
  g_full : list entry;             (* current contents of the package-level fullList  *)
  wlog : list (gref * nat);        (* ghost: every element write to a package-level list *)
  calls : list call;               (* user-function calls, in call order *)
  panicked : option string         (* first Go panic site reached, if any (sticky) *)
}.

Definition st_init : estate :=
  {| g_empty := [None]; g_full := [Some (VBool true)]; wlog := []; calls := []; panicked := None |}.

Definition set_panic (site : string) (st : estate) : estate :=
  match panicked st with
  | Some _ => st
  | None => {| g_empty := g_empty st; g_full := g_full st; wlog := wlog st; calls := calls st;
               panicked := Some site |}
  end.
Definition log_call (c : call) (st : estate) : estate :=
  {| g_empty := g_empty st; g_full := g_full st; wlog := wlog st; calls := calls st ++ [c];
     panicked := panicked st |}.

Definition lget (st : estate) (lv : lval) : list entry :=
  match lv with Own l => l | GEmpty => g_empty st | GFull => g_full st end.

(* store new contents l' into lv, after the element writes at indices ws *)
Definition commit (lv : lval) (l' : list entry) (ws : list nat) (st : estate) : lval * estate :=
  match lv with
  | Own _ => (Own l', st)
  | GEmpty =>
      match ws with
      | [] => (GEmpty, st)
      | _ => (GEmpty, {| g_empty := l'; g_full := g_full st; wlog := wlog st ++ map (fun i => (RefEmpty, i)) ws;
                         calls := calls st; panicked := panicked st |})
      end
  | GFull =>
      match ws with
      | [] => (GFull, st)
      | _ => (GFull, {| g_empty := g_empty st; g_full := l'; wlog := wlog st ++ map (fun i => (RefFull, i)) ws;
                        calls := calls st; panicked := panicked st |})
      end
  end.

Definition isE (x : entry) : bool := match x with None => true | Some _ => false end.
Definition hd_entry (l : list entry) : entry := match l with x :: _ => x | [] => None end.
Definition has_value (l : list entry) : bool := existsb (fun x => negb (isE x)) l.

(* pure element-wise rewriting: new contents and the indices written *)
Fixpoint rewrite_list (f : entry -> option entry) (l : list entry) (i : nat) : list entry * list nat :=
  match l with
  | [] => ([], [])
  | x :: r =>
      let '(r', ws) := rewrite_list f r (S i) in
      match f x with
      | Some y => (y :: r', i :: ws)
      | None => (x :: r', ws)
      end
  end.

(* ----- syntax_basic_type_validator_*.go ----- *)
Definition validator_of (c : comparator) : option validator :=
  match c with
  | CDirectEq vd => Some vd
  | CDeepEq => None                        (* syntaxBasicAnyValueTypeValidator *)
  | CLt | CLe | CGt | CGe => Some VdNumeric
  | CRegex _ => Some VdString
  end.

(* Some y = the element is overwritten with y *)
Definition validate_entry (vd : validator) (x : entry) : option entry :=
  match x with
  | None => None                           (* case struct{} (the marker): left alone *)
  | Some v =>
      match vd, v with
      | VdNumeric, VNum _ => None
      | VdNumeric, VJNum _ f => Some (Some (VNum f))     (* values[index], _ = typedValue.Float64() *)
      | VdBool, VBool _ => None
      | VdString, VStr _ => None
      | VdNil, VNull => None
      | _, _ => Some None                  (* default: values[index] = emptyEntity *)
      end
  end.
Definition valid_entry (vd : validator) (x : entry) : bool :=
  match x with
  | None => false
  | Some v =>
      match vd, v with
      | VdNumeric, VNum _ | VdNumeric, VJNum _ _ | VdBool, VBool _ | VdString, VStr _ | VdNil, VNull => true
      | _, _ => false
      end
  end.

Definition validate (c : comparator) (lv : lval) (st : estate) : bool * lval * estate :=
  let l := lget st lv in
  match validator_of c with
  | None => (has_value l, lv, st)
  | Some vd =>
      let '(l', ws) := rewrite_list (validate_entry vd) l 0 in
      let '(lv', st') := commit lv l' ws st in
      (existsb (valid_entry vd) l, lv', st')
  end.

(* ----- syntax_query_compare_comparator_*.go ----- *)
Section Cmp.
  Variable regex_match : string -> string -> bool.

  (* Go interface equality on what validated lists can contain; None = run-time panic
     (both operands of the same uncomparable dynamic type) *)
  Definition iface_eq (a b : entry) : option bool :=
    match a, b with
    | None, None => Some true
    | Some x, Some y =>
        match x, y with
        | VNull, VNull => Some true
        | VBool p, VBool q => Some (Bool.eqb p q)
        | VNum p, VNum q => Some (num_eqb p q)
        | VJNum s _, VJNum t _ => Some (String.eqb s t)
        | VStr s, VStr t => Some (String.eqb s t)
        | VArr _, VArr _ | VObj _, VObj _ => None
        | VOpaque t i _, VOpaque t' i' _ => Some (String.eqb t t' && (i =? i')%Z)
        | _, _ => Some false
        end
    | _, _ => Some false
    end.

  (* per element: Some true = keep (match), Some false = overwrite with the marker,
     None = skipped (already the marker).  The second component is a panic site. *)
  Definition cmp_entry (c : comparator) (right : entry) (x : entry) : option bool * option string :=
    match c with
    | CDirectEq _ =>
        match iface_eq x right with
        | Some b => (Some b, None)
        | None => (Some false, Some "directEQ: comparing uncomparable type")
        end
    | CDeepEq =>
        match x with
        | None => (None, None)
        | Some v => (Some (match right with Some w => deep_eq v w | None => false end), None)
        end
    | CLt | CLe | CGt | CGe =>
        match x with
        | None => (None, None)
        | Some (VNum a) =>
            match right with
            | Some (VNum b) =>
                (Some (match c with CLt => num_ltb a b | CLe => num_leb a b
                                  | CGt => num_ltb b a | _ => num_leb b a end), None)
            | _ => (Some false, Some "ordering: right.(float64)")
            end
        | Some _ => (Some false, Some "ordering: left.(float64)")
        end
    | CRegex re =>
        match x with
        | None => (None, None)
        | Some (VStr s) => (Some (regex_match re s), None)
        | Some _ => (Some false, Some "regex: left.(string)")
        end
    end.

  Fixpoint cmp_list (c : comparator) (right : entry) (l : list entry) (i : nat)
    : list entry * list nat * bool * option string :=
    match l with
    | [] => ([], [], false, None)
    | x :: r =>
        let '(r', ws, hv, pn) := cmp_list c right r (S i) in
        let '(verdict, pn0) := cmp_entry c right x in
        let pn' := match pn0 with Some s => Some s | None => pn end in
        match verdict with
        | None => (x :: r', ws, hv, pn')
        | Some true => (x :: r', ws, true, pn')
        | Some false => (None :: r', i :: ws, hv, pn')
        end
    end.

  Definition comparator_run (c : comparator) (left : lval) (right : entry) (st : estate)
    : bool * lval * estate :=
    let '(l', ws, hv, pn) := cmp_list c right (lget st left) 0 in
    let '(lv', st') := commit left l' ws st in
    (hv, lv', match pn with Some s => set_panic s st' | None => st' end).
End Cmp.

(* ----- syntax_query_logical_{and,or,not}.go, on already computed operands ----- *)
Definition len1 (l : list entry) : bool := Nat.eqb (List.length l) 1.

Fixpoint and_merge (l r : list entry) (i : nat) : list entry * list nat * bool :=
  match l, r with
  | x :: l', y :: r' =>
      let '(m, ws, hv) := and_merge l' r' (S i) in
      if isE y then (None :: m, i :: ws, hv)
      else (x :: m, ws, hv || negb (isE x))
  | _, [] => (l, [], false)
  | [], _ :: _ => ([], [0%nat], false)          (* leftComputedList[index] out of range: flagged by caller *)
  end.

Fixpoint or_merge (l r : list entry) (i : nat) : list entry * list nat :=
  match l, r with
  | x :: l', y :: r' =>
      let '(m, ws) := or_merge l' r' (S i) in
      if isE y then (x :: m, ws) else (y :: m, i :: ws)
  | _, [] => (l, [])
  | [], _ :: _ => ([], [0%nat])
  end.

Fixpoint not_flip (l : list entry) (i : nat) : list entry * list nat * bool :=
  match l with
  | [] => ([], [], false)
  | x :: r =>
      let '(m, ws, hv) := not_flip r (S i) in
      if isE x then (Some (VBool true) :: m, i :: ws, true) else (None :: m, i :: ws, hv)
  end.

(* ---------- deepest-error selection (syntax_basic_node.go addDeepestError) ---------- *)
Definition add_deepest (err : rerr) (dl : nat) (de : option rerr) : nat * option rerr :=
  let tl := String.length (ctext (err_basic err)) in
  if Nat.eqb dl 0 || Nat.ltb tl dl then (tl, Some err)
  else if Nat.eqb dl tl then
    match de with
    | Some (EType _ _ _) => (dl, Some err)
    | _ => (dl, de)
    end
  else (dl, de).

Definition cont := list res.
Definition rresult := (cont * option rerr * estate)%type.
Definition lstate := (cont * nat * option rerr * estate)%type.

(* one iteration of `if err := …; err != nil { if len(container.result) == 0 { addDeepestError } }` *)
Definition loop_step (r : rresult) (dl : nat) (de : option rerr) : lstate :=
  let '(c, e, st) := r in
  match e with
  | Some err =>
      match c with
      | [] => let '(dl', de') := add_deepest err dl de in (c, dl', de', st)
      | _ => (c, dl, de, st)
      end
  | None => (c, dl, de, st)
  end.

Definition loop_finish (self : basic) (s : lstate) : rresult :=
  let '(c, dl, de, st) := s in
  match c with
  | [] => (c, Some (match de with Some e => e | None => EMember self end), st)
  | _ => (c, None, st)
  end.

Definition cursor := (option loc * value)%type.
Definition ext_loc (l : option loc) (s : pstep) : option loc :=
  match l with Some p => Some (p ++ [s]) | None => None end.

(* pre-order list of the containers below (and including) a value, with their locations;
   objects are traversed in sorted key order (syntax_node_identifier_recursive_child.go) *)
Fixpoint containers (l : option loc) (v : value) : list cursor :=
  match v with
  | VArr xs =>
      (l, v) ::
      (fix go (xs : list value) (i : Z) : list cursor :=
         match xs with
         | [] => []
         | x :: r => containers (ext_loc l (PIdx i)) x ++ go r (i + 1)%Z
         end) xs 0%Z
  | VObj m =>
      (l, v) ::
      (* visit members in sorted key order; each member is a structural sub-term of m *)
      flat_map (fun k =>
        (fix find (kvs : list (string * value)) : list cursor :=
           match kvs with
           | [] => []
           | (k', x) :: r => if String.eqb k k' then containers (ext_loc l (PKey k)) x else find r
           end) m) (sorted_keys m)
  | _ => []
  end.

Fixpoint index_list (xs : list value) (i : Z) : list (Z * value) :=
  match xs with [] => [] | x :: r => (i, x) :: index_list r (i + 1)%Z end.

Fixpoint nth_value (xs : list value) (i : Z) : option value :=
  match xs with
  | [] => None
  | x :: r => if (i =? 0)%Z then Some x else if (i <? 0)%Z then None else nth_value r (i - 1)%Z
  end.

(* the `for … { if err := …; err != nil { … } }` loop shared by every value-group node *)
Definition run_loop {A : Type} (self : basic) (f : A -> cont -> estate -> rresult) (xs : list A)
                    (c : cont) (st : estate) : rresult :=
  loop_finish self
    (fold_left (fun (s : lstate) (x : A) =>
                  let '(c, dl, de, st) := s in loop_step (f x c st) dl de)
               xs (c, 0%nat, None, st)).

(* the part of syntaxFilterQualifier.retrieveMap/retrieveList after query.compute *)
Definition filter_loop {A : Type} (self : basic) (next_of : A -> cont -> estate -> rresult)
                       (members : list A) (lv : lval) (c : cont) (st1 : estate) : rresult :=
  let vl := lget st1 lv in
  let is_each := Nat.eqb (List.length vl) (List.length members) in
  let st2 := match vl with
             | [] => if is_each then st1 else set_panic "filter: valueList[0]" st1
             | _ => st1
             end in
  if negb is_each && isE (hd_entry vl) then (c, Some (EMember self), st2)
  else
    loop_finish self
      (fold_left (fun (s : lstate) (xv : A * entry) =>
                    let '(c, dl, de, st) := s in
                    if is_each && isE (snd xv) then s
                    else loop_step (next_of (fst xv) c st) dl de)
                 (combine members (if is_each then vl else map (fun _ => Some VNull) members))
                 (c, 0%nat, None, st2)).

Section Eval.
  Variable ffun : string -> value -> option value.          (* user filter functions; None = error *)
  Variable afun : string -> list value -> option value.     (* user aggregate functions *)
  Variable regex_match : string -> string -> bool.          (* regexp.MatchString *)

  Definition type_err (b : basic) (expected : string) (v : value) : rerr :=
    EType b expected (go_type v).

  Definition append_res (b : basic) (settable : bool) (cur : cursor) (c : cont) : cont :=
    if accessor b then c ++ [RAcc settable (if settable then fst cur else None) (snd cur)]
    else c ++ [RVal (snd cur)].

  Fixpoint retrieve (n : node) (root : value) (cur : cursor) (c : cont) (st : estate) {struct n} : rresult :=
    match n with
    | Node k b next =>
        (* retrieveAnyValueNext / the tail of retrieveMapNext / retrieveListNext *)
        let forward := fun (settable : bool) (cur' : cursor) (c : cont) (st : estate) =>
          match next with
          | OSome nx => retrieve nx root cur' c st
          | ONone => (append_res b settable cur' c, None, st)
          end in
        let map_next := fun (m : list (string * value)) (key : string) (c : cont) (st : estate) =>
          match lookup m key with
          | None => (c, Some (EMember b), st)
          | Some v => forward true (ext_loc (fst cur) (PKey key), v) c st
          end in
        let list_next := fun (iv : Z * value) (c : cont) (st : estate) =>
          forward true (ext_loc (fst cur) (PIdx (fst iv)), snd iv) c st in
        match k with
        | KRoot => forward false (Some [], root) c st
        | KCurrent => forward false cur c st
        | KSingle key =>
            match snd cur with
            | VObj m => map_next m key c st
            | v => (c, Some (type_err b "object" v), st)
            end
        | KWild =>
            match snd cur with
            | VObj m => run_loop b (map_next m) (sorted_keys m) c st
            | VArr xs => run_loop b list_next (index_list xs 0) c st
            | v => (c, Some (type_err b "object/array" v), st)
            end
        | KMulti ids allWild uq =>
            match snd cur, allWild with
            | VArr _, true =>
                match uq with
                | OSome u => retrieve u root cur c st
                | ONone => (c, None, set_panic "multi: nil unionQualifier" st)
                end
            | VObj m, _ =>
                loop_finish b (retrieve_ids ids m root cur (c, 0%nat, None, st))
            | v, _ => (c, Some (type_err b "object" v), st)
            end
        | KRec mapReq listReq =>
            if is_container (snd cur) then
              match next with
              | ONone => (c, None, set_panic "recursive: nil next" st)
              | OSome nx =>
                  run_loop b (fun (cu : cursor) (c : cont) (st : estate) =>
                              match snd cu with
                              | VObj _ => if mapReq then retrieve nx root cu c st else (c, None, st)
                              | VArr _ => if listReq then retrieve nx root cu c st else (c, None, st)
                              | _ => (c, None, st)
                              end)
                           (containers (fst cur) (snd cur)) c st
              end
            else (c, Some (type_err b "object/array" (snd cur)), st)
        | KUnion subs =>
            match snd cur with
            | VArr xs =>
                let len := Z.of_nat (List.length xs) in
                loop_finish b
                  (fold_left (fun (s : lstate) (sub : subscript) =>
                     match get_indexes sub len with
                     | IPanic => let '(c, dl, de, st) := s in (c, dl, de, set_panic "slice: index out of range" st)
                     | IOk idxs =>
                         fold_left (fun (s : lstate) (i : Z) =>
                            let '(c, dl, de, st) := s in
                            match nth_value xs i with
                            | Some v => loop_step (list_next (i, v) c st) dl de
                            | None => (c, dl, de, set_panic "union: index out of range" st)
                            end) idxs s
                     end) subs (c, 0%nat, None, st))
            | v => (c, Some (type_err b "array" v), st)
            end
        | KFilter q =>
            match snd cur with
            | VObj m =>
                let keys := sorted_keys m in
                let vals := flat_map (fun k => match lookup m k with Some v => [v] | None => [] end) keys in
                let '(lv, st1) := compute q root vals st in
                filter_loop b (map_next m) keys lv c st1
            | VArr xs =>
                let '(lv, st1) := compute q root xs st in
                filter_loop b list_next (index_list xs 0) lv c st1
            | v => (c, Some (type_err b "object/array" v), st)
            end
        | KFFun f =>
            let st1 := log_call (CallF f (snd cur)) st in
            match ffun f (snd cur) with
            | None => (c, Some (EFunc b), st1)
            | Some v => forward false (None, v) c st1
            end
        | KAgg f param =>
            let '(vals, e, st1) := retrieve param root cur [] st in
            match e with
            | Some err => (c, Some err, st1)
            | None =>
                let plain := map res_value vals in
                let st2 := if vgroup (node_basic param) then st1
                           else match vals with [] => set_panic "aggregate: values.result[0]" st1 | _ => st1 end in
                let args :=
                  if vgroup (node_basic param) then plain
                  else match plain with
                       | VArr xs :: _ => xs
                       | _ => plain
                       end in
                let st3 := log_call (CallA f args) st2 in
                match afun f args with
                | None => (c, Some (EFunc b), st3)
                | Some v => forward false (None, v) c st3
                end
            end
        end
    end

  (* the loop of syntaxChildMultiIdentifier.retrieveMap *)
  with retrieve_ids (ids : nodes) (m : list (string * value)) (root : value) (cur : cursor)
                    (s : lstate) {struct ids} : lstate :=
    match ids with
    | NNil => s
    | NCons id rest =>
        let '(c, dl, de, st) := s in
        let skip :=
          match node_kind id with
          | KSingle key => match lookup m key with None => true | Some _ => false end
          | _ => false
          end in
        let s' := if skip then s else loop_step (retrieve id root cur c st) dl de in
        retrieve_ids rest m root cur s'
    end

  (* syntaxQuery.compute: the verdict list of a filter query over the members `vals` *)
  with compute (q : query) (root : value) (vals : list value) (st : estate) {struct q} : lval * estate :=
    match q with
    | QAnd a b =>
        let '(L, st1) := compute a root vals st in
        let l := lget st1 L in
        if len1 l then
          if isE (hd_entry l) then (L, st1) else compute b root vals st1
        else
          let '(R, st2) := compute b root vals st1 in
          let r := lget st2 R in
          if len1 r then
            if isE (hd_entry r) then (R, st2) else (L, st2)
          else
            let l2 := lget st2 L in
            let '(m, ws, hv) := and_merge l2 r 0 in
            let st3 := if Nat.ltb (List.length l2) (List.length r)
                       then set_panic "and: leftComputedList[index]" st2 else st2 in
            let '(L', st4) := commit L m ws st3 in
            if hv then (L', st4) else (GEmpty, st4)
    | QOr a b =>
        let '(L, st1) := compute a root vals st in
        let l := lget st1 L in
        if len1 l then
          if isE (hd_entry l) then compute b root vals st1 else (L, st1)
        else
          let '(R, st2) := compute b root vals st1 in
          let r := lget st2 R in
          if len1 r then
            if isE (hd_entry r) then (L, st2) else (R, st2)
          else
            let l2 := lget st2 L in
            let '(m, ws) := or_merge l2 r 0 in
            let st3 := if Nat.ltb (List.length l2) (List.length r)
                       then set_panic "or: leftComputedList[index]" st2 else st2 in
            commit L m ws st3
    | QNot a =>
        let '(L, st1) := compute a root vals st in
        let l := lget st1 L in
        if len1 l then
          if isE (hd_entry l) then (GFull, st1) else (GEmpty, st1)
        else
          let '(m, ws, hv) := not_flip l 0 in
          let '(L', st2) := commit L m ws st1 in
          if hv then (L', st2) else (GEmpty, st2)
    | QCmp (CP lp _) (CP rp _) cmp =>
        let '(L, st1) := compute_p lp root vals st in
        let '(lf, L1, st2) := validate cmp L st1 in
        let '(R, st3) := compute_p rp root vals st2 in
        let '(rf, R1, st4) := validate cmp R st3 in
        if lf && rf then
          let rl := lget st4 R1 in
          let st5 := match rl with [] => set_panic "compare: rightValues[0]" st4 | _ => st4 end in
          let '(hv, L2, st6) := comparator_run regex_match cmp L1 (hd_entry rl) st5 in
          if hv then (L2, st6) else (GEmpty, st6)
        else if Bool.eqb lf rf then
          match cmp with
          | CDeepEq => (GFull, st4)           (* both operands absent (D4 repair: not the caller's list) *)
          | _ => (GEmpty, st4)
          end
        else (GEmpty, st4)
    | QParam p => compute_p p root vals st
    end

  with compute_p (p : pquery) (root : value) (vals : list value) (st : estate) {struct p} : lval * estate :=
    match p with
    | PqLit v => (Own [Some v], st)           (* D5 repair: a copy of the literal *)
    | PqCur n =>
        let '(result, hv, st') :=
          fold_left (fun (acc : list entry * bool * estate) (v : value) =>
                       let '(result, hv, st) := acc in
                       let '(c, e, st1) := retrieve n root (None, v) [] st in
                       match e with
                       | Some _ => (result ++ [None], hv, st1)
                       | None =>
                           match c with
                           | r :: _ => (result ++ [Some (res_value r)], true, st1)
                           | [] => (result ++ [None], true, set_panic "param: container.result[0]" st1)
                           end
                       end) vals ([], false, st) in
        if hv then (Own result, st') else (GEmpty, st')
    | PqRoot n =>
        let '(c, e, st1) := retrieve n root (Some [], root) [] st in
        match e with
        | Some _ => (GEmpty, st1)
        | None =>
            match c with
            | [r] => (Own [Some (res_value r)], st1)
            | _ => (GFull, st1)
            end
        end
    end.

  (* ---------- the closure returned by Parse (jsonpath.go) ---------- *)
  Inductive outcome :=
  | OOk (rs : list res)
  | OErr (e : rerr)
  | OPanic (site : string).

  Definition eval_run (t : node) (doc : value) (st : estate) : outcome * estate :=
    let '(c, e, st') := retrieve t doc (Some [], doc) [] st in
    match panicked st' with
    | Some s => (OPanic s, st')
    | None =>
        match e with
        | Some err => (OErr err, st')
        | None => (OOk c, st')
        end
    end.
End Eval.
