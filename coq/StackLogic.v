(* StackLogic.v — a small Hoare logic for "match with the PEG interpreter, then replay the tokens":
   tr f e P Q says that whenever expression e matches (with fuel at most f) and its tokens are
   replayed from a state satisfying P, the replay does not reach a crash site and, when it finishes
   without a documented error, ends in a state satisfying Q.  One rule per PEG construct; used by the
   stack-effect checker (StackCheck.v) to prove that no grammar action pops an empty stack, fails a
   type assertion or slices an empty capture (C02). *)
From JP Require Import Peg Text Tree Actions PegFacts ParseFacts ErrPos.
From Coq Require Import Lia.
Open Scope list_scope.

(* ---------- expressions that always consume at least one character ---------- *)
Section Consumes.
  Variable g : grammar.
  Variable claimed : nat -> bool.          (* rules claimed to consume *)

  Fixpoint consumesb (e : pexp) : bool :=
    match e with
    | PAny => true
    | PLit s => match s with [] => false | _ => true end
    | PCls _ _ => true
    | PSeq a b => consumesb a || consumesb b
    | PAlt a b => consumesb a && consumesb b
    | PPlus _ => true                       (* an iteration that consumes nothing is reported as out of fuel *)
    | PCap a => consumesb a
    | PRef r => claimed r
    | _ => false
    end.

  Hypothesis claimed_ok : forall r body, claimed r = true -> nth_error g r = Some body -> consumesb body = true.

  Lemma consumes_sound : forall f e rest pos r p t,
    consumesb e = true -> run g f e rest pos = POk r p t -> pos < p.
  Proof.
    induction f as [|f IHf]; intros e; [intros; discriminate|].
    induction e as [ |s|neg rs|a IHa b IHb|a IHa b IHb|a IHa|a IHa|a IHa|a IHa|a IHa|n|a IHa|n| ];
      intros rest pos r p t Hc H; cbn [consumesb] in Hc; try discriminate.
    - rewrite run_any in H. destruct rest; inversion H; subst. lia.
    - change (run g (S f) (PLit s) rest pos) with
        (match strip_prefix s rest with Some r => POk r (pos + List.length s) [] | None => PFail end) in H.
      destruct (strip_prefix s rest); inversion H; subst. destruct s; [discriminate|]. cbn [List.length]. lia.
    - change (run g (S f) (PCls neg rs) rest pos) with
        (match rest with c :: r => if xorb neg (in_ranges c rs) then POk r (S pos) [] else PFail | [] => PFail end) in H.
      destruct rest as [|c rest']; [discriminate|]. destruct (xorb neg (in_ranges c rs)); inversion H; subst. lia.
    - rewrite run_seq in H. destruct (run g (S f) a rest pos) as [| |r1 p1 t1] eqn:Ea; try discriminate.
      destruct (run g (S f) b r1 p1) as [| |r2 p2 t2] eqn:Eb; try discriminate. inversion H; subst.
      destruct (run_accounting _ _ _ _ _ _ _ _ Ea) as (_ & A2 & _).
      destruct (run_accounting _ _ _ _ _ _ _ _ Eb) as (_ & B2 & _).
      apply orb_true_iff in Hc. destruct Hc as [Hc|Hc].
      + specialize (IHa _ _ _ _ _ Hc Ea). lia.
      + specialize (IHb _ _ _ _ _ Hc Eb). lia.
    - rewrite run_alt in H. apply andb_true_iff in Hc. destruct Hc as [Hc1 Hc2].
      destruct (run g (S f) a rest pos) as [| |r1 p1 t1] eqn:Ea; try discriminate.
      + eapply IHb; eassumption.
      + inversion H; subst. eapply IHa; eassumption.
    - change (run g (S f) (PPlus a) rest pos) with
        (match run g (S f) a rest pos with
         | POk r p t => if Nat.eqb p pos then PFuel
                        else match run g f (PStar a) r p with POk r' p' t' => POk r' p' (t ++ t') | x => x end
         | x => x end) in H.
      destruct (run g (S f) a rest pos) as [| |r1 p1 t1] eqn:Ea; try discriminate.
      destruct (Nat.eqb p1 pos) eqn:En; [discriminate|]. apply Nat.eqb_neq in En.
      destruct (run g f (PStar a) r1 p1) as [| |r2 p2 t2] eqn:Es; try discriminate. inversion H; subst.
      destruct (run_accounting _ _ _ _ _ _ _ _ Ea) as (_ & A2 & _).
      destruct (run_accounting _ _ _ _ _ _ _ _ Es) as (_ & B2 & _). lia.
    - rewrite run_ref in H. destruct (nth_error g n) as [body|] eqn:En; [|discriminate].
      eapply IHf; [|exact H]. eapply claimed_ok; eassumption.
    - rewrite run_cap in H. destruct (run g (S f) a rest pos) as [| |r1 p1 t1] eqn:Ea; try discriminate.
      inversion H; subst. eapply IHa; eassumption.
  Qed.
End Consumes.

Lemma sub_list_nonempty {A} (l : list A) b e : b < e -> b < List.length l -> sub_list l b e <> [].
Proof.
  intros H1 H2 H. apply (f_equal (@List.length A)) in H. unfold sub_list in H.
  rewrite firstn_length, skipn_length in H. cbn [List.length] in H. lia.
Qed.

Section SL.
  Variable cfg : config.
  Variable parse_float : string -> option num.
  Variable regex_ok : string -> bool.
  Notation exec_action := (exec_action cfg parse_float regex_ok).
  Notation xrun := (xrun cfg parse_float regex_ok).
  Variable g : grammar.

  Definition sigma := (list N * nat * pstate)%type.
  Definition asrt := sigma -> Prop.

  Definition wp (r : ares sigma) (Q : asrt) : Prop :=
    match r with AOk x => Q x | AErr _ => True | ACrash _ => False end.
  Definition wpa (r : ares pstate) (Q : pstate -> Prop) : Prop :=
    match r with AOk x => Q x | AErr _ => True | ACrash _ => False end.

  Lemma wp_mono r (Q Q' : asrt) : (forall x, Q x -> Q' x) -> wp r Q -> wp r Q'.
  Proof. destruct r; cbn [wp]; auto. Qed.

  Definition tr (f : nat) (e : pexp) (P Q : asrt) : Prop :=
    forall f', f' <= f -> forall rest pos r p toks, run g f' e rest pos = POk r p toks ->
    forall input cps b st, pos + List.length rest <= List.length input -> P (cps, b, st) ->
    wp (xrun toks input cps b st) Q.

  Lemma tr_0 e P Q : tr 0 e P Q.
  Proof. intros f' Hf rest pos r p toks H. assert (f' = 0) by lia. subst. discriminate. Qed.

  Lemma tr_le f f1 e P Q : f1 <= f -> tr f e P Q -> tr f1 e P Q.
  Proof. intros Hle H f' Hf. apply H. lia. Qed.

  Lemma tr_conseq f e (P P' Q Q' : asrt) :
    (forall x, P' x -> P x) -> (forall x, Q x -> Q' x) -> tr f e P Q -> tr f e P' Q'.
  Proof.
    intros HP HQ H f' Hf rest pos r p toks Hr input cps b st Hlen Hp.
    eapply wp_mono; [exact HQ|]. eapply H; eauto.
  Qed.

  Lemma tr_false f e Q : tr f e (fun _ => False) Q.
  Proof. intros f' Hf rest pos r p toks Hr input cps b st Hlen []. Qed.

  (* preconditions can be taken one state at a time *)
  Lemma tr_pre_ex f e (P Q : asrt) :
    (forall x0, P x0 -> tr f e (fun x => x = x0) Q) -> tr f e P Q.
  Proof.
    intros H f' Hf rest pos r p toks Hr input cps b st Hlen Hp.
    eapply (H _ Hp); eauto.
  Qed.

  Lemma tr_seq f x y (P R Q : asrt) : tr f x P R -> tr f y R Q -> tr f (PSeq x y) P Q.
  Proof.
    intros Hx Hy f' Hf rest pos r p toks H input cps b st Hlen HP.
    destruct f' as [|f']; [discriminate|]. rewrite run_seq in H.
    destruct (run g (S f') x rest pos) as [| |r1 p1 t1] eqn:Ea; try discriminate.
    destruct (run g (S f') y r1 p1) as [| |r2 p2 t2] eqn:Eb; try discriminate. inversion H; subst.
    rewrite xrun_app. specialize (Hx (S f') Hf _ _ _ _ _ Ea input cps b st Hlen HP).
    destruct (xrun t1 input cps b st) as [[[cps1 b1] st1]|err|s]; cbn [abind wp fst snd] in *; [|exact I|contradiction].
    destruct (run_accounting _ _ _ _ _ _ _ _ Ea) as (A1 & _ & _).
    eapply Hy; [exact Hf|exact Eb|lia|exact Hx].
  Qed.

  Lemma tr_alt f x y (P Q : asrt) : tr f x P Q -> tr f y P Q -> tr f (PAlt x y) P Q.
  Proof.
    intros Hx Hy f' Hf rest pos r p toks H input cps b st Hlen HP.
    destruct f' as [|f']; [discriminate|]. rewrite run_alt in H.
    destruct (run g (S f') x rest pos) as [| |r1 p1 t1] eqn:Ea; try discriminate.
    - eapply Hy; eauto.
    - inversion H; subst. eapply Hx; eauto.
  Qed.

  Lemma tr_opt f x (P Q : asrt) : tr f x P Q -> (forall s, P s -> Q s) -> tr f (POpt x) P Q.
  Proof.
    intros Hx HPQ f' Hf rest pos r p toks H input cps b st Hlen HP.
    destruct f' as [|f']; [discriminate|]. rewrite run_opt in H.
    destruct (run g (S f') x rest pos) as [| |r1 p1 t1] eqn:Ea; try discriminate.
    - inversion H; subst. cbn [ErrPos.xrun wp]. apply HPQ. exact HP.
    - inversion H; subst. eapply Hx; eauto.
  Qed.

  Lemma tr_star f x (J : asrt) : tr f x J J -> tr f (PStar x) J J.
  Proof.
    intros Hx f'. induction f' as [|f' IH]; intros Hf rest pos r p toks H input cps b st Hlen HP; [discriminate|].
    rewrite run_star in H.
    destruct (run g (S f') x rest pos) as [| |r1 p1 t1] eqn:Ea; try discriminate.
    - inversion H; subst. cbn [ErrPos.xrun wp]. exact HP.
    - destruct (Nat.eqb p1 pos); [discriminate|].
      destruct (run g f' (PStar x) r1 p1) as [| |r2 p2 t2] eqn:Es; try discriminate. inversion H; subst.
      rewrite xrun_app. specialize (Hx (S f') Hf _ _ _ _ _ Ea input cps b st Hlen HP).
      destruct (xrun t1 input cps b st) as [[[cps1 b1] st1]|err|s]; cbn [abind wp fst snd] in *; [|exact I|contradiction].
      destruct (run_accounting _ _ _ _ _ _ _ _ Ea) as (A1 & _ & _).
      eapply IH; [lia|exact Es|lia|exact Hx].
  Qed.

  Lemma tr_plus f x (J : asrt) : tr f x J J -> tr f (PPlus x) J J.
  Proof.
    intros Hx f' Hf rest pos r p toks H input cps b st Hlen HP.
    destruct f' as [|f']; [discriminate|].
    change (run g (S f') (PPlus x) rest pos) with
      (match run g (S f') x rest pos with
       | POk r p t => if Nat.eqb p pos then PFuel
                      else match run g f' (PStar x) r p with POk r' p' t' => POk r' p' (t ++ t') | y => y end
       | y => y end) in H.
    destruct (run g (S f') x rest pos) as [| |r1 p1 t1] eqn:Ea; try discriminate.
    destruct (Nat.eqb p1 pos); [discriminate|].
    destruct (run g f' (PStar x) r1 p1) as [| |r2 p2 t2] eqn:Es; try discriminate. inversion H; subst.
    rewrite xrun_app. pose proof (Hx (S f') Hf _ _ _ _ _ Ea input cps b st Hlen HP) as H1.
    destruct (xrun t1 input cps b st) as [[[cps1 b1] st1]|err|s]; cbn [abind wp fst snd] in *; [|exact I|contradiction].
    destruct (run_accounting _ _ _ _ _ _ _ _ Ea) as (A1 & _ & _).
    eapply (tr_star f x J Hx f'); [lia|exact Es|lia|exact H1].
  Qed.

  (* expressions that never leave a token *)
  Definition notok (e : pexp) : bool :=
    match e with PAny | PLit _ | PCls _ _ | PEps | PNot _ | PAnd _ => true | _ => false end.
  Lemma notok_tokens f e rest pos r p t : notok e = true -> run g f e rest pos = POk r p t -> t = [].
  Proof.
    intros Hn H. destruct f as [|f]; [discriminate|].
    destruct e; try discriminate.
    - rewrite run_any in H. destruct rest; inversion H; reflexivity.
    - change (run g (S f) (PLit s) rest pos) with
        (match strip_prefix s rest with Some r => POk r (pos + List.length s) [] | None => PFail end) in H.
      destruct (strip_prefix s rest); inversion H; reflexivity.
    - change (run g (S f) (PCls neg rs) rest pos) with
        (match rest with c :: r => if xorb neg (in_ranges c rs) then POk r (S pos) [] else PFail | [] => PFail end) in H.
      destruct rest as [|c rest']; [discriminate|]. destruct (xorb neg (in_ranges c rs)); inversion H; reflexivity.
    - rewrite run_not in H. destruct (run g (S f) e rest pos); inversion H; reflexivity.
    - change (run g (S f) (PAnd e) rest pos) with
        (match run g (S f) e rest pos with POk _ _ _ => POk rest pos [] | x => x end) in H.
      destruct (run g (S f) e rest pos); inversion H; reflexivity.
    - change (run g (S f) PEps rest pos) with (POk rest pos []) in H. inversion H; reflexivity.
  Qed.
  Lemma tr_notok f e (P Q : asrt) : notok e = true -> (forall s, P s -> Q s) -> tr f e P Q.
  Proof.
    intros Hn HPQ f' Hf rest pos r p toks H input cps b st Hlen HP.
    apply (notok_tokens _ _ _ _ _ _ _ Hn) in H. subst. cbn [ErrPos.xrun wp]. apply HPQ. exact HP.
  Qed.

  Lemma tr_act f n (P Q : asrt) :
    (forall cps b st, P (cps, b, st) -> wpa (exec_action n cps b st) (fun st' => Q (cps, b, st'))) ->
    tr f (PAct n) P Q.
  Proof.
    intros Ha f' Hf rest pos r p toks H input cps b st Hlen HP.
    destruct f' as [|f']; [discriminate|]. rewrite run_act in H. inversion H; subst.
    cbn [ErrPos.xrun]. specialize (Ha cps b st HP).
    destruct (exec_action n cps b st) as [st'|err|s]; cbn [abind wp wpa] in *; [exact Ha|exact I|contradiction].
  Qed.

  (* a capture sets the current text; it is non-empty when the body must consume *)
  Lemma tr_cap f x (ne : bool) (P Q' Q : asrt) :
    tr f x P Q' ->
    (ne = true -> forall f' rest pos r p t, run g f' x rest pos = POk r p t -> pos < p) ->
    (forall cps0 b0 st' cps' b', Q' (cps0, b0, st') -> (ne = true -> cps' <> []) -> Q (cps', b', st')) ->
    tr f (PCap x) P Q.
  Proof.
    intros Hx Hne HQ f' Hf rest pos r p toks H input cps b st Hlen HP.
    destruct f' as [|f']; [discriminate|]. rewrite run_cap in H.
    destruct (run g (S f') x rest pos) as [| |r1 p1 t1] eqn:Ea; try discriminate. inversion H; subst.
    rewrite xrun_app. specialize (Hx (S f') Hf _ _ _ _ _ Ea input cps b st Hlen HP).
    destruct (xrun t1 input cps b st) as [[[cps1 b1] st1]|err|s]; cbn [abind wp fst snd] in *; [|exact I|contradiction].
    cbn [ErrPos.xrun wp]. eapply HQ; [exact Hx|].
    intros Hn. destruct (run_accounting _ _ _ _ _ _ _ _ Ea) as (A1 & _ & _).
    specialize (Hne Hn _ _ _ _ _ _ Ea). apply sub_list_nonempty; lia.
  Qed.

  Lemma tr_ref f r body (P Q : asrt) : nth_error g r = Some body -> tr f body P Q -> tr (S f) (PRef r) P Q.
  Proof.
    intros Hn Hb f' Hf rest pos r0 p toks H input cps b st Hlen HP.
    destruct f' as [|f']; [discriminate|]. rewrite run_ref, Hn in H.
    eapply Hb; [|exact H|exact Hlen|exact HP]. lia.
  Qed.
  Lemma tr_ref_none f r (P Q : asrt) : nth_error g r = None -> tr f (PRef r) P Q.
  Proof.
    intros Hn f' Hf rest pos r0 p toks H. destruct f' as [|f']; [discriminate|]. rewrite run_ref, Hn in H. discriminate.
  Qed.
End SL.
