(* Extract.v — extraction of the executable model to OCaml (ExtrOcamlBasic only; Z, N, nat,
   string and ascii stay the extracted inductives; no Extract Constant). *)
From JP Require Import Model KeyDefs FunParse FiltChain.
Require Import ExtrOcamlBasic.
Extraction "model.ml" parse_path parse_path_pinned eval_doc st_init next_call_state lib_filter_names lib_agg_names
  get_indexes mk_slice py_slice py_index wf_node spec_doc acc_clean erase filters_call_free spec_calls spec_err ctext_ok key_path dot_path chain_path chain_path0 padded_path chain_fun_path fchain_path fchain_fun_path fchain_path0 fpadded_path fpadded_fun_path fchain_fun_path0 fstep_ok fstep_okp fname_ok.
