(* NoDollarAddr.v — C18: omitting the leading `$` never changes what a path of name / index / wildcard / slice steps
   (each possibly after `..`) returns. *)
From JP Require Import Peg Grammar Slice Text Tree Actions Json Eval WF Spec SortFacts EvalInv1 EvalInv4 EvalTop EndToEnd Codec KeyDefs KeyParse IdxParse SliceParse WildParse RecParse ChainParse ChainAddr NoDollar.
From Coq Require Import Lia.
Open Scope list_scope.

Section NoDollarAddr.
  Variable cfg : config.
  Variable parse_float : string -> option num.
  Variable regex_ok : string -> bool.
  Variable ffun : string -> value -> option value.
  Variable afun : string -> list value -> option value.
  Variable regex_match : string -> string -> bool.
  Hypothesis ffun_small : forall f v w, small v -> ffun f v = Some w -> small w.
  Hypothesis afun_small : forall f l w, Forall small l -> afun f l = Some w -> small w.
  Notation parse := (parse_with cfg parse_float regex_ok jsonpath_grammar).
  Notation eval_run := (eval_run ffun afun regex_match).

  Lemma chain_node0_seg s r : exists b2, chain_node0 cfg s r = seg (RPlain s) b2 b2 (fin (pres cfg r)) /\ accessor b2 = cfg_accessor cfg.
  Proof.
    unfold chain_node0. cbn [seg]. eexists. split; [reflexivity|]. destruct s as [q k|k|ds|[|]|a b c0|u us]; reflexivity.
  Qed.

  Lemma spec_chain0 s r doc : step_ok s = true -> forallb rstep_ok r = true -> small doc ->
    spec_results ffun afun regex_match (chain_node0 cfg s r) doc = map (loc_result cfg) (nav_all (RPlain s :: r) ([], doc)).
  Proof.
    intros Hs Hr Hsm. destruct (chain_node0_seg s r) as (b2 & En & Hb).
    assert (Hall : forallb rstep_ok (RPlain s :: r) = true) by (cbn [forallb rstep_ok]; rewrite Hs, Hr; reflexivity).
    destruct (sp_chain cfg ffun afun regex_match r (RPlain s) b2 b2 Hall Hb) as (B & HB & Hsp).
    unfold spec_results. rewrite En, Hsp by exact Hsm. rewrite map_map. apply map_ext. intros [l z].
    cbn [wrap fst snd]. rewrite HB. unfold loc_result. cbn [fst snd]. destruct (cfg_accessor cfg); reflexivity.
  Qed.

  Theorem chain_retrieval0 s r doc st : step_ok s = true -> forallb rstep_ok r = true -> small doc -> ok st ->
    exists t, parse (chain_path0 s r) = ParseOk t /\
              match nav_all (RPlain s :: r) ([], doc) with
              | [] => exists e, fst (eval_run t doc st) = OErr e
              | l => fst (eval_run t doc st) = OOk (map (loc_result cfg) l)
              end.
  Proof.
    intros Hs Hr Hd Hok. exists (chain_node0 cfg s r).
    pose proof (parse_chain_path0 cfg parse_float regex_ok s r Hs Hr) as Hp. split; [exact Hp|].
    pose proof (retrieve_end_to_end cfg parse_float regex_ok ffun afun regex_match ffun_small afun_small (chain_path0 s r) doc st Hd Hok) as H.
    rewrite Hp in H. rewrite (spec_chain0 s r doc Hs Hr Hd) in H.
    destruct (nav_all (RPlain s :: r) ([], doc)) as [|a l] eqn:En.
    - destruct (fst (eval_run (chain_node0 cfg s r) doc st)) as [rs|e|pn].
      + destruct H as [H1 [H2 _]]. contradiction (H2 H1).
      + exists e. reflexivity.
      + contradiction.
    - destruct (fst (eval_run (chain_node0 cfg s r) doc st)) as [rs|e|pn].
      + destruct H as [H _]. rewrite H. reflexivity.
      + destruct H as [H _]. discriminate.
      + contradiction.
  Qed.

  (* with and without the leading $ : the same results, or both fail *)
  Theorem dollar_optional s r doc st : step_ok s = true -> forallb rstep_ok r = true -> small doc -> ok st ->
    exists t1 t0, parse (chain_path (RPlain s :: r)) = ParseOk t1 /\ parse (chain_path0 s r) = ParseOk t0 /\
      match fst (eval_run t1 doc st) with
      | OOk rs => fst (eval_run t0 doc st) = OOk rs
      | OErr _ => exists e, fst (eval_run t0 doc st) = OErr e
      | OPanic _ => False
      end.
  Proof.
    intros Hs Hr Hd Hok.
    assert (Hall : forallb rstep_ok (RPlain s :: r) = true) by (cbn [forallb rstep_ok]; rewrite Hs, Hr; reflexivity).
    destruct (chain_retrieval cfg parse_float regex_ok ffun afun regex_match ffun_small afun_small (RPlain s) r doc st Hall Hd Hok) as (t1 & P1 & H1).
    destruct (chain_retrieval0 s r doc st Hs Hr Hd Hok) as (t0 & P0 & H0).
    exists t1, t0. split; [exact P1|]. split; [exact P0|].
    destruct (nav_all (RPlain s :: r) ([], doc)) as [|a l].
    - destruct H1 as [e1 E1]. rewrite E1. exact H0.
    - rewrite H1. exact H0.
  Qed.
End NoDollarAddr.
