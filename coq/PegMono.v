(* PegMono.v — the PEG interpreter is monotone in its fuel: a result other than "out of fuel" stays the
   same with more fuel.  With the fuel bound of FuelRules.v this lets results be established with any
   convenient amount of fuel and transported to the fuel Parse actually uses. *)
From JP Require Import Peg PegFacts.
From Coq Require Import Lia.
Open Scope list_scope.

Lemma run_mono g : forall f e rest pos R, run g f e rest pos = R -> R <> PFuel ->
  forall f', f <= f' -> run g f' e rest pos = R.
Proof.
  induction f as [|f IHf]; intros e; [intros rest pos R H Hn; subst; contradiction Hn; reflexivity|].
  induction e as [ |s|neg rs|a IHa b IHb|a IHa b IHb|a IHa|a IHa|a IHa|a IHa|a IHa|n|a IHa|n| ];
    intros rest pos R H Hn f' Hf; (destruct f' as [|f']; [lia|]).
  - rewrite run_any in *. exact H.
  - exact H.
  - exact H.
  - rewrite run_seq in *.
    destruct (run g (S f) a rest pos) as [| |r1 p1 t1] eqn:Ea.
    + rewrite (IHa rest pos PFail Ea ltac:(discriminate) (S f') Hf). exact H.
    + subst R. contradiction Hn. reflexivity.
    + rewrite (IHa rest pos _ Ea ltac:(discriminate) (S f') Hf).
      destruct (run g (S f) b r1 p1) as [| |r2 p2 t2] eqn:Eb.
      * rewrite (IHb r1 p1 PFail Eb ltac:(discriminate) (S f') Hf). exact H.
      * subst R. contradiction Hn. reflexivity.
      * rewrite (IHb r1 p1 _ Eb ltac:(discriminate) (S f') Hf). exact H.
  - rewrite run_alt in *.
    destruct (run g (S f) a rest pos) as [| |r1 p1 t1] eqn:Ea.
    + rewrite (IHa rest pos PFail Ea ltac:(discriminate) (S f') Hf). apply IHb; assumption.
    + subst R. contradiction Hn. reflexivity.
    + rewrite (IHa rest pos _ Ea ltac:(discriminate) (S f') Hf). exact H.
  - rewrite run_star in *.
    destruct (run g (S f) a rest pos) as [| |r1 p1 t1] eqn:Ea.
    + rewrite (IHa rest pos PFail Ea ltac:(discriminate) (S f') Hf). exact H.
    + subst R. contradiction Hn. reflexivity.
    + rewrite (IHa rest pos _ Ea ltac:(discriminate) (S f') Hf).
      destruct (Nat.eqb p1 pos); [exact H|].
      destruct (run g f (PStar a) r1 p1) as [| |r2 p2 t2] eqn:Es.
      * rewrite (IHf (PStar a) r1 p1 PFail Es ltac:(discriminate) f' ltac:(lia)). exact H.
      * subst R. contradiction Hn. reflexivity.
      * rewrite (IHf (PStar a) r1 p1 _ Es ltac:(discriminate) f' ltac:(lia)). exact H.
  - change (run g (S f) (PPlus a) rest pos) with
      (match run g (S f) a rest pos with
       | POk r p t => if Nat.eqb p pos then PFuel
                      else match run g f (PStar a) r p with POk r' p' t' => POk r' p' (t ++ t') | x => x end
       | x => x end) in H.
    change (run g (S f') (PPlus a) rest pos) with
      (match run g (S f') a rest pos with
       | POk r p t => if Nat.eqb p pos then PFuel
                      else match run g f' (PStar a) r p with POk r' p' t' => POk r' p' (t ++ t') | x => x end
       | x => x end).
    destruct (run g (S f) a rest pos) as [| |r1 p1 t1] eqn:Ea.
    + rewrite (IHa rest pos PFail Ea ltac:(discriminate) (S f') Hf). exact H.
    + subst R. contradiction Hn. reflexivity.
    + rewrite (IHa rest pos _ Ea ltac:(discriminate) (S f') Hf).
      destruct (Nat.eqb p1 pos); [exact H|].
      destruct (run g f (PStar a) r1 p1) as [| |r2 p2 t2] eqn:Es.
      * rewrite (IHf (PStar a) r1 p1 PFail Es ltac:(discriminate) f' ltac:(lia)). exact H.
      * subst R. contradiction Hn. reflexivity.
      * rewrite (IHf (PStar a) r1 p1 _ Es ltac:(discriminate) f' ltac:(lia)). exact H.
  - rewrite run_opt in *.
    destruct (run g (S f) a rest pos) as [| |r1 p1 t1] eqn:Ea.
    + rewrite (IHa rest pos PFail Ea ltac:(discriminate) (S f') Hf). exact H.
    + subst R. contradiction Hn. reflexivity.
    + rewrite (IHa rest pos _ Ea ltac:(discriminate) (S f') Hf). exact H.
  - rewrite run_not in *.
    destruct (run g (S f) a rest pos) as [| |r1 p1 t1] eqn:Ea.
    + rewrite (IHa rest pos PFail Ea ltac:(discriminate) (S f') Hf). exact H.
    + subst R. contradiction Hn. reflexivity.
    + rewrite (IHa rest pos _ Ea ltac:(discriminate) (S f') Hf). exact H.
  - change (run g (S f) (PAnd a) rest pos) with
      (match run g (S f) a rest pos with POk _ _ _ => POk rest pos [] | x => x end) in H.
    change (run g (S f') (PAnd a) rest pos) with
      (match run g (S f') a rest pos with POk _ _ _ => POk rest pos [] | x => x end).
    destruct (run g (S f) a rest pos) as [| |r1 p1 t1] eqn:Ea.
    + rewrite (IHa rest pos PFail Ea ltac:(discriminate) (S f') Hf). exact H.
    + subst R. contradiction Hn. reflexivity.
    + rewrite (IHa rest pos _ Ea ltac:(discriminate) (S f') Hf). exact H.
  - rewrite run_ref in *. destruct (nth_error g n) as [body|]; [|exact H].
    apply (IHf body rest pos R H Hn f'). lia.
  - rewrite run_cap in *.
    destruct (run g (S f) a rest pos) as [| |r1 p1 t1] eqn:Ea.
    + rewrite (IHa rest pos PFail Ea ltac:(discriminate) (S f') Hf). exact H.
    + subst R. contradiction Hn. reflexivity.
    + rewrite (IHa rest pos _ Ea ltac:(discriminate) (S f') Hf). exact H.
  - exact H.
  - exact H.
Qed.
