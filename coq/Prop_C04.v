(* Prop_C04.v — property C04: retrieval never modifies the source document.
   In the model, documents are immutable values: the only memory a call can share with anybody else
   are the two package-level verdict lists (emptyList / fullList) and every element write to them is
   recorded in the ghost write log `wlog`.  The theorem: a call on a well-formed tree writes to
   neither (so all in-place blanking by validators, comparators and logical operators lands in lists
   the call owns), whether it succeeds or fails, in plain and in accessor mode.  That the Go code
   hands the caller's array to none of these writers is tied to the model by the document snapshot
   comparison of the correspondence check (DESIGN §6 C04). *)
From JP Require Import Eval WF Verdict EvalInv1 EvalInv3 EvalInv4 EvalTop.

Section C04.
  Variable ffun : string -> value -> option value.
  Variable afun : string -> list value -> option value.
  Variable regex_match : string -> string -> bool.
  Hypothesis ffun_small : forall f v w, small v -> ffun f v = Some w -> small w.
  Hypothesis afun_small : forall f l w, Forall small l -> afun f l = Some w -> small w.

  Theorem C04_no_shared_write : forall t doc st,
    wf_node t = true -> small doc -> ok st ->
    let st' := snd (eval_run ffun afun regex_match t doc st) in
    wlog st' = wlog st /\ g_empty st' = g_empty st /\ g_full st' = g_full st.
  Proof.
    intros t doc st Hwf Hs Hok.
    pose proof (eval_run_spec ffun afun regex_match ffun_small afun_small t doc st Hwf Hs Hok) as H.
    destruct (eval_run ffun afun regex_match t doc st) as [o st']. destruct H as [(A & B & C & _) _].
    cbn [snd]. exact (conj C (conj A B)).
  Qed.
End C04.
Print Assumptions C04_no_shared_write.
