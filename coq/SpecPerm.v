(* SpecPerm.v — what a path selects does not depend on the order in which the members of the
   document's objects are stored (C07), on the specification: `canon` rewrites every object into
   sorted-key order; evaluating a function-free path on a document and on its canonical form selects
   the same cursors in the same order (values differ only by canonicalisation), so two documents with
   the same canonical form — the same JSON value built with different insertion orders — give the
   same result sequence. *)
From JP Require Import Eval WF Spec EvalInv1 EvalInv3 EvalInv4 Refine1 SortFacts SpecDecode.
From Coq Require Import Lia Sorting.Permutation Sorting.Sorted.
Open Scope string_scope.
Open Scope list_scope.

Fixpoint canon (v : value) : value :=
  match v with
  | VArr l => VArr (map canon l)
  | VObj m => VObj (members_obj (map (fun kv => (fst kv, canon (snd kv))) m))
  | other => other
  end.
Definition cmembers (m : list (string * value)) : list (string * value) :=
  members_obj (map (fun kv => (fst kv, canon (snd kv))) m).

(* documents whose objects have distinct keys at every level (what encoding/json produces) *)
Fixpoint nd_doc (v : value) : Prop :=
  match v with
  | VArr l => (fix go (l : list value) : Prop := match l with [] => True | x :: r => nd_doc x /\ go r end) l
  | VObj m => NoDup (map fst m) /\
              (fix go (m : list (string * value)) : Prop := match m with [] => True | (_, x) :: r => nd_doc x /\ go r end) m
  | _ => True
  end.

Lemma nd_arr_forall l : nd_doc (VArr l) -> Forall nd_doc l.
Proof. cbn [nd_doc]. induction l as [|a l IH]; intros H; [constructor|]. destruct H as [Ha Hl]. constructor; [exact Ha|apply IH; exact Hl]. Qed.
Lemma nd_arr_in l x : nd_doc (VArr l) -> In x l -> nd_doc x.
Proof. intros H Hin. apply nd_arr_forall in H. rewrite Forall_forall in H. apply H. exact Hin. Qed.
Lemma nd_obj_members m : nd_doc (VObj m) -> forall kv, In kv m -> nd_doc (snd kv).
Proof.
  cbn [nd_doc]. intros [_ H]. induction m as [|[k a] m IH]; intros kv Hin; [contradiction|].
  destruct H as [Ha Hm]. destruct Hin as [<-|Hin]; [exact Ha|apply IH; assumption].
Qed.
Lemma nd_obj_lookup m k x : nd_doc (VObj m) -> lookup m k = Some x -> nd_doc x.
Proof. intros H Hl. apply lookup_some_in in Hl. apply (nd_obj_members m H (k, x) Hl). Qed.
Lemma nd_obj_nodup m : nd_doc (VObj m) -> NoDup (map fst m).
Proof. intros [H _]. exact H. Qed.

(* ---------- looking into a canonical object ---------- *)
Lemma lookup_map_canon m k : lookup (map (fun kv => (fst kv, canon (snd kv))) m) k = option_map canon (lookup m k).
Proof.
  induction m as [|[k' a] m IH]; cbn [map lookup fst snd]; [reflexivity|].
  destruct (String.eqb k k'); [reflexivity|exact IH].
Qed.

Lemma lookup_tabulate (f : string -> option value) : forall ks k0,
  lookup (flat_map (fun k => match f k with Some v => [(k, v)] | None => [] end) ks) k0 =
  if existsb (String.eqb k0) ks then f k0 else None.
Proof.
  induction ks as [|k ks IH]; intros k0; cbn [flat_map existsb]; [reflexivity|].
  destruct (f k) as [v|] eqn:Ef; cbn [app lookup].
  - destruct (String.eqb k0 k) eqn:E; cbn [orb].
    + apply String.eqb_eq in E. subst k0. symmetry. exact Ef.
    + apply IH.
  - destruct (String.eqb k0 k) eqn:E; cbn [orb]; [|apply IH].
    apply String.eqb_eq in E. subst k0. rewrite IH, Ef. destruct (existsb (String.eqb k) ks); reflexivity.
Qed.

Lemma in_sorted_keys m k : In k (sorted_keys m) <-> In k (map fst m).
Proof.
  unfold sorted_keys. split; intros H.
  - eapply Permutation_in; [apply Permutation_sym, sort_keys_perm|exact H].
  - eapply Permutation_in; [apply sort_keys_perm|exact H].
Qed.
Lemma lookup_none_notin m k : lookup m k = None -> ~ In k (map fst m).
Proof.
  induction m as [|[k' a] m IH]; cbn [lookup map fst]; intros H Hin; [contradiction|].
  destruct (String.eqb k k') eqn:E; [discriminate|]. destruct Hin as [->|Hin]; [rewrite String.eqb_refl in E; discriminate|].
  apply (IH H Hin).
Qed.

Lemma lookup_members_obj m k : lookup (members_obj m) k = lookup m k.
Proof.
  unfold members_obj. rewrite lookup_tabulate.
  destruct (existsb (String.eqb k) (sorted_keys m)) eqn:E; [reflexivity|].
  destruct (lookup m k) as [v|] eqn:El; [|reflexivity]. exfalso.
  apply lookup_some_in in El. assert (Hin : In k (sorted_keys m)).
  { apply in_sorted_keys. apply in_map_iff. exists (k, v). split; [reflexivity|exact El]. }
  assert (Ht : existsb (String.eqb k) (sorted_keys m) = true).
  { apply existsb_exists. exists k. split; [exact Hin|apply String.eqb_refl]. }
  congruence.
Qed.
Lemma lookup_cmembers m k : lookup (cmembers m) k = option_map canon (lookup m k).
Proof. unfold cmembers. rewrite lookup_members_obj. apply lookup_map_canon. Qed.

Lemma map_fst_members_obj m : map fst (members_obj m) = sorted_keys m.
Proof.
  unfold members_obj.
  assert (H : forall ks, (forall k, In k ks -> exists v, lookup m k = Some v) ->
              map fst (flat_map (fun k => match lookup m k with Some v => [(k, v)] | None => [] end) ks) = ks).
  { induction ks as [|k ks IH]; intros Hk; cbn [flat_map map]; [reflexivity|].
    destruct (Hk k (or_introl eq_refl)) as [v Hv]. rewrite Hv. cbn [app map fst]. f_equal.
    apply IH. intros k' Hk'. apply Hk. right. exact Hk'. }
  apply H. intros k Hk. apply sorted_keys_lookup. exact Hk.
Qed.
Lemma sort_sorted l : StronglySorted le l -> sort_keys l = l.
Proof.
  intros Hs. apply sorted_perm_eq; [apply sort_keys_sorted|exact Hs|apply Permutation_sym, sort_keys_perm].
Qed.
Lemma sorted_keys_members_obj m : sorted_keys (members_obj m) = sorted_keys m.
Proof. unfold sorted_keys at 1. rewrite map_fst_members_obj. apply sort_sorted. apply sort_keys_sorted. Qed.
Lemma sorted_keys_cmembers m : sorted_keys (cmembers m) = sorted_keys m.
Proof. unfold cmembers. rewrite sorted_keys_members_obj. unfold sorted_keys. rewrite map_map. reflexivity. Qed.
Lemma length_cmembers m : List.length (cmembers m) = List.length m.
Proof.
  rewrite <- (map_length fst (cmembers m)). unfold cmembers. rewrite map_fst_members_obj.
  unfold sorted_keys. rewrite map_map. cbn [fst].
  rewrite <- (Permutation_length (sort_keys_perm (map (fun x : string * value => fst x) m))). apply map_length.
Qed.

Lemma nth_value_canon : forall xs i, nth_value (map canon xs) i = option_map canon (nth_value xs i).
Proof.
  induction xs as [|x xs IH]; intros i; cbn [map nth_value]; [reflexivity|].
  destruct (i =? 0)%Z; [reflexivity|]. destruct (i <? 0)%Z; [reflexivity|apply IH].
Qed.
Lemma index_list_canon : forall xs z, index_list (map canon xs) z = map (fun iv => (fst iv, canon (snd iv))) (index_list xs z).
Proof. induction xs as [|x xs IH]; intros z; cbn [map index_list fst snd]; [reflexivity|]. rewrite IH. reflexivity. Qed.
Lemma go_type_canon v : go_type (canon v) = go_type v.
Proof. destruct v; reflexivity. Qed.

(* ---------- deep equality does not see the member order ---------- *)
Lemma deep_eq_obj m m' :
  deep_eq (VObj m) (VObj m') =
  Nat.eqb (List.length m) (List.length m') &&
  forallb (fun kx => match lookup m' (fst kx) with Some y => deep_eq (snd kx) y | None => false end) m.
Proof.
  cbn [deep_eq]. f_equal. induction m as [|[k x] m IH]; cbn [forallb fst snd]; [reflexivity|].
  destruct (lookup m' k); [|reflexivity]. rewrite IH. reflexivity.
Qed.
Lemma forallb_perm {A} (f : A -> bool) l l' : Permutation l l' -> forallb f l = forallb f l'.
Proof.
  induction 1 as [|x l l' _ IH|x y l|l l' l'' _ IH1 _ IH2]; cbn [forallb]; try reflexivity.
  - rewrite IH. reflexivity.
  - destruct (f x), (f y); reflexivity.
  - rewrite IH1. exact IH2.
Qed.
Lemma forallb_flat_map {A B} (f : B -> bool) (g : A -> list B) l :
  forallb f (flat_map g l) = forallb (fun a => forallb f (g a)) l.
Proof. induction l as [|a l IH]; cbn [flat_map forallb]; [reflexivity|]. rewrite forallb_app, IH. reflexivity. Qed.
Lemma forallb_map {A B} (f : B -> bool) (g : A -> B) l : forallb f (map g l) = forallb (fun a => f (g a)) l.
Proof. induction l as [|a l IH]; cbn [map forallb]; [reflexivity|]. rewrite IH. reflexivity. Qed.
Lemma forallb_ext_in {A} (f g : A -> bool) l : (forall a, In a l -> f a = g a) -> forallb f l = forallb g l.
Proof.
  induction l as [|a l IH]; intros H; cbn [forallb]; [reflexivity|].
  rewrite (H a (or_introl eq_refl)), IH; [reflexivity|]. intros b Hb. apply H. right. exact Hb.
Qed.

Lemma deep_eq_canon : forall v w, nd_doc v -> nd_doc w -> deep_eq (canon v) (canon w) = deep_eq v w.
Proof.
  induction v as [|b|x|s x|s|xs IH|m IH|t i s] using value_ind_strong; intros w Hv Hw; destruct w; try reflexivity.
  - cbn [canon deep_eq]. apply nd_arr_forall in Hv. apply nd_arr_forall in Hw.
    revert l Hw. induction xs as [|a xs IHxs]; intros [|b l] Hw; cbn [map deq_list]; try reflexivity.
    inversion IH as [|? ? Ha Hxs]; subst. inversion Hv as [|? ? Hva Hvxs]; subst. inversion Hw as [|? ? Hwb Hwl]; subst.
    rewrite (Ha b Hva Hwb). f_equal. apply IHxs; assumption.
  - rename m0 into m'. cbn [canon]. fold (cmembers m). fold (cmembers m').
    rewrite !deep_eq_obj, !length_cmembers. f_equal.
    set (Q0 := fun k => match lookup m k with
                        | Some x => match lookup m' k with Some y => deep_eq x y | None => false end
                        | None => true end).
    set (Q1 := fun k => match lookup m k with
                        | Some x => match lookup m' k with Some y => deep_eq (canon x) (canon y) | None => false end
                        | None => true end).
    assert (H1 : forallb (fun kx => match lookup (cmembers m') (fst kx) with Some y => deep_eq (snd kx) y | None => false end) (cmembers m)
                 = forallb Q1 (sorted_keys m)).
    { unfold cmembers at 2, members_obj. rewrite forallb_flat_map.
      assert (Hsk : sorted_keys (map (fun kv => (fst kv, canon (snd kv))) m) = sorted_keys m) by (unfold sorted_keys; rewrite map_map; reflexivity).
      rewrite Hsk. apply forallb_ext_in. intros k _. unfold Q1. rewrite lookup_map_canon.
      destruct (lookup m k) as [x|]; cbn [option_map forallb fst snd]; [|reflexivity].
      rewrite lookup_cmembers. destruct (lookup m' k); cbn [option_map]; [apply andb_true_r|reflexivity]. }
    assert (H0 : forallb (fun kx => match lookup m' (fst kx) with Some y => deep_eq (snd kx) y | None => false end) m
                 = forallb Q0 (sorted_keys m)).
    { unfold sorted_keys. rewrite <- (forallb_perm Q0 _ _ (sort_keys_perm (map fst m))). rewrite forallb_map.
      apply forallb_ext_in. intros [k x] Hin. cbn [fst snd]. unfold Q0.
      rewrite (lookup_in_nodup m k x (nd_obj_nodup m Hv) Hin). reflexivity. }
    rewrite H1, H0. apply forallb_ext_in. intros k _. unfold Q0, Q1.
    destruct (lookup m k) as [x|] eqn:Ex; [|reflexivity]. destruct (lookup m' k) as [y|] eqn:Ey; [|reflexivity].
    apply lookup_some_in in Ex. rewrite Forall_forall in IH.
    apply (IH (k, x) Ex y); [apply (nd_obj_members m Hv (k, x) Ex)|eapply nd_obj_lookup; eassumption].
Qed.

Lemma canon_obj m : canon (VObj m) = VObj (cmembers m).
Proof. reflexivity. Qed.
Lemma canon_arr l : canon (VArr l) = VArr (map canon l).
Proof. reflexivity. Qed.

Section Sim.
  Variable ffun : string -> value -> option value.
  Variable afun : string -> list value -> option value.
  Variable regex_match : string -> string -> bool.
  Notation sp := (sp ffun afun regex_match).
  Notation sp_ids := (sp_ids ffun afun regex_match).
  Notation holds := (holds ffun afun regex_match).
  Notation operand := (operand ffun afun regex_match).
  Notation sfwd := (sfwd ffun afun regex_match).
  Notation skey := (skey ffun afun regex_match).
  Notation sidx := (sidx ffun afun regex_match).

  Definition ce (x : entry) : entry := option_map canon x.
  Definition endoc (x : entry) : Prop := match x with Some v => nd_doc v | None => True end.
  Definition cc (cur : cursor) : cursor := (fst cur, canon (snd cur)).
  Definition cres (r : sres) : sres := let '(b, s, c) := r in (b, s, cc c).
  Definition rnd (r : sres) : Prop := nd_doc (sres_value r).

  (* ---------- comparisons ---------- *)
  Lemma validate_to_canon c x : validate_to c (ce x) = ce (validate_to c x).
  Proof.
    unfold validate_to. destruct (validator_of c) as [vd|]; [|reflexivity].
    destruct x as [v|]; [|reflexivity]. cbn [ce option_map]. destruct vd, v; reflexivity.
  Qed.
  Lemma endoc_validate_to c x : endoc x -> endoc (validate_to c x).
  Proof.
    intros Hx. unfold validate_to. destruct (validator_of c) as [vd|]; [|exact Hx].
    destruct x as [v|]; [|exact I]. destruct vd, v; cbn; try exact Hx; exact I.
  Qed.
  Lemma is_valid_canon c x : is_valid c (ce x) = is_valid c x.
  Proof.
    unfold is_valid. destruct (validator_of c) as [vd|].
    - destruct x as [v|]; [|reflexivity]. cbn [ce option_map]. destruct vd, v; reflexivity.
    - destruct x; reflexivity.
  Qed.
  Lemma existsb_valid_canon c l : existsb (is_valid c) (map ce l) = existsb (is_valid c) l.
  Proof. induction l as [|x l IH]; cbn [map existsb]; [reflexivity|]. rewrite is_valid_canon, IH. reflexivity. Qed.

  Lemma cmp_keeps_canon c r x : endoc r -> endoc x ->
    cmp_keeps regex_match c (ce r) (ce x) = cmp_keeps regex_match c r x.
  Proof.
    intros Hr Hx. unfold Spec.cmp_keeps. destruct c.
    - destruct x as [[]|], r as [[]|]; reflexivity.
    - destruct x as [v|], r as [w|]; cbn [ce option_map cmp_entry fst]; try reflexivity.
      cbn in Hr, Hx. rewrite (deep_eq_canon v w Hx Hr). reflexivity.
    - destruct x as [[]|], r as [[]|]; reflexivity.
    - destruct x as [[]|], r as [[]|]; reflexivity.
    - destruct x as [[]|], r as [[]|]; reflexivity.
    - destruct x as [[]|], r as [[]|]; reflexivity.
    - destruct x as [[]|]; reflexivity.
  Qed.

  Lemma cmp_holds_canon c n lefts right : Forall endoc lefts -> endoc right ->
    cmp_holds regex_match c n (map ce lefts) (ce right) = cmp_holds regex_match c n lefts right.
  Proof.
    intros Hl Hr. unfold cmp_holds. rewrite existsb_valid_canon, is_valid_canon, map_length.
    destruct (existsb (is_valid c) lefts && is_valid c right); [|reflexivity].
    assert (Hk : map (Spec.cmp_keeps regex_match c (validate_to c (ce right))) (map (validate_to c) (map ce lefts))
               = map (Spec.cmp_keeps regex_match c (validate_to c right)) (map (validate_to c) lefts)).
    { rewrite !map_map. rewrite validate_to_canon. apply map_ext_in. intros x Hx. rewrite validate_to_canon.
      rewrite Forall_forall in Hl. apply cmp_keeps_canon; apply endoc_validate_to; [exact Hr|apply Hl; exact Hx]. }
    rewrite Hk. reflexivity.
  Qed.

  Definition P_node (n : node) : Prop :=
    fun_free n = true -> forall root cur, nd_doc root -> nd_doc (snd cur) ->
    sp n (canon root) (cc cur) = map cres (sp n root cur) /\ Forall rnd (sp n root cur).
  Definition P_onode (o : onode) : Prop := match o with OSome n => P_node n | ONone => True end.
  Definition P_nodes (ids : nodes) : Prop :=
    fun_free_ids ids = true -> forall root cur, nd_doc root -> nd_doc (snd cur) ->
    sp_ids ids (canon root) (cc cur) = map cres (sp_ids ids root cur) /\ Forall rnd (sp_ids ids root cur).
  Definition P_query (q : query) : Prop :=
    fun_free_q q = true -> forall root vals, nd_doc root -> Forall nd_doc vals ->
    holds q (canon root) (map canon vals) = holds q root vals.
  Definition P_pquery (p : pquery) : Prop :=
    fun_free_p p = true -> forall root vals, nd_doc root -> Forall nd_doc vals ->
    operand p (canon root) (map canon vals) = map ce (operand p root vals) /\ Forall endoc (operand p root vals).
  Definition P_cparam (cp : cparam) : Prop := match cp with CP p _ => P_pquery p end.
  Definition P_kind (k : kind) : Prop :=
    match k with
    | KMulti ids _ uq => P_nodes ids /\ P_onode uq
    | KFilter q => P_query q
    | _ => True
    end.

  Lemma sfwd_p b next root settable cu : P_onode next -> ffo next = true -> nd_doc root -> nd_doc (snd cu) ->
    sfwd b next (canon root) settable (cc cu) = map cres (sfwd b next root settable cu) /\ Forall rnd (sfwd b next root settable cu).
  Proof.
    intros IH Hf Hr Hc. unfold Refine1.sfwd. destruct next as [|m]; [|apply IH; assumption].
    split; [reflexivity|]. constructor; [exact Hc|constructor].
  Qed.
  Lemma skey_p b next root cur m key : P_onode next -> ffo next = true -> nd_doc root -> nd_doc (VObj m) ->
    skey b next (canon root) (cc cur) (cmembers m) key = map cres (skey b next root cur m key)
    /\ Forall rnd (skey b next root cur m key).
  Proof.
    intros IH Hf Hr Hm. unfold Refine1.skey. rewrite lookup_cmembers. destruct (lookup m key) as [v|] eqn:El; cbn [option_map].
    - apply (sfwd_p b next root true (ext_loc (fst cur) (PKey key), v) IH Hf Hr). cbn [snd]. eapply nd_obj_lookup; eassumption.
    - split; [reflexivity|constructor].
  Qed.
  Lemma sidx_p b next root cur iv : P_onode next -> ffo next = true -> nd_doc root -> nd_doc (snd iv) ->
    sidx b next (canon root) (cc cur) (fst iv, canon (snd iv)) = map cres (sidx b next root cur iv) /\ Forall rnd (sidx b next root cur iv).
  Proof.
    intros IH Hf Hr Hv. unfold Refine1.sidx. cbn [fst snd].
    apply (sfwd_p b next root true (ext_loc (fst cur) (PIdx (fst iv)), snd iv) IH Hf Hr). exact Hv.
  Qed.

  Lemma containers_canon : forall v l, nd_doc v ->
    containers l (canon v) = map cc (containers l v) /\ Forall (fun cu => nd_doc (snd cu)) (containers l v).
  Proof.
    induction v as [|b|x|s x|s|xs IH|m IH|t i s] using value_ind_strong; intros l Hv;
      try (split; [reflexivity|constructor]).
    - rewrite canon_arr. rewrite !containers_arr. rewrite index_list_canon, flat_map_map. cbn [map fst snd].
      assert (H : flat_map (fun iv : Z * value => containers (ext_loc l (PIdx (fst iv))) (canon (snd iv))) (index_list xs 0)
                  = map cc (flat_map (fun iv => containers (ext_loc l (PIdx (fst iv))) (snd iv)) (index_list xs 0))
                  /\ Forall (fun cu => nd_doc (snd cu)) (flat_map (fun iv => containers (ext_loc l (PIdx (fst iv))) (snd iv)) (index_list xs 0))).
      { generalize 0%Z. pose proof (nd_arr_forall xs Hv) as Hf. clear Hv.
        induction xs as [|x xs IHxs]; intros z; cbn [index_list flat_map map fst snd]; [split; [reflexivity|constructor]|].
        inversion IH as [|? ? Hx Hxs]; subst. inversion Hf as [|? ? Hfx Hfxs]; subst.
        destruct (Hx (ext_loc l (PIdx z)) Hfx) as [A1 A2]. destruct (IHxs Hxs Hfxs (z + 1)%Z) as [B1 B2].
        rewrite A1, B1, map_app. split; [reflexivity|apply Forall_app; split; assumption]. }
      destruct H as [H1 H2]. unfold cc at 1. cbn [fst snd]. rewrite canon_arr. rewrite H1. split; [reflexivity|constructor; [exact Hv|exact H2]].
    - rewrite canon_obj. rewrite !containers_obj. rewrite sorted_keys_cmembers. cbn [map].
      assert (H : flat_map (fun k => match lookup (cmembers m) k with
                                     | Some x => containers (ext_loc l (PKey k)) x | None => [] end) (sorted_keys m)
                  = map cc (flat_map (fun k => match lookup m k with Some x => containers (ext_loc l (PKey k)) x | None => [] end) (sorted_keys m))
                  /\ Forall (fun cu => nd_doc (snd cu)) (flat_map (fun k => match lookup m k with Some x => containers (ext_loc l (PKey k)) x | None => [] end) (sorted_keys m))).
      { induction (sorted_keys m) as [|k ks IHks]; cbn [flat_map map]; [split; [reflexivity|constructor]|].
        destruct IHks as [B1 B2]. rewrite lookup_cmembers. destruct (lookup m k) as [x|] eqn:El; cbn [option_map].
        - pose proof (lookup_some_in m k x El) as Hk'. rewrite Forall_forall in IH.
          destruct (IH (k, x) Hk' (ext_loc l (PKey k)) (nd_obj_lookup m k x Hv El)) as [A1 A2]. cbn [snd] in A1, A2.
          rewrite A1, B1, map_app. split; [reflexivity|apply Forall_app; split; assumption].
        - rewrite B1. split; [reflexivity|exact B2]. }
      destruct H as [H1 H2]. unfold cc at 1. cbn [fst snd]. rewrite canon_obj. rewrite H1. split; [reflexivity|constructor; [exact Hv|exact H2]].
  Qed.

  Lemma rv_cres x : res_value (Spec.wrap (cres x)) = canon (res_value (Spec.wrap x)).
  Proof. destruct x as [[b s] [l v]]. cbn. destruct (accessor b); reflexivity. Qed.
  Lemma rv_nd x : rnd x -> nd_doc (res_value (Spec.wrap x)).
  Proof. destruct x as [[b s] [l v]]. unfold rnd, sres_value. cbn. intros H. destruct (accessor b); [exact I|exact H]. Qed.
  Lemma node_perm k b next : P_kind k -> P_onode next -> P_node (Node k b next).
  Proof.
    intros IHk IHn Hff root cur Hr Hc. cbn [fun_free] in Hff. apply andb_true_iff in Hff. destruct Hff as [Hk Hnx].
    change (match next with OSome m => fun_free m | ONone => true end) with (ffo next) in Hnx.
    assert (Hs : snd (cc cur) = canon (snd cur)) by reflexivity.
    assert (Hf : fst (cc cur) = fst cur) by reflexivity.
    rewrite !sp_unfold. rewrite ?Hs, ?Hf.
    destruct k as [| |key| |ids aw uq|mr lr|subs|q|f|f param]; try discriminate.
    - apply (sfwd_p b next root false (Some [], root) IHn Hnx Hr). exact Hr.
    - apply (sfwd_p b next root false cur IHn Hnx Hr Hc).
    - destruct (snd cur) as [|vb|vx|vs vx|vs|l|m|vt vi vs] eqn:E; rewrite ?canon_obj, ?canon_arr; try (split; [reflexivity|constructor]).
      apply (skey_p b next root cur m key IHn Hnx Hr). exact Hc.
    - destruct (snd cur) as [|vb|vx|vs vx|vs|l|m|vt vi vs] eqn:E; rewrite ?canon_obj, ?canon_arr; try (split; [reflexivity|constructor]).
      + rewrite index_list_canon, flat_map_map. apply two_flat_map. intros [i v] Hin.
        apply (sidx_p b next root cur (i, v) IHn Hnx Hr). cbn [snd].
        eapply nd_arr_in; [exact Hc|]. apply (nth_value_in l i v). apply (index_list_step l i v Hin).
      + rewrite sorted_keys_cmembers. apply two_flat_map. intros key _. apply (skey_p b next root cur m key IHn Hnx Hr). exact Hc.
    - destruct IHk as [IHids IHuq]. apply andb_true_iff in Hk. destruct Hk as [Hids Huq].
      destruct (snd cur) as [|vb|vx|vs vx|vs|l|m|vt vi vs] eqn:E; rewrite ?canon_obj, ?canon_arr; try (split; [reflexivity|constructor]).
      + destruct aw; [|split; [reflexivity|constructor]]. destruct uq as [|u]; [split; [reflexivity|constructor]|].
        apply (IHuq Huq root cur Hr). rewrite E. exact Hc.
      + assert (H : sp_ids ids (canon root) (cc cur) = map cres (sp_ids ids root cur) /\ Forall rnd (sp_ids ids root cur))
          by (apply (IHids Hids root cur Hr); rewrite E; exact Hc).
        destruct aw; exact H.
    - destruct next as [|nx]; [split; [reflexivity|constructor]|].
      destruct (containers_canon (snd cur) (fst cur) Hc) as [C1 C2]. rewrite C1, flat_map_map.
      apply two_flat_map. intros cu Hin. rewrite Forall_forall in C2. pose proof (C2 cu Hin) as Hcu.
      assert (Hscu : snd (cc cu) = canon (snd cu)) by reflexivity. rewrite Hscu.
      destruct (snd cu) as [|vb|vx|vs vx|vs|l|m|vt vi vs] eqn:Ecu; rewrite ?canon_obj, ?canon_arr; try (split; [reflexivity|constructor]).
      + destruct lr; [|split; [reflexivity|constructor]]. apply (IHn Hnx root cu Hr). rewrite Ecu. exact Hcu.
      + destruct mr; [|split; [reflexivity|constructor]]. apply (IHn Hnx root cu Hr). rewrite Ecu. exact Hcu.
    - destruct (snd cur) as [|vb|vx|vs vx|vs|l|m|vt vi vs] eqn:E; rewrite ?canon_obj, ?canon_arr; try (split; [reflexivity|constructor]).
      rewrite map_length. apply two_flat_map. intros sub _.
      destruct (get_indexes sub _); [|split; [reflexivity|constructor]]. apply two_flat_map. intros i _.
      rewrite nth_value_canon. destruct (nth_value l i) as [v|] eqn:En; cbn [option_map]; [|split; [reflexivity|constructor]].
      apply (sidx_p b next root cur (i, v) IHn Hnx Hr). cbn [snd]. eapply nd_arr_in; [exact Hc|eapply nth_value_in; exact En].
    - (* filter *)
      destruct (snd cur) as [|vb|vx|vs vx|vs|l|m|vt vi vs] eqn:E; rewrite ?canon_obj, ?canon_arr; try (split; [reflexivity|constructor]); cbv zeta.
      + rewrite (IHk Hk root l Hr (nd_arr_forall l Hc)).
        rewrite index_list_canon.
        assert (Hcomb : combine (map (fun iv : Z * value => (fst iv, canon (snd iv))) (index_list l 0)) (holds q root l)
                      = map (fun ib : (Z * value) * bool => ((fst (fst ib), canon (snd (fst ib))), snd ib)) (combine (index_list l 0) (holds q root l))).
        { generalize (holds q root l). generalize (index_list l 0). clear.
          intros xs. induction xs as [|a xs IH]; intros [|h hs]; cbn; try reflexivity. rewrite IH. reflexivity. }
        rewrite Hcomb, flat_map_map. apply two_flat_map. intros [iv hb] Hin. cbn [fst snd].
        destruct hb; [|split; [reflexivity|constructor]].
        destruct iv as [i v]. apply (sidx_p b next root cur (i, v) IHn Hnx Hr). apply in_combine_l in Hin. cbn [snd].
        eapply nd_arr_in; [exact Hc|]. apply (nth_value_in l i v). apply (index_list_step l i v Hin).
      + rewrite sorted_keys_cmembers.
        set (keys := sorted_keys m).
        assert (Hvals : flat_map (fun k => match lookup (cmembers m) k with Some v => [v] | None => [] end) keys
                      = map canon (flat_map (fun k => match lookup m k with Some v => [v] | None => [] end) keys)).
        { induction keys as [|k ks IHks]; cbn [flat_map map]; [reflexivity|]. rewrite lookup_cmembers, IHks, map_app.
          destruct (lookup m k); reflexivity. }
        rewrite Hvals. rewrite (IHk Hk root _ Hr).
        * apply two_flat_map. intros [key hb] _. cbn [fst snd]. destruct hb; [|split; [reflexivity|constructor]].
          apply (skey_p b next root cur m key IHn Hnx Hr). exact Hc.
        * clear Hvals. induction keys as [|k ks IHks]; cbn [flat_map]; [constructor|]. apply Forall_app. split; [|exact IHks].
          destruct (lookup m k) as [v|] eqn:El; [|constructor]. constructor; [eapply nd_obj_lookup; eassumption|constructor].
  Qed.

  Lemma operand_nd_cur n root vals : P_node n -> fun_free n = true -> nd_doc root -> Forall nd_doc vals ->
    map (fun v => match sp n (canon root) (None, v) with x :: _ => Some (res_value (Spec.wrap x)) | [] => None end) (map canon vals)
    = map ce (map (fun v => match sp n root (None, v) with x :: _ => Some (res_value (Spec.wrap x)) | [] => None end) vals)
    /\ Forall endoc (map (fun v => match sp n root (None, v) with x :: _ => Some (res_value (Spec.wrap x)) | [] => None end) vals).
  Proof.
    intros IH Hff Hr Hv. induction Hv as [|v vs Hv0 Hvs IHvs]; cbn [map]; [split; [reflexivity|constructor]|].
    destruct IHvs as [I1 I2]. destruct (IH Hff root (None, v) Hr Hv0) as [A1 A2].
    unfold cc in A1. cbn [fst snd] in A1. rewrite A1, I1.
    destruct (sp n root (None, v)) as [|x xs]; cbn [map].
    - split; [reflexivity|constructor; [exact I|exact I2]].
    - rewrite rv_cres. split; [reflexivity|]. constructor; [|exact I2]. cbn [endoc]. apply rv_nd. inversion A2; assumption.
  Qed.

  Theorem perm_sim :
    (forall n, P_node n) /\ (forall o, P_onode o) /\ (forall k, P_kind k) /\ (forall ns, P_nodes ns) /\
    (forall q, P_query q) /\ (forall cp, P_cparam cp) /\ (forall p, P_pquery p).
  Proof.
    apply tree_mutind; try (intros; exact I).
    - intros k IHk b next IHn. apply node_perm; assumption.
    - intros n IH. exact IH.
    - intros ids IHids aw uq IHuq. split; assumption.
    - intros q IH. exact IH.
    - intros _ root cur _ _. split; [reflexivity|constructor].
    - intros id IHid rest IHrest Hff root cur Hr Hc.
      cbn [fun_free_ids] in Hff. apply andb_true_iff in Hff. destruct Hff as [H1 H2].
      change (sp_ids (NCons id rest) (canon root) (cc cur)) with (sp id (canon root) (cc cur) ++ sp_ids rest (canon root) (cc cur)).
      change (sp_ids (NCons id rest) root cur) with (sp id root cur ++ sp_ids rest root cur).
      destruct (IHid H1 root cur Hr Hc) as [A1 A2]. destruct (IHrest H2 root cur Hr Hc) as [B1 B2].
      rewrite A1, B1, map_app. split; [reflexivity|apply Forall_app; split; assumption].
    - intros a IHa b IHb Hff root vals Hr Hv. cbn [fun_free_q] in Hff. apply andb_true_iff in Hff. destruct Hff as [H1 H2].
      change (holds (QAnd a b) (canon root) (map canon vals)) with (andb_lists (holds a (canon root) (map canon vals)) (holds b (canon root) (map canon vals))).
      rewrite (IHa H1 root vals Hr Hv), (IHb H2 root vals Hr Hv). reflexivity.
    - intros a IHa b IHb Hff root vals Hr Hv. cbn [fun_free_q] in Hff. apply andb_true_iff in Hff. destruct Hff as [H1 H2].
      change (holds (QOr a b) (canon root) (map canon vals)) with (orb_lists (holds a (canon root) (map canon vals)) (holds b (canon root) (map canon vals))).
      rewrite (IHa H1 root vals Hr Hv), (IHb H2 root vals Hr Hv). reflexivity.
    - intros a IHa Hff root vals Hr Hv. cbn [fun_free_q] in Hff.
      change (holds (QNot a) (canon root) (map canon vals)) with (map negb (holds a (canon root) (map canon vals))).
      rewrite (IHa Hff root vals Hr Hv). reflexivity.
    - intros [lp ll] IHl [rp rl] IHr c Hff root vals Hr Hv. cbn [fun_free_q] in Hff.
      apply andb_true_iff in Hff. destruct Hff as [Hff H3]. apply andb_true_iff in Hff. destruct Hff as [H1 H2].
      change (holds (QCmp (CP lp ll) (CP rp rl) c) (canon root) (map canon vals)) with
        (cmp_holds regex_match c (List.length (map canon vals)) (operand lp (canon root) (map canon vals)) (hd None (operand rp (canon root) (map canon vals)))).
      change (holds (QCmp (CP lp ll) (CP rp rl) c) root vals) with
        (cmp_holds regex_match c (List.length vals) (operand lp root vals) (hd None (operand rp root vals))).
      destruct (IHl H1 root vals Hr Hv) as [L1 L2]. destruct (IHr H2 root vals Hr Hv) as [R1 R2].
      rewrite L1, R1, map_length.
      assert (Hhd : hd None (map ce (operand rp root vals)) = ce (hd None (operand rp root vals))).
      { destruct (operand rp root vals); reflexivity. }
      rewrite Hhd.
      assert (Hre : endoc (hd None (operand rp root vals))).
      { destruct (operand rp root vals) as [|x xs]; [exact I|]. inversion R2; assumption. }
      apply cmp_holds_canon; assumption.
    - intros p IH Hff root vals Hr Hv. cbn [fun_free_q] in Hff.
      change (holds (QParam p) (canon root) (map canon vals)) with
        (let es := operand p (canon root) (map canon vals) in
         if Nat.eqb (List.length es) (List.length (map canon vals)) then map (fun x => negb (isE x)) es
         else repeat (negb (isE (hd None es))) (List.length (map canon vals))).
      change (holds (QParam p) root vals) with
        (let es := operand p root vals in
         if Nat.eqb (List.length es) (List.length vals) then map (fun x => negb (isE x)) es
         else repeat (negb (isE (hd None es))) (List.length vals)).
      destruct (IH Hff root vals Hr Hv) as [P1 _]. cbv zeta. rewrite P1, !map_length, map_map.
      assert (Hi : forall x, negb (isE (ce x)) = negb (isE x)) by (intros [v|]; reflexivity).
      destruct (Nat.eqb (List.length (operand p root vals)) (List.length vals)).
      + apply map_ext. intros x. apply Hi.
      + f_equal. destruct (operand p root vals) as [|x xs]; [reflexivity|]. cbn [map hd]. apply Hi.
    - intros p IH lit. exact IH.
    - intros v Hff root vals _ _.
      change (operand (PqLit v) (canon root) (map canon vals)) with [Some v].
      change (operand (PqLit v) root vals) with [Some v].
      cbn [fun_free_p] in Hff. destruct v; try discriminate; (split; [reflexivity|constructor; [exact I|constructor]]).
    - intros n IH Hff root vals Hr Hv. cbn [fun_free_p] in Hff.
      change (operand (PqCur n) (canon root) (map canon vals)) with
        (let es := map (fun v => match sp n (canon root) (None, v) with x :: _ => Some (res_value (Spec.wrap x)) | [] => None end) (map canon vals) in
         if existsb (fun x => negb (isE x)) es then es else [None]).
      change (operand (PqCur n) root vals) with
        (let es := map (fun v => match sp n root (None, v) with x :: _ => Some (res_value (Spec.wrap x)) | [] => None end) vals in
         if existsb (fun x => negb (isE x)) es then es else [None]).
      destruct (operand_nd_cur n root vals IH Hff Hr Hv) as [O1 O2]. cbv zeta. rewrite O1.
      set (es := map (fun v => match sp n root (None, v) with x :: _ => Some (res_value (Spec.wrap x)) | [] => None end) vals) in *.
      assert (He : existsb (fun x => negb (isE x)) (map ce es) = existsb (fun x => negb (isE x)) es).
      { clear. induction es as [|x es IH]; cbn [map existsb]; [reflexivity|]. rewrite IH. destruct x; reflexivity. }
      rewrite He. destruct (existsb (fun x => negb (isE x)) es); [split; [reflexivity|exact O2]|].
      split; [reflexivity|constructor; [exact I|constructor]].
    - intros n IH Hff root vals Hr Hv. cbn [fun_free_p] in Hff.
      change (operand (PqRoot n) (canon root) (map canon vals)) with
        (match sp n (canon root) (Some [], canon root) with
         | [] => [None] | [x] => [Some (res_value (Spec.wrap x))] | _ => [Some (VBool true)] end).
      change (operand (PqRoot n) root vals) with
        (match sp n root (Some [], root) with
         | [] => [None] | [x] => [Some (res_value (Spec.wrap x))] | _ => [Some (VBool true)] end).
      destruct (IH Hff root (Some [], root) Hr Hr) as [A1 A2]. unfold cc in A1. cbn [fst snd] in A1. unfold loc in A1. rewrite A1.
      destruct (sp n root (Some [], root)) as [|x [|y l]]; cbn [map].
      + split; [reflexivity|constructor; [exact I|constructor]].
      + rewrite rv_cres. split; [reflexivity|]. constructor; [|constructor]. cbn [endoc]. apply rv_nd. inversion A2; assumption.
      + split; [reflexivity|constructor; [exact I|constructor]].
  Qed.

  (* a function-free path selects the same cursors, in the same order, on a document and on its canonical form *)
  Theorem path_canon_invariant t doc : fun_free t = true -> nd_doc doc ->
    sp t (canon doc) (Some [], canon doc) = map cres (sp t doc (Some [], doc)).
  Proof. intros H Hd. exact (proj1 (proj1 perm_sim t H doc (Some [], doc) Hd Hd)). Qed.

  (* two documents with the same canonical form — the same JSON value whatever the order in which its objects
     were built — give the same sequence of results, up to the canonical form of the values *)
  Theorem order_independent t d1 d2 : fun_free t = true -> nd_doc d1 -> nd_doc d2 -> canon d1 = canon d2 ->
    map cres (sp t d1 (Some [], d1)) = map cres (sp t d2 (Some [], d2)).
  Proof.
    intros Hf H1 H2 He. rewrite <- (path_canon_invariant t d1 Hf H1), <- (path_canon_invariant t d2 Hf H2), He. reflexivity.
  Qed.
End Sim.

(* ---------- "the same document, built in another order" ---------- *)
Fixpoint same_doc (a b : value) {struct a} : Prop :=
  match a, b with
  | VArr l, VArr l' =>
      (fix go (l l' : list value) : Prop :=
         match l, l' with
         | [], [] => True
         | x :: r, y :: r' => same_doc x y /\ go r r'
         | _, _ => False
         end) l l'
  | VObj m, VObj m' =>
      Permutation (map fst m) (map fst m') /\
      (fix go (a : list (string * value)) : Prop :=
         match a with
         | [] => True
         | (k, x) :: r => match lookup m' k with Some y => same_doc x y | None => False end /\ go r
         end) m
  | VArr _, _ | VObj _, _ => False
  | x, y => x = y
  end.

Lemma notin_lookup_none m k : ~ In k (map fst m) -> lookup m k = None.
Proof.
  induction m as [|[k' a] m IH]; cbn [map fst lookup]; intros H; [reflexivity|].
  destruct (String.eqb k k') eqn:E; [apply String.eqb_eq in E; subst; contradiction H; left; reflexivity|].
  apply IH. intros Hin. apply H. right. exact Hin.
Qed.

Lemma cmembers_tabulate m :
  cmembers m = flat_map (fun k => match option_map canon (lookup m k) with Some v => [(k, v)] | None => [] end) (sorted_keys m).
Proof.
  unfold cmembers, members_obj.
  assert (Hsk : sorted_keys (map (fun kv => (fst kv, canon (snd kv))) m) = sorted_keys m) by (unfold sorted_keys; rewrite map_map; reflexivity).
  rewrite Hsk. apply flat_map_ext. intros k. rewrite lookup_map_canon. reflexivity.
Qed.

Theorem same_doc_canon : forall a b, nd_doc a -> same_doc a b -> canon a = canon b.
Proof.
  induction a as [|bb|x|s x|s|xs IH|m IH|t i s] using value_ind_strong; intros b Ha Hs;
    try (destruct b; cbn [same_doc] in Hs; try contradiction; inversion Hs; subst; reflexivity).
  - destruct b as [| | | | |l'| |]; cbn [same_doc] in Hs; try contradiction.
    rewrite !canon_arr. f_equal. apply nd_arr_forall in Ha.
    revert l' Hs. induction xs as [|x xs IHxs]; intros [|y l'] Hs; try contradiction; [reflexivity|].
    destruct Hs as [Hxy Hrest]. inversion IH as [|? ? Hx Hxs]; subst. inversion Ha as [|? ? Hax Haxs]; subst.
    cbn [map]. f_equal; [apply Hx; assumption|apply IHxs; assumption].
  - destruct b as [| | | | | |m'|]; cbn [same_doc] in Hs; try contradiction.
    destruct Hs as [Hperm Hgo]. rewrite !canon_obj. f_equal. rewrite !cmembers_tabulate.
    assert (Hsk : sorted_keys m = sorted_keys m') by (unfold sorted_keys; apply sort_keys_perm_invariant; exact Hperm).
    rewrite <- Hsk. apply flat_map_ext. intros k.
    assert (Hall : forall kx, In kx m -> match lookup m' (fst kx) with Some y => same_doc (snd kx) y | None => False end).
    { clear -Hgo. induction m as [|[k0 x0] m IHm]; intros kx Hin; [contradiction|]. destruct Hgo as [H0 Hr].
      destruct Hin as [<-|Hin]; [exact H0|apply IHm; assumption]. }
    destruct (lookup m k) as [x|] eqn:El.
    + pose proof (lookup_some_in m k x El) as Hin. specialize (Hall (k, x) Hin). cbn [fst snd] in Hall.
      destruct (lookup m' k) as [y|]; [|contradiction]. cbn [option_map].
      rewrite Forall_forall in IH. pose proof (IH (k, x) Hin y (nd_obj_members m Ha (k, x) Hin) Hall) as Hxy. cbn [snd] in Hxy. rewrite Hxy. reflexivity.
    + assert (Hn : lookup m' k = None).
      { apply notin_lookup_none. intros Hin. apply (lookup_none_notin m k El).
        eapply Permutation_in; [apply Permutation_sym; exact Hperm|exact Hin]. }
      rewrite Hn. reflexivity.
Qed.
