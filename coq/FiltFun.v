(* FiltFun.v — a path of steps and filters followed by registered filter functions: `$` steps-and-filters `.f().g()`.
   The PEG derivation is that of FiltChain with the function calls as the tail of the step repetition (FunParse), the tree is
   the chain of the steps' nodes followed by the functions' nodes, and retrieval applies the functions, in the written
   order, to every value the steps and filters reach, in the order they reach them (C14 / C01 for filtered paths). *)
From JP Require Import Peg Grammar Slice Text Tree Actions Json Eval WF Spec SortFacts EvalInv1 EvalInv4 EvalTop EndToEnd Codec PegFacts PegMono PegEv FuelRules ParseFacts KeyDefs KeyParse IdxParse SliceParse UnionParse WildParse RecParse ChainParse SpacePath FunParse AggParse Frame FiltParse CmpParse CmpSpace NegFilt LitParse RootOp RegexOp LitLeft QueryParse FiltSpace QuerySpace QueryTree FiltChain ChainAddr FunAddr AggAddr FiltAddr CmpAddr QueryAddr FiltChainAddr.
From Coq Require Import Lia.
Local Open Scope N_scope.
Open Scope list_scope.

Definition fchain_fun_tokens (l : list fstep) (fs : list (list N)) : list token :=
  TAct 8 :: fsteps_tokens 1 l ++ funs_tokens (1 + List.length (render_fsteps l)) fs ++ [TAct 2; TAct 0].

Lemma ev_fchain_fun_path l fs : forallb fstep_ok l = true -> forallb fname_ok fs = true ->
  evG (PRef 0) (fchain_fun_path l fs) 0
      (POk [] (1 + List.length (render_fsteps l) + List.length (render_funs fs)) (fchain_fun_tokens l fs)).
Proof.
  intros Hs Hf. unfold fchain_fun_path, fchain_path, fchain_fun_tokens. cbn [app]. eapply ev_conv.
  - eapply ev_ref; [reflexivity|]. apply ev_alt_l.
    eapply ev_seq_ok; [| |reflexivity].
    + eapply ev_ref; [reflexivity|].
      eapply ev_seq_ok; [apply ev_space_stop; discriminate| |reflexivity].
      eapply ev_seq_ok; [| |reflexivity].
      * eapply ev_ref; [reflexivity|]. apply ev_alt_l. eapply ev_ref; [reflexivity|].
        eapply ev_seq_ok; [apply (ev_lit_ok G [36]); apply strip1_ok|apply ev_act|reflexivity].
      * eapply ev_ref; [reflexivity|].
        eapply ev_seq_ok; [apply (ev_fsteps_star l (render_funs fs) _ Hs (funs_stop fs) (funs_rule7_fail fs Hf))| |reflexivity].
        eapply ev_seq_ok; [apply (ev_funs_star fs _ Hf)| |reflexivity].
        eapply ev_seq_ok; [apply ev_space_eof|apply ev_act|reflexivity].
    + eapply ev_seq_ok; [| apply ev_act |reflexivity].
      eapply ev_ref; [reflexivity|]. apply ev_not_ok. apply ev_any_fail.
  - cbn [List.length app Nat.add]. rewrite <- !app_assoc. cbn [app]. f_equal.
Qed.
Lemma peg_fchain_fun_path l fs : forallb fstep_ok l = true -> forallb fname_ok fs = true ->
  peg_parse G (fchain_fun_path l fs) = POk [] (1 + List.length (render_fsteps l) + List.length (render_funs fs)) (fchain_fun_tokens l fs).
Proof. intros Hs Hf. apply ev_peg_parse; [apply ev_fchain_fun_path; assumption|apply peg_never_out_of_fuel]. Qed.

Section FiltFunExec.
  Variable cfg : config.
  Variable parse_float : string -> option num.
  Variable regex_ok : string -> bool.
  Notation execute := (execute cfg parse_float regex_ok).
  Notation exec_action := (exec_action cfg parse_float regex_ok).
  Notation plainl := (Forall (fun kb : kind * basic => plain_kind (fst kb))).
  Notation fpres_f := (FiltChain.fpres cfg parse_float).
  Notation fpres_u := (FunParse.fpres cfg).

  Definition fchain_fun_node (l : list fstep) (fs : list (list N)) : node := node_of (fpres_f l ++ fpres_u fs).

  Theorem parse_fchain_fun_path s r fs : forallb fstep_ok (s :: r) = true -> forallb (fstep_okp parse_float regex_ok) (s :: r) = true ->
    forallb fname_ok fs = true -> forallb (fun_known cfg) fs = true ->
    parse_with cfg parse_float regex_ok G (fchain_fun_path (s :: r) fs) = ParseOk (fchain_fun_node (s :: r) fs).
  Proof.
    intros Hs Hokp Hf Hk. unfold parse_with, parse_from. rewrite (peg_fchain_fun_path (s :: r) fs Hs Hf). unfold fchain_fun_tokens.
    cbn [Actions.execute].
    change (exec_action 8 [] 0 ps_init) with (AOk (mk [INode (Node KRoot (root_basic cfg) ONone)])). cbn [abind].
    assert (Hsk : skipn 1 (fchain_fun_path (s :: r) fs) = render_fsteps (s :: r) ++ render_funs fs) by reflexivity.
    destruct (exec_fsteps_tail cfg parse_float regex_ok (fchain_fun_path (s :: r) fs) (s :: r) (render_funs fs) 1 [INode (Node KRoot (root_basic cfg) ONone)]
                (funs_tokens (1 + List.length (render_fsteps (s :: r))) fs ++ [TAct 2; TAct 0]) [] 0 Hs Hokp Hsk) as (c1 & b1 & E).
    rewrite E. clear E.
    assert (Hsk2 : skipn (1 + List.length (render_fsteps (s :: r))) (fchain_fun_path (s :: r) fs) = render_funs fs).
    { rewrite skipn_add. cbn [skipn]. unfold fchain_fun_path, fchain_path. cbn [app skipn]. rewrite skipn_app, skipn_all, Nat.sub_diag. reflexivity. }
    destruct (exec_funs cfg parse_float regex_ok (fchain_fun_path (s :: r) fs) fs _ ([INode (Node KRoot (root_basic cfg) ONone)] ++ map (fun x => INode (fnode_of cfg parse_float x)) (s :: r))
                [TAct 2; TAct 0] c1 b1 Hk Hsk2) as (cps' & b' & E).
    rewrite E. clear E. cbn [app Actions.execute].
    change (exec_action 2 cps' b' ?st) with (abind (set_node_chain st) update_root_vg).
    unfold set_node_chain, mk. cbn [params map app].
    change (INode (fnode_of cfg parse_float s) :: map (fun x => INode (fnode_of cfg parse_float x)) r ++ map (fun f : list N => INode (fnode cfg f)) fs)
      with (map (fun x => INode (fnode_of cfg parse_float x)) (s :: r) ++ map (fun f : list N => INode (fnode cfg f)) fs).
    rewrite fold_left_app.
    pose proof (chain_fold_f cfg parse_float KRoot (root_basic cfg) (s :: r) ltac:(split; intros; discriminate) [] ltac:(constructor)) as F. cbn [link app] in F. rewrite F. clear F.
    rewrite (chain_fold_funs cfg KRoot (root_basic cfg) fs ltac:(split; intros; discriminate) _ (fpres_plain cfg parse_float (s :: r))).
    cbn [abind with_params params saved proot]. unfold update_root_vg. cbn [params with_params saved proot abind].
    unfold with_params. cbn [params saved proot].
    change (exec_action 0 cps' b' ?st) with
      (abind (pop_node st) (fun '(rt, st1) => AOk {| params := params st1; saved := saved st1; proot := Some (set_ctext_deep (delete_root rt) "") |})).
    unfold pop_node, pop. cbn [params rev app abind with_params saved proot].
    unfold fchain_fun_node, node_of.
    assert (Hp : plainl (fpres_f (s :: r) ++ fpres_u fs)) by (apply Forall_app; split; [apply FiltChain.fpres_plain|apply FunParse.fpres_plain]).
    destruct (fpres_f (s :: r) ++ fpres_u fs) as [|x l] eqn:Ep.
    { exfalso. unfold FiltChain.fpres in Ep. cbn [flat_map] in Ep. pose proof (fpre_nonempty cfg parse_float s) as Hn.
      destruct (fpre_of cfg parse_float s); [contradiction Hn; reflexivity|discriminate Ep]. }
    inversion Hp as [|? ? Hx Hl]; subst.
    assert (Ev : delete_root (update_vg (Node KRoot (root_basic cfg) (link (x :: l)))) = Node (fst x) (set_vgroup (any_vg (x :: l)) (snd x)) (link l)).
    { unfold update_vg. cbn [chain_vg]. rewrite link_vg. cbn [root_basic mk_basic vgroup orb].
      destruct (any_vg (x :: l)) eqn:Ea.
      - reflexivity.
      - cbn [link delete_root vgroup]. cbn [any_vg existsb] in Ea. apply orb_false_iff in Ea. destruct Ea as [Ea _].
        rewrite <- Ea at 1. rewrite set_vgroup_same. reflexivity. }
    rewrite Ev. rewrite (set_ctext_link _ _ l Hx Hl). reflexivity.
  Qed.
End FiltFunExec.

Section FiltFunAddr.
  Variable cfg : config.
  Variable parse_float : string -> option num.
  Variable regex_ok : string -> bool.
  Variable ffun : string -> value -> option value.
  Variable afun : string -> list value -> option value.
  Variable regex_match : string -> string -> bool.
  Hypothesis ffun_small : forall f v w, small v -> ffun f v = Some w -> small w.
  Hypothesis afun_small : forall f l w, Forall small l -> afun f l = Some w -> small w.
  Notation parse := (parse_with cfg parse_float regex_ok jsonpath_grammar).
  Notation eval_run := (eval_run ffun afun regex_match).
  Notation sp := (sp ffun afun regex_match).
  Notation nav1f := (nav1f parse_float regex_match).
  Notation nav_allf := (nav_allf parse_float regex_match).
  Notation fpres_f := (FiltChain.fpres cfg parse_float).
  Notation fpres_u := (FunParse.fpres cfg).
  Notation fseg := (fseg cfg parse_float).

  (* the steps and filters, then whatever follows them *)
  Lemma sp_fchain_tail tl : tl <> [] -> forall r x b1 b2, forallb fstep_ok (x :: r) = true ->
    forall root p v, small root -> small v ->
      sp (fseg x b1 b2 (fin (fpres_f r ++ tl))) root (Some p, v) =
      flat_map (fun lv => match fin tl with OSome nx => sp nx root (Some (fst lv), snd lv) | ONone => [] end) (nav_allf root (x :: r) (p, v)).
  Proof.
    intros Htl. induction r as [|y r IH]; intros x b1 b2 Hs root p v Hr Hsm; cbn [forallb] in Hs; apply andb_true_iff in Hs; destruct Hs as [H1 H2].
    - change (fpres_f [] ++ tl) with tl. rewrite (sp_fseg cfg parse_float ffun afun regex_match) by assumption.
      cbn [FiltChainAddr.nav_allf]. rewrite flat_map_flat_map. apply flat_map_ext'. intros lv. cbn [flat_map]. rewrite app_nil_r. unfold ChainAddr.fwd.
      destruct tl as [|t0 tl']; [contradiction Htl; reflexivity|]. reflexivity.
    - assert (Hy : fstep_ok y = true) by (cbn [forallb] in H2; apply andb_true_iff in H2; exact (proj1 H2)).
      assert (Ea : fpres_f (y :: r) ++ tl = fpre_of cfg parse_float y ++ (fpres_f r ++ tl)) by (unfold FiltChain.fpres; cbn [flat_map]; rewrite <- app_assoc; reflexivity).
      destruct (fin_fpre cfg parse_float y (fpres_f r ++ tl) Hy) as (c1 & c2 & Ef & Hc).
      rewrite Ea, Ef, (sp_fseg cfg parse_float ffun afun regex_match) by assumption.
      cbn [FiltChainAddr.nav_allf]. rewrite flat_map_flat_map. apply flat_map_ext_in'. intros [l z] Hin. unfold ChainAddr.fwd. cbn [fst snd]. apply IH; [exact H2|exact Hr|].
      pose proof (nav1f_small parse_float regex_match root x p v Hsm) as Hn. rewrite Forall_forall in Hn. exact (Hn (l, z) Hin).
  Qed.

  Lemma fnode_of_seg x r tl : fstep_ok x = true ->
    exists b1 b2, node_of (fpres_f (x :: r) ++ tl) = fseg x b1 b2 (fin (fpres_f r ++ tl)) /\ accessor b2 = cfg_accessor cfg.
  Proof.
    intros Hok. unfold FiltChain.fpres. cbn [flat_map]. rewrite <- app_assoc.
    destruct x as [[s|s]|i|i o lit|i|d|y|i g0 a o b g1 lit|neg g0 gn i g1|g0' d'|t']; cbn [fpre_of rstep_pre app node_of fin fst snd FiltChainAddr.fseg ChainAddr.seg].
    - eexists (pre_basic cfg s), _. split; reflexivity.
    - eexists _, _. split; [reflexivity|]. destruct s as [q k|k|ds|[|]|sa sb sc|u us]; reflexivity.
    - eexists (filt_basic cfg i), _. split; reflexivity.
    - eexists (filt_basic cfg i), _. split; reflexivity.
    - eexists (filt_basic cfg i), _. split; reflexivity.
    - eexists (fq_basic cfg d), _. split; reflexivity.
    - cbn [fstep_ok] in Hok. apply andb_true_iff in Hok. destruct Hok as [Hf _].
      destruct y as [y0|i|i o lit|i|d|y0|i g0 a o b g1 lit|neg g0 gn i g1|g0' d'|t']; try discriminate Hf; cbn [fpre_of app fin fst snd FiltChainAddr.fseg]; eexists _, _; (split; reflexivity).
    - eexists (filt_basic cfg i), _. split; reflexivity.
    - eexists (filt_basic cfg i), _. split; reflexivity.
    - eexists (filt_basic cfg []), _. split; reflexivity.
    - eexists (filt_basic cfg []), _. split; reflexivity.
  Qed.

  Lemma spec_fchain_funs x r f fs doc : forallb fstep_ok (x :: r) = true -> small doc ->
    spec_results ffun afun regex_match (fchain_fun_node cfg parse_float (x :: r) (f :: fs)) doc =
    funs_all cfg ffun (f :: fs) (nav_allf doc (x :: r) ([], doc)).
  Proof.
    intros Hs Hsm. unfold fchain_fun_node.
    assert (Hx : fstep_ok x = true) by (cbn [forallb] in Hs; apply andb_true_iff in Hs; exact (proj1 Hs)).
    destruct (fnode_of_seg x r (fpres_u (f :: fs)) Hx) as (b1 & b2 & En & Hb).
    unfold spec_results. rewrite En, (sp_fchain_tail (fpres_u (f :: fs)) ltac:(discriminate) r x b1 b2 Hs) by exact Hsm.
    destruct (fin_fpres cfg f fs) as (c & Ef & Hc). destruct (sp_funs cfg ffun afun regex_match fs f c Hc) as (B & HB & Hsp).
    unfold funs_all. rewrite map_flat_map'. apply flat_map_ext'. intros [l z]. rewrite Ef, Hsp. cbn [fst snd].
    destruct (apply_funs ffun (f :: fs) z) as [w|]; [|reflexivity]. cbn [map wrap fst snd]. rewrite HB. unfold fun_result. destruct (cfg_accessor cfg); reflexivity.
  Qed.

  (* a path of steps and filters followed by registered filter functions returns the functions applied, in the written order,
     to each value the steps and filters reach, in the order they reach them; it fails exactly when nothing is left *)
  Theorem fchain_fun_retrieval x r f fs doc st : forallb fstep_ok (x :: r) = true -> forallb (fstep_okp parse_float regex_ok) (x :: r) = true ->
    forallb fname_ok (f :: fs) = true -> forallb (fun_known cfg) (f :: fs) = true -> small doc -> ok st ->
    exists t, parse (fchain_fun_path (x :: r) (f :: fs)) = ParseOk t /\
              match funs_all cfg ffun (f :: fs) (nav_allf doc (x :: r) ([], doc)) with
              | [] => exists e, fst (eval_run t doc st) = OErr e
              | l => fst (eval_run t doc st) = OOk l
              end.
  Proof.
    intros Hs Hokp Hf Hk Hd Hok. exists (fchain_fun_node cfg parse_float (x :: r) (f :: fs)).
    pose proof (parse_fchain_fun_path cfg parse_float regex_ok x r (f :: fs) Hs Hokp Hf Hk) as Hp. split; [exact Hp|].
    pose proof (retrieve_end_to_end cfg parse_float regex_ok ffun afun regex_match ffun_small afun_small (fchain_fun_path (x :: r) (f :: fs)) doc st Hd Hok) as H.
    rewrite Hp in H. rewrite (spec_fchain_funs x r f fs doc Hs Hd) in H.
    destruct (funs_all cfg ffun (f :: fs) (nav_allf doc (x :: r) ([], doc))) as [|a l] eqn:En.
    - destruct (fst (eval_run (fchain_fun_node cfg parse_float (x :: r) (f :: fs)) doc st)) as [rs|e|pn].
      + destruct H as [H1 [H2 _]]. contradiction (H2 H1).
      + exists e. reflexivity.
      + contradiction.
    - destruct (fst (eval_run (fchain_fun_node cfg parse_float (x :: r) (f :: fs)) doc st)) as [rs|e|pn].
      + destruct H as [H _]. rewrite H. reflexivity.
      + destruct H as [H _]. discriminate.
      + contradiction.
  Qed.
End FiltFunAddr.
