(* FiltFun.v — a path of steps and filters followed by registered filter functions: `$` steps-and-filters `.f().g()`.
   The PEG derivation is that of FiltChain with the function calls as the tail of the step repetition (FunParse), the tree is
   the chain of the steps' nodes followed by the functions' nodes, and retrieval applies the functions, in the written
   order, to every value the steps and filters reach, in the order they reach them (C14 / C01 for filtered paths). *)
From JP Require Import Peg Grammar Slice Text Tree Actions Json Eval WF Spec SortFacts EvalInv1 EvalInv4 EvalTop EndToEnd Codec PegFacts PegMono PegEv FuelRules ParseFacts KeyDefs KeyParse IdxParse SliceParse UnionParse WildParse RecParse ChainParse SpacePath FunParse AggParse Frame FiltParse CmpParse CmpSpace NegFilt LitParse RootOp RegexOp LitLeft QueryParse FiltSpace QuerySpace QueryTree FiltChain ChainAddr FunAddr AggAddr FiltAddr CmpAddr QueryAddr FiltChainAddr.
From Coq Require Import Lia.
Local Open Scope N_scope.
Open Scope list_scope.

Definition fchain_fun_tokens (l : list fstep) (fs : list (list N)) : list token :=
  TAct 8 :: fsteps_tokens 1 l ++ funs_tokens (1 + List.length (render_fsteps l)) fs ++ [TAct 2; TAct 0].

Lemma ev_fchain_fun_path l fs : forallb fstep_ok l = true -> forallb fname_ok fs = true ->
  evG (PRef 0) (fchain_fun_path l fs) 0
      (POk [] (1 + List.length (render_fsteps l) + List.length (render_funs fs)) (fchain_fun_tokens l fs)).
Proof.
  intros Hs Hf. unfold fchain_fun_path, fchain_path, fchain_fun_tokens. cbn [app]. eapply ev_conv.
  - eapply ev_ref; [reflexivity|]. apply ev_alt_l.
    eapply ev_seq_ok; [| |reflexivity].
    + eapply ev_ref; [reflexivity|].
      eapply ev_seq_ok; [apply ev_space_stop; discriminate| |reflexivity].
      eapply ev_seq_ok; [| |reflexivity].
      * eapply ev_ref; [reflexivity|]. apply ev_alt_l. eapply ev_ref; [reflexivity|].
        eapply ev_seq_ok; [apply (ev_lit_ok G [36]); apply strip1_ok|apply ev_act|reflexivity].
      * eapply ev_ref; [reflexivity|].
        eapply ev_seq_ok; [apply (ev_fsteps_star l (render_funs fs) _ Hs (funs_stop fs) (funs_rule7_fail fs Hf))| |reflexivity].
        eapply ev_seq_ok; [apply (ev_funs_star fs _ Hf)| |reflexivity].
        eapply ev_seq_ok; [apply ev_space_eof|apply ev_act|reflexivity].
    + eapply ev_seq_ok; [| apply ev_act |reflexivity].
      eapply ev_ref; [reflexivity|]. apply ev_not_ok. apply ev_any_fail.
  - cbn [List.length app Nat.add]. rewrite <- !app_assoc. cbn [app]. f_equal.
Qed.
Lemma peg_fchain_fun_path l fs : forallb fstep_ok l = true -> forallb fname_ok fs = true ->
  peg_parse G (fchain_fun_path l fs) = POk [] (1 + List.length (render_fsteps l) + List.length (render_funs fs)) (fchain_fun_tokens l fs).
Proof. intros Hs Hf. apply ev_peg_parse; [apply ev_fchain_fun_path; assumption|apply peg_never_out_of_fuel]. Qed.

Section FiltFunExec.
  Variable cfg : config.
  Variable parse_float : string -> option num.
  Variable regex_ok : string -> bool.
  Notation execute := (execute cfg parse_float regex_ok).
  Notation exec_action := (exec_action cfg parse_float regex_ok).
  Notation plainl := (Forall (fun kb : kind * basic => plain_kind (fst kb))).
  Notation fpres_f := (FiltChain.fpres cfg parse_float).
  Notation fpres_u := (FunParse.fpres cfg).

  Definition fchain_fun_node (l : list fstep) (fs : list (list N)) : node := node_of (fpres_f l ++ fpres_u fs).

  Theorem parse_fchain_fun_path s r fs : forallb fstep_ok (s :: r) = true -> forallb (fstep_okp parse_float regex_ok) (s :: r) = true ->
    forallb fname_ok fs = true -> forallb (fun_known cfg) fs = true ->
    parse_with cfg parse_float regex_ok G (fchain_fun_path (s :: r) fs) = ParseOk (fchain_fun_node (s :: r) fs).
  Proof.
    intros Hs Hokp Hf Hk. unfold parse_with, parse_from. rewrite (peg_fchain_fun_path (s :: r) fs Hs Hf). unfold fchain_fun_tokens.
    cbn [Actions.execute].
    change (exec_action 8 [] 0 ps_init) with (AOk (mk [INode (Node KRoot (root_basic cfg) ONone)])). cbn [abind].
    assert (Hsk : skipn 1 (fchain_fun_path (s :: r) fs) = render_fsteps (s :: r) ++ render_funs fs) by reflexivity.
    destruct (exec_fsteps_tail cfg parse_float regex_ok (fchain_fun_path (s :: r) fs) (s :: r) (render_funs fs) 1 [INode (Node KRoot (root_basic cfg) ONone)]
                (funs_tokens (1 + List.length (render_fsteps (s :: r))) fs ++ [TAct 2; TAct 0]) [] 0 Hs Hokp Hsk) as (c1 & b1 & E).
    rewrite E. clear E.
    assert (Hsk2 : skipn (1 + List.length (render_fsteps (s :: r))) (fchain_fun_path (s :: r) fs) = render_funs fs).
    { rewrite skipn_add. cbn [skipn]. unfold fchain_fun_path, fchain_path. cbn [app skipn]. rewrite skipn_app, skipn_all, Nat.sub_diag. reflexivity. }
    destruct (exec_funs cfg parse_float regex_ok (fchain_fun_path (s :: r) fs) fs _ ([INode (Node KRoot (root_basic cfg) ONone)] ++ map (fun x => INode (fnode_of cfg parse_float x)) (s :: r))
                [TAct 2; TAct 0] c1 b1 Hk Hsk2) as (cps' & b' & E).
    rewrite E. clear E. cbn [app Actions.execute].
    change (exec_action 2 cps' b' ?st) with (abind (set_node_chain st) update_root_vg).
    unfold set_node_chain, mk. cbn [params map app].
    change (INode (fnode_of cfg parse_float s) :: map (fun x => INode (fnode_of cfg parse_float x)) r ++ map (fun f : list N => INode (fnode cfg f)) fs)
      with (map (fun x => INode (fnode_of cfg parse_float x)) (s :: r) ++ map (fun f : list N => INode (fnode cfg f)) fs).
    rewrite fold_left_app.
    pose proof (chain_fold_f cfg parse_float KRoot (root_basic cfg) (s :: r) ltac:(split; intros; discriminate) [] ltac:(constructor)) as F. cbn [link app] in F. rewrite F. clear F.
    rewrite (chain_fold_funs cfg KRoot (root_basic cfg) fs ltac:(split; intros; discriminate) _ (fpres_plain cfg parse_float (s :: r))).
    cbn [abind with_params params saved proot]. unfold update_root_vg. cbn [params with_params saved proot abind].
    unfold with_params. cbn [params saved proot].
    change (exec_action 0 cps' b' ?st) with
      (abind (pop_node st) (fun '(rt, st1) => AOk {| params := params st1; saved := saved st1; proot := Some (set_ctext_deep (delete_root rt) "") |})).
    unfold pop_node, pop. cbn [params rev app abind with_params saved proot].
    unfold fchain_fun_node, node_of.
    assert (Hp : plainl (fpres_f (s :: r) ++ fpres_u fs)) by (apply Forall_app; split; [apply FiltChain.fpres_plain|apply FunParse.fpres_plain]).
    destruct (fpres_f (s :: r) ++ fpres_u fs) as [|x l] eqn:Ep.
    { exfalso. unfold FiltChain.fpres in Ep. cbn [flat_map] in Ep. pose proof (fpre_nonempty cfg parse_float s) as Hn.
      destruct (fpre_of cfg parse_float s); [contradiction Hn; reflexivity|discriminate Ep]. }
    inversion Hp as [|? ? Hx Hl]; subst.
    assert (Ev : delete_root (update_vg (Node KRoot (root_basic cfg) (link (x :: l)))) = Node (fst x) (set_vgroup (any_vg (x :: l)) (snd x)) (link l)).
    { unfold update_vg. cbn [chain_vg]. rewrite link_vg. cbn [root_basic mk_basic vgroup orb].
      destruct (any_vg (x :: l)) eqn:Ea.
      - reflexivity.
      - cbn [link delete_root vgroup]. cbn [any_vg existsb] in Ea. apply orb_false_iff in Ea. destruct Ea as [Ea _].
        rewrite <- Ea at 1. rewrite set_vgroup_same. reflexivity. }
    rewrite Ev. rewrite (set_ctext_link _ _ l Hx Hl). reflexivity.
  Qed.
End FiltFunExec.

Section FiltFunAddr.
  Variable cfg : config.
  Variable parse_float : string -> option num.
  Variable regex_ok : string -> bool.
  Variable ffun : string -> value -> option value.
  Variable afun : string -> list value -> option value.
  Variable regex_match : string -> string -> bool.
  Hypothesis ffun_small : forall f v w, small v -> ffun f v = Some w -> small w.
  Hypothesis afun_small : forall f l w, Forall small l -> afun f l = Some w -> small w.
  Notation parse := (parse_with cfg parse_float regex_ok jsonpath_grammar).
  Notation eval_run := (eval_run ffun afun regex_match).
  Notation sp := (sp ffun afun regex_match).
  Notation nav1f := (nav1f parse_float regex_match).
  Notation nav_allf := (nav_allf parse_float regex_match).
  Notation fpres_f := (FiltChain.fpres cfg parse_float).
  Notation fpres_u := (FunParse.fpres cfg).
  Notation fseg := (fseg cfg parse_float).

  (* the steps and filters, then whatever follows them *)
  Lemma sp_fchain_tail tl : tl <> [] -> forall r x b1 b2, forallb fstep_ok (x :: r) = true ->
    forall root p v, small root -> small v ->
      sp (fseg x b1 b2 (fin (fpres_f r ++ tl))) root (Some p, v) =
      flat_map (fun lv => match fin tl with OSome nx => sp nx root (Some (fst lv), snd lv) | ONone => [] end) (nav_allf root (x :: r) (p, v)).
  Proof.
    intros Htl. induction r as [|y r IH]; intros x b1 b2 Hs root p v Hr Hsm; cbn [forallb] in Hs; apply andb_true_iff in Hs; destruct Hs as [H1 H2].
    - change (fpres_f [] ++ tl) with tl. rewrite (sp_fseg cfg parse_float ffun afun regex_match) by assumption.
      cbn [FiltChainAddr.nav_allf]. rewrite flat_map_flat_map. apply flat_map_ext'. intros lv. cbn [flat_map]. rewrite app_nil_r. unfold ChainAddr.fwd.
      destruct tl as [|t0 tl']; [contradiction Htl; reflexivity|]. reflexivity.
    - assert (Hy : fstep_ok y = true) by (cbn [forallb] in H2; apply andb_true_iff in H2; exact (proj1 H2)).
      assert (Ea : fpres_f (y :: r) ++ tl = fpre_of cfg parse_float y ++ (fpres_f r ++ tl)) by (unfold FiltChain.fpres; cbn [flat_map]; rewrite <- app_assoc; reflexivity).
      destruct (fin_fpre cfg parse_float y (fpres_f r ++ tl) Hy) as (c1 & c2 & Ef & Hc).
      rewrite Ea, Ef, (sp_fseg cfg parse_float ffun afun regex_match) by assumption.
      cbn [FiltChainAddr.nav_allf]. rewrite flat_map_flat_map. apply flat_map_ext_in'. intros [l z] Hin. unfold ChainAddr.fwd. cbn [fst snd]. apply IH; [exact H2|exact Hr|].
      pose proof (nav1f_small parse_float regex_match root x p v Hsm) as Hn. rewrite Forall_forall in Hn. exact (Hn (l, z) Hin).
  Qed.

  Lemma fnode_of_seg x r tl : fstep_ok x = true ->
    exists b1 b2, node_of (fpres_f (x :: r) ++ tl) = fseg x b1 b2 (fin (fpres_f r ++ tl)) /\ accessor b2 = cfg_accessor cfg.
  Proof.
    intros Hok. unfold FiltChain.fpres. cbn [flat_map]. rewrite <- app_assoc.
    destruct x as [[s|s]|i|i o lit|i|d|y|i g0 a o b g1 lit|neg g0 gn i g1|g0' d'|t']; cbn [fpre_of rstep_pre app node_of fin fst snd FiltChainAddr.fseg ChainAddr.seg].
    - eexists (pre_basic cfg s), _. split; reflexivity.
    - eexists _, _. split; [reflexivity|]. destruct s as [q k|k|ds|[|]|sa sb sc|u us]; reflexivity.
    - eexists (filt_basic cfg i), _. split; reflexivity.
    - eexists (filt_basic cfg i), _. split; reflexivity.
    - eexists (filt_basic cfg i), _. split; reflexivity.
    - eexists (fq_basic cfg d), _. split; reflexivity.
    - cbn [fstep_ok] in Hok. apply andb_true_iff in Hok. destruct Hok as [Hf _].
      destruct y as [y0|i|i o lit|i|d|y0|i g0 a o b g1 lit|neg g0 gn i g1|g0' d'|t']; try discriminate Hf; cbn [fpre_of app fin fst snd FiltChainAddr.fseg]; eexists _, _; (split; reflexivity).
    - eexists (filt_basic cfg i), _. split; reflexivity.
    - eexists (filt_basic cfg i), _. split; reflexivity.
    - eexists (filt_basic cfg []), _. split; reflexivity.
    - eexists (filt_basic cfg []), _. split; reflexivity.
  Qed.

  Lemma spec_fchain_funs x r f fs doc : forallb fstep_ok (x :: r) = true -> small doc ->
    spec_results ffun afun regex_match (fchain_fun_node cfg parse_float (x :: r) (f :: fs)) doc =
    funs_all cfg ffun (f :: fs) (nav_allf doc (x :: r) ([], doc)).
  Proof.
    intros Hs Hsm. unfold fchain_fun_node.
    assert (Hx : fstep_ok x = true) by (cbn [forallb] in Hs; apply andb_true_iff in Hs; exact (proj1 Hs)).
    destruct (fnode_of_seg x r (fpres_u (f :: fs)) Hx) as (b1 & b2 & En & Hb).
    unfold spec_results. rewrite En, (sp_fchain_tail (fpres_u (f :: fs)) ltac:(discriminate) r x b1 b2 Hs) by exact Hsm.
    destruct (fin_fpres cfg f fs) as (c & Ef & Hc). destruct (sp_funs cfg ffun afun regex_match fs f c Hc) as (B & HB & Hsp).
    unfold funs_all. rewrite map_flat_map'. apply flat_map_ext'. intros [l z]. rewrite Ef, Hsp. cbn [fst snd].
    destruct (apply_funs ffun (f :: fs) z) as [w|]; [|reflexivity]. cbn [map wrap fst snd]. rewrite HB. unfold fun_result. destruct (cfg_accessor cfg); reflexivity.
  Qed.

  (* a path of steps and filters followed by registered filter functions returns the functions applied, in the written order,
     to each value the steps and filters reach, in the order they reach them; it fails exactly when nothing is left *)
  Theorem fchain_fun_retrieval x r f fs doc st : forallb fstep_ok (x :: r) = true -> forallb (fstep_okp parse_float regex_ok) (x :: r) = true ->
    forallb fname_ok (f :: fs) = true -> forallb (fun_known cfg) (f :: fs) = true -> small doc -> ok st ->
    exists t, parse (fchain_fun_path (x :: r) (f :: fs)) = ParseOk t /\
              match funs_all cfg ffun (f :: fs) (nav_allf doc (x :: r) ([], doc)) with
              | [] => exists e, fst (eval_run t doc st) = OErr e
              | l => fst (eval_run t doc st) = OOk l
              end.
  Proof.
    intros Hs Hokp Hf Hk Hd Hok. exists (fchain_fun_node cfg parse_float (x :: r) (f :: fs)).
    pose proof (parse_fchain_fun_path cfg parse_float regex_ok x r (f :: fs) Hs Hokp Hf Hk) as Hp. split; [exact Hp|].
    pose proof (retrieve_end_to_end cfg parse_float regex_ok ffun afun regex_match ffun_small afun_small (fchain_fun_path (x :: r) (f :: fs)) doc st Hd Hok) as H.
    rewrite Hp in H. rewrite (spec_fchain_funs x r f fs doc Hs Hd) in H.
    destruct (funs_all cfg ffun (f :: fs) (nav_allf doc (x :: r) ([], doc))) as [|a l] eqn:En.
    - destruct (fst (eval_run (fchain_fun_node cfg parse_float (x :: r) (f :: fs)) doc st)) as [rs|e|pn].
      + destruct H as [H1 [H2 _]]. contradiction (H2 H1).
      + exists e. reflexivity.
      + contradiction.
    - destruct (fst (eval_run (fchain_fun_node cfg parse_float (x :: r) (f :: fs)) doc st)) as [rs|e|pn].
      + destruct H as [H _]. rewrite H. reflexivity.
      + destruct H as [H _]. discriminate.
      + contradiction.
  Qed.
End FiltFunAddr.

(* ---------- the filters of these paths call no user function ---------- *)
From JP Require Import CallDefs SpecCalls SpecCallsCompose StackRules.
Lemma call_free_shaped steps : forall o, shaped (kinds_of steps) o -> (match o with OSome n => call_free n | ONone => true end) = true.
Proof.
  induction steps as [|x r IH]; intros o H.
  - destruct o; [reflexivity|contradiction].
  - unfold kinds_of in H. cbn [flat_map] in H. destruct (shaped_seg x _ o H) as (b1 & b2 & nx & E & Hn). subst o.
    specialize (IH nx Hn). destruct x as [s|s]; cbn [ChainAddr.seg call_free]; rewrite IH;
      destruct s as [q k|k|ds|[|]|sa sb sc|u us]; reflexivity.
Qed.

Section FiltCallFree.
  Variable cfg : config.
  Variable parse_float : string -> option num.

  Lemma seg_call_free x b1 b2 nx r : shaped (kinds_of r) nx -> call_free (seg x b1 b2 nx) = true.
  Proof.
    intros Hs. pose proof (call_free_shaped r nx Hs) as H.
    destruct x as [s|s]; cbn [ChainAddr.seg call_free]; rewrite H; destruct s as [q k|k|ds|[|]|sa sb sc|u us]; reflexivity.
  Qed.
  Lemma cur_operand_cf i : call_free_p (filter_pq cfg i) = true.
  Proof.
    destruct i as [|x r]; [reflexivity|]. unfold filter_pq. cbn [call_free_p].
    destruct (operand_tree cfg x r) as (b1 & b2 & nx & E & Hs). rewrite E. apply (seg_call_free x b1 b2 nx r Hs).
  Qed.
  Lemma root_operand_cf j : call_free_p (root_pq cfg j) = true.
  Proof.
    destruct j as [|x r]; [reflexivity|]. unfold root_pq. cbn [call_free_p].
    destruct (root_operand_tree_acc cfg x r) as (b1 & b2 & nx & E & Hs & _). rewrite E. apply (seg_call_free x b1 b2 nx r Hs).
  Qed.
  Lemma cmp_query_cf i o f : call_free_q (cmp_query cfg i o f) = true.
  Proof. unfold cmp_query, cmp_left, cmp_right. destruct o; cbn [call_free_q call_free_p]; rewrite cur_operand_cf; reflexivity. Qed.
  Lemma bq_query_cf b : call_free_q (bq_query cfg parse_float b) = true.
  Proof.
    destruct b as [i|i|i o lit|i ne l|j|j|i o j|i ne j|i body|lit o i|l ne i|j o i]; cbn [bq_query].
    - cbn [call_free_q]. apply cur_operand_cf.
    - cbn [call_free_q]. apply cur_operand_cf.
    - apply cmp_query_cf.
    - unfold lit_cmp, cmp_left. destruct ne; cbn [call_free_q call_free_p]; rewrite cur_operand_cf; reflexivity.
    - cbn [call_free_q]. apply root_operand_cf.
    - cbn [call_free_q]. apply root_operand_cf.
    - unfold cmp_left. cbn [call_free_q]. rewrite cur_operand_cf, root_operand_cf. reflexivity.
    - unfold cmp_left. cbv zeta. destruct ne; cbn [call_free_q]; rewrite cur_operand_cf, root_operand_cf; reflexivity.
    - unfold rx_query, cmp_left. cbn [call_free_q call_free_p]. rewrite cur_operand_cf. reflexivity.
    - apply cmp_query_cf.
    - unfold lit_cmp, cmp_left. destruct ne; cbn [call_free_q call_free_p]; rewrite cur_operand_cf; reflexivity.
    - unfold cmp_left. cbv zeta. destruct o; cbn [call_free_q]; rewrite cur_operand_cf, root_operand_cf; reflexivity.
  Qed.
  Lemma conj_query_cf c : call_free_q (conj_query cfg parse_float c) = true.
  Proof.
    destruct c as [|b bs]; [reflexivity|]. cbn [conj_query].
    assert (H : forall q0, call_free_q q0 = true -> call_free_q (fold_left (fun q x => QAnd q (bq_query cfg parse_float x)) bs q0) = true).
    { induction bs as [|x r IH]; intros q0 H0; [exact H0|]. cbn [fold_left]. apply IH. cbn [call_free_q]. rewrite H0, bq_query_cf. reflexivity. }
    apply H. apply bq_query_cf.
  Qed.
  Lemma dnf_query_cf d : call_free_q (dnf_query cfg parse_float d) = true.
  Proof.
    destruct d as [|c cs]; [reflexivity|]. cbn [dnf_query].
    assert (H : forall q0, call_free_q q0 = true -> call_free_q (fold_left (fun q x => QOr q (conj_query cfg parse_float x)) cs q0) = true).
    { induction cs as [|x r IH]; intros q0 H0; [exact H0|]. cbn [fold_left]. apply IH. cbn [call_free_q]. rewrite H0, conj_query_cf. reflexivity. }
    apply H. apply conj_query_cf.
  Qed.
  Lemma qt_query_cf t : call_free_q (qt_query cfg parse_float t) = true.
  Proof.
    induction t as [b|q IH|l IHl r IHr|l IHl r IHr]; cbn [qt_query call_free_q]; [apply bq_query_cf|exact IH|rewrite IHl, IHr; reflexivity|rewrite IHl, IHr; reflexivity].
  Qed.
End FiltCallFree.

Section FiltFunCalls.
  Variable cfg : config.
  Variable parse_float : string -> option num.
  Variable regex_ok : string -> bool.
  Variable ffun : string -> value -> option value.
  Variable afun : string -> list value -> option value.
  Variable regex_match : string -> string -> bool.
  Hypothesis ffun_small : forall f v w, small v -> ffun f v = Some w -> small w.
  Hypothesis afun_small : forall f l w, Forall small l -> afun f l = Some w -> small w.
  Notation parse := (parse_with cfg parse_float regex_ok jsonpath_grammar).
  Notation eval_run := (eval_run ffun afun regex_match).
  Notation sp := (sp ffun afun regex_match).
  Notation sc := (sc ffun afun regex_match).
  Notation nav1f := (nav1f parse_float regex_match).
  Notation nav_allf := (nav_allf parse_float regex_match).
  Notation fpres_f := (FiltChain.fpres cfg parse_float).
  Notation fpres_u := (FunParse.fpres cfg).
  Notation fseg := (fseg cfg parse_float).
  Notation fpre_of := (fpre_of cfg parse_float).

  (* the kind of a filter step's node *)
  Definition fkind (x : fstep) : kind :=
    match x with
    | FE i => filt_kind cfg i
    | FC i o lit | FCS i _ _ o _ _ lit => cmp_kind cfg i o (lit_num parse_float lit)
    | FES neg _ _ i _ => fes_kind cfg neg i
    | FN i => neg_kind cfg i
    | FQ d => fq_kind cfg parse_float d
    | FQS _ d => fq_kind cfg parse_float (unspace_dnf d)
    | FT t => ft_kind cfg parse_float t
    | _ => KRoot
    end.
  Lemma fseg_filt x b1 b2 next : is_filt x = true -> fseg x b1 b2 next = Node (fkind x) b2 next.
  Proof. destruct x as [y|i|i o lit|i|d|y|i g0 a o b g1 lit|neg g0 gn i g1|g0' d'|t']; intros H; try discriminate H; reflexivity. Qed.
  Lemma fpre_fkind x : is_filt x = true -> exists b, fpre_of x = [(fkind x, b)].
  Proof. destruct x as [y|i|i o lit|i|d|y|i g0 a o b g1 lit|neg g0 gn i g1|g0' d'|t']; intros H; try discriminate H; eexists; reflexivity. Qed.
  Lemma fkind_filter x : is_filt x = true -> exists q, fkind x = KFilter q /\ call_free_q q = true.
  Proof.
    destruct x as [y|i|i o lit|i|d|y|i g0 a o b g1 lit|neg g0 gn i g1|g0' d'|t']; intros H; try discriminate H; cbn [fkind].
    - eexists. split; [reflexivity|]. cbn [call_free_q]. apply cur_operand_cf.
    - eexists. split; [reflexivity|]. apply cmp_query_cf.
    - eexists. split; [reflexivity|]. cbn [call_free_q]. apply cur_operand_cf.
    - eexists. split; [reflexivity|]. apply dnf_query_cf.
    - eexists. split; [reflexivity|]. apply cmp_query_cf.
    - destruct neg; (eexists; split; [reflexivity|]); cbn [call_free_q]; apply cur_operand_cf.
    - eexists. split; [reflexivity|]. apply dnf_query_cf.
    - eexists. split; [reflexivity|]. apply qt_query_cf.
  Qed.

  (* a filter step's node alone is a well-formed tree: it is what its one-step path parses into *)
  Lemma fnode_wf x b : is_filt x = true -> fstep_ok x = true -> fstep_okp parse_float regex_ok x = true -> wf_node (Node (fkind x) b ONone) = true.
  Proof.
    intros Hf Hs Hp.
    assert (H1 : forallb fstep_ok [x] = true) by (cbn [forallb]; rewrite Hs; reflexivity).
    assert (H2 : forallb (fstep_okp parse_float regex_ok) [x] = true) by (cbn [forallb]; rewrite Hp; reflexivity).
    pose proof (parse_builds_wf cfg parse_float regex_ok _ _ (parse_fchain_path cfg parse_float regex_ok x [] H1 H2)) as H.
    unfold fchain_node, FiltChain.fpres in H. cbn [flat_map] in H. rewrite app_nil_r in H. destruct (fpre_fkind x Hf) as (b0 & E). rewrite E in H.
    exact H.
  Qed.

  Lemma sc_filt x b1 b2 nx root p v : is_filt x = true -> fstep_ok x = true -> fstep_okp parse_float regex_ok x = true -> small root -> small v ->
    sc (fseg x b1 b2 (OSome nx)) root (Some p, v) = flat_map (fun lv => sc nx root (Some (fst lv), snd lv)) (nav1f root x (p, v)).
  Proof.
    intros Hf Hs Hp Hr Hsm. destruct (fkind_filter x Hf) as (q & Ek & Hq).
    rewrite (fseg_filt x b1 b2 (OSome nx) Hf).
    assert (Ea : Node (fkind x) b2 (OSome nx) = append_deep (Node (fkind x) b2 ONone) nx) by (rewrite Ek; reflexivity).
    assert (Hcf : call_free (Node (fkind x) b2 ONone) = true) by (rewrite Ek; cbn [call_free]; rewrite Hq; reflexivity).
    rewrite Ea, (sc_compose ffun afun regex_match _ (fnode_wf x b2 Hf Hs Hp) Hcf).
    rewrite <- (fseg_filt x b1 b2 ONone Hf), (sp_fseg cfg parse_float ffun afun regex_match x b1 b2 ONone root p v Hs Hr Hsm).
    rewrite cthen_flat_map. apply flat_map_ext'. intros lv. unfold ChainAddr.fwd, cthen. cbn [flat_map snd]. rewrite app_nil_r. reflexivity.
  Qed.

  Lemma sc_fseg x : forall b1 b2 nx root p v, fstep_ok x = true -> fstep_okp parse_float regex_ok x = true -> small root -> small v ->
    sc (fseg x b1 b2 (OSome nx)) root (Some p, v) = flat_map (fun lv => sc nx root (Some (fst lv), snd lv)) (nav1f root x (p, v)).
  Proof.
    induction x as [y|i|i o lit|i|d|y IH|i g0 a o b g1 lit|neg g0 gn i g1|g0' d'|t']; intros b1 b2 nx root p v Hs Hp Hr Hsm;
      try (apply sc_filt; [reflexivity|assumption..]).
    - cbn [FiltChainAddr.fseg FiltChainAddr.nav1f fstep_ok] in *. apply (sc_seg cfg parse_float regex_ok ffun afun regex_match); assumption.
    - cbn [fstep_ok fstep_okp] in Hs, Hp. apply andb_true_iff in Hs. destruct Hs as [Hf Hs]. cbn [FiltChainAddr.fseg FiltChainAddr.nav1f fst snd].
      assert (E : sc (Node (KRec true true) b1 (OSome (fseg y b1 b2 (OSome nx)))) root (Some p, v) =
                  flat_map (fun cu => sc (fseg y b1 b2 (OSome nx)) root cu) (containers (Some p) v)).
      { rewrite sc_unfold. cbn [fst snd]. apply flat_map_ext'. intros [l x]. cbn [snd].
        destruct (fkind_filter y Hf) as (q & Ek & _). rewrite (fseg_filt y b1 b2 (OSome nx) Hf), Ek.
        destruct x; try reflexivity; rewrite sc_unfold; reflexivity. }
      rewrite E. rewrite flat_map_flat_map. apply flat_map_ext_in'. intros cu Hin.
      pose proof (containers_some v p Hsm) as Hc. rewrite Forall_forall in Hc. destruct (Hc cu Hin) as [[l Hl] Hsx].
      destruct cu as [ol x]. cbn [fst snd] in *. subst ol. unfold cu_loc. cbn [fst snd].
      apply IH; assumption.
  Qed.

  Lemma sc_fchain_tail tl : tl <> [] -> forall r x b1 b2, forallb fstep_ok (x :: r) = true -> forallb (fstep_okp parse_float regex_ok) (x :: r) = true ->
    forall root p v, small root -> small v ->
      sc (fseg x b1 b2 (fin (fpres_f r ++ tl))) root (Some p, v) =
      flat_map (fun lv => match fin tl with OSome nx => sc nx root (Some (fst lv), snd lv) | ONone => [] end) (nav_allf root (x :: r) (p, v)).
  Proof.
    intros Htl. induction r as [|y r IH]; intros x b1 b2 Hs Hp root p v Hr Hsm; cbn [forallb] in Hs, Hp;
      apply andb_true_iff in Hs; destruct Hs as [H1 H2]; apply andb_true_iff in Hp; destruct Hp as [P1 P2].
    - change (fpres_f [] ++ tl) with tl. destruct tl as [|t0 tl']; [contradiction Htl; reflexivity|].
      destruct (fin_some t0 tl') as (nx & En). rewrite En, sc_fseg by assumption.
      cbn [FiltChainAddr.nav_allf]. rewrite flat_map_flat_map. apply flat_map_ext'. intros lv. cbn [flat_map]. rewrite app_nil_r. reflexivity.
    - assert (Hy : fstep_ok y = true) by (cbn [forallb] in H2; apply andb_true_iff in H2; exact (proj1 H2)).
      assert (Ea : fpres_f (y :: r) ++ tl = fpre_of y ++ (fpres_f r ++ tl)) by (unfold FiltChain.fpres; cbn [flat_map]; rewrite <- app_assoc; reflexivity).
      destruct (fin_fpre cfg parse_float y (fpres_f r ++ tl) Hy) as (c1 & c2 & Ef & Hc).
      rewrite Ea, Ef, sc_fseg by assumption.
      cbn [FiltChainAddr.nav_allf]. rewrite flat_map_flat_map. apply flat_map_ext_in'. intros [l z] Hin. cbn [fst snd]. apply IH; [exact H2|exact P2|exact Hr|].
      pose proof (nav1f_small parse_float regex_match root x p v Hsm) as Hn. rewrite Forall_forall in Hn. exact (Hn (l, z) Hin).
  Qed.

  Lemma sc_fchain_funs x r f fs doc : forallb fstep_ok (x :: r) = true -> forallb (fstep_okp parse_float regex_ok) (x :: r) = true -> small doc ->
    sc (fchain_fun_node cfg parse_float (x :: r) (f :: fs)) doc (Some [], doc) = calls_all ffun (f :: fs) (nav_allf doc (x :: r) ([], doc)).
  Proof.
    intros Hs Hp Hsm. unfold fchain_fun_node.
    assert (Hx : fstep_ok x = true) by (cbn [forallb] in Hs; apply andb_true_iff in Hs; exact (proj1 Hs)).
    destruct (fnode_of_seg cfg parse_float x r (fpres_u (f :: fs)) Hx) as (b1 & b2 & En & Hb).
    rewrite En, (sc_fchain_tail (fpres_u (f :: fs)) ltac:(discriminate) r x b1 b2 Hs Hp) by exact Hsm.
    destruct (fin_fpres cfg f fs) as (c & Ef & Hc). unfold calls_all. apply flat_map_ext'. intros [l z]. rewrite Ef, (sc_funs cfg ffun afun regex_match). reflexivity.
  Qed.

  (* the filters of such a tree hold no user function *)
  Definition cfkind (k : kind) : Prop := match k with KMulti _ _ _ | KAgg _ _ => False | KFilter q => call_free_q q = true | _ => True end.
  Lemma fin_cfk l : Forall (fun kb : kind * basic => cfkind (fst kb)) l -> (match fin l with OSome m => filters_call_free m | ONone => true end) = true.
  Proof.
    induction l as [|x l IH]; intros H; [reflexivity|]. inversion H as [|? ? Hx Hl]; subst. cbn [fin filters_call_free].
    rewrite (IH Hl). destruct (fst x); try contradiction; try reflexivity. cbn [cfkind] in Hx. rewrite Hx. reflexivity.
  Qed.
  Lemma fpre_cfk x : fstep_ok x = true -> Forall (fun kb : kind * basic => cfkind (fst kb)) (fpre_of x).
  Proof.
    induction x as [y|i|i o lit|i|d|y IH|i g0 a o b g1 lit|neg g0 gn i g1|g0' d'|t']; intros Hs.
    2-5,7-10: (match goal with |- Forall _ (FiltChain.fpre_of _ _ ?x) =>
                 destruct (fpre_fkind x eq_refl) as (b0 & E); rewrite E; constructor; [|constructor];
                 destruct (fkind_filter x eq_refl) as (q & Ek & Hq); cbn [fst]; rewrite Ek; exact Hq end).
    - cbn [FiltChain.fpre_of]. destruct y as [s|s]; cbn [rstep_pre]; repeat constructor; destruct s as [q k|k|ds|[|]|sa sb sc0|u us]; exact I.
    - cbn [fstep_ok] in Hs. apply andb_true_iff in Hs. destruct Hs as [_ Hs]. cbn [FiltChain.fpre_of]. constructor; [exact I|apply IH; exact Hs].
  Qed.
  Lemma fchain_fun_node_fcf x r fs : forallb fstep_ok (x :: r) = true -> filters_call_free (fchain_fun_node cfg parse_float (x :: r) fs) = true.
  Proof.
    intros Hs. unfold fchain_fun_node, node_of.
    assert (H : Forall (fun kb : kind * basic => cfkind (fst kb)) (fpres_f (x :: r) ++ fpres_u fs)).
    { apply Forall_app. split.
      - unfold FiltChain.fpres. remember (x :: r) as l eqn:El. clear El. induction l as [|y l IH]; [constructor|].
        cbn [forallb] in Hs. apply andb_true_iff in Hs. destruct Hs as [H1 H2]. cbn [flat_map]. apply Forall_app. split; [apply fpre_cfk; exact H1|apply IH; exact H2].
      - induction fs as [|f0 fs IH]; constructor; [exact I|exact IH]. }
    destruct (fpres_f (x :: r) ++ fpres_u fs) as [|y l]; [reflexivity|]. inversion H as [|? ? Hy Hl]; subst.
    cbn [filters_call_free]. rewrite (fin_cfk l Hl). destruct (fst y); try contradiction; try reflexivity. cbn [cfkind] in Hy. rewrite Hy. reflexivity.
  Qed.

  (* the call log of the retrieval: for each value the steps and filters reach, in the order they reach them, f on it, then the
     next function on what f returned, and so on until one fails — and nothing else: the filters call no user function *)
  Theorem fchain_fun_calls x r f fs doc st : forallb fstep_ok (x :: r) = true -> forallb (fstep_okp parse_float regex_ok) (x :: r) = true ->
    forallb fname_ok (f :: fs) = true -> forallb (fun_known cfg) (f :: fs) = true -> small doc -> ok st ->
    exists t, parse (fchain_fun_path (x :: r) (f :: fs)) = ParseOk t /\
              calls (snd (eval_run t doc st)) = calls st ++ calls_all ffun (f :: fs) (nav_allf doc (x :: r) ([], doc)).
  Proof.
    intros Hs Hokp Hf Hk Hd Hok. exists (fchain_fun_node cfg parse_float (x :: r) (f :: fs)).
    pose proof (parse_fchain_fun_path cfg parse_float regex_ok x r (f :: fs) Hs Hokp Hf Hk) as Hp. split; [exact Hp|].
    rewrite (eval_call_log ffun afun regex_match ffun_small afun_small _ doc st (parse_builds_wf cfg parse_float regex_ok _ _ Hp) (fchain_fun_node_fcf x r (f :: fs) Hs) Hd Hok).
    rewrite (sc_fchain_funs x r f fs doc Hs Hokp Hd). reflexivity.
  Qed.
End FiltFunCalls.
