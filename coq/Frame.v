(* Frame.v — the actions other than saveParams / loadParams neither read nor change the stack of saved parameter lists:
   run from a state whose saved stack is sv, they do what they do on an empty one and leave sv in place.  This is what
   lets every token replay proved at top level (saved = []) be reused inside a filter operand. *)
From JP Require Import Peg Text Tree Actions.
From Coq Require Import List String. Import ListNotations.
Open Scope list_scope.

Definition with_saved (sv : list (list item)) (st : pstate) : pstate := {| params := params st; saved := sv; proot := proot st |}.
Definition amap_saved (sv : list (list item)) (r : ares pstate) : ares pstate :=
  match r with AOk s => AOk (with_saved sv s) | AErr e => AErr e | ACrash c => ACrash c end.
Definition lift {A} (sv : list (list item)) (r : ares (A * pstate)) : ares (A * pstate) :=
  match r with AOk (x, s) => AOk (x, with_saved sv s) | AErr e => AErr e | ACrash c => ACrash c end.

Lemma pop_frame sv st : pop (with_saved sv st) = lift sv (pop st).
Proof. unfold pop, with_saved. cbn [params]. destruct (rev (params st)); reflexivity. Qed.
Lemma pop_node_frame sv st : pop_node (with_saved sv st) = lift sv (pop_node st).
Proof. unfold pop_node. rewrite pop_frame. destruct (pop st) as [[x s]|e|c]; [|reflexivity..]. cbn [lift abind]. destruct x; reflexivity. Qed.
Lemma pop_query_frame sv st : pop_query (with_saved sv st) = lift sv (pop_query st).
Proof. unfold pop_query. rewrite pop_frame. destruct (pop st) as [[x s]|e|c]; [|reflexivity..]. cbn [lift abind]. destruct x; reflexivity. Qed.
Lemma pop_cparam_frame sv st : pop_cparam (with_saved sv st) = lift sv (pop_cparam st).
Proof. unfold pop_cparam. rewrite pop_frame. destruct (pop st) as [[x s]|e|c]; [|reflexivity..]. cbn [lift abind]. destruct x; reflexivity. Qed.
Lemma pop_idx_frame sv st : pop_idx (with_saved sv st) = lift sv (pop_idx st).
Proof. unfold pop_idx. rewrite pop_frame. destruct (pop st) as [[x s]|e|c]; [|reflexivity..]. cbn [lift abind]. destruct x; reflexivity. Qed.
Lemma push_frame sv x st : push x (with_saved sv st) = with_saved sv (push x st).
Proof. reflexivity. Qed.

Section Frame.
  Variable cfg : config.
  Variable parse_float : string -> option num.
  Variable regex_ok : string -> bool.
  Notation exec_action := (exec_action cfg parse_float regex_ok).

  Lemma two_operands_frame sv st : two_operands (with_saved sv st) = lift sv (two_operands st).
  Proof.
    unfold two_operands. rewrite pop_cparam_frame. destruct (pop_cparam st) as [[x s]|e|c]; [|reflexivity..]. cbn [lift abind].
    rewrite pop_cparam_frame. destruct (pop_cparam s) as [[y s2]|e|c]; reflexivity.
  Qed.
  Lemma set_last_frame t sv st : set_last_node_text t (with_saved sv st) = amap_saved sv (set_last_node_text t st).
  Proof. unfold set_last_node_text. rewrite pop_node_frame. destruct (pop_node st) as [[[k b nx] s]|e|c]; reflexivity. Qed.
  Lemma push_index_frame cps o sv st : push_index cps o (with_saved sv st) = amap_saved sv (push_index cps o st).
  Proof. unfold push_index. destruct (atoi cps); reflexivity. Qed.
  Lemma push_function_frame t name sv st : push_function cfg t name (with_saved sv st) = amap_saved sv (push_function cfg t name st).
  Proof. unfold push_function. destruct (mem name (cfg_filters cfg)); [reflexivity|]. destruct (mem name (cfg_aggs cfg)); reflexivity. Qed.
  Lemma push_recursive_frame n sv st : push_recursive cfg n (with_saved sv st) = with_saved sv (push_recursive cfg n st).
  Proof. unfold push_recursive. destruct (node_kind n); reflexivity. Qed.
  Lemma push_multi_frame a b sv st : push_multi cfg a b (with_saved sv st) = with_saved sv (push_multi cfg a b st).
  Proof. unfold push_multi. destruct a as [k ba nx]. destruct k; try reflexivity. Qed.
  Lemma push_compare_eq_frame l r sv st : push_compare_eq l r (with_saved sv st) = with_saved sv (push_compare_eq l r st).
  Proof.
    unfold push_compare_eq. destruct (swap_required l r).
    - destruct l as [p lit]. destruct p as [v| |]; try reflexivity. destruct v; reflexivity.
    - destruct r as [p lit]. destruct p as [v| |]; try reflexivity. destruct v; reflexivity.
  Qed.
  Lemma push_compare_ord_frame c l r sv st : push_compare_ord c l r (with_saved sv st) = with_saved sv (push_compare_ord c l r st).
  Proof. unfold push_compare_ord. destruct (swap_required l r); reflexivity. Qed.
  Lemma set_node_chain_frame sv st : set_node_chain (with_saved sv st) = amap_saved sv (set_node_chain st).
  Proof.
    destruct st as [ps sv0 pr]. unfold set_node_chain, with_saved. cbn [params proot]. destruct ps as [|f [|s2 r]]; try reflexivity.
    destruct f; try reflexivity. destruct (fold_left chain_step (s2 :: r) (AOk n)); reflexivity.
  Qed.
  Lemma update_root_vg_frame sv st : update_root_vg (with_saved sv st) = amap_saved sv (update_root_vg st).
  Proof. destruct st as [ps sv0 pr]. unfold update_root_vg, with_saved. cbn [params proot]. destruct ps as [|f r]; [reflexivity|]. destruct f; reflexivity. Qed.

  Ltac prims :=
    repeat first [ rewrite pop_frame | rewrite pop_node_frame | rewrite pop_query_frame | rewrite pop_cparam_frame | rewrite pop_idx_frame
                 | rewrite two_operands_frame | rewrite set_last_frame | rewrite push_index_frame | rewrite push_function_frame
                 | rewrite push_recursive_frame | rewrite push_multi_frame | rewrite push_compare_eq_frame | rewrite push_compare_ord_frame
                 | rewrite set_node_chain_frame | rewrite update_root_vg_frame | rewrite push_frame ].
  Ltac step :=
    first [ reflexivity
          | match goal with |- context [abind (lift _ ?r) _] => destruct r as [[? ?]|?|?]; cbn [abind lift amap_saved] end
          | match goal with |- context [abind (amap_saved _ ?r) _] => destruct r as [?|?|?]; cbn [abind lift amap_saved] end
          | match goal with |- context [match ?x with _ => _ end] => is_var x; destruct x; cbn [abind lift amap_saved] end
          | match goal with |- context [match ?x with _ => _ end] =>
              lazymatch x with context [with_saved] => fail | _ => destruct x; cbn [abind lift amap_saved] end end
          | match goal with |- context [abind ?r _] =>
              lazymatch r with context [with_saved] => fail | _ => destruct r; cbn [abind lift amap_saved] end end ].

  Lemma exec_frame n cps b sv st : n <> 38 -> n <> 39 ->
    exec_action n cps b (with_saved sv st) = amap_saved sv (exec_action n cps b st).
  Proof.
    intros H38 H39.
    let rec go k := lazymatch k with O => idtac | S ?k' => destruct n as [|n]; [ | go k' ] end in go 46.
    all: try (contradiction H38; reflexivity); try (contradiction H39; reflexivity).
    all: cbn [Actions.exec_action]; unfold push_single.
    all: try reflexivity.
    all: repeat (prims; step).
  Qed.

  (* a whole token replay without save / load *)
  Fixpoint frame_free (toks : list token) : bool :=
    match toks with [] => true | TText _ _ :: r => frame_free r | TAct n :: r => negb (Nat.eqb n 38) && negb (Nat.eqb n 39) && frame_free r end.
  Lemma execute_frame toks : forall input cps b sv st, frame_free toks = true ->
    execute cfg parse_float regex_ok toks input cps b (with_saved sv st) = amap_saved sv (execute cfg parse_float regex_ok toks input cps b st).
  Proof.
    induction toks as [|t r IH]; intros input cps b sv st Hf; [reflexivity|]. destruct t as [b0 e0|n]; cbn [Actions.execute frame_free] in *.
    - apply IH. exact Hf.
    - apply andb_true_iff in Hf. destruct Hf as [Hn Hr]. apply andb_true_iff in Hn. destruct Hn as [H38 H39].
      apply negb_true_iff, PeanoNat.Nat.eqb_neq in H38. apply negb_true_iff, PeanoNat.Nat.eqb_neq in H39.
      rewrite exec_frame by assumption. destruct (exec_action n cps b st) as [s|e|c]; cbn [abind amap_saved]; [apply IH; exact Hr|reflexivity..].
  Qed.

  Lemma frame_free_app a b : frame_free (a ++ b) = frame_free a && frame_free b.
  Proof. induction a as [|t r IH]; [reflexivity|]. destruct t as [b0 e0|n]; cbn [app frame_free]; rewrite IH; [reflexivity|]. rewrite andb_assoc. reflexivity. Qed.

  (* the capture registers after a token list *)
  Fixpoint last_cps (toks : list token) (input cps : list N) : list N :=
    match toks with [] => cps | TText b e :: r => last_cps r input (sub_list input b e) | TAct _ :: r => last_cps r input cps end.
  Fixpoint last_begin (toks : list token) (b : nat) : nat :=
    match toks with [] => b | TText b0 _ :: r => last_begin r b0 | TAct _ :: r => last_begin r b end.
  Lemma execute_app t1 : forall t2 input cps b st,
    execute cfg parse_float regex_ok (t1 ++ t2) input cps b st =
    match execute cfg parse_float regex_ok t1 input cps b st with
    | AOk st' => execute cfg parse_float regex_ok t2 input (last_cps t1 input cps) (last_begin t1 b) st'
    | AErr e => AErr e
    | ACrash c => ACrash c
    end.
  Proof.
    induction t1 as [|t r IH]; intros t2 input cps b st; [reflexivity|]. destruct t as [b0 e0|n]; cbn [app Actions.execute last_cps last_begin].
    - apply IH.
    - destruct (exec_action n cps b st) as [s|e|c]; cbn [abind]; [apply IH|reflexivity..].
  Qed.

  (* a replay known from the empty saved stack, reused under any saved stack *)
  Lemma execute_under sv t1 input cps b st st' : frame_free t1 = true ->
    execute cfg parse_float regex_ok t1 input cps b st = AOk st' ->
    forall toks, execute cfg parse_float regex_ok (t1 ++ toks) input cps b (with_saved sv st) =
                 execute cfg parse_float regex_ok toks input (last_cps t1 input cps) (last_begin t1 b) (with_saved sv st').
  Proof. intros Hf E toks. rewrite execute_app, execute_frame by exact Hf. rewrite E. reflexivity. Qed.
End Frame.
