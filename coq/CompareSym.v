(* CompareSym.v — C09, operands of equal rank: deep equality of JSON values is symmetric, hence a comparison
   between two single-valued operands (two `$` paths, or two literals) and its mirror image
   select the same members. *)
From JP Require Import Json Slice Tree Eval Spec EvalInv1 CompareFacts SortFacts SpecPerm Actions.
From Coq Require Import Lia.
Open Scope list_scope.

(* decoded JSON: no foreign Go value *)
Fixpoint no_opaque (v : value) : Prop :=
  match v with
  | VOpaque _ _ _ => False
  | VArr l => (fix go (l : list value) : Prop := match l with [] => True | x :: r => no_opaque x /\ go r end) l
  | VObj m => (fix go (m : list (string * value)) : Prop := match m with [] => True | (_, x) :: r => no_opaque x /\ go r end) m
  | _ => True
  end.
Lemma no_opaque_arr l : no_opaque (VArr l) -> Forall no_opaque l.
Proof. induction l as [|x l IH]; intros H; constructor; cbn in H; [tauto|apply IH; cbn; tauto]. Qed.
Lemma no_opaque_obj m : no_opaque (VObj m) -> forall kv, In kv m -> no_opaque (snd kv).
Proof.
  induction m as [|[k x] m IH]; intros H kv Hin; [contradiction|]. cbn in H. destruct H as [Hx Hm].
  destruct Hin as [<-|Hin]; [exact Hx|]. apply IH; [exact Hm|exact Hin].
Qed.

Lemma deep_eq_imp : forall v w, nd_doc v -> nd_doc w -> no_opaque v -> no_opaque w -> deep_eq v w = true -> deep_eq w v = true.
Proof.
  induction v as [|b|x|s x|s|xs IH|m IH|t i s] using value_ind_strong; intros w Hv Hw Ov Ow H; destruct w; try discriminate H; try contradiction.
  - reflexivity.
  - cbn [deep_eq] in *. destruct b, b0; auto.
  - cbn [deep_eq] in *. rewrite num_eqb_sym. exact H.
  - cbn [deep_eq] in *. rewrite String.eqb_sym. exact H.
  - cbn [deep_eq] in *. rewrite String.eqb_sym. exact H.
  - cbn [deep_eq] in *. apply nd_arr_forall in Hv. apply nd_arr_forall in Hw. apply no_opaque_arr in Ov. apply no_opaque_arr in Ow.
    revert l Hw Ow H. induction xs as [|a xs IHxs]; intros [|b l] Hw Ow H; cbn [deq_list] in *; try discriminate; [reflexivity|].
    apply andb_true_iff in H. destruct H as [H1 H2].
    inversion IH as [|? ? Ha Hxs]; subst. inversion Hv; subst. inversion Hw; subst. inversion Ov; subst. inversion Ow; subst.
    apply andb_true_iff. split; [apply Ha; assumption|apply IHxs; assumption].
  - rename m0 into m'. rewrite deep_eq_obj in *. apply andb_true_iff in H. destruct H as [Hlen Hall].
    apply Nat.eqb_eq in Hlen. apply andb_true_iff. split; [apply Nat.eqb_eq; lia|].
    rewrite forallb_forall in Hall. apply forallb_forall. intros [k' y] Hin'. cbn [fst snd].
    pose proof (nd_obj_nodup m Hv) as Nm. pose proof (nd_obj_nodup m' Hw) as Nm'.
    assert (Hincl : incl (map fst m) (map fst m')).
    { intros k Hk. apply in_map_iff in Hk. destruct Hk as [[k0 x] [<- Hkx]]. specialize (Hall (k0, x) Hkx). cbn [fst snd] in Hall.
      destruct (lookup m' k0) as [y0|] eqn:E; [|discriminate]. apply lookup_some_in in E. apply in_map_iff. exists (k0, y0). split; [reflexivity|exact E]. }
    assert (Hincl' : incl (map fst m') (map fst m)).
    { apply NoDup_length_incl; [exact Nm|rewrite !map_length; lia|exact Hincl]. }
    assert (Hk' : In k' (map fst m)) by (apply Hincl'; apply in_map_iff; exists (k', y); split; [reflexivity|exact Hin']).
    apply in_map_iff in Hk'. destruct Hk' as [[k0 x] [Hk0 Hkx]]. cbn [fst] in Hk0. subst k0.
    rewrite (lookup_in_nodup m k' x Nm Hkx).
    specialize (Hall (k', x) Hkx). cbn [fst snd] in Hall. rewrite (lookup_in_nodup m' k' y Nm' Hin') in Hall.
    rewrite Forall_forall in IH. apply (IH (k', x) Hkx y).
    + exact (nd_obj_members m Hv (k', x) Hkx).
    + exact (nd_obj_members m' Hw (k', y) Hin').
    + exact (no_opaque_obj m Ov (k', x) Hkx).
    + exact (no_opaque_obj m' Ow (k', y) Hin').
    + exact Hall.
Qed.

Theorem deep_eq_sym v w : nd_doc v -> nd_doc w -> no_opaque v -> no_opaque w -> deep_eq v w = deep_eq w v.
Proof.
  intros Hv Hw Ov Ow. destruct (deep_eq v w) eqn:E1; destruct (deep_eq w v) eqn:E2; try reflexivity.
  - rewrite (deep_eq_imp v w Hv Hw Ov Ow E1) in E2. discriminate.
  - rewrite (deep_eq_imp w v Hw Hv Ow Ov E2) in E1. discriminate.
Qed.

Definition entry_ok (x : entry) : Prop := match x with Some v => nd_doc v /\ no_opaque v | None => True end.
Definition is_ord (c : comparator) : bool := match c with CLt | CLe | CGt | CGe => true | _ => false end.

Section Mirror.
  Variable ffun : string -> value -> option value.
  Variable afun : string -> list value -> option value.
  Variable regex_match : string -> string -> bool.
  Notation cmp_holds := (cmp_holds regex_match).
  Notation holds := (holds ffun afun regex_match).
  Notation operand := (operand ffun afun regex_match).

  Lemma valid_numeric x : valid_entry VdNumeric x = true ->
    exists a, (match validate_entry VdNumeric x with Some y => y | None => x end) = Some (VNum a).
  Proof. destruct x as [[| | a|s a| | | |]|]; cbn; intros H; try discriminate; exists a; reflexivity. Qed.

  (* a < b and b > a between two single-valued operands: the same verdict for every member *)
  Lemma cmp_holds_mirror_ord c n x y : is_ord c = true -> cmp_holds c n [x] y = cmp_holds (mirror c) n [y] x.
  Proof.
    intros Hc. unfold Spec.cmp_holds.
    assert (Hv : validator_of c = Some VdNumeric /\ validator_of (mirror c) = Some VdNumeric) by (destruct c; try discriminate; split; reflexivity).
    destruct Hv as [Hv1 Hv2]. unfold is_valid, validate_to. rewrite Hv1, Hv2. cbn [existsb map List.length hd].
    rewrite !orb_false_r.
    destruct (valid_entry VdNumeric x) eqn:Vx, (valid_entry VdNumeric y) eqn:Vy; cbn [andb Bool.eqb]; try reflexivity.
    - destruct (valid_numeric x Vx) as [a Ha]. destruct (valid_numeric y Vy) as [b Hb]. rewrite Ha, Hb.
      assert (E : cmp_keeps regex_match c (Some (VNum b)) (Some (VNum a)) = cmp_keeps regex_match (mirror c) (Some (VNum a)) (Some (VNum b))).
      { unfold cmp_keeps. destruct c; try discriminate; reflexivity. }
      rewrite E. reflexivity.
    - destruct c; try discriminate; reflexivity.
  Qed.

  (* a == b and b == a between two single-valued path operands holding JSON values *)
  Lemma cmp_holds_mirror_deep n x y : entry_ok x -> entry_ok y -> cmp_holds CDeepEq n [x] y = cmp_holds CDeepEq n [y] x.
  Proof.
    intros Hx Hy. unfold Spec.cmp_holds, is_valid, validate_to. cbn [validator_of existsb map List.length hd]. rewrite !orb_false_r.
    destruct x as [v|], y as [w|]; cbn [isE negb andb Bool.eqb]; try reflexivity.
    unfold cmp_keeps. cbn [cmp_entry fst]. destruct Hx as [Nv Ov]. destruct Hy as [Nw Ow].
    rewrite (deep_eq_sym v w Nv Nw Ov Ow). reflexivity.
  Qed.

  Theorem holds_mirror_ord lp ll rp rl c root vals x y : is_ord c = true ->
    operand lp root vals = [x] -> operand rp root vals = [y] ->
    holds (QCmp (CP lp ll) (CP rp rl) c) root vals = holds (QCmp (CP rp rl) (CP lp ll) (mirror c)) root vals.
  Proof.
    intros Hc Hl Hr.
    change (holds (QCmp (CP lp ll) (CP rp rl) c) root vals) with (cmp_holds c (List.length vals) (operand lp root vals) (hd None (operand rp root vals))).
    change (holds (QCmp (CP rp rl) (CP lp ll) (mirror c)) root vals) with (cmp_holds (mirror c) (List.length vals) (operand rp root vals) (hd None (operand lp root vals))).
    rewrite Hl, Hr. cbn [hd]. apply cmp_holds_mirror_ord. exact Hc.
  Qed.

  Theorem holds_mirror_deep lp ll rp rl root vals x y : entry_ok x -> entry_ok y ->
    operand lp root vals = [x] -> operand rp root vals = [y] ->
    holds (QCmp (CP lp ll) (CP rp rl) CDeepEq) root vals = holds (QCmp (CP rp rl) (CP lp ll) CDeepEq) root vals.
  Proof.
    intros Hx Hy Hl Hr.
    change (holds (QCmp (CP lp ll) (CP rp rl) CDeepEq) root vals) with (cmp_holds CDeepEq (List.length vals) (operand lp root vals) (hd None (operand rp root vals))).
    change (holds (QCmp (CP rp rl) (CP lp ll) CDeepEq) root vals) with (cmp_holds CDeepEq (List.length vals) (operand rp root vals) (hd None (operand lp root vals))).
    rewrite Hl, Hr. cbn [hd]. apply cmp_holds_mirror_deep; assumption.
  Qed.

  (* `$` operands and literals are single-valued *)
  Lemma operand_root_single n root vals : exists x, operand (PqRoot n) root vals = [x].
  Proof.
    change (operand (PqRoot n) root vals) with (match sp ffun afun regex_match n root (Some [], root) with nil => [None] | cons x nil => [Some (res_value (Spec.wrap x))] | _ => [Some (VBool true)] end).
    destruct (sp ffun afun regex_match n root (Some [], root)) as [|a [|b l]]; eexists; reflexivity.
  Qed.
  Lemma operand_lit_single v root vals : operand (PqLit v) root vals = [Some v].
  Proof. reflexivity. Qed.
End Mirror.

(* ---------- what the parser builds when the two operands have the same rank ---------- *)
Lemma push_compare_ord_equal_rank c l r st : rank l = rank r ->
  push_compare_ord c l r st = push (IQuery (QCmp l r c)) st /\
  push_compare_ord (mirror c) r l st = push (IQuery (QCmp r l (mirror c))) st.
Proof.
  intros H. unfold push_compare_ord, swap_required. rewrite H, Nat.ltb_irrefl. split; reflexivity.
Qed.

Definition lit_vd (v : value) : option validator :=
  match v with VNum _ => Some VdNumeric | VBool _ => Some VdBool | VStr _ => Some VdString | VNull => Some VdNil | _ => None end.

Lemma push_compare_eq_paths lp ll rp rl st : (forall v, lp <> PqLit v) -> (forall v, rp <> PqLit v) ->
  rank (CP lp ll) = rank (CP rp rl) ->
  push_compare_eq (CP lp ll) (CP rp rl) st = push (IQuery (QCmp (CP lp ll) (CP rp rl) CDeepEq)) st /\
  push_compare_eq (CP rp rl) (CP lp ll) st = push (IQuery (QCmp (CP rp rl) (CP lp ll) CDeepEq)) st.
Proof.
  intros Hl Hr H. unfold push_compare_eq, swap_required. rewrite H, Nat.ltb_irrefl.
  destruct lp as [v| |]; [contradiction (Hl v); reflexivity| |]; (destruct rp as [w| |]; [contradiction (Hr w); reflexivity| |]); split; reflexivity.
Qed.

Lemma push_compare_eq_lits v w ll rl st vdv vdw : lit_vd v = Some vdv -> lit_vd w = Some vdw ->
  push_compare_eq (CP (PqLit v) ll) (CP (PqLit w) rl) st = push (IQuery (QCmp (CP (PqLit v) ll) (CP (PqLit w) rl) (CDirectEq vdw))) st /\
  push_compare_eq (CP (PqLit w) rl) (CP (PqLit v) ll) st = push (IQuery (QCmp (CP (PqLit w) rl) (CP (PqLit v) ll) (CDirectEq vdv))) st.
Proof.
  intros Hv Hw. unfold push_compare_eq, swap_required. cbn [rank Nat.ltb Nat.leb].
  destruct v; try discriminate Hv; destruct w; try discriminate Hw; inversion Hv; inversion Hw; split; reflexivity.
Qed.

Section MirrorLit.
  Variable regex_match : string -> string -> bool.
  (* two literals: v == w and w == v give the same verdict (true exactly when they are the same scalar) *)
  Lemma cmp_holds_mirror_lits n v w vdv vdw : lit_vd v = Some vdv -> lit_vd w = Some vdw ->
    cmp_holds regex_match (CDirectEq vdw) n [Some v] (Some w) = cmp_holds regex_match (CDirectEq vdv) n [Some w] (Some v).
  Proof.
    intros Hv Hw. unfold cmp_holds, is_valid, validate_to, cmp_keeps. cbn [validator_of existsb map List.length hd].
    destruct v; try discriminate Hv; destruct w; try discriminate Hw; inversion Hv; inversion Hw; subst;
      cbn [valid_entry validate_entry orb andb Bool.eqb cmp_entry iface_eq fst]; try reflexivity.
    - destruct b, b0; reflexivity.
    - rewrite num_eqb_sym. reflexivity.
    - rewrite String.eqb_sym. reflexivity.
  Qed.
End MirrorLit.

Section MirrorTop.
  Variable ffun : string -> value -> option value.
  Variable afun : string -> list value -> option value.
  Variable regex_match : string -> string -> bool.
  Notation holds := (holds ffun afun regex_match).
  Notation operand := (operand ffun afun regex_match).

  (* a < b / b > a (and the other three pairs) between operands of the same rank *)
  Theorem mirror_equal_rank_ord c lp ll rp rl st root vals x y :
    is_ord c = true -> rank (CP lp ll) = rank (CP rp rl) ->
    operand lp root vals = [x] -> operand rp root vals = [y] ->
    exists q1 q2, push_compare_ord c (CP lp ll) (CP rp rl) st = push (IQuery q1) st /\
                  push_compare_ord (mirror c) (CP rp rl) (CP lp ll) st = push (IQuery q2) st /\
                  holds q1 root vals = holds q2 root vals.
  Proof.
    intros Hc Hr Hl Hro. destruct (push_compare_ord_equal_rank c (CP lp ll) (CP rp rl) st Hr) as [E1 E2].
    exists (QCmp (CP lp ll) (CP rp rl) c), (QCmp (CP rp rl) (CP lp ll) (mirror c)). split; [exact E1|]. split; [exact E2|].
    exact (holds_mirror_ord ffun afun regex_match lp ll rp rl c root vals x y Hc Hl Hro).
  Qed.

  (* a == b / b == a between two path operands of the same rank holding JSON values *)
  Theorem mirror_equal_rank_eq_paths lp ll rp rl st root vals x y :
    (forall v, lp <> PqLit v) -> (forall v, rp <> PqLit v) -> rank (CP lp ll) = rank (CP rp rl) ->
    operand lp root vals = [x] -> operand rp root vals = [y] -> entry_ok x -> entry_ok y ->
    exists q1 q2, push_compare_eq (CP lp ll) (CP rp rl) st = push (IQuery q1) st /\
                  push_compare_eq (CP rp rl) (CP lp ll) st = push (IQuery q2) st /\
                  holds q1 root vals = holds q2 root vals.
  Proof.
    intros Nl Nr Hr Hl Hro Hx Hy. destruct (push_compare_eq_paths lp ll rp rl st Nl Nr Hr) as [E1 E2].
    exists (QCmp (CP lp ll) (CP rp rl) CDeepEq), (QCmp (CP rp rl) (CP lp ll) CDeepEq). split; [exact E1|]. split; [exact E2|].
    exact (holds_mirror_deep ffun afun regex_match lp ll rp rl root vals x y Hx Hy Hl Hro).
  Qed.

  (* v == w / w == v between two scalar literals *)
  Theorem mirror_equal_rank_eq_lits v w ll rl st root vals vdv vdw : lit_vd v = Some vdv -> lit_vd w = Some vdw ->
    exists q1 q2, push_compare_eq (CP (PqLit v) ll) (CP (PqLit w) rl) st = push (IQuery q1) st /\
                  push_compare_eq (CP (PqLit w) rl) (CP (PqLit v) ll) st = push (IQuery q2) st /\
                  holds q1 root vals = holds q2 root vals.
  Proof.
    intros Hv Hw. destruct (push_compare_eq_lits v w ll rl st vdv vdw Hv Hw) as [E1 E2].
    eexists _, _. split; [exact E1|]. split; [exact E2|].
    change (holds (QCmp (CP (PqLit v) ll) (CP (PqLit w) rl) (CDirectEq vdw)) root vals) with (cmp_holds regex_match (CDirectEq vdw) (List.length vals) [Some v] (Some w)).
    change (holds (QCmp (CP (PqLit w) rl) (CP (PqLit v) ll) (CDirectEq vdv)) root vals) with (cmp_holds regex_match (CDirectEq vdv) (List.length vals) [Some w] (Some v)).
    apply cmp_holds_mirror_lits; assumption.
  Qed.
End MirrorTop.
