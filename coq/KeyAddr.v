(* KeyAddr.v — C16 from the path text: the three spellings of ANY key k — $["k"], $['k'] (every list of code
   points, escaped by the JSON rules) and $.k (k non-empty without control characters, every symbol
   backslash-escaped) — are accepted by the grammar, build the one-step tree that names exactly k, and a retrieval
   on an object holding a member k returns exactly that member; on an object without it, nothing. *)
From JP Require Import Peg Grammar Text Tree Actions Json Eval WF Spec EvalInv1 EvalInv4 EvalTop EndToEnd Codec KeyDefs KeyParse.
Open Scope list_scope.

Section KeyAddr.
  Variable cfg : config.
  Variable parse_float : string -> option num.
  Variable regex_ok : string -> bool.
  Variable ffun : string -> value -> option value.
  Variable afun : string -> list value -> option value.
  Variable regex_match : string -> string -> bool.
  Hypothesis ffun_small : forall f v w, small v -> ffun f v = Some w -> small w.
  Hypothesis afun_small : forall f l w, Forall small l -> afun f l = Some w -> small w.
  Notation parse := (parse_with cfg parse_float regex_ok jsonpath_grammar).
  Notation eval_run := (eval_run ffun afun regex_match).

  Definition key_result (key : string) (v : value) : res :=
    if cfg_accessor cfg then RAcc true (Some [PKey key]) v else RVal v.

  Lemma spec_single key b m : accessor b = cfg_accessor cfg ->
    spec_results ffun afun regex_match (Node (KSingle key) b ONone) (VObj m) =
    match lookup m key with Some v => [key_result key v] | None => [] end.
  Proof.
    intros Hb. unfold spec_results. cbn [sp snd fst]. destruct (lookup m key) as [v|]; [|reflexivity].
    cbn [map wrap]. unfold key_result. rewrite Hb. destruct (cfg_accessor cfg); reflexivity.
  Qed.

  (* any path text that parses to the single step naming `key` addresses exactly that member *)
  Lemma single_step_present input key b m v st : parse input = ParseOk (Node (KSingle key) b ONone) ->
    accessor b = cfg_accessor cfg -> small (VObj m) -> ok st -> lookup m key = Some v ->
    fst (eval_run (Node (KSingle key) b ONone) (VObj m) st) = OOk [key_result key v].
  Proof.
    intros Hp Hb Hs Hok Hl.
    pose proof (retrieve_end_to_end cfg parse_float regex_ok ffun afun regex_match ffun_small afun_small input (VObj m) st Hs Hok) as H.
    rewrite Hp in H. rewrite (spec_single key b m Hb), Hl in H.
    destruct (fst (eval_run (Node (KSingle key) b ONone) (VObj m) st)) as [rs|e|p].
    - destruct H as [H _]. rewrite H. reflexivity.
    - destruct H as [H _]. discriminate.
    - contradiction.
  Qed.
  Lemma single_step_absent input key b m st : parse input = ParseOk (Node (KSingle key) b ONone) ->
    accessor b = cfg_accessor cfg -> small (VObj m) -> ok st -> lookup m key = None ->
    exists e, fst (eval_run (Node (KSingle key) b ONone) (VObj m) st) = OErr e.
  Proof.
    intros Hp Hb Hs Hok Hl.
    pose proof (retrieve_end_to_end cfg parse_float regex_ok ffun afun regex_match ffun_small afun_small input (VObj m) st Hs Hok) as H.
    rewrite Hp in H. rewrite (spec_single key b m Hb), Hl in H.
    destruct (fst (eval_run (Node (KSingle key) b ONone) (VObj m) st)) as [rs|e|p].
    - destruct H as [H1 [H2 _]]. contradiction (H2 H1).
    - exists e. reflexivity.
    - contradiction.
  Qed.

  Theorem key_addressable q k m v st : (q = 34%N \/ q = 39%N) -> small (VObj m) -> ok st ->
    lookup m (string_of_bytes (utf8 k)) = Some v ->
    exists t, parse (key_path q k) = ParseOk t /\
              fst (eval_run t (VObj m) st) = OOk [key_result (string_of_bytes (utf8 k)) v].
  Proof.
    intros Hq Hs Hok Hl. exists (key_node cfg q k). split; [apply parse_key_path; exact Hq|].
    exact (single_step_present (key_path q k) _ _ m v st (parse_key_path cfg parse_float regex_ok q k Hq) eq_refl Hs Hok Hl).
  Qed.

  (* and a key the object does not hold selects nothing: no other member answers to the spelling *)
  Theorem key_absent q k m st : (q = 34%N \/ q = 39%N) -> small (VObj m) -> ok st ->
    lookup m (string_of_bytes (utf8 k)) = None ->
    exists t e, parse (key_path q k) = ParseOk t /\ fst (eval_run t (VObj m) st) = OErr e.
  Proof.
    intros Hq Hs Hok Hl. exists (key_node cfg q k).
    destruct (single_step_absent (key_path q k) _ _ m st (parse_key_path cfg parse_float regex_ok q k Hq) eq_refl Hs Hok Hl) as [e He].
    exists e. split; [apply parse_key_path; exact Hq|exact He].
  Qed.

  (* the dot spelling, for non-empty keys without control characters *)
  Theorem dot_addressable c k m v st : forallb dot_char (c :: k) = true -> small (VObj m) -> ok st ->
    lookup m (string_of_bytes (utf8 (c :: k))) = Some v ->
    exists t, parse (dot_path (c :: k)) = ParseOk t /\
              fst (eval_run t (VObj m) st) = OOk [key_result (string_of_bytes (utf8 (c :: k))) v].
  Proof.
    intros Hk Hs Hok Hl. exists (dot_node cfg (c :: k)). split; [apply parse_dot_path; exact Hk|].
    exact (single_step_present (dot_path (c :: k)) _ _ m v st (parse_dot_path cfg parse_float regex_ok c k Hk) eq_refl Hs Hok Hl).
  Qed.
  Theorem dot_absent c k m st : forallb dot_char (c :: k) = true -> small (VObj m) -> ok st ->
    lookup m (string_of_bytes (utf8 (c :: k))) = None ->
    exists t e, parse (dot_path (c :: k)) = ParseOk t /\ fst (eval_run t (VObj m) st) = OErr e.
  Proof.
    intros Hk Hs Hok Hl. exists (dot_node cfg (c :: k)).
    destruct (single_step_absent (dot_path (c :: k)) _ _ m st (parse_dot_path cfg parse_float regex_ok c k Hk) eq_refl Hs Hok Hl) as [e He].
    exists e. split; [apply parse_dot_path; exact Hk|exact He].
  Qed.

  (* the three spellings of one key return the same results on every object (C18: quote style, .name vs ['name']) *)
  Theorem spellings_agree c k m st : forallb dot_char (c :: k) = true -> small (VObj m) -> ok st ->
    exists t1 t2 t3, parse (key_path 34 (c :: k)) = ParseOk t1 /\ parse (key_path 39 (c :: k)) = ParseOk t2 /\
                     parse (dot_path (c :: k)) = ParseOk t3 /\
                     match fst (eval_run t1 (VObj m) st) with
                     | OOk rs => fst (eval_run t2 (VObj m) st) = OOk rs /\ fst (eval_run t3 (VObj m) st) = OOk rs
                     | OErr _ => (exists e, fst (eval_run t2 (VObj m) st) = OErr e) /\ (exists e, fst (eval_run t3 (VObj m) st) = OErr e)
                     | OPanic _ => False
                     end.
  Proof.
    intros Hk Hs Hok. exists (key_node cfg 34 (c :: k)), (key_node cfg 39 (c :: k)), (dot_node cfg (c :: k)).
    pose proof (parse_key_path cfg parse_float regex_ok 34 (c :: k) (or_introl eq_refl)) as P1.
    pose proof (parse_key_path cfg parse_float regex_ok 39 (c :: k) (or_intror eq_refl)) as P2.
    pose proof (parse_dot_path cfg parse_float regex_ok c k Hk) as P3.
    split; [exact P1|]. split; [exact P2|]. split; [exact P3|]. unfold key_node, dot_node in *.
    destruct (lookup m (string_of_bytes (utf8 (c :: k)))) as [v|] eqn:El.
    - rewrite (single_step_present _ _ _ m v st P1 eq_refl Hs Hok El).
      split; [exact (single_step_present _ _ _ m v st P2 eq_refl Hs Hok El)|exact (single_step_present _ _ _ m v st P3 eq_refl Hs Hok El)].
    - destruct (single_step_absent _ _ _ m st P1 eq_refl Hs Hok El) as [e1 E1]. rewrite E1.
      split; [exact (single_step_absent _ _ _ m st P2 eq_refl Hs Hok El)|exact (single_step_absent _ _ _ m st P3 eq_refl Hs Hok El)].
  Qed.
End KeyAddr.
