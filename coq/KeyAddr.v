(* KeyAddr.v — C16 from the path text: the bracket spellings $["k"] and $['k'] of ANY key k (every list of code
   points, escaped by the JSON rules) are accepted by the grammar, build the one-step tree that names exactly k,
   and a retrieval on an object holding a member k returns exactly that member. *)
From JP Require Import Peg Grammar Text Tree Actions Json Eval WF Spec EvalInv1 EvalInv4 EvalTop EndToEnd Codec KeyParse.
Open Scope list_scope.

Section KeyAddr.
  Variable cfg : config.
  Variable parse_float : string -> option num.
  Variable regex_ok : string -> bool.
  Variable ffun : string -> value -> option value.
  Variable afun : string -> list value -> option value.
  Variable regex_match : string -> string -> bool.
  Hypothesis ffun_small : forall f v w, small v -> ffun f v = Some w -> small w.
  Hypothesis afun_small : forall f l w, Forall small l -> afun f l = Some w -> small w.
  Notation parse := (parse_with cfg parse_float regex_ok jsonpath_grammar).
  Notation eval_run := (eval_run ffun afun regex_match).

  Definition key_result (key : string) (v : value) : res :=
    if cfg_accessor cfg then RAcc true (Some [PKey key]) v else RVal v.

  Lemma spec_key_node q k m :
    spec_results ffun afun regex_match (key_node cfg q k) (VObj m) =
    match lookup m (string_of_bytes (utf8 k)) with
    | Some v => [key_result (string_of_bytes (utf8 k)) v]
    | None => []
    end.
  Proof.
    unfold spec_results, key_node. cbn [sp snd fst]. destruct (lookup m (string_of_bytes (utf8 k))) as [v|]; [|reflexivity].
    cbn [map wrap accessor]. unfold key_result. destruct (cfg_accessor cfg); reflexivity.
  Qed.

  Theorem key_addressable q k m v st : (q = 34%N \/ q = 39%N) -> small (VObj m) -> ok st ->
    lookup m (string_of_bytes (utf8 k)) = Some v ->
    exists t, parse (key_path q k) = ParseOk t /\
              fst (eval_run t (VObj m) st) = OOk [key_result (string_of_bytes (utf8 k)) v].
  Proof.
    intros Hq Hs Hok Hl. exists (key_node cfg q k). split; [apply parse_key_path; exact Hq|].
    pose proof (retrieve_end_to_end cfg parse_float regex_ok ffun afun regex_match ffun_small afun_small (key_path q k) (VObj m) st Hs Hok) as H.
    rewrite (parse_key_path cfg parse_float regex_ok q k Hq) in H.
    rewrite spec_key_node, Hl in H.
    destruct (fst (eval_run (key_node cfg q k) (VObj m) st)) as [rs|e|p].
    - destruct H as [H _]. rewrite H. reflexivity.
    - destruct H as [H _]. discriminate.
    - contradiction.
  Qed.

  (* and a key the object does not hold selects nothing: no other member answers to the spelling *)
  Theorem key_absent q k m st : (q = 34%N \/ q = 39%N) -> small (VObj m) -> ok st ->
    lookup m (string_of_bytes (utf8 k)) = None ->
    exists t e, parse (key_path q k) = ParseOk t /\ fst (eval_run t (VObj m) st) = OErr e.
  Proof.
    intros Hq Hs Hok Hl. exists (key_node cfg q k).
    pose proof (retrieve_end_to_end cfg parse_float regex_ok ffun afun regex_match ffun_small afun_small (key_path q k) (VObj m) st Hs Hok) as H.
    rewrite (parse_key_path cfg parse_float regex_ok q k Hq) in H.
    rewrite spec_key_node, Hl in H.
    destruct (fst (eval_run (key_node cfg q k) (VObj m) st)) as [rs|e|p].
    - destruct H as [H1 [H2 _]]. contradiction (H2 H1).
    - exists e. split; [apply parse_key_path; exact Hq|reflexivity].
    - contradiction.
  Qed.
End KeyAddr.
