(* ErrReal.v — the error a failing retrieval reports is a failure that really occurs, and the deepest one (C15).
   `events n root cur` lists, for a failing retrieval, the failure of every branch: for each cursor the
   preceding steps reach (same traversal as the specification Spec.sp: sorted keys, index order, written
   order, pre-order, only the members a filter keeps), the failure of the step applied there — a missing
   key / no match (EMember), a wrong container type with the Go type found (EType), a failed user
   function (EFunc) — each carrying the text of the failing step.
   Theorems: the reported error serr is one of these events; no event lies further along the path
   (shorter remaining text); and a type mismatch is reported only if every event at that depth is a type
   mismatch.  With ErrRefine.retrieve_error this holds for the evaluator model. *)
From JP Require Import Eval WF Spec ErrSpec ErrFacts ErrSelect EvalInv3 ErrRefine.
From Coq Require Import Lia.
Open Scope string_scope.
Open Scope list_scope.

Definition orself (b : basic) (l : list rerr) : list rerr := match l with [] => [EMember b] | _ => l end.

Section Ev.
  Variable ffun : string -> value -> option value.
  Variable afun : string -> list value -> option value.
  Variable regex_match : string -> string -> bool.
  Notation sp := (sp ffun afun regex_match).
  Notation holds := (holds ffun afun regex_match).
  Notation serr := (serr ffun afun regex_match).
  Notation serr_ids := (serr_ids ffun afun regex_match).

  Fixpoint events (n : node) (root : value) (cur : cursor) {struct n} : list rerr :=
    match n with
    | Node k b next =>
        let fwd := fun (cur' : cursor) => match next with OSome nx => events nx root cur' | ONone => [] end in
        let keyf := fun (m : list (string * value)) (key : string) =>
          match lookup m key with
          | None => [EMember b]
          | Some v => fwd (ext_loc (fst cur) (PKey key), v)
          end in
        let idxf := fun (iv : Z * value) => fwd (ext_loc (fst cur) (PIdx (fst iv)), snd iv) in
        match k with
        | KRoot => fwd (Some [], root)
        | KCurrent => fwd cur
        | KSingle key =>
            match snd cur with
            | VObj m => keyf m key
            | v => [EType b "object" (go_type v)]
            end
        | KWild =>
            match snd cur with
            | VObj m => orself b (flat_map (keyf m) (sorted_keys m))
            | VArr xs => orself b (flat_map idxf (index_list xs 0))
            | v => [EType b "object/array" (go_type v)]
            end
        | KMulti ids allWild uq =>
            match snd cur, allWild with
            | VArr _, true => match uq with OSome u => events u root cur | ONone => [] end
            | VObj m, _ => orself b (events_ids ids m root cur)
            | v, _ => [EType b "object" (go_type v)]
            end
        | KRec mapReq listReq =>
            if is_container (snd cur) then
              match next with
              | ONone => []
              | OSome nx =>
                  orself b (flat_map (fun cu => match snd cu with
                                                | VObj _ => if mapReq then events nx root cu else []
                                                | VArr _ => if listReq then events nx root cu else []
                                                | _ => []
                                                end) (containers (fst cur) (snd cur)))
              end
            else [EType b "object/array" (go_type (snd cur))]
        | KUnion subs =>
            match snd cur with
            | VArr xs =>
                orself b
                  (flat_map (fun sub =>
                     match get_indexes sub (Z.of_nat (List.length xs)) with
                     | IOk idxs => flat_map (fun i => match nth_value xs i with
                                                      | Some v => idxf (i, v)
                                                      | None => []
                                                      end) idxs
                     | IPanic => []
                     end) subs)
            | v => [EType b "array" (go_type v)]
            end
        | KFilter q =>
            match snd cur with
            | VObj m =>
                let keys := sorted_keys m in
                let vals := flat_map (fun k => match lookup m k with Some v => [v] | None => [] end) keys in
                orself b (flat_map (fun kb : string * bool => if snd kb then keyf m (fst kb) else [])
                                   (combine keys (holds q root vals)))
            | VArr xs =>
                orself b (flat_map (fun ib : (Z * value) * bool => if snd ib then idxf (fst ib) else [])
                                   (combine (index_list xs 0) (holds q root xs)))
            | v => [EType b "object/array" (go_type v)]
            end
        | KFFun f =>
            match ffun f (snd cur) with
            | None => [EFunc b]
            | Some v => fwd (None, v)
            end
        | KAgg f param =>
            match serr param root cur with
            | Some _ => events param root cur
            | None =>
                let plain := map (fun x => res_value (wrap x)) (sp param root cur) in
                let args := if vgroup (node_basic param) then plain
                            else match plain with VArr xs :: _ => xs | _ => plain end in
                match afun f args with
                | None => [EFunc b]
                | Some v => fwd (None, v)
                end
            end
        end
    end
  with events_ids (ids : nodes) (m : list (string * value)) (root : value) (cur : cursor) {struct ids} : list rerr :=
    match ids with
    | NNil => []
    | NCons id rest =>
        (match node_kind id with
         | KSingle key => match lookup m key with None => [] | Some _ => events id root cur end
         | _ => events id root cur
         end) ++ events_ids rest m root cur
    end.

  (* ---------- one branch: its outcome against its events ---------- *)
  Definition best (e : rerr) (E : list rerr) : Prop :=
    In e E /\ (forall x, In x E -> depth_len e <= depth_len x)%nat /\
    (is_type_err e = true -> forall x, In x E -> depth_len x = depth_len e -> is_type_err x = true).
  Definition positive (E : list rerr) : Prop := forall x, In x E -> (1 <= depth_len x)%nat.
  Definition branch_ok (o : bout) (E : list rerr) : Prop :=
    positive E /\ match o with BOk => True | BNop => E = [] | BErr e => best e E end.

  Inductive brs : list bout -> list rerr -> Prop :=
  | brs_nil : brs [] []
  | brs_cons o E os Es : branch_ok o E -> brs os Es -> brs (o :: os) (E ++ Es).

  Lemma brs_app a Ea b Eb : brs a Ea -> brs b Eb -> brs (a ++ b) (Ea ++ Eb).
  Proof. induction 1 as [|o E os Es Ho _ IH]; intros Hb; cbn [app]; [exact Hb|]. rewrite <- app_assoc. constructor; [exact Ho|apply IH; exact Hb]. Qed.
  Lemma brs_one o E : branch_ok o E -> brs [o] E.
  Proof. intros H. rewrite <- (app_nil_r E). constructor; [exact H|constructor]. Qed.
  Lemma brs_flat_map {A} (f : A -> list bout) (g : A -> list rerr) (l : list A) :
    (forall x, In x l -> brs (f x) (g x)) -> brs (flat_map f l) (flat_map g l).
  Proof.
    induction l as [|x l IH]; intros H; cbn [flat_map]; [constructor|].
    apply brs_app; [apply H; left; reflexivity|apply IH; intros y Hy; apply H; right; exact Hy].
  Qed.
  Lemma brs_map {A} (f : A -> bout) (g : A -> list rerr) (l : list A) :
    (forall x, In x l -> branch_ok (f x) (g x)) -> brs (map f l) (flat_map g l).
  Proof.
    induction l as [|x l IH]; intros H; cbn [map flat_map]; [constructor|].
    constructor; [apply H; left; reflexivity|apply IH; intros y Hy; apply H; right; exact Hy].
  Qed.

  Lemma brs_facts os Es : brs os Es ->
    positive Es /\
    (forall e, In (BErr e) os -> In e Es) /\
    (existsb is_ok os = false ->
     (forall x, In x Es -> exists e, In (BErr e) os /\ (depth_len e <= depth_len x)%nat /\
                                     (is_type_err e = true -> depth_len x = depth_len e -> is_type_err x = true)) /\
     (errs_of os = [] -> Es = [])).
  Proof.
    induction 1 as [|o E os Es [Hpos Ho] _ (IH1 & IH2 & IH3)].
    - split; [intros x []|]. split; [intros e []|]. intros _. split; [intros x []|reflexivity].
    - split; [|split].
      + intros x Hx. apply in_app_or in Hx. destruct Hx as [Hx|Hx]; [apply Hpos|apply IH1]; exact Hx.
      + intros e [He|He]; apply in_or_app.
        * subst o. left. apply Ho.
        * right. apply IH2. exact He.
      + intros Hno. cbn [existsb] in Hno. apply orb_false_iff in Hno. destruct Hno as [Hno1 Hno2].
        destruct (IH3 Hno2) as [IH3a IH3b]. split.
        * intros x Hx. apply in_app_or in Hx. destruct Hx as [Hx|Hx].
          -- destruct o as [|e|]; [discriminate Hno1| |subst E; contradiction].
             exists e. split; [left; reflexivity|]. destruct Ho as (_ & Hmin & Hty). split; [apply Hmin; exact Hx|].
             intros Ht Hd. apply Hty; assumption.
          -- destruct (IH3a x Hx) as (e & He & Hd & Ht). exists e. split; [right; exact He|split; assumption].
        * intros Hn. cbn [errs_of flat_map] in Hn. apply app_eq_nil in Hn. destruct Hn as [Hn1 Hn2].
          fold (errs_of os) in Hn2. rewrite (IH3b Hn2), app_nil_r.
          destruct o as [|e|]; [discriminate Hno1|discriminate Hn1|exact Ho].
  Qed.

  Lemma in_errs_of e os : In e (errs_of os) <-> In (BErr e) os.
  Proof.
    unfold errs_of. rewrite in_flat_map. split.
    - intros [o [Ho He]]. destruct o; cbn in He; try contradiction. destruct He as [<-|[]]. exact Ho.
    - intros H. exists (BErr e). split; [exact H|left; reflexivity].
  Qed.

  (* the error of a failing loop is the best of all events of its branches *)
  Lemma loop_best b os Es e : brs os Es -> (1 <= depth_len (EMember b))%nat ->
    loop_err b os = Some e -> best e (orself b Es) /\ positive (orself b Es).
  Proof.
    intros Hb Hself He. unfold loop_err in He.
    destruct (existsb is_ok os) eqn:Eok; [discriminate|]. inversion He as [He']. clear He.
    destruct (brs_facts os Es Hb) as (Hpos & Hin & Hrest). destruct (Hrest Eok) as [Hcov Hnil]. clear Hrest.
    assert (Hp : positive (errs_of os)) by (intros x Hx; apply Hpos, Hin, in_errs_of; exact Hx).
    pose proof (select_spec (errs_of os) Hp) as Hsel.
    destruct (select (errs_of os)) as [e0|].
    - destruct Hsel as (Hin0 & Hmin & Hty).
      assert (HinEs : In e0 Es) by (apply Hin, in_errs_of; exact Hin0).
      assert (Hor : orself b Es = Es) by (destruct Es; [contradiction|reflexivity]).
      rewrite Hor. split; [|exact Hpos]. repeat split.
      + exact HinEs.
      + intros x Hx. destruct (Hcov x Hx) as (e1 & He1 & Hd1 & _).
        specialize (Hmin e1 (proj2 (in_errs_of e1 os) He1)). lia.
      + intros Ht x Hx Hd. destruct (Hcov x Hx) as (e1 & He1 & Hd1 & Ht1).
        pose proof (Hmin e1 (proj2 (in_errs_of e1 os) He1)) as Hm1.
        assert (Hde : depth_len e1 = depth_len e0) by lia.
        apply Ht1; [apply Hty; [exact Ht|apply in_errs_of; exact He1|exact Hde]|lia].
    - rewrite (Hnil Hsel). cbn [orself]. split.
      + repeat split; [left; reflexivity|intros x [<-|[]]; lia|intros Ht; discriminate].
      + intros x [<-|[]]. exact Hself.
  Qed.
  Lemma loop_branch b os Es : brs os Es -> (1 <= depth_len (EMember b))%nat ->
    branch_ok (of_opt (loop_err b os)) (orself b Es).
  Proof.
    intros Hb Hself. destruct (loop_err b os) as [e|] eqn:El; cbn [of_opt].
    - destruct (loop_best b os Es e Hb Hself El) as [H1 H2]. split; assumption.
    - split; [|exact I]. destruct (brs_facts os Es Hb) as (Hpos & _).
      destruct Es as [|x Es']; cbn [orself]; [intros y [<-|[]]; exact Hself|exact Hpos].
  Qed.

  Lemma branch_single e : (1 <= depth_len e)%nat -> branch_ok (BErr e) [e].
  Proof.
    intros H. split; [intros x [<-|[]]; exact H|]. repeat split; [left; reflexivity|intros x [<-|[]]; lia|].
    intros Ht x [<-|[]] _. exact Ht.
  Qed.
  Lemma branch_ok_nil : branch_ok BOk [].
  Proof. split; [intros x []|exact I]. Qed.
  Lemma branch_nop : branch_ok BNop [].
  Proof. split; [intros x []|reflexivity]. Qed.

  (* ---------- closures of events ---------- *)
  Definition evfwd (next : onode) (root : value) (cur' : cursor) : list rerr :=
    match next with OSome nx => events nx root cur' | ONone => [] end.
  Definition evkey (b : basic) next root (cur : cursor) (m : list (string * value)) (key : string) : list rerr :=
    match lookup m key with
    | None => [EMember b]
    | Some v => evfwd next root (ext_loc (fst cur) (PKey key), v)
    end.
  Definition evidx next root (cur : cursor) (iv : Z * value) : list rerr :=
    evfwd next root (ext_loc (fst cur) (PIdx (fst iv)), snd iv).

  Lemma events_unfold k b next root cur :
    events (Node k b next) root cur =
    match k with
    | KRoot => evfwd next root (Some [], root)
    | KCurrent => evfwd next root cur
    | KSingle key => match snd cur with VObj m => evkey b next root cur m key | v => [EType b "object" (go_type v)] end
    | KWild =>
        match snd cur with
        | VObj m => orself b (flat_map (evkey b next root cur m) (sorted_keys m))
        | VArr xs => orself b (flat_map (evidx next root cur) (index_list xs 0))
        | v => [EType b "object/array" (go_type v)]
        end
    | KMulti ids allWild uq =>
        match snd cur, allWild with
        | VArr _, true => match uq with OSome u => events u root cur | ONone => [] end
        | VObj m, _ => orself b (events_ids ids m root cur)
        | v, _ => [EType b "object" (go_type v)]
        end
    | KRec mapReq listReq =>
        if is_container (snd cur) then
          match next with
          | ONone => []
          | OSome nx =>
              orself b (flat_map (fun cu => match snd cu with
                                            | VObj _ => if mapReq then events nx root cu else []
                                            | VArr _ => if listReq then events nx root cu else []
                                            | _ => []
                                            end) (containers (fst cur) (snd cur)))
          end
        else [EType b "object/array" (go_type (snd cur))]
    | KUnion subs =>
        match snd cur with
        | VArr xs =>
            orself b
              (flat_map (fun sub =>
                 match get_indexes sub (Z.of_nat (List.length xs)) with
                 | IOk idxs => flat_map (fun i => match nth_value xs i with
                                                  | Some v => evidx next root cur (i, v)
                                                  | None => []
                                                  end) idxs
                 | IPanic => []
                 end) subs)
        | v => [EType b "array" (go_type v)]
        end
    | KFilter q =>
        match snd cur with
        | VObj m =>
            let keys := sorted_keys m in
            let vals := flat_map (fun k => match lookup m k with Some v => [v] | None => [] end) keys in
            orself b (flat_map (fun kb : string * bool => if snd kb then evkey b next root cur m (fst kb) else [])
                               (combine keys (holds q root vals)))
        | VArr xs =>
            orself b (flat_map (fun ib : (Z * value) * bool => if snd ib then evidx next root cur (fst ib) else [])
                               (combine (index_list xs 0) (holds q root xs)))
        | v => [EType b "object/array" (go_type v)]
        end
    | KFFun f =>
        match ffun f (snd cur) with
        | None => [EFunc b]
        | Some v => evfwd next root (None, v)
        end
    | KAgg f param =>
        match serr param root cur with
        | Some _ => events param root cur
        | None =>
            let plain := map (fun x => res_value (wrap x)) (sp param root cur) in
            let args := if vgroup (node_basic param) then plain
                        else match plain with VArr xs :: _ => xs | _ => plain end in
            match afun f args with
            | None => [EFunc b]
            | Some v => evfwd next root (None, v)
            end
        end
    end.
  Proof. destruct k; reflexivity. Qed.

  Notation efwd := (efwd ffun afun regex_match).
  Notation ekey := (ekey ffun afun regex_match).
  Notation eidx := (eidx ffun afun regex_match).

  Definition G_node (n : node) : Prop :=
    ctext_ok n = true -> forall root cur, branch_ok (of_opt (serr n root cur)) (events n root cur).
  Definition G_onode (o : onode) : Prop := match o with OSome n => G_node n | ONone => True end.
  Definition G_nodes (ids : nodes) : Prop :=
    ctext_ok_ids ids = true -> forall m root cur, brs (serr_ids ids m root cur) (events_ids ids m root cur).
  Definition G_kind (k : kind) : Prop :=
    match k with
    | KMulti ids _ uq => G_nodes ids /\ G_onode uq
    | KAgg _ param => G_node param
    | _ => True
    end.
  Definition ctext_ok_onode (o : onode) : bool := match o with OSome m => ctext_ok m | ONone => true end.

  Lemma G_fwd next root cur' : G_onode next -> ctext_ok_onode next = true ->
    branch_ok (of_opt (efwd next root cur')) (evfwd next root cur').
  Proof.
    intros IH Hc. unfold ErrRefine.efwd, evfwd. destruct next as [|nx]; [apply branch_ok_nil|]. apply (IH Hc).
  Qed.
  Lemma G_key b next root cur m key : G_onode next -> ctext_ok_onode next = true -> (1 <= depth_len (EMember b))%nat ->
    branch_ok (of_opt (ekey b next root cur m key)) (evkey b next root cur m key).
  Proof.
    intros IH Hc Hb. unfold ErrRefine.ekey, evkey. destruct (lookup m key); [apply G_fwd; assumption|].
    apply branch_single. exact Hb.
  Qed.
  Lemma G_idx next root cur iv : G_onode next -> ctext_ok_onode next = true ->
    branch_ok (of_opt (eidx next root cur iv)) (evidx next root cur iv).
  Proof. intros IH Hc. unfold ErrRefine.eidx, evidx. apply G_fwd; assumption. Qed.

  Lemma nonempty_len s : String.eqb s "" = false -> (1 <= String.length s)%nat.
  Proof. destruct s; [discriminate|cbn; lia]. Qed.

  Lemma node_real k b next : G_kind k -> G_onode next -> G_node (Node k b next).
  Proof.
    intros IHk IHn Hct root cur.
    cbn [ctext_ok] in Hct. apply andb_true_iff in Hct. destruct Hct as [Hct Hnx].
    apply andb_true_iff in Hct. destruct Hct as [Hb Hk]. apply negb_true_iff in Hb. apply nonempty_len in Hb.
    change (match next with OSome m => ctext_ok m | ONone => true end) with (ctext_ok_onode next) in Hnx.
    assert (Hself : forall e, err_basic e = b -> (1 <= depth_len e)%nat) by (intros e He; unfold depth_len; rewrite He; exact Hb).
    rewrite serr_unfold, events_unfold.
    destruct k as [| |key| |ids aw uq|mr lr|subs|q|f|f param].
    - apply G_fwd; assumption.
    - apply G_fwd; assumption.
    - destruct (snd cur); try (apply branch_single; apply Hself; reflexivity).
      apply G_key; try assumption; apply Hself; reflexivity.
    - destruct (snd cur); try (apply branch_single; apply Hself; reflexivity).
      + apply loop_branch; [|apply Hself; reflexivity]. apply brs_map. intros iv _. apply G_idx; assumption.
      + apply loop_branch; [|apply Hself; reflexivity]. apply brs_map. intros key _. apply G_key; try assumption; apply Hself; reflexivity.
    - destruct IHk as [IHids IHuq]. apply andb_true_iff in Hk. destruct Hk as [Hids Huq].
      destruct (snd cur); try (destruct aw; apply branch_single; apply Hself; reflexivity).
      + destruct aw; [|apply branch_single; apply Hself; reflexivity].
        destruct uq as [|u]; [apply branch_ok_nil|]. apply (IHuq Huq).
      + assert (H : branch_ok (of_opt (loop_err b (serr_ids ids m root cur))) (orself b (events_ids ids m root cur))).
        { apply loop_branch; [|apply Hself; reflexivity]. apply (IHids Hids). }
        destruct aw; exact H.
    - destruct (is_container (snd cur)); [|apply branch_single; apply Hself; reflexivity].
      destruct next as [|nx]; [apply branch_ok_nil|].
      apply loop_branch; [|apply Hself; reflexivity]. apply brs_map. intros cu _.
      destruct (snd cu); try apply branch_nop.
      + destruct lr; [apply (IHn Hnx)|apply branch_nop].
      + destruct mr; [apply (IHn Hnx)|apply branch_nop].
    - destruct (snd cur); try (apply branch_single; apply Hself; reflexivity).
      apply loop_branch; [|apply Hself; reflexivity]. apply brs_flat_map. intros sub _.
      destruct (get_indexes sub (Z.of_nat (List.length l))); [|constructor].
      apply brs_flat_map. intros i _. destruct (nth_value l i); [|constructor].
      apply brs_one. apply G_idx; assumption.
    - destruct (snd cur); try (apply branch_single; apply Hself; reflexivity).
      + apply loop_branch; [|apply Hself; reflexivity]. apply brs_flat_map. intros [iv hb] _. cbn [fst snd].
        destruct hb; [|constructor]. apply brs_one. apply G_idx; assumption.
      + cbv zeta. apply loop_branch; [|apply Hself; reflexivity]. apply brs_flat_map. intros [key hb] _. cbn [fst snd].
        destruct hb; [|constructor]. apply brs_one. apply G_key; try assumption; apply Hself; reflexivity.
    - destruct (ffun f (snd cur)); [apply G_fwd; assumption|apply branch_single; apply Hself; reflexivity].
    - pose proof (IHk Hk root cur) as Hp.
      destruct (serr param root cur) as [e|]; [exact Hp|]. cbv zeta.
      match goal with |- context [afun f ?a] => destruct (afun f a) end;
        [apply G_fwd; assumption|apply branch_single; apply Hself; reflexivity].
  Qed.

  Theorem error_is_real :
    (forall n, G_node n) /\ (forall o, G_onode o) /\ (forall k, G_kind k) /\ (forall ns, G_nodes ns) /\
    (forall q : query, True) /\ (forall cp : cparam, True) /\ (forall p : pquery, True).
  Proof.
    apply tree_mutind; try (intros; exact I).
    - intros k IHk b next IHn. apply node_real; assumption.
    - intros n IH. exact IH.
    - intros ids IHids aw uq IHuq. split; assumption.
    - intros f param IH. exact IH.
    - intros _ m root cur. constructor.
    - intros id IHid rest IHrest Hct m root cur.
      cbn [ctext_ok_ids] in Hct. apply andb_true_iff in Hct. destruct Hct as [Hid Hrest].
      change (serr_ids (NCons id rest) m root cur) with
        ((match node_kind id with
          | KSingle key => match lookup m key with None => BNop | Some _ => of_opt (serr id root cur) end
          | _ => of_opt (serr id root cur)
          end) :: serr_ids rest m root cur).
      change (events_ids (NCons id rest) m root cur) with
        ((match node_kind id with
          | KSingle key => match lookup m key with None => [] | Some _ => events id root cur end
          | _ => events id root cur
          end) ++ events_ids rest m root cur).
      constructor; [|apply (IHrest Hrest)].
      destruct (node_kind id); try apply (IHid Hid).
      destruct (lookup m key); [apply (IHid Hid)|apply branch_nop].
  Qed.

  (* the reported error is a failure that really occurs in some branch, no failure lies further along
     the path, and a type mismatch is reported only when every failure at that depth is one *)
  Corollary reported_error_is_best n root cur e : ctext_ok n = true -> serr n root cur = Some e ->
    In e (events n root cur) /\
    (forall x, In x (events n root cur) -> depth_len e <= depth_len x)%nat /\
    (is_type_err e = true -> forall x, In x (events n root cur) -> depth_len x = depth_len e -> is_type_err x = true).
  Proof.
    intros Hct He. pose proof (proj1 error_is_real n Hct root cur) as H. rewrite He in H. cbn [of_opt] in H. apply H.
  Qed.
  (* ---------- every event names a step of the path as written ---------- *)
  Fixpoint basics (n : node) : list basic :=
    match n with
    | Node k b next =>
        b :: (match k with
              | KMulti ids _ uq => basics_ids ids ++ match uq with OSome u => basics u | ONone => [] end
              | KAgg _ param => basics param
              | _ => []
              end) ++ match next with OSome m => basics m | ONone => [] end
    end
  with basics_ids (ids : nodes) : list basic :=
    match ids with NNil => [] | NCons i r => basics i ++ basics_ids r end.

  Definition H_node (n : node) : Prop := forall root cur e, In e (events n root cur) -> In (err_basic e) (basics n).
  Definition H_onode (o : onode) : Prop := match o with OSome n => H_node n | ONone => True end.
  Definition H_nodes (ids : nodes) : Prop := forall m root cur e, In e (events_ids ids m root cur) -> In (err_basic e) (basics_ids ids).
  Definition H_kind (k : kind) : Prop :=
    match k with
    | KMulti ids _ uq => H_nodes ids /\ H_onode uq
    | KAgg _ param => H_node param
    | _ => True
    end.

  Lemma in_orself b l e : In e (orself b l) -> e = EMember b \/ In e l.
  Proof. destruct l; cbn [orself]; [intros [<-|[]]; left; reflexivity|intros H; right; exact H]. Qed.

  Lemma node_basic_in k b next : H_kind k -> H_onode next -> H_node (Node k b next).
  Proof.
    intros IHk IHn root cur e He. rewrite events_unfold in He.
    assert (Hhere : forall x, err_basic x = b -> In (err_basic x) (basics (Node k b next))) by (intros x ->; left; reflexivity).
    assert (Hfwd : forall cur', In e (evfwd next root cur') -> In (err_basic e) (basics (Node k b next))).
    { intros cur' H. unfold evfwd in H. destruct next as [|nx]; [contradiction|].
      cbn [basics]. right. apply in_or_app. right. apply (IHn root cur' e H). }
    assert (Hkey : forall m key, In e (evkey b next root cur m key) -> In (err_basic e) (basics (Node k b next))).
    { intros m key H. unfold evkey in H. destruct (lookup m key); [eapply Hfwd; exact H|]. destruct H as [<-|[]]. apply Hhere. reflexivity. }
    assert (Hsingle : forall x, err_basic x = b -> In e [x] -> In (err_basic e) (basics (Node k b next))) by (intros x Hx [<-|[]]; apply Hhere; exact Hx).
    destruct k as [| |key| |ids aw uq|mr lr|subs|q|f|f param].
    - eapply Hfwd; exact He.
    - eapply Hfwd; exact He.
    - destruct (snd cur); try (eapply Hsingle; [|exact He]; reflexivity). eapply Hkey; exact He.
    - destruct (snd cur); try (eapply Hsingle; [|exact He]; reflexivity).
      + apply in_orself in He. destruct He as [->|He]; [apply Hhere; reflexivity|].
        apply in_flat_map in He. destruct He as [iv [_ He]]. eapply Hfwd; exact He.
      + apply in_orself in He. destruct He as [->|He]; [apply Hhere; reflexivity|].
        apply in_flat_map in He. destruct He as [key [_ He]]. eapply Hkey; exact He.
    - destruct IHk as [IHids IHuq].
      assert (Hobj : forall m, In e (orself b (events_ids ids m root cur)) -> In (err_basic e) (basics (Node (KMulti ids aw uq) b next))).
      { intros m H. apply in_orself in H. destruct H as [->|H]; [apply Hhere; reflexivity|].
        cbn [basics]. right. apply in_or_app. left. apply in_or_app. left. apply (IHids m root cur e H). }
      destruct (snd cur); try (destruct aw; (eapply Hsingle; [|exact He]; reflexivity)).
      + destruct aw; [|eapply Hsingle; [|exact He]; reflexivity].
        destruct uq as [|u]; [destruct He|].
        cbn [basics]. right. apply in_or_app. left. apply in_or_app. right. apply (IHuq root cur e He).
      + destruct aw; eapply Hobj; exact He.
    - destruct (is_container (snd cur)); [|eapply Hsingle; [|exact He]; reflexivity].
      destruct next as [|nx]; [contradiction|].
      apply in_orself in He. destruct He as [->|He]; [apply Hhere; reflexivity|].
      apply in_flat_map in He. destruct He as [cu [_ He]].
      assert (Hnx : In e (events nx root cu) -> In (err_basic e) (basics (Node (KRec mr lr) b (OSome nx)))).
      { intros H. cbn [basics]. right. apply in_or_app. right. apply (IHn root cu e H). }
      destruct (snd cu); try contradiction; [destruct lr|destruct mr]; try contradiction; apply Hnx; exact He.
    - destruct (snd cur); try (eapply Hsingle; [|exact He]; reflexivity).
      apply in_orself in He. destruct He as [->|He]; [apply Hhere; reflexivity|].
      apply in_flat_map in He. destruct He as [sub [_ He]].
      destruct (get_indexes sub (Z.of_nat (List.length l))); [|contradiction].
      apply in_flat_map in He. destruct He as [i [_ He]]. destruct (nth_value l i); [|contradiction].
      eapply Hfwd; exact He.
    - destruct (snd cur); try (eapply Hsingle; [|exact He]; reflexivity).
      + apply in_orself in He. destruct He as [->|He]; [apply Hhere; reflexivity|].
        apply in_flat_map in He. destruct He as [[iv hb] [_ He]]. cbn [fst snd] in He. destruct hb; [|contradiction].
        eapply Hfwd; exact He.
      + cbv zeta in He. apply in_orself in He. destruct He as [->|He]; [apply Hhere; reflexivity|].
        apply in_flat_map in He. destruct He as [[key hb] [_ He]]. cbn [fst snd] in He. destruct hb; [|contradiction].
        eapply Hkey; exact He.
    - destruct (ffun f (snd cur)); [eapply Hfwd; exact He|eapply Hsingle; [|exact He]; reflexivity].
    - destruct (serr param root cur).
      + cbn [basics]. right. apply in_or_app. left. apply (IHk root cur e He).
      + cbv zeta in He.
        match type of He with context [afun f ?a] => destruct (afun f a) end;
          [eapply Hfwd; exact He|eapply Hsingle; [|exact He]; reflexivity].
  Qed.

  Theorem events_name_steps :
    (forall n, H_node n) /\ (forall o, H_onode o) /\ (forall k, H_kind k) /\ (forall ns, H_nodes ns) /\
    (forall q : query, True) /\ (forall cp : cparam, True) /\ (forall p : pquery, True).
  Proof.
    apply tree_mutind; try (intros; exact I).
    - intros k IHk b next IHn. apply node_basic_in; assumption.
    - intros n IH. exact IH.
    - intros ids IHids aw uq IHuq. split; assumption.
    - intros f param IH. exact IH.
    - intros m root cur e [].
    - intros id IHid rest IHrest m root cur e He.
      change (events_ids (NCons id rest) m root cur) with
        ((match node_kind id with
          | KSingle key => match lookup m key with None => [] | Some _ => events id root cur end
          | _ => events id root cur
          end) ++ events_ids rest m root cur) in He.
      cbn [basics_ids]. apply in_or_app. apply in_app_or in He. destruct He as [He|He]; [left|right; apply (IHrest m root cur e He)].
      destruct (node_kind id); try apply (IHid root cur e He).
      destruct (lookup m key); [apply (IHid root cur e He)|contradiction].
  Qed.
End Ev.
