(* PadFun.v — blanks before and after a path of steps, filters and function calls (filter functions and aggregates, in any
   order): the parser builds the very same tree as for the path without the blanks.  The token replay of both texts reaches
   the same stack of nodes; the two closing actions read nothing of the text. *)
From JP Require Import Peg Grammar Slice Text Tree Actions Json Eval WF Spec SortFacts EvalInv1 EvalInv4 EvalTop EndToEnd Codec PegFacts PegMono PegEv FuelRules ParseFacts KeyDefs KeyParse IdxParse SliceParse UnionParse WildParse RecParse ChainParse SpacePath FunParse AggParse Frame FiltParse CmpParse CmpSpace NegFilt LitParse RootOp RegexOp LitLeft QueryParse FiltSpace QuerySpace QueryTree FiltChain FiltFun NoDollarFilt.
From Coq Require Import Lia.
Local Open Scope N_scope.
Open Scope list_scope.

Lemma ev_funs_star_rest fs rest pos : forallb fname_ok fs = true -> (forall p, evG (PRef 8) rest p PFail) ->
  evG (PStar (PRef 8)) (render_funs fs ++ rest) pos (POk rest (pos + List.length (render_funs fs)) (funs_tokens pos fs)).
Proof.
  intros Hs Hr. revert pos Hs. induction fs as [|f r IH]; intros pos Hs.
  - cbn [render_funs flat_map List.length funs_tokens app]. eapply ev_conv; [apply ev_star_stop; apply Hr|f_equal; lia].
  - cbn [forallb] in Hs. apply andb_true_iff in Hs. destruct Hs as [H1 H2].
    unfold render_funs in *. cbn [flat_map funs_tokens]. rewrite app_length, <- app_assoc.
    pose proof (ev_rule8 f (flat_map fun_text r ++ rest) pos H1) as E1.
    assert (Hl : (1 <= List.length (fun_text f))%nat) by (unfold fun_text; cbn [List.length]; lia).
    pose proof (ev_star_step G _ _ _ _ _ _ _ _ _ E1 ltac:(lia) (IH (pos + List.length (fun_text f))%nat H2)) as E2.
    eapply ev_conv; [exact E2|]. f_equal. lia.
Qed.

Lemma funs_blanks_stop fs n : dot_stop (render_funs fs ++ blanks n).
Proof. destruct fs as [|f r]; [apply blanks_stop|]. cbn. repeat split; try reflexivity; discriminate. Qed.
Lemma funs_blanks_rule7_fail fs n : forallb fname_ok fs = true -> forall p, evG (PRef 7) (render_funs fs ++ blanks n) p PFail.
Proof.
  intros Hs p. destruct fs as [|f r]; [apply blanks_rule7_fail|]. cbn [forallb] in Hs. apply andb_true_iff in Hs. destruct Hs as [H1 _].
  unfold render_funs. cbn [flat_map]. rewrite <- app_assoc. apply ev_rule7_fun_fail. exact H1.
Qed.
Lemma blanks_rule8_fail n : forall p, evG (PRef 8) (blanks n) p PFail.
Proof. intros p. destruct n as [|n]; [apply ev_rule8_eof|apply ev_rule8_blank]. Qed.

Definition fpadded_fun_tokens (n1 : nat) (l : list fstep) (fs : list (list N)) : list token :=
  TAct 8 :: fsteps_tokens (n1 + 1) l ++ funs_tokens (n1 + 1 + List.length (render_fsteps l)) fs ++ [TAct 2; TAct 0].

Lemma ev_fpadded_fun_path n1 n2 l fs : forallb fstep_ok l = true -> forallb fname_ok fs = true ->
  evG (PRef 0) (fpadded_fun_path n1 n2 l fs) 0
      (POk [] (n1 + 1 + List.length (render_fsteps l) + List.length (render_funs fs) + n2) (fpadded_fun_tokens n1 l fs)).
Proof.
  intros Hs Hf. unfold fpadded_fun_path, fchain_path, fpadded_fun_tokens. eapply ev_conv.
  - eapply ev_ref; [reflexivity|]. apply ev_alt_l.
    eapply ev_seq_ok; [| |reflexivity].
    + eapply ev_ref; [reflexivity|].
      eapply ev_seq_ok; [apply (ev_space_blanks n1 ((36 :: render_fsteps l) ++ render_funs fs ++ blanks n2) 0); cbn [app]; discriminate| |reflexivity].
      eapply ev_seq_ok; [| |reflexivity].
      * cbn [app]. eapply ev_ref; [reflexivity|]. apply ev_alt_l. eapply ev_ref; [reflexivity|].
        eapply ev_seq_ok; [apply (ev_lit_ok G [36]); apply strip1_ok|apply ev_act|reflexivity].
      * eapply ev_ref; [reflexivity|].
        eapply ev_seq_ok; [apply (ev_fsteps_star l (render_funs fs ++ blanks n2) _ Hs (funs_blanks_stop fs n2) (funs_blanks_rule7_fail fs n2 Hf))| |reflexivity].
        eapply ev_seq_ok; [apply (ev_funs_star_rest fs (blanks n2) _ Hf (blanks_rule8_fail n2))| |reflexivity].
        eapply ev_seq_ok; [|apply ev_act|reflexivity].
        pose proof (ev_space_blanks n2 [] (0 + n1 + 1 + List.length (render_fsteps l) + List.length (render_funs fs)) I) as H. rewrite app_nil_r in H. exact H.
    + eapply ev_seq_ok; [| apply ev_act |reflexivity].
      eapply ev_ref; [reflexivity|]. apply ev_not_ok. apply ev_any_fail.
  - cbn [List.length app Nat.add]. rewrite <- !app_assoc. cbn [app]. f_equal.
Qed.
Lemma peg_fpadded_fun_path n1 n2 l fs : forallb fstep_ok l = true -> forallb fname_ok fs = true ->
  peg_parse G (fpadded_fun_path n1 n2 l fs) =
  POk [] (n1 + 1 + List.length (render_fsteps l) + List.length (render_funs fs) + n2) (fpadded_fun_tokens n1 l fs).
Proof. intros Hs Hf. apply ev_peg_parse; [apply ev_fpadded_fun_path; assumption|apply peg_never_out_of_fuel]. Qed.

Section PadFunExec.
  Variable cfg : config.
  Variable parse_float : string -> option num.
  Variable regex_ok : string -> bool.
  Notation execute := (execute cfg parse_float regex_ok).
  Notation exec_action := (exec_action cfg parse_float regex_ok).

  (* a call `.name()` of a registered function: a filter function when one has the name, else the aggregate *)
  Definition call_ok (f : list N) : bool := fun_known cfg f || agg_known cfg f.
  Definition call_item (f : list N) : item := if fun_known cfg f then INode (fnode cfg f) else INode (anode cfg f).

  Lemma exec_calls input fs rest : forall p ps toks cps b, forallb call_ok fs = true -> skipn p input = render_funs fs ++ rest ->
    exists cps' b', execute (funs_tokens p fs ++ toks) input cps b (mk ps) = execute toks input cps' b' (mk (ps ++ map call_item fs)).
  Proof.
    induction fs as [|f r IH]; intros p ps toks cps b Hs Hin.
    - exists cps, b. cbn [funs_tokens app map]. rewrite app_nil_r. reflexivity.
    - cbn [forallb] in Hs. apply andb_true_iff in Hs. destruct Hs as [H1 H2].
      unfold render_funs in Hin. cbn [flat_map] in Hin. rewrite <- app_assoc in Hin. cbn [funs_tokens]. rewrite <- app_assoc.
      assert (E1 : exists c1 b1, execute (fun_tokens p f ++ funs_tokens (p + List.length (fun_text f)) r ++ toks) input cps b (mk ps) =
                                 execute (funs_tokens (p + List.length (fun_text f)) r ++ toks) input c1 b1 (mk (ps ++ [call_item f]))).
      { unfold call_item. unfold call_ok in H1. destruct (fun_known cfg f) eqn:Ek.
        - exact (exec_fun cfg parse_float regex_ok input p f _ ps _ cps b Ek Hin).
        - cbn [orb] in H1. exact (exec_agg cfg parse_float regex_ok input p f _ ps _ cps b H1 Hin). }
      destruct E1 as (c1 & b1 & E1). rewrite E1.
      destruct (IH (p + List.length (fun_text f))%nat (ps ++ [call_item f]) toks c1 b1 H2 (skipn_next input p _ _ Hin)) as (cps' & b' & E).
      exists cps', b'. rewrite E. cbn [map]. rewrite <- app_assoc. reflexivity.
  Qed.

  Theorem fpadded_fun_same_parse n1 n2 l fs : forallb fstep_ok l = true -> forallb (fstep_okp parse_float regex_ok) l = true ->
    forallb fname_ok fs = true -> forallb call_ok fs = true ->
    parse_with cfg parse_float regex_ok G (fpadded_fun_path n1 n2 l fs) = parse_with cfg parse_float regex_ok G (fchain_fun_path l fs).
  Proof.
    intros Hs Hokp Hf Hk. unfold parse_with, parse_from.
    rewrite (peg_fpadded_fun_path n1 n2 l fs Hs Hf), (peg_fchain_fun_path l fs Hs Hf). unfold fpadded_fun_tokens, fchain_fun_tokens.
    cbn [Actions.execute].
    change (exec_action 8 [] 0 ps_init) with (AOk (mk [INode (Node KRoot (root_basic cfg) ONone)])). cbn [abind].
    (* the padded text *)
    assert (Hsk : skipn (n1 + 1) (fpadded_fun_path n1 n2 l fs) = render_fsteps l ++ render_funs fs ++ blanks n2).
    { unfold fpadded_fun_path, fchain_path. rewrite skipn_add, skipn_app. rewrite (skipn_all2 (blanks n1)) by (rewrite blanks_len; lia).
      rewrite blanks_len, Nat.sub_diag. reflexivity. }
    destruct (exec_fsteps_tail cfg parse_float regex_ok (fpadded_fun_path n1 n2 l fs) l (render_funs fs ++ blanks n2) (n1 + 1) [INode (Node KRoot (root_basic cfg) ONone)]
                (funs_tokens (n1 + 1 + List.length (render_fsteps l)) fs ++ [TAct 2; TAct 0]) [] 0 Hs Hokp Hsk) as (c1 & b1 & E).
    rewrite E. clear E.
    destruct (exec_calls (fpadded_fun_path n1 n2 l fs) fs (blanks n2) _ ([INode (Node KRoot (root_basic cfg) ONone)] ++ map (fun x => INode (fnode_of cfg parse_float x)) l)
                [TAct 2; TAct 0] c1 b1 Hk (skipn_next _ _ _ _ Hsk)) as (c2 & b2 & E).
    rewrite E. clear E.
    (* the text without the blanks *)
    assert (Hsk' : skipn 1 (fchain_fun_path l fs) = render_fsteps l ++ render_funs fs ++ []) by (rewrite app_nil_r; reflexivity).
    destruct (exec_fsteps_tail cfg parse_float regex_ok (fchain_fun_path l fs) l (render_funs fs ++ []) 1 [INode (Node KRoot (root_basic cfg) ONone)]
                (funs_tokens (1 + List.length (render_fsteps l)) fs ++ [TAct 2; TAct 0]) [] 0 Hs Hokp Hsk') as (c1' & b1' & E).
    rewrite E. clear E.
    destruct (exec_calls (fchain_fun_path l fs) fs [] _ ([INode (Node KRoot (root_basic cfg) ONone)] ++ map (fun x => INode (fnode_of cfg parse_float x)) l)
                [TAct 2; TAct 0] c1' b1' Hk (skipn_next _ _ _ _ Hsk')) as (c2' & b2' & E).
    rewrite E. clear E.
    reflexivity.
  Qed.
End PadFunExec.
