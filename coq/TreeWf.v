(* TreeWf.v — the tree editors the parser actions use (append_deep, clear_acc, update_vg, delete_root,
   set_ctext_deep, …) keep syntax trees well formed (WF.wf_node) and keep the value-group flags
   consistent with the node kinds (vgc: every node that can select several values carries the flag;
   hvg: the head of a chain carries it when any node of the chain does). *)
From JP Require Import Tree Actions Eval WF EvalInv3.
Open Scope list_scope.

Fixpoint vgc (n : node) : bool :=
  match n with
  | Node k b next => (single_kind k || vgroup b) && match next with OSome m => vgc m | ONone => true end
  end.
Definition hvg (n : node) : bool := implb (chain_vg n) (vgroup (node_basic n)).

Fixpoint vgc_single (n : node) : vgc n = true -> chain_vg n = false -> single_chain n = true.
Proof.
  destruct n as [k b next]. cbn [vgc chain_vg single_chain]. intros H1 H2.
  apply andb_true_iff in H1. destruct H1 as [Hk Hn]. apply orb_false_iff in H2. destruct H2 as [Hb Hc].
  rewrite Hb, orb_false_r in Hk. rewrite Hk. cbn [andb].
  destruct next as [|m]; [reflexivity|]. apply vgc_single; assumption.
Qed.

Lemma append_deep_eq k b next x :
  append_deep (Node k b next) x =
  Node (match k with
        | KMulti ids aw uq => KMulti (append_ids ids x) aw (match uq with OSome u => OSome (append_deep u x) | ONone => ONone end)
        | _ => k
        end) b (match next with ONone => OSome x | OSome m => OSome (append_deep m x) end).
Proof. reflexivity. Qed.
Lemma clear_acc_eq k b next :
  clear_acc (Node k b next) =
  Node (match k with
        | KMulti ids aw uq => KMulti (clear_ids ids) aw (match uq with OSome u => OSome (clear_acc u) | ONone => ONone end)
        | _ => k
        end) (set_accessor false b) (match next with ONone => ONone | OSome m => OSome (clear_acc m) end).
Proof. reflexivity. Qed.

(* ---------- well-formedness ---------- *)
Section WfEdit.
  Variable x : node.
  Hypothesis Hx : wf_node x = true.

  Definition A_node (n : node) : Prop := wf_node n = true -> wf_node (append_deep n x) = true.
  Definition A_onode (o : onode) : Prop := match o with OSome n => A_node n | ONone => True end.
  Definition A_nodes (ids : nodes) : Prop := wf_nodes ids = true -> wf_nodes (append_ids ids x) = true.
  Definition A_kind (k : kind) : Prop := match k with KMulti ids _ uq => A_nodes ids /\ A_onode uq | _ => True end.

  Lemma wf_append_all :
    (forall n, A_node n) /\ (forall o, A_onode o) /\ (forall k, A_kind k) /\ (forall ns, A_nodes ns) /\
    (forall q : query, True) /\ (forall cp : cparam, True) /\ (forall p : pquery, True).
  Proof.
    apply tree_mutind; try (intros; exact I).
    - intros k IHk b next IHn Hwf. rewrite append_deep_eq. cbn [wf_node] in *.
      apply andb_true_iff in Hwf. destruct Hwf as [Hk Hn]. apply andb_true_iff. split.
      + destruct k as [| |key| |ids aw uq|mr lr|subs|q|f|f param]; try exact Hk.
        * destruct IHk as [IHids IHuq]. apply andb_true_iff in Hk. destruct Hk as [H1 H2].
          apply andb_true_iff. split; [apply IHids; exact H1|].
          destruct uq as [|u]; [exact H2|apply IHuq; exact H2].
        * destruct next; reflexivity.
      + destruct next as [|m]; [exact Hx|apply IHn; exact Hn].
    - intros n IH. exact IH.
    - intros ids IHids aw uq IHuq. split; assumption.
    - intros _. reflexivity.
    - intros id IHid rest IHrest Hwf. cbn [wf_nodes append_ids] in *. apply andb_true_iff in Hwf. destruct Hwf as [H1 H2].
      apply andb_true_iff. split; [apply IHid; exact H1|apply IHrest; exact H2].
  Qed.
End WfEdit.
Lemma wf_append_deep n x : wf_node n = true -> wf_node x = true -> wf_node (append_deep n x) = true.
Proof. intros Hn Hx. exact (proj1 (wf_append_all x Hx) n Hn). Qed.

Definition C_node (n : node) : Prop := wf_node (clear_acc n) = wf_node n.
Definition C_onode (o : onode) : Prop := match o with OSome n => C_node n | ONone => True end.
Definition C_nodes (ids : nodes) : Prop := wf_nodes (clear_ids ids) = wf_nodes ids.
Definition C_kind (k : kind) : Prop := match k with KMulti ids _ uq => C_nodes ids /\ C_onode uq | _ => True end.
Lemma wf_clear_all :
  (forall n, C_node n) /\ (forall o, C_onode o) /\ (forall k, C_kind k) /\ (forall ns, C_nodes ns) /\
  (forall q : query, True) /\ (forall cp : cparam, True) /\ (forall p : pquery, True).
Proof.
  apply tree_mutind; try (intros; exact I).
  - intros k IHk b next IHn. unfold C_node. rewrite clear_acc_eq. cbn [wf_node]. f_equal.
    + destruct k as [| |key| |ids aw uq|mr lr|subs|q|f|f param]; try reflexivity.
      * destruct IHk as [IHids IHuq]. unfold C_nodes in IHids. rewrite IHids. f_equal.
        destruct uq as [|u]; [reflexivity|apply IHuq].
      * destruct next; reflexivity.
    + destruct next as [|m]; [reflexivity|apply IHn].
  - intros n IH. exact IH.
  - intros ids IHids aw uq IHuq. split; assumption.
  - reflexivity.
  - intros id IHid rest IHrest. unfold C_nodes, C_node in *. cbn [clear_ids wf_nodes]. rewrite IHid, IHrest. reflexivity.
Qed.
Lemma wf_clear_acc n : wf_node (clear_acc n) = wf_node n.
Proof. exact (proj1 wf_clear_all n). Qed.

Lemma wf_set_node_vg n : wf_node (set_node_vg n) = wf_node n.
Proof. destruct n as [k b nx]. reflexivity. Qed.
Lemma wf_update_vg n : wf_node (update_vg n) = wf_node n.
Proof. unfold update_vg. destruct (chain_vg n); [apply wf_set_node_vg|reflexivity]. Qed.

Fixpoint wf_delete_root (n : node) : wf_node n = true -> wf_node (delete_root n) = true.
Proof.
  destruct n as [k b next]. intros Hwf.
  destruct k as [| |key| |ids aw uq|mr lr|subs|q|f|f param]; try exact Hwf.
  - cbn [delete_root]. destruct next as [|nx]; [exact Hwf|]. cbn [wf_node] in Hwf.
    destruct (vgroup b); [rewrite wf_set_node_vg|]; exact Hwf.
  - cbn [delete_root]. destruct next as [|nx]; [exact Hwf|]. cbn [wf_node] in Hwf.
    destruct (vgroup b); [rewrite wf_set_node_vg|]; exact Hwf.
  - cbn [delete_root wf_node] in *. apply andb_true_iff in Hwf. destruct Hwf as [H1 H2].
    apply andb_true_iff. split; [apply wf_delete_root; exact H1|exact H2].
Qed.

(* ---------- value-group flags ---------- *)
Fixpoint vgc_append_deep (n x : node) : vgc n = true -> vgc x = true -> vgc (append_deep n x) = true.
Proof.
  destruct n as [k b next]. intros Hn Hx. rewrite append_deep_eq. cbn [vgc] in *.
  apply andb_true_iff in Hn. destruct Hn as [H1 H2]. apply andb_true_iff. split.
  - destruct k; exact H1.
  - destruct next as [|m]; [exact Hx|apply vgc_append_deep; assumption].
Qed.
Fixpoint vgc_clear_acc (n : node) : vgc (clear_acc n) = vgc n.
Proof.
  destruct n as [k b next]. rewrite clear_acc_eq. cbn [vgc]. f_equal.
  - destruct k; reflexivity.
  - destruct next as [|m]; [reflexivity|apply vgc_clear_acc].
Qed.
Fixpoint chain_vg_clear_acc (n : node) : chain_vg (clear_acc n) = chain_vg n.
Proof.
  destruct n as [k b next]. rewrite clear_acc_eq. cbn [chain_vg]. f_equal.
  destruct next as [|m]; [reflexivity|apply chain_vg_clear_acc].
Qed.
Lemma hvg_clear_acc n : hvg (clear_acc n) = hvg n.
Proof. unfold hvg. rewrite chain_vg_clear_acc. destruct n as [k b next]. reflexivity. Qed.
Lemma vgc_set_node_vg n : vgc n = true -> vgc (set_node_vg n) = true.
Proof.
  destruct n as [k b nx]. cbn [set_node_vg vgc]. intros H. apply andb_true_iff in H. destruct H as [_ H2].
  apply andb_true_iff. split; [apply orb_true_r|exact H2].
Qed.
Lemma vgc_update_vg n : vgc n = true -> vgc (update_vg n) = true.
Proof. unfold update_vg. destruct (chain_vg n); [apply vgc_set_node_vg|trivial]. Qed.
Lemma hvg_update_vg n : hvg (update_vg n) = true.
Proof.
  unfold update_vg, hvg. destruct (chain_vg n) eqn:E.
  - destruct n as [k b nx]. cbn [set_node_vg node_basic]. apply implb_true_r || (destruct (chain_vg _); reflexivity).
  - rewrite E. reflexivity.
Qed.
Lemma vgc_delete_root n : vgc n = true -> vgc (delete_root n) = true.
Proof.
  destruct n as [k b next]. intros H.
  destruct k as [| |key| |ids aw uq|mr lr|subs|q|f|f param]; try exact H.
  - cbn [delete_root]. destruct next as [|nx]; [exact H|]. cbn [vgc] in H. apply andb_true_iff in H. destruct H as [_ H].
    destruct (vgroup b); [apply vgc_set_node_vg|]; exact H.
  - cbn [delete_root]. destruct next as [|nx]; [exact H|]. cbn [vgc] in H. apply andb_true_iff in H. destruct H as [_ H].
    destruct (vgroup b); [apply vgc_set_node_vg|]; exact H.
Qed.
Lemma chain_vg_set_node_vg n : chain_vg (set_node_vg n) = true.
Proof. destruct n as [k b nx]. reflexivity. Qed.
Lemma hvg_delete_root n : hvg n = true -> hvg (delete_root n) = true.
Proof.
  destruct n as [k b next]. unfold hvg. intros H.
  destruct k as [| |key| |ids aw uq|mr lr|subs|q|f|f param]; try exact H.
  - cbn [delete_root]. destruct next as [|nx]; [exact H|]. cbn [chain_vg node_basic] in H.
    destruct (vgroup b) eqn:Eb.
    + destruct nx as [k2 b2 n2]. reflexivity.
    + cbn [orb] in H. destruct (chain_vg nx); [discriminate|reflexivity].
  - cbn [delete_root]. destruct next as [|nx]; [exact H|]. cbn [chain_vg node_basic] in H.
    destruct (vgroup b) eqn:Eb.
    + destruct nx as [k2 b2 n2]. reflexivity.
    + cbn [orb] in H. destruct (chain_vg nx); [discriminate|reflexivity].
Qed.

(* ---------- the final pass: remaining-path texts ---------- *)
Fixpoint wf_set_ctext_deep (n : node) (p : string) {struct n} : wf_node (set_ctext_deep n p) = wf_node n
with wf_ctext_ids (ids : nodes) (ct p : string) {struct ids} : wf_nodes (ctext_ids ids ct p) = wf_nodes ids.
Proof.
  - destruct n as [k b next]. cbn [set_ctext_deep]. cbn [wf_node]. f_equal.
    + destruct k as [| |key| |ids aw uq|mr lr|subs|q|f|f param]; try reflexivity.
      * f_equal; [apply wf_ctext_ids|].
        destruct uq as [|[uk ub unx]]; [reflexivity|]. cbn [wf_node].
        f_equal; [destruct uk; try reflexivity; destruct unx; reflexivity|].
        destruct unx as [|m]; [reflexivity|apply wf_set_ctext_deep].
      * destruct next; reflexivity.
      * apply wf_set_ctext_deep.
    + destruct next as [|m]; [reflexivity|apply wf_set_ctext_deep].
  - destruct ids as [|[ik ib inx] r]; [reflexivity|]. cbn [ctext_ids wf_nodes]. f_equal; [|apply wf_ctext_ids].
    cbn [wf_node]. f_equal.
    + destruct ik; try reflexivity. destruct inx; reflexivity.
    + destruct inx as [|m]; [reflexivity|apply wf_set_ctext_deep].
Qed.

(* ---------- accessor flags: function parameters and filter operands carry none ---------- *)
From JP Require Import AccDefs.

Section AccAppend.
  Variable x : node.
  Hypothesis Hx : acc_clean x = true.
  Definition AA_node (n : node) : Prop := acc_clean n = true -> acc_clean (append_deep n x) = true.
  Definition AA_onode (o : onode) : Prop := match o with OSome n => AA_node n | ONone => True end.
  Definition AA_nodes (ids : nodes) : Prop := acc_clean_ids ids = true -> acc_clean_ids (append_ids ids x) = true.
  Definition AA_kind (k : kind) : Prop := match k with KMulti ids _ uq => AA_nodes ids /\ AA_onode uq | _ => True end.
  Lemma acc_append_all :
    (forall n, AA_node n) /\ (forall o, AA_onode o) /\ (forall k, AA_kind k) /\ (forall ns, AA_nodes ns) /\
    (forall q : query, True) /\ (forall cp : cparam, True) /\ (forall p : pquery, True).
  Proof.
    apply tree_mutind; try (intros; exact I).
    - intros k IHk b next IHn H. rewrite append_deep_eq. cbn [acc_clean] in *.
      apply andb_true_iff in H. destruct H as [Hk Hn]. apply andb_true_iff. split.
      + destruct k as [| |key| |ids aw uq|mr lr|subs|q|f|f param]; try exact Hk.
        destruct IHk as [IHids IHuq]. apply andb_true_iff in Hk. destruct Hk as [H1 H2].
        apply andb_true_iff. split; [apply IHids; exact H1|]. destruct uq as [|u]; [exact H2|apply IHuq; exact H2].
      + destruct next as [|m]; [exact Hx|apply IHn; exact Hn].
    - intros n IH. exact IH.
    - intros ids IHids aw uq IHuq. split; assumption.
    - intros _. reflexivity.
    - intros id IHid rest IHrest H. cbn [acc_clean_ids append_ids] in *. apply andb_true_iff in H. destruct H as [H1 H2].
      apply andb_true_iff. split; [apply IHid; exact H1|apply IHrest; exact H2].
  Qed.
End AccAppend.
Lemma acc_clean_append_deep n x : acc_clean n = true -> acc_clean x = true -> acc_clean (append_deep n x) = true.
Proof. intros Hn Hx. exact (proj1 (acc_append_all x Hx) n Hn). Qed.

Definition AC_node (n : node) : Prop := acc_clean n = true -> all_false (clear_acc n) = true.
Definition AC_onode (o : onode) : Prop := match o with OSome n => AC_node n | ONone => True end.
Definition AC_nodes (ids : nodes) : Prop := acc_clean_ids ids = true -> all_false_ids (clear_ids ids) = true.
Definition AC_kind (k : kind) : Prop := match k with KMulti ids _ uq => AC_nodes ids /\ AC_onode uq | _ => True end.
Lemma all_false_clear_all :
  (forall n, AC_node n) /\ (forall o, AC_onode o) /\ (forall k, AC_kind k) /\ (forall ns, AC_nodes ns) /\
  (forall q : query, True) /\ (forall cp : cparam, True) /\ (forall p : pquery, True).
Proof.
  apply tree_mutind; try (intros; exact I).
  - intros k IHk b next IHn H. rewrite clear_acc_eq. cbn [acc_clean all_false] in *.
    apply andb_true_iff in H. destruct H as [Hk Hn].
    apply andb_true_iff. split; [apply andb_true_iff; split; [reflexivity|]|].
    + destruct k as [| |key| |ids aw uq|mr lr|subs|q|f|f param]; try exact Hk; try reflexivity.
      destruct IHk as [IHids IHuq]. apply andb_true_iff in Hk. destruct Hk as [H1 H2].
      apply andb_true_iff. split; [apply IHids; exact H1|]. destruct uq as [|u]; [reflexivity|apply IHuq; exact H2].
    + destruct next as [|m]; [reflexivity|apply IHn; exact Hn].
  - intros n IH. exact IH.
  - intros ids IHids aw uq IHuq. split; assumption.
  - intros _. reflexivity.
  - intros id IHid rest IHrest H. cbn [acc_clean_ids clear_ids all_false_ids] in *. apply andb_true_iff in H. destruct H as [H1 H2].
    apply andb_true_iff. split; [apply IHid; exact H1|apply IHrest; exact H2].
Qed.
Lemma all_false_clear_acc n : acc_clean n = true -> all_false (clear_acc n) = true.
Proof. exact (proj1 all_false_clear_all n). Qed.

Definition FC_node (n : node) : Prop := all_false n = true -> acc_clean n = true.
Definition FC_onode (o : onode) : Prop := match o with OSome n => FC_node n | ONone => True end.
Definition FC_nodes (ids : nodes) : Prop := all_false_ids ids = true -> acc_clean_ids ids = true.
Definition FC_kind (k : kind) : Prop := match k with KMulti ids _ uq => FC_nodes ids /\ FC_onode uq | _ => True end.
Lemma all_false_clean_all :
  (forall n, FC_node n) /\ (forall o, FC_onode o) /\ (forall k, FC_kind k) /\ (forall ns, FC_nodes ns) /\
  (forall q : query, True) /\ (forall cp : cparam, True) /\ (forall p : pquery, True).
Proof.
  apply tree_mutind; try (intros; exact I).
  - intros k IHk b next IHn H. cbn [acc_clean all_false] in *.
    apply andb_true_iff in H. destruct H as [H Hn]. apply andb_true_iff in H. destruct H as [_ Hk].
    apply andb_true_iff. split.
    + destruct k as [| |key| |ids aw uq|mr lr|subs|q|f|f param]; try exact Hk.
      destruct IHk as [IHids IHuq]. apply andb_true_iff in Hk. destruct Hk as [H1 H2].
      apply andb_true_iff. split; [apply IHids; exact H1|]. destruct uq as [|u]; [reflexivity|apply IHuq; exact H2].
    + destruct next as [|m]; [reflexivity|apply IHn; exact Hn].
  - intros n IH. exact IH.
  - intros ids IHids aw uq IHuq. split; assumption.
  - intros _. reflexivity.
  - intros id IHid rest IHrest H. cbn [acc_clean_ids all_false_ids] in *. apply andb_true_iff in H. destruct H as [H1 H2].
    apply andb_true_iff. split; [apply IHid; exact H1|apply IHrest; exact H2].
Qed.
Lemma all_false_acc_clean n : all_false n = true -> acc_clean n = true.
Proof. exact (proj1 all_false_clean_all n). Qed.

Lemma acc_clean_set_node_vg n : acc_clean (set_node_vg n) = acc_clean n.
Proof. destruct n as [k b nx]. reflexivity. Qed.
Lemma acc_clean_update_vg n : acc_clean (update_vg n) = acc_clean n.
Proof. unfold update_vg. destruct (chain_vg n); [apply acc_clean_set_node_vg|reflexivity]. Qed.
Lemma all_false_set_node_vg n : all_false (set_node_vg n) = all_false n.
Proof. destruct n as [k b nx]. reflexivity. Qed.

Fixpoint acc_clean_delete_root (n : node) : acc_clean n = true -> acc_clean (delete_root n) = true.
Proof.
  destruct n as [k b next]. intros H.
  destruct k as [| |key| |ids aw uq|mr lr|subs|q|f|f param]; try exact H.
  - cbn [delete_root]. destruct next as [|nx]; [exact H|]. cbn [acc_clean andb] in H.
    destruct (vgroup b); [rewrite acc_clean_set_node_vg|]; exact H.
  - cbn [delete_root]. destruct next as [|nx]; [exact H|]. cbn [acc_clean andb] in H.
    destruct (vgroup b); [rewrite acc_clean_set_node_vg|]; exact H.
  - cbn [delete_root acc_clean] in *. apply andb_true_iff in H. destruct H as [H1 H2].
    apply andb_true_iff. split; [|exact H2].
    (* the parameter of an aggregate is all_false; deleting its root keeps that *)
    revert H1. generalize param. fix IH 1. intros p Hp. destruct p as [pk pb pnx].
    destruct pk as [| |key| |ids aw uq|mr lr|subs|q|f2|f2 param2]; try exact Hp.
    + cbn [delete_root]. destruct pnx as [|nx]; [exact Hp|]. cbn [all_false] in Hp.
      apply andb_true_iff in Hp. destruct Hp as [_ Hp]. destruct (vgroup pb); [rewrite all_false_set_node_vg|]; exact Hp.
    + cbn [delete_root]. destruct pnx as [|nx]; [exact Hp|]. cbn [all_false] in Hp.
      apply andb_true_iff in Hp. destruct Hp as [_ Hp]. destruct (vgroup pb); [rewrite all_false_set_node_vg|]; exact Hp.
    + cbn [delete_root all_false] in *. apply andb_true_iff in Hp. destruct Hp as [Hp Hn]. apply andb_true_iff in Hp. destruct Hp as [Ha Hq].
      rewrite Ha, Hn, (IH param2 Hq). reflexivity.
Qed.

Fixpoint all_false_set_ctext_deep (n : node) (p : string) {struct n} : all_false (set_ctext_deep n p) = all_false n
with all_false_ctext_ids (ids : nodes) (ct p : string) {struct ids} : all_false_ids (ctext_ids ids ct p) = all_false_ids ids.
Proof.
  - destruct n as [k b next]. cbn [set_ctext_deep]. cbn [all_false]. f_equal; [f_equal|].
    + destruct k as [| |key| |ids aw uq|mr lr|subs|q|f|f param]; try reflexivity.
      * f_equal; [apply all_false_ctext_ids|].
        destruct uq as [|[uk ub unx]]; [reflexivity|]. cbn [all_false].
        f_equal. destruct unx as [|m]; [reflexivity|apply all_false_set_ctext_deep].
      * apply all_false_set_ctext_deep.
    + destruct next as [|m]; [reflexivity|apply all_false_set_ctext_deep].
  - destruct ids as [|[ik ib inx] r]; [reflexivity|]. cbn [ctext_ids all_false_ids]. f_equal; [|apply all_false_ctext_ids].
    cbn [all_false]. f_equal. destruct inx as [|m]; [reflexivity|apply all_false_set_ctext_deep].
Qed.

Fixpoint acc_clean_set_ctext_deep (n : node) (p : string) {struct n} : acc_clean (set_ctext_deep n p) = acc_clean n
with acc_clean_ctext_ids (ids : nodes) (ct p : string) {struct ids} : acc_clean_ids (ctext_ids ids ct p) = acc_clean_ids ids.
Proof.
  - destruct n as [k b next]. cbn [set_ctext_deep]. cbn [acc_clean]. f_equal.
    + destruct k as [| |key| |ids aw uq|mr lr|subs|q|f|f param]; try reflexivity.
      * f_equal; [apply acc_clean_ctext_ids|].
        destruct uq as [|[uk ub unx]]; [reflexivity|]. cbn [acc_clean].
        f_equal. destruct unx as [|m]; [reflexivity|apply acc_clean_set_ctext_deep].
      * apply all_false_set_ctext_deep.
    + destruct next as [|m]; [reflexivity|apply acc_clean_set_ctext_deep].
  - destruct ids as [|[ik ib inx] r]; [reflexivity|]. cbn [ctext_ids acc_clean_ids]. f_equal; [|apply acc_clean_ctext_ids].
    cbn [acc_clean]. f_equal. destruct inx as [|m]; [reflexivity|apply acc_clean_set_ctext_deep].
Qed.
