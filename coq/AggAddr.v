(* AggAddr.v — an aggregate function after the steps, from the path text: `$` steps `.g()` `.f()`... calls g exactly once,
   with all the values the steps reach in the order they reach them (or with the elements of the single array when the
   steps are a single-valued path and reach an array), never when they reach nothing; its return value becomes the
   single result, to which the filter functions that follow apply left to right. *)
From JP Require Import Peg Grammar Slice Text Tree Actions Json Eval WF Spec SortFacts EvalInv1 EvalInv4 EvalTop EndToEnd Codec KeyDefs KeyParse IdxParse SliceParse UnionParse WildParse RecParse ChainParse SpacePath FunParse AggParse ChainAddr FunAddr CallDefs SpecCalls SpecCallsCompose StackRules.
From Coq Require Import Lia.
Open Scope list_scope.

(* what the aggregate receives *)
Definition agg_input (steps : list rstep) (doc : value) : list value :=
  let vals := map snd (nav_all steps ([], doc)) in
  if steps_vg steps then vals else match vals with VArr xs :: _ => xs | _ => vals end.

Section AggAddr.
  Variable cfg : config.
  Variable parse_float : string -> option num.
  Variable regex_ok : string -> bool.
  Variable ffun : string -> value -> option value.
  Variable afun : string -> list value -> option value.
  Variable regex_match : string -> string -> bool.
  Hypothesis ffun_small : forall f v w, small v -> ffun f v = Some w -> small w.
  Hypothesis afun_small : forall f l w, Forall small l -> afun f l = Some w -> small w.
  Notation parse := (parse_with cfg parse_float regex_ok jsonpath_grammar).
  Notation eval_run := (eval_run ffun afun regex_match).
  Notation sp := (sp ffun afun regex_match).
  Notation sc := (sc ffun afun regex_match).
  Notation plainl := (Forall (fun kb : kind * basic => plain_kind (fst kb))).

  Lemma finp_pres p x r : exists b1 b2, finp p (cl (pres cfg (x :: r))) = OSome (seg x b1 b2 (finp p (cl (pres cfg r)))) /\ accessor b2 = false.
  Proof.
    unfold pres. cbn [flat_map]. unfold cl. rewrite map_app. destruct x as [s|s]; cbn [rstep_pre map app finp fst snd ChainAddr.seg]; [eexists (pre_basic cfg s), _|eexists _, _]; split; reflexivity.
  Qed.
  Lemma param_seg p x r : exists b1 b2, param_of p (pres cfg (x :: r)) = seg x b1 b2 (finp p (cl (pres cfg r))) /\ accessor b2 = false.
  Proof.
    unfold pres. cbn [flat_map]. destruct x as [s|s]; cbn [rstep_pre app param_of fst snd ChainAddr.seg cl map finp]; [eexists (pre_basic cfg s), _|eexists _, _]; split; reflexivity.
  Qed.

  Lemma sp_chain_p p : forall r x b1 b2, forallb rstep_ok (x :: r) = true -> accessor b2 = false ->
    exists B, accessor B = false /\ forall root q v, small v ->
      sp (seg x b1 b2 (finp p (cl (pres cfg r)))) root (Some q, v) =
      map (fun lv => (B, true, (Some (fst lv), snd lv))) (nav_all (x :: r) (q, v)).
  Proof.
    induction r as [|y r IH]; intros x b1 b2 Hs Hb; cbn [forallb] in Hs; apply andb_true_iff in Hs; destruct Hs as [H1 H2].
    - exists b2. split; [exact Hb|]. intros root q v Hsm. change (finp p (cl (pres cfg []))) with ONone. rewrite (sp_seg ffun afun regex_match) by assumption.
      cbn [nav_all]. rewrite <- flat_map_single, flat_map_flat_map. apply flat_map_ext'. intros lv. reflexivity.
    - destruct (finp_pres p y r) as (c1 & c2 & Ef & Hc). destruct (IH y c1 c2 H2 Hc) as (B & HB & Hsp).
      exists B. split; [exact HB|]. intros root q v Hsm. rewrite Ef, (sp_seg ffun afun regex_match) by assumption.
      cbn [nav_all]. rewrite map_flat_map'. apply flat_map_ext_in'. intros [l z] Hin. unfold ChainAddr.fwd. cbn [fst snd]. apply Hsp.
      pose proof (nav1r_small x q v Hsm) as Hn. rewrite Forall_forall in Hn. exact (Hn (l, z) Hin).
  Qed.

  Lemma param_vg p x r : vgroup (node_basic (param_of p (pres cfg (x :: r)))) = steps_vg (x :: r).
  Proof.
    rewrite <- (pres_vg cfg). unfold param_of. destruct (pres cfg (x :: r)) as [|y l] eqn:E.
    - exfalso. unfold pres in E. cbn [flat_map] in E. destruct x as [s|s]; discriminate E.
    - reflexivity.
  Qed.

  Lemma sp_agg g P b next root cur : sp (Node (KAgg g P) b next) root cur =
    match sp P root cur with
    | [] => []
    | _ :: _ =>
        match afun g (agg_args ffun afun regex_match P root cur) with
        | Some v => match next with OSome nx => sp nx root (None, v) | ONone => [(b, false, (None, v))] end
        | None => []
        end
    end.
  Proof. unfold agg_args. destruct next; reflexivity. Qed.

  Lemma param_args p x r doc : forallb rstep_ok (x :: r) = true -> small doc ->
    sp (param_of p (pres cfg (x :: r))) doc (Some [], doc) = [] <-> nav_all (x :: r) ([], doc) = [].
  Proof.
    intros Hs Hd. destruct (param_seg p x r) as (b1 & b2 & En & Hb). destruct (sp_chain_p p r x b1 b2 Hs Hb) as (B & HB & Hsp).
    rewrite En, Hsp by exact Hd. split; intros H; [apply map_eq_nil in H; exact H|].
    apply (f_equal (map (fun lv : list pstep * value => (B, true, (Some (fst lv), snd lv))))) in H. exact H.
  Qed.
  Lemma args_eq (vg : bool) (F : list pstep * value -> value) (L : list (list pstep * value)) : (forall lv, F lv = snd lv) ->
    (if vg then map F L else match map F L with VArr xs :: _ => xs | _ => map F L end) =
    (if vg then map snd L else match map snd L with VArr xs :: _ => xs | _ => map snd L end).
  Proof. intros H. rewrite (map_ext F snd H). reflexivity. Qed.
  Lemma param_agg_args p x r doc : forallb rstep_ok (x :: r) = true -> small doc ->
    agg_args ffun afun regex_match (param_of p (pres cfg (x :: r))) doc (Some [], doc) = agg_input (x :: r) doc.
  Proof.
    intros Hs Hd. unfold agg_args, agg_input. rewrite param_vg.
    destruct (param_seg p x r) as (b1 & b2 & En & Hb). destruct (sp_chain_p p r x b1 b2 Hs Hb) as (B & HB & Hsp).
    rewrite En, Hsp by exact Hd. rewrite map_map.
    apply args_eq. intros [l z]. cbn [wrap fst snd]. rewrite HB. reflexivity.
  Qed.

  (* the filter functions after the aggregate, applied to its result *)
  Lemma sp_tail_funs : forall fs b, accessor b = cfg_accessor cfg ->
    exists B, accessor B = cfg_accessor cfg /\ forall root v,
      match fin (fpres cfg fs) with OSome nx => sp nx root (None, v) | ONone => [(b, false, (None, v))] end =
      match apply_funs ffun fs v with Some w => [(B, false, (None, w))] | None => [] end.
  Proof.
    intros [|f fs] b Hb.
    - exists b. split; [exact Hb|]. intros root v. reflexivity.
    - destruct (fin_fpres cfg f fs) as (c & Ef & Hc). destruct (sp_funs cfg ffun afun regex_match fs f c Hc) as (B & HB & Hsp).
      exists B. split; [exact HB|]. intros root v. rewrite Ef, Hsp. reflexivity.
  Qed.

  Definition agg_outcome (x : rstep) (r : list rstep) (g : list N) (fs : list (list N)) (doc : value) : option value :=
    match nav_all (x :: r) ([], doc) with
    | [] => None
    | _ :: _ => match afun (text_of g) (agg_input (x :: r) doc) with Some v => apply_funs ffun fs v | None => None end
    end.

  Lemma spec_chain_agg x r g fs doc : forallb rstep_ok (x :: r) = true -> small doc ->
    spec_results ffun afun regex_match (chain_agg_node cfg (x :: r) g fs) doc =
    match agg_outcome x r g fs doc with Some w => [fun_result cfg w] | None => [] end.
  Proof.
    intros Hs Hd. unfold spec_results, chain_agg_node, agg_outcome. rewrite sp_agg.
    pose proof (param_args (agg_ctext cfg g fs) x r doc Hs Hd) as Hn.
    rewrite (param_agg_args (agg_ctext cfg g fs) x r doc Hs Hd).
    destruct (sp (param_of (agg_ctext cfg g fs) (pres cfg (x :: r))) doc (Some [], doc)) as [|a0 l0].
    - rewrite (proj1 Hn eq_refl). reflexivity.
    - destruct (nav_all (x :: r) ([], doc)) as [|a1 l1]; [discriminate (proj2 Hn eq_refl)|].
      destruct (afun (text_of g) (agg_input (x :: r) doc)) as [v|]; [|reflexivity].
      destruct (sp_tail_funs fs (set_ctext (agg_ctext cfg g fs) (agg_basic cfg g)) eq_refl) as (B & HB & Ht).
      rewrite Ht. destruct (apply_funs ffun fs v) as [w|]; [|reflexivity]. cbn [map wrap fst snd]. rewrite HB. unfold fun_result. destruct (cfg_accessor cfg); reflexivity.
  Qed.

  Theorem chain_agg_retrieval x r g fs doc st : forallb rstep_ok (x :: r) = true -> forallb fname_ok (g :: fs) = true ->
    agg_known cfg g = true -> forallb (fun_known cfg) fs = true -> small doc -> ok st ->
    exists t, parse (chain_fun_path (x :: r) (g :: fs)) = ParseOk t /\
              match agg_outcome x r g fs doc with
              | Some w => fst (eval_run t doc st) = OOk [fun_result cfg w]
              | None => exists e, fst (eval_run t doc st) = OErr e
              end.
  Proof.
    intros Hs Hf Hg Hk Hd Hok. exists (chain_agg_node cfg (x :: r) g fs).
    pose proof (parse_chain_agg_path cfg parse_float regex_ok x r g fs Hs Hf Hg Hk) as Hp. split; [exact Hp|].
    pose proof (retrieve_end_to_end cfg parse_float regex_ok ffun afun regex_match ffun_small afun_small (chain_fun_path (x :: r) (g :: fs)) doc st Hd Hok) as H.
    rewrite Hp in H. rewrite (spec_chain_agg x r g fs doc Hs Hd) in H.
    destruct (agg_outcome x r g fs doc) as [w|].
    - destruct (fst (eval_run (chain_agg_node cfg (x :: r) g fs) doc st)) as [rs|e|pn].
      + destruct H as [H _]. rewrite H. reflexivity.
      + destruct H as [H _]. discriminate.
      + contradiction.
    - destruct (fst (eval_run (chain_agg_node cfg (x :: r) g fs) doc st)) as [rs|e|pn].
      + destruct H as [H1 [H2 _]]. contradiction (H2 H1).
      + exists e. reflexivity.
      + contradiction.
  Qed.

  (* ---------- the calls ---------- *)
  Definition nocall (k : kind) : Prop := match k with KMulti _ _ _ | KFilter _ | KAgg _ _ | KFFun _ => False | _ => True end.
  Lemma finp_cf p l : Forall (fun kb => nocall (fst kb)) l -> (match finp p l with OSome m => call_free m | ONone => true end) = true.
  Proof.
    induction l as [|y l IH]; intros H; [reflexivity|]. inversion H as [|? ? Hy Hl]; subst. cbn [finp call_free].
    rewrite (IH Hl). destruct (fst y); try contradiction; reflexivity.
  Qed.
  Lemma pres_nocall steps : Forall (fun kb => nocall (fst kb)) (pres cfg steps).
  Proof.
    induction steps as [|x r IH]; [constructor|]. unfold pres. cbn [flat_map]. apply Forall_app. split; [|exact IH].
    destruct x as [s|s]; cbn [rstep_pre]; repeat constructor; destruct s as [q k|k|ds|[|]|sa sb sc0|u us]; exact I.
  Qed.
  Lemma cl_nocall l : Forall (fun kb => nocall (fst kb)) l -> Forall (fun kb => nocall (fst kb)) (cl l).
  Proof. intros H. induction H as [|y l Hy Hl IH]; constructor; [exact Hy|exact IH]. Qed.
  Lemma param_cf p x r : call_free (param_of p (pres cfg (x :: r))) = true.
  Proof.
    pose proof (pres_nocall (x :: r)) as H. unfold param_of. destruct (pres cfg (x :: r)) as [|y l]; [reflexivity|].
    inversion H as [|? ? Hy Hl]; subst. cbn [call_free]. rewrite (finp_cf p (cl l) (cl_nocall l Hl)). destruct (fst y); try contradiction; reflexivity.
  Qed.

  Lemma cfwd_tail_funs fs root v : cfwd ffun afun regex_match (fin (fpres cfg fs)) root (None, v) = fun_calls ffun fs v.
  Proof.
    destruct fs as [|f fs]; [reflexivity|]. destruct (fin_fpres cfg f fs) as (c & Ef & _). rewrite Ef. unfold cfwd.
    apply (sc_funs cfg ffun afun regex_match).
  Qed.

  Definition agg_calls (x : rstep) (r : list rstep) (g : list N) (fs : list (list N)) (doc : value) : list call :=
    match nav_all (x :: r) ([], doc) with
    | [] => []
    | _ :: _ => CallA (text_of g) (agg_input (x :: r) doc) ::
                match afun (text_of g) (agg_input (x :: r) doc) with Some v => fun_calls ffun fs v | None => [] end
    end.

  Lemma sc_chain_agg x r g fs doc : forallb rstep_ok (x :: r) = true -> small doc ->
    sc (chain_agg_node cfg (x :: r) g fs) doc (Some [], doc) = agg_calls x r g fs doc.
  Proof.
    intros Hs Hd. unfold chain_agg_node, agg_calls. rewrite sc_unfold.
    rewrite (proj2 (proj1 (call_free_nocalls ffun afun regex_match) _ (param_cf (agg_ctext cfg g fs) x r))). cbn [app].
    pose proof (param_args (agg_ctext cfg g fs) x r doc Hs Hd) as Hn. cbv zeta.
    rewrite (param_agg_args (agg_ctext cfg g fs) x r doc Hs Hd).
    destruct (sp (param_of (agg_ctext cfg g fs) (pres cfg (x :: r))) doc (Some [], doc)) as [|a0 l0].
    - rewrite (proj1 Hn eq_refl). reflexivity.
    - destruct (nav_all (x :: r) ([], doc)) as [|a1 l1]; [discriminate (proj2 Hn eq_refl)|].
      destruct (afun (text_of g) (agg_input (x :: r) doc)) as [v|]; [|reflexivity]. rewrite cfwd_tail_funs. reflexivity.
  Qed.

  Lemma chain_agg_node_fcf x r g fs : filters_call_free (chain_agg_node cfg (x :: r) g fs) = true.
  Proof.
    unfold chain_agg_node. cbn [filters_call_free].
    rewrite (proj1 (proj1 (call_free_nocalls ffun afun regex_match) _ (param_cf (agg_ctext cfg g fs) x r))).
    rewrite (fin_fcf (fpres cfg fs) (fpres_nofilter cfg fs)). reflexivity.
  Qed.

  (* the aggregate is called exactly once, with all the values the steps reach, and not at all when they reach nothing;
     the filter functions after it see its result, left to right *)
  Theorem chain_agg_calls x r g fs doc st : forallb rstep_ok (x :: r) = true -> forallb fname_ok (g :: fs) = true ->
    agg_known cfg g = true -> forallb (fun_known cfg) fs = true -> small doc -> ok st ->
    exists t, parse (chain_fun_path (x :: r) (g :: fs)) = ParseOk t /\
              calls (snd (eval_run t doc st)) = calls st ++ agg_calls x r g fs doc.
  Proof.
    intros Hs Hf Hg Hk Hd Hok. exists (chain_agg_node cfg (x :: r) g fs).
    pose proof (parse_chain_agg_path cfg parse_float regex_ok x r g fs Hs Hf Hg Hk) as Hp. split; [exact Hp|].
    rewrite (eval_call_log ffun afun regex_match ffun_small afun_small _ doc st (parse_builds_wf cfg parse_float regex_ok _ _ Hp) (chain_agg_node_fcf x r g fs) Hd Hok).
    rewrite (sc_chain_agg x r g fs doc Hs Hd). reflexivity.
  Qed.
End AggAddr.
