(* EraseParse.v — accessor mode only sets flags in the parser (C12): running the actions with accessor mode off
   on the flag-erased parameter stack gives the flag-erased result of running them with accessor mode on, action by
   action; hence Parse in plain mode returns exactly the flag-erased tree of Parse in accessor mode (and the
   same error otherwise). *)
From JP Require Import Peg Grammar Text Tree Actions Eval WF AccDefs.
Open Scope string_scope.
Open Scope list_scope.

Definition erase_cp (c : cparam) : cparam := match c with CP p l => CP (erase_p p) l end.
Definition erase_item (x : item) : item :=
  match x with
  | INode n => INode (erase n)
  | IQuery q => IQuery (erase_q q)
  | IPQ p => IPQ (erase_p p)
  | ICParam c => ICParam (erase_cp c)
  | other => other
  end.
Definition erase_st (st : pstate) : pstate :=
  {| params := map erase_item (params st); saved := map (map erase_item) (saved st); proot := option_map erase (proot st) |}.
Definition amap (r : ares pstate) : ares pstate :=
  match r with AOk s => AOk (erase_st s) | AErr e => AErr e | ACrash s => ACrash s end.
Definition plain_cfg (cfg : config) : config :=
  {| cfg_filters := cfg_filters cfg; cfg_aggs := cfg_aggs cfg; cfg_accessor := false |}.

(* ---------- erase commutes with the tree editors ---------- *)
Lemma erase_eq k b next :
  erase (Node k b next) =
  Node (match k with
        | KMulti ids aw uq => KMulti (erase_ids ids) aw (match uq with OSome u => OSome (erase u) | ONone => ONone end)
        | KFilter q => KFilter (erase_q q)
        | KAgg f p => KAgg f (erase p)
        | other => other
        end) (erase_b b) (match next with OSome m => OSome (erase m) | ONone => ONone end).
Proof. reflexivity. Qed.

Fixpoint erase_append (n x : node) {struct n} : erase (append_deep n x) = append_deep (erase n) (erase x)
with erase_ids_append (ids : nodes) (x : node) {struct ids} : erase_ids (append_ids ids x) = append_ids (erase_ids ids) (erase x).
Proof.
  - destruct n as [k b next]. cbn [append_deep]. rewrite !erase_eq. cbn [append_deep]. f_equal.
    + destruct k as [| |key| |ids aw uq|mr lr|subs|q|f|f param]; try reflexivity.
      f_equal; [apply erase_ids_append|]. destruct uq as [|u]; [reflexivity|]. f_equal. apply erase_append.
    + destruct next as [|m]; [reflexivity|]. f_equal. apply erase_append.
  - destruct ids as [|i r]; [reflexivity|]. cbn [append_ids erase_ids]. f_equal; [apply erase_append|apply erase_ids_append].
Qed.

Lemma clear_acc_eq' k b next :
  clear_acc (Node k b next) =
  Node (match k with
        | KMulti ids aw uq => KMulti (clear_ids ids) aw (match uq with OSome u => OSome (clear_acc u) | ONone => ONone end)
        | _ => k
        end) (set_accessor false b) (match next with ONone => ONone | OSome m => OSome (clear_acc m) end).
Proof. reflexivity. Qed.

(* erasing subsumes clearing *)
Fixpoint erase_clear (n : node) {struct n} : erase (clear_acc n) = erase n
with erase_ids_clear (ids : nodes) {struct ids} : erase_ids (clear_ids ids) = erase_ids ids.
Proof.
  - destruct n as [k b next]. rewrite clear_acc_eq', !erase_eq.
    assert (Hb : erase_b (set_accessor false b) = erase_b b) by (destruct b; reflexivity). rewrite Hb.
    assert (Hn : (match (match next with ONone => ONone | OSome m => OSome (clear_acc m) end) with
                  | OSome m => OSome (erase m) | ONone => ONone end)
                 = (match next with OSome m => OSome (erase m) | ONone => ONone end)).
    { destruct next as [|m]; [reflexivity|]. f_equal. apply erase_clear. }
    rewrite Hn. f_equal.
    destruct k as [| |key| |ids aw uq|mr lr|subs|q|f|f param]; try reflexivity.
    f_equal; [apply erase_ids_clear|]. destruct uq as [|u]; [reflexivity|]. f_equal. apply erase_clear.
  - destruct ids as [|i r]; [reflexivity|]. cbn [clear_ids erase_ids]. f_equal; [apply erase_clear|apply erase_ids_clear].
Qed.
Fixpoint clear_erase (n : node) {struct n} : clear_acc (erase n) = erase n
with clear_ids_erase (ids : nodes) {struct ids} : clear_ids (erase_ids ids) = erase_ids ids.
Proof.
  - destruct n as [k b next]. rewrite erase_eq, clear_acc_eq'.
    assert (Hn : (match (match next with OSome m => OSome (erase m) | ONone => ONone end) with
                  | ONone => ONone | OSome m => OSome (clear_acc m) end)
                 = (match next with OSome m => OSome (erase m) | ONone => ONone end)).
    { destruct next as [|m]; [reflexivity|]. f_equal. apply clear_erase. }
    rewrite Hn. f_equal.
    destruct k as [| |key| |ids aw uq|mr lr|subs|q|f|f param]; try reflexivity.
    f_equal; [apply clear_ids_erase|]. destruct uq as [|u]; [reflexivity|]. f_equal. apply clear_erase.
  - destruct ids as [|i r]; [reflexivity|]. cbn [clear_ids erase_ids]. f_equal; [apply clear_erase|apply clear_ids_erase].
Qed.

Fixpoint chain_vg_erase (n : node) : chain_vg (erase n) = chain_vg n.
Proof.
  destruct n as [k b next]. rewrite erase_eq. cbn [chain_vg]. f_equal.
  destruct next as [|m]; [reflexivity|apply chain_vg_erase].
Qed.
Lemma erase_set_node_vg n : erase (set_node_vg n) = set_node_vg (erase n).
Proof. destruct n as [k b nx]. reflexivity. Qed.
Lemma erase_update_vg n : erase (update_vg n) = update_vg (erase n).
Proof. unfold update_vg. rewrite chain_vg_erase. destruct (chain_vg n); [apply erase_set_node_vg|reflexivity]. Qed.

Fixpoint erase_delete_root (n : node) : erase (delete_root n) = delete_root (erase n).
Proof.
  destruct n as [k b next].
  destruct k as [| |key| |ids aw uq|mr lr|subs|q|f|f param]; try reflexivity.
  - destruct next as [|nx]; [reflexivity|]. cbn [delete_root erase erase_b set_accessor vgroup].
    destruct (vgroup b); [apply erase_set_node_vg|reflexivity].
  - destruct next as [|nx]; [reflexivity|]. cbn [delete_root erase erase_b set_accessor vgroup].
    destruct (vgroup b); [apply erase_set_node_vg|reflexivity].
  - cbn [delete_root]. rewrite !erase_eq. cbn [delete_root]. rewrite erase_delete_root. reflexivity.
Qed.

Lemma erase_b_ctext t b : erase_b (set_ctext t b) = set_ctext t (erase_b b).
Proof. reflexivity. Qed.
Lemma ctext_erase_head n : ctext (node_basic (erase n)) = ctext (node_basic n).
Proof. destruct n as [k b nx]. reflexivity. Qed.

Fixpoint erase_set_ctext_deep (n : node) (p : string) {struct n} : erase (set_ctext_deep n p) = set_ctext_deep (erase n) p
with erase_ctext_ids (ids : nodes) (ct p : string) {struct ids} : erase_ids (ctext_ids ids ct p) = ctext_ids (erase_ids ids) ct p.
Proof.
  - destruct n as [k b next]. cbn [set_ctext_deep]. rewrite !erase_eq. cbn [set_ctext_deep].
    assert (Hnext : (match (match next with ONone => ONone | OSome m => OSome (set_ctext_deep m p) end) with
                     | OSome m => OSome (erase m) | ONone => ONone end)
                    = (match (match next with OSome m => OSome (erase m) | ONone => ONone end) with
                       | ONone => ONone | OSome m => OSome (set_ctext_deep m p) end)).
    { destruct next as [|m]; [reflexivity|]. f_equal. apply erase_set_ctext_deep. }
    assert (Happ : (match (match next with OSome m => OSome (erase m) | ONone => ONone end) with
                    | ONone => ONone | OSome m => OSome (set_ctext_deep m p) end)
                   = (match next with ONone => ONone | OSome m => OSome (set_ctext_deep (erase m) p) end)) by (destruct next; reflexivity).
    assert (Htxt : (match (match next with ONone => ONone | OSome m => OSome (set_ctext_deep (erase m) p) end) with
                    | OSome m' => ctext (node_basic m') | ONone => p end)
                   = (match (match next with ONone => ONone | OSome m => OSome (set_ctext_deep m p) end) with
                      | OSome m' => ctext (node_basic m') | ONone => p end)).
    { destruct next as [|m]; [reflexivity|]. rewrite <- erase_set_ctext_deep. apply ctext_erase_head. }
    rewrite Hnext, Happ. cbn [erase_b set_accessor text]. rewrite Htxt. f_equal.
    destruct k as [| |key| |ids aw uq|mr lr|subs|q|f|f param]; try reflexivity.
    + f_equal; [apply erase_ctext_ids|]. destruct uq as [|[uk ub unx]]; [reflexivity|]. rewrite !erase_eq. f_equal. f_equal.
      destruct unx as [|m]; [reflexivity|]. f_equal. apply erase_set_ctext_deep.
    + f_equal. apply erase_set_ctext_deep.
  - destruct ids as [|[ik ib inx] r]; [reflexivity|]. cbn [ctext_ids erase_ids]. rewrite !erase_eq. cbn [ctext_ids]. f_equal; [|apply erase_ctext_ids].
    f_equal. destruct inx as [|m]; [reflexivity|]. f_equal. apply erase_set_ctext_deep.
Qed.

(* ---------- the parameter stack ---------- *)
Definition amap2 {A} (f : A -> A) (r : ares (A * pstate)) : ares (A * pstate) :=
  match r with AOk (x, s) => AOk (f x, erase_st s) | AErr e => AErr e | ACrash s => ACrash s end.

Lemma erase_with_params st ps : erase_st (with_params st ps) = with_params (erase_st st) (map erase_item ps).
Proof. reflexivity. Qed.
Lemma push_erase x st : push (erase_item x) (erase_st st) = erase_st (push x st).
Proof. unfold push, with_params, erase_st. cbn [params saved proot]. rewrite map_app. reflexivity. Qed.
Lemma pop_erase st : pop (erase_st st) = amap2 erase_item (pop st).
Proof.
  unfold pop. cbn [erase_st params]. rewrite <- map_rev. destruct (rev (params st)) as [|x r]; cbn [map amap2]; [reflexivity|].
  unfold with_params, erase_st. cbn [params saved proot]. rewrite map_rev. reflexivity.
Qed.
Lemma pop_node_erase st : pop_node (erase_st st) = amap2 erase (pop_node st).
Proof. unfold pop_node. rewrite pop_erase. destruct (pop st) as [[x s]|e|s]; cbn [amap2 abind]; try reflexivity. destruct x; reflexivity. Qed.
Lemma pop_query_erase st : pop_query (erase_st st) = amap2 erase_q (pop_query st).
Proof. unfold pop_query. rewrite pop_erase. destruct (pop st) as [[x s]|e|s]; cbn [amap2 abind]; try reflexivity. destruct x; reflexivity. Qed.
Lemma pop_cparam_erase st : pop_cparam (erase_st st) = amap2 erase_cp (pop_cparam st).
Proof. unfold pop_cparam. rewrite pop_erase. destruct (pop st) as [[x s]|e|s]; cbn [amap2 abind]; try reflexivity. destruct x; reflexivity. Qed.
Lemma pop_idx_erase st : pop_idx (erase_st st) = amap2 (fun i => i) (pop_idx st).
Proof. unfold pop_idx. rewrite pop_erase. destruct (pop st) as [[x s]|e|s]; cbn [amap2 abind]; try reflexivity. destruct x; reflexivity. Qed.

Lemma save_params_erase st : save_params (erase_st st) = erase_st (save_params st).
Proof.
  unfold save_params. cbn [erase_st params saved proot]. destruct (params st) as [|x r]; [reflexivity|].
  cbn [map]. unfold erase_st. cbn [params saved proot]. rewrite map_app. reflexivity.
Qed.
Lemma load_params_erase st : load_params (erase_st st) = erase_st (load_params st).
Proof.
  unfold load_params. cbn [erase_st params saved proot]. rewrite <- map_rev.
  destruct (rev (saved st)) as [|top r]; [reflexivity|]. cbn [map]. unfold erase_st. cbn [params saved proot].
  rewrite map_app, map_rev. reflexivity.
Qed.

(* ---------- facts the actions look at are not changed by erase ---------- *)
Lemma node_kind_innermost_erase : forall n, match node_kind (innermost (erase n)) with KRoot => 0 | KCurrent => 1 | _ => 2 end
                                          = match node_kind (innermost n) with KRoot => 0 | KCurrent => 1 | _ => 2 end.
Proof.
  fix IH 1. intros [k b nx]. rewrite erase_eq. destruct k; try reflexivity. cbn [innermost]. apply IH.
Qed.
Lemma is_wild_erase n : is_wild (erase n) = is_wild n.
Proof. destruct n as [k b nx]. destruct k; reflexivity. Qed.
Lemma vgroup_erase n : vgroup (node_basic (erase n)) = vgroup (node_basic n).
Proof. destruct n as [k b nx]. reflexivity. Qed.
Lemma rank_erase c : rank (erase_cp c) = rank c.
Proof. destruct c as [p l]. destruct p; reflexivity. Qed.

Section ActErase.
  Variable cfg : config.
  Variable parse_float : string -> option num.
  Variable regex_ok : string -> bool.
  Notation ea := (exec_action cfg parse_float regex_ok).
  Notation ep := (exec_action (plain_cfg cfg) parse_float regex_ok).

  Lemma acc_plain : acc (plain_cfg cfg) = false. Proof. reflexivity. Qed.
  Lemma erase_mk_basic t vg : erase_b (mk_basic t vg (acc cfg)) = mk_basic t vg (acc (plain_cfg cfg)).
  Proof. reflexivity. Qed.

  Lemma push_single_erase key st : push_single (plain_cfg cfg) key (erase_st st) = erase_st (push_single cfg key st).
  Proof. unfold push_single. rewrite <- push_erase. reflexivity. Qed.
  Lemma push_recursive_erase n st : push_recursive (plain_cfg cfg) (erase n) (erase_st st) = erase_st (push_recursive cfg n st).
  Proof.
    unfold push_recursive. destruct n as [k b nx]. rewrite erase_eq. cbn [node_kind].
    destruct k; cbn beta iota; rewrite <- push_erase; reflexivity.
  Qed.
  Lemma push_function_erase t name st : push_function (plain_cfg cfg) t name (erase_st st) = amap (push_function cfg t name st).
  Proof.
    unfold push_function. cbn [plain_cfg cfg_filters cfg_aggs].
    destruct (mem name (cfg_filters cfg)); [cbn [amap]; rewrite <- push_erase; reflexivity|].
    destruct (mem name (cfg_aggs cfg)); [cbn [amap]; rewrite <- push_erase; reflexivity|reflexivity].
  Qed.
  Lemma push_index_erase cps om st : push_index cps om (erase_st st) = amap (push_index cps om st).
  Proof. unfold push_index. destruct (atoi cps); [cbn [amap]; rewrite <- push_erase; reflexivity|reflexivity]. Qed.

  Fixpoint erase_ids_snoc (ids : nodes) (x : node) : erase_ids (nodes_snoc ids x) = nodes_snoc (erase_ids ids) (erase x).
  Proof. destruct ids as [|i r]; [reflexivity|]. cbn [nodes_snoc erase_ids]. rewrite erase_ids_snoc. reflexivity. Qed.

  Lemma push_multi_erase n app st : push_multi (plain_cfg cfg) (erase n) (erase app) (erase_st st) = erase_st (push_multi cfg n app st).
  Proof.
    unfold push_multi. destruct n as [k b nx].
    destruct k as [| |key| |ids aw uq|mr lr|subs|q|f|f param];
      try (cbn [erase]; cbn [is_wild node_kind]; rewrite ?is_wild_erase; cbn [andb];
           try (destruct (is_wild app)); rewrite <- push_erase; reflexivity).
    rewrite erase_eq. rewrite is_wild_erase. rewrite <- push_erase. cbn [erase_item]. rewrite erase_eq, erase_ids_snoc.
    destruct (aw && is_wild app); [|reflexivity].
    destruct uq as [|[uk ub unx]]; [reflexivity|]. rewrite erase_eq. destruct uk; reflexivity.
  Qed.

  Lemma swap_erase l r : swap_required (erase_cp l) (erase_cp r) = swap_required l r.
  Proof. unfold swap_required. rewrite !rank_erase. reflexivity. Qed.
  Lemma erase_q_cmp l r c : erase_q (QCmp l r c) = QCmp (erase_cp l) (erase_cp r) c.
  Proof. destruct l, r. reflexivity. Qed.
  Lemma push_compare_ord_erase c l r st :
    push_compare_ord c (erase_cp l) (erase_cp r) (erase_st st) = erase_st (push_compare_ord c l r st).
  Proof.
    unfold push_compare_ord. rewrite swap_erase. destruct (swap_required l r); rewrite <- push_erase; cbn [erase_item]; rewrite erase_q_cmp; reflexivity.
  Qed.
  Lemma push_compare_eq_erase l r st :
    push_compare_eq (erase_cp l) (erase_cp r) (erase_st st) = erase_st (push_compare_eq l r st).
  Proof.
    unfold push_compare_eq. rewrite swap_erase.
    assert (H : forall a b, match erase_cp b with
                            | CP (PqLit v) _ =>
                                match v with
                                | VNum _ => push (IQuery (QCmp (erase_cp a) (erase_cp b) (CDirectEq VdNumeric))) (erase_st st)
                                | VBool _ => push (IQuery (QCmp (erase_cp a) (erase_cp b) (CDirectEq VdBool))) (erase_st st)
                                | VStr _ => push (IQuery (QCmp (erase_cp a) (erase_cp b) (CDirectEq VdString))) (erase_st st)
                                | VNull => push (IQuery (QCmp (erase_cp a) (erase_cp b) (CDirectEq VdNil))) (erase_st st)
                                | _ => erase_st st
                                end
                            | _ => push (IQuery (QCmp (erase_cp a) (erase_cp b) CDeepEq)) (erase_st st)
                            end
                          = erase_st (match b with
                                      | CP (PqLit v) _ =>
                                          match v with
                                          | VNum _ => push (IQuery (QCmp a b (CDirectEq VdNumeric))) st
                                          | VBool _ => push (IQuery (QCmp a b (CDirectEq VdBool))) st
                                          | VStr _ => push (IQuery (QCmp a b (CDirectEq VdString))) st
                                          | VNull => push (IQuery (QCmp a b (CDirectEq VdNil))) st
                                          | _ => st
                                          end
                                      | _ => push (IQuery (QCmp a b CDeepEq)) st
                                      end)).
    { intros a b0. destruct b0 as [bp bl]. destruct bp as [v|n|n]; cbn [erase_cp erase_p];
        [destruct v; try reflexivity| |]; rewrite <- push_erase; cbn [erase_item]; rewrite erase_q_cmp; reflexivity. }
    destruct (swap_required l r); apply H.
  Qed.
  Lemma literal_of_erase x : literal_of (erase_item x) = literal_of x.
  Proof. destruct x; try reflexivity. Qed.

  Lemma chain_step_erase (root : ares node) x :
    chain_step (match root with AOk r => AOk (erase r) | AErr e => AErr e | ACrash s => ACrash s end) (erase_item x)
    = match chain_step root x with AOk r => AOk (erase r) | AErr e => AErr e | ACrash s => ACrash s end.
  Proof.
    destruct root as [r|e|s]; cbn [chain_step abind]; try reflexivity.
    destruct x; cbn [erase_item]; try reflexivity. destruct n as [k bb nx]. rewrite (erase_eq k bb nx).
    destruct k as [| |key| |ids aw uq|mr lr|subs|q|f|f param]; try (rewrite erase_append; reflexivity).
    f_equal. rewrite (erase_eq (KAgg f (clear_acc (update_vg r))) bb nx). f_equal. f_equal.
    rewrite erase_clear, <- erase_update_vg, clear_erase. reflexivity.
  Qed.
  Lemma fold_chain_erase : forall rest (root : ares node),
    fold_left chain_step (map erase_item rest) (match root with AOk r => AOk (erase r) | AErr e => AErr e | ACrash s => ACrash s end)
    = match fold_left chain_step rest root with AOk r => AOk (erase r) | AErr e => AErr e | ACrash s => ACrash s end.
  Proof.
    induction rest as [|x rest IH]; intros root; cbn [map fold_left]; [reflexivity|].
    rewrite chain_step_erase. apply IH.
  Qed.
  Lemma set_node_chain_erase st : set_node_chain (erase_st st) = amap (set_node_chain st).
  Proof.
    unfold set_node_chain. cbn [erase_st params]. destruct (params st) as [|first [|second rest]]; try reflexivity.
    cbn [map]. destruct first; try reflexivity. cbn [erase_item].
    change (erase_item second :: map erase_item rest) with (map erase_item (second :: rest)).
    rewrite (fold_chain_erase (second :: rest) (AOk n)).
    destruct (fold_left chain_step (second :: rest) (AOk n)); reflexivity.
  Qed.
  Lemma update_root_vg_erase st : update_root_vg (erase_st st) = amap (update_root_vg st).
  Proof.
    unfold update_root_vg. cbn [erase_st params]. destruct (params st) as [|x rest]; [reflexivity|]. cbn [map].
    destruct x; try reflexivity. cbn [erase_item amap]. rewrite <- erase_update_vg. reflexivity.
  Qed.


  Lemma set_last_node_text_erase t st : set_last_node_text t (erase_st st) = amap (set_last_node_text t st).
  Proof.
    unfold set_last_node_text. rewrite pop_node_erase. destruct (pop_node st) as [[n s1]|e|s]; cbn [amap2 abind amap]; try reflexivity.
    destruct n as [k b nx]. rewrite erase_eq. cbn [amap]. rewrite <- push_erase. cbn [erase_item].
    destruct k as [| |key| |ids aw uq|mr lr|subs|q|f|f param]; try reflexivity.
    destruct aw; [|reflexivity]. destruct uq as [|[uk ub unx]]; reflexivity.
  Qed.
  Lemma act0_erase st : ep 0 [] 0 (erase_st st) = amap (ea 0 [] 0 st).
  Proof.
    cbn [Actions.exec_action]. rewrite pop_node_erase. destruct (pop_node st) as [[n s1]|e|s]; cbn [amap2 abind amap]; try reflexivity.
    unfold erase_st. cbn [params saved proot option_map]. rewrite erase_set_ctext_deep, erase_delete_root. reflexivity.
  Qed.
  Lemma act26_erase (bg : nat) x s1 :
    match (match erase_item x with IQuery (QNot q') => Some q' | IQuery q' => Some q' | _ => None end) with
    | Some (QCmp (CP (PqCur _) _) (CP (PqCur _) _) _) => AErr (ESyntax bg RTwoCurrent)
    | _ => AOk (push (erase_item x) (erase_st s1))
    end
    = amap (match (match x with IQuery (QNot q') => Some q' | IQuery q' => Some q' | _ => None end) with
            | Some (QCmp (CP (PqCur _) _) (CP (PqCur _) _) _) => AErr (ESyntax bg RTwoCurrent)
            | _ => AOk (push x s1)
            end).
  Proof.
    assert (Hp : AOk (push (erase_item x) (erase_st s1)) = amap (AOk (push x s1))) by (cbn [amap]; rewrite push_erase; reflexivity).
    destruct x as [n|sx|i|sb|q|p|c|bb|nm|]; try exact Hp.
    destruct q as [a b|a b|a|[lp ll] [rp rl] c|p]; try exact Hp.
    - destruct a as [a1 b1|a1 b1|a1|[lp ll] [rp rl] c|p]; try exact Hp. destruct lp, rp; try exact Hp; reflexivity.
    - destruct lp, rp; try exact Hp; reflexivity.
  Qed.
  Lemma operand_erase nd : clear_acc (delete_root (erase nd)) = erase (clear_acc (delete_root nd)).
  Proof. rewrite <- erase_delete_root, clear_erase, erase_clear. reflexivity. Qed.

  Ltac er_pops :=
    repeat match goal with
           | |- context [pop_node (erase_st ?s)] => rewrite (pop_node_erase s); destruct (pop_node s) as [[? ?]|?|?]; cbn [abind amap2 amap]; try reflexivity
           | |- context [pop_query (erase_st ?s)] => rewrite (pop_query_erase s); destruct (pop_query s) as [[? ?]|?|?]; cbn [abind amap2 amap]; try reflexivity
           | |- context [pop_cparam (erase_st ?s)] => rewrite (pop_cparam_erase s); destruct (pop_cparam s) as [[? ?]|?|?]; cbn [abind amap2 amap]; try reflexivity
           | |- context [pop_idx (erase_st ?s)] => rewrite (pop_idx_erase s); destruct (pop_idx s) as [[? ?]|?|?]; cbn [abind amap2 amap]; try reflexivity
           | |- context [pop (erase_st ?s)] => rewrite (pop_erase s); destruct (pop s) as [[? ?]|?|?]; cbn [abind amap2 amap]; try reflexivity
           end.
  Ltac er_fin := cbn [amap abind]; repeat rewrite <- push_erase; try reflexivity.
  Ltac er_help :=
    repeat first [ rewrite push_single_erase | rewrite push_recursive_erase | rewrite push_function_erase
                 | rewrite push_index_erase | rewrite push_multi_erase | rewrite push_compare_ord_erase
                 | rewrite push_compare_eq_erase | rewrite set_node_chain_erase | rewrite update_root_vg_erase
                 | rewrite save_params_erase | rewrite load_params_erase | rewrite literal_of_erase ].
  Ltac er_split :=
    repeat (match goal with
            | |- _ = amap (match ?x with _ => _ end) => destruct x eqn:?
            | |- _ = amap (abind ?r _) => destruct r as [?|?|?] eqn:?
            | |- _ = amap (if ?x then _ else _) => destruct x eqn:?
            | |- _ = amap (let '(_, _) := ?x in _) => destruct x eqn:?
            end; cbn [erase_item erase_cp erase_p amap abind]; er_help; try reflexivity).
  Ltac er := cbn [Actions.exec_action]; unfold two_operands, set_last_node_text;
             repeat (progress (er_pops; er_help)); er_split; er_fin.


  Theorem action_erase n cps b st : ep n cps b (erase_st st) = amap (ea n cps b st).
  Proof.
    destruct n as [|n]. { cbn [Actions.exec_action]; rewrite pop_node_erase; destruct (pop_node st) as [[nd s1]|e|s]; cbn [amap2 abind amap]; try reflexivity; unfold erase_st; cbn [params saved proot option_map]; rewrite erase_set_ctext_deep, erase_delete_root; reflexivity. }
    destruct n as [|n]. { solve [er]. }
    destruct n as [|n]. { solve [er]. }
    destruct n as [|n]. { solve [er]. }
    destruct n as [|n]. { cbn [Actions.exec_action]; apply set_last_node_text_erase. }
    destruct n as [|n]. { solve [er]. }
    destruct n as [|n]. { solve [er]. }
    destruct n as [|n]. { cbn [Actions.exec_action]; apply set_last_node_text_erase. }
    destruct n as [|n]. { solve [er]. }
    destruct n as [|n]. { solve [er]. }
    destruct n as [|n]. { solve [er]. }
    destruct n as [|n]. { solve [er]. }
    destruct n as [|n]. { solve [er]. }
    destruct n as [|n]. { solve [er]. }
    destruct n as [|n]. { solve [er]. }
    destruct n as [|n]. { solve [er]. }
    destruct n as [|n]. { solve [er]. }
    destruct n as [|n]. { solve [er]. }
    destruct n as [|n]. { solve [er]. }
    destruct n as [|n]. { solve [er]. }
    destruct n as [|n]. { solve [er]. }
    destruct n as [|n]. { solve [er]. }
    destruct n as [|n]. { solve [er]. }
    destruct n as [|n]. { solve [er]. }
    destruct n as [|n]. { solve [er]. }
    destruct n as [|n]. { solve [er]. }
    destruct n as [|n]. { cbn [Actions.exec_action]; rewrite pop_erase; destruct (pop st) as [[x s1]|e|s]; cbn [amap2 abind amap]; try reflexivity; apply act26_erase. }
    destruct n as [|n]. { solve [er]. }
    destruct n as [|n]. { solve [er]. }
    destruct n as [|n]. { solve [er]. }
    destruct n as [|n]. { solve [er]. }
    destruct n as [|n]. { solve [er]. }
    destruct n as [|n]. { solve [er]. }
    destruct n as [|n]. { solve [er]. }
    destruct n as [|n]. { cbn [Actions.exec_action]; rewrite pop_cparam_erase; destruct (pop_cparam st) as [[c s1]|e|s]; cbn [amap2 abind amap]; try reflexivity; destruct (regex_ok (text_of cps)); [|reflexivity]; cbn [amap]; rewrite <- push_erase; destruct c; reflexivity. }
    destruct n as [|n]. { solve [er]. }
    destruct n as [|n]. { solve [er]. }
    destruct n as [|n]. { cbn [Actions.exec_action]; rewrite pop_erase; destruct (pop st) as [[x s1]|e|s]; cbn [amap2 abind amap]; try reflexivity; destruct x; try reflexivity; cbn [erase_item]; rewrite pop_erase; destruct (pop s1) as [[y s2]|e|s]; cbn [amap2 abind amap]; try reflexivity; destruct y; try reflexivity; cbn [erase_item]; destruct p as [v|nd|nd]; try reflexivity; cbn [erase_p]; rewrite vgroup_erase; destruct (vgroup (node_basic nd)); try reflexivity; cbn [amap]; rewrite <- push_erase; reflexivity. }
    destruct n as [|n]. { solve [er]. }
    destruct n as [|n]. { cbn [Actions.exec_action]; rewrite load_params_erase, pop_node_erase; destruct (pop_node (load_params st)) as [[nd s1]|e|s]; cbn [amap2 abind amap]; try reflexivity; pose proof (node_kind_innermost_erase nd) as Hk; rewrite operand_erase; destruct (node_kind (innermost (erase nd))), (node_kind (innermost nd)); try discriminate Hk; cbn [amap]; rewrite <- ?push_erase; reflexivity. }
    destruct n as [|n]. { solve [er]. }
    destruct n as [|n]. { solve [er]. }
    destruct n as [|n]. { solve [er]. }
    destruct n as [|n]. { solve [er]. }
    destruct n as [|n]. { solve [er]. }
    destruct n as [|n]. { solve [er]. }
    reflexivity.
  Qed.
End ActErase.

Section ParseErase.
  Variable cfg : config.
  Variable parse_float : string -> option num.
  Variable regex_ok : string -> bool.

  Lemma execute_erase : forall toks input cps b st,
    execute (plain_cfg cfg) parse_float regex_ok toks input cps b (erase_st st)
    = amap (execute cfg parse_float regex_ok toks input cps b st).
  Proof.
    induction toks as [|t toks IH]; intros input cps b st; cbn [execute]; [reflexivity|].
    destruct t as [tb te|n]; [apply IH|].
    rewrite action_erase. destruct (exec_action cfg parse_float regex_ok n cps b st) as [st'|e|s]; cbn [amap abind]; [apply IH|reflexivity|reflexivity].
  Qed.

  Definition erase_result (r : presult) : presult :=
    match r with ParseOk t => ParseOk (erase t) | other => other end.

  (* Parse in plain mode returns the flag-erased tree of Parse in accessor mode, and the same error otherwise *)
  Theorem parse_erase g input :
    parse_with (plain_cfg cfg) parse_float regex_ok g input = erase_result (parse_with cfg parse_float regex_ok g input).
  Proof.
    unfold parse_with, parse_from. destruct (peg_parse g input) as [| |rest pos toks]; try reflexivity.
    change ps_init with (erase_st ps_init) at 1. rewrite execute_erase.
    destruct (execute cfg parse_float regex_ok toks input [] 0 ps_init) as [st|e|s]; cbn [amap]; try reflexivity.
    cbn [erase_st proot]. destruct (proot st); reflexivity.
  Qed.
End ParseErase.
