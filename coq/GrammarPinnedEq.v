(* GrammarPinnedEq.v — on this tree the regenerated grammar is the pinned one *)
From JP Require Import Peg Grammar GrammarPinned.
Lemma pinned_is_current : pinned_grammar = jsonpath_grammar.
Proof. reflexivity. Qed.
