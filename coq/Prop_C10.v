(* Prop_C10.v — property C10: comparisons are type-strict and numeric by value, whatever the decoding.
   Proved on the specification (which the implementation model refines exactly, C01_refines_spec):
   * C10_decode_invariant — converting every float64 of a document into a json.Number whose spelling
     determines its value (hypothesis spell_eq: true of Go's shortest formatting, which is the
     property's own restriction for path == path) selects the SAME members with every filter built
     from existence tests, the six comparison operators, regular expressions, literals, `@` and `$`
     paths, &&, ||, ! — and the same cursors with every function-free path (C10_path_decode_invariant);
   * type strictness and by-value comparison at the element level: only operands of the literal's JSON
     type survive its validator, json.Number is replaced by its float64 value before any comparison,
     ordering comparators never reach their unchecked assertions.
   Scope of the first theorem: trees without user functions (a function such as "type name" may
   legitimately tell float64 from json.Number) whose path == path comparisons have no literal operand
   (the parser picks a typed comparator whenever a literal is involved).  Tie to the code: every
   generated document is evaluated under both decodings on the real library. *)
From JP Require Import Eval WF Verdict Spec CompareFacts SpecDecode.

Theorem C10_decode_invariant : forall (spell : num -> string),
  (forall x y, finite x = true -> finite y = true -> String.eqb (spell x) (spell y) = num_eqb x y) ->
  forall ffun afun regex_match q root vals,
  fun_free_q q = true -> float_doc root -> Forall float_doc vals ->
  holds ffun afun regex_match q (tojn spell root) (map (tojn spell) vals) = holds ffun afun regex_match q root vals.
Proof. exact filter_decode_invariant. Qed.
Print Assumptions C10_decode_invariant.

Theorem C10_path_decode_invariant : forall (spell : num -> string),
  (forall x y, finite x = true -> finite y = true -> String.eqb (spell x) (spell y) = num_eqb x y) ->
  forall ffun afun regex_match t doc,
  fun_free t = true -> float_doc doc ->
  sp ffun afun regex_match t (tojn spell doc) (Some [], tojn spell doc)
  = map (tjres spell) (sp ffun afun regex_match t doc (Some [], doc)).
Proof. exact path_decode_invariant. Qed.
Print Assumptions C10_path_decode_invariant.

Theorem C10_type_strict : forall vd x,
  match (match validate_entry vd x with Some y => y | None => x end) with
  | Some v => exists w, x = Some w /\ vd_type vd w = true
  | None => True
  end.
Proof. exact validate_entry_strict. Qed.
Print Assumptions C10_type_strict.

Theorem C10_json_number_by_value : forall s f,
  validate_entry VdNumeric (Some (VJNum s f)) = Some (Some (VNum f)).
Proof. exact validate_jnum. Qed.

Theorem C10_ordering_no_panic : forall rm c b x,
  (c = CLt \/ c = CLe \/ c = CGt \/ c = CGe) -> numeric_entry x -> no_panic rm c (Some (VNum b)) x.
Proof. exact ordering_no_panic. Qed.

Theorem C10_numeric_after_validation : forall x,
  numeric_entry (match validate_entry VdNumeric x with Some y => y | None => x end).
Proof. exact validate_numeric. Qed.
Print Assumptions C10_numeric_after_validation.

(* From the path text (CmpAddr.v, QueryAddr.v, with C01_filter_retrieval): the verdict of a literal comparison written in a
   filter depends on the value a member offers only through these tests; a number decoded as float64 and the same number
   decoded as json.Number get the same verdict from every operator, and neither ever equals a string, boolean or null
   literal (so `!=` against such a literal keeps them). *)
From JP Require Import Json KeyDefs CmpAddr LitParse QueryAddr.
Theorem C10_number_verdict_decode_invariant : forall o f s a,
  entry_test o f (Some (VJNum s a)) = entry_test o f (Some (VNum a)).
Proof. intros o f s a. reflexivity. Qed.
Theorem C10_typed_literal_never_matches_a_number : forall l a s, litv_ok l = true ->
  lit_test (litv_value l) (Some (VNum a)) = false /\ lit_test (litv_value l) (Some (VJNum s a)) = false.
Proof. intros l a s _. destruct l; split; reflexivity. Qed.
Theorem C10_string_literal_matches_only_that_string : forall q body e, lit_test (litv_value (LStr q body)) e = true ->
  e = Some (VStr (Text.text_of (Text.unescape_cps body))).
Proof.
  intros q body e H. destruct e as [v|]; [|discriminate H]. destruct v; try discriminate H. cbn [litv_value lit_test] in H.
  apply String.eqb_eq in H. subst. reflexivity.
Qed.
Print Assumptions C10_number_verdict_decode_invariant.

(* the number a `$` path offers to an ordering (QueryAddr.root_entry, bq BCR) is the same in both decodings *)
Theorem C10_root_operand_decode_invariant : forall s a,
  num_of_entry (Some (VJNum s a)) = num_of_entry (Some (VNum a)).
Proof. intros s a. reflexivity. Qed.
Print Assumptions C10_root_operand_decode_invariant.

(* a regular-expression test (QueryAddr.rx_test, bq BX) looks at strings only: numbers in either decoding, booleans, null and
   containers never match, whatever the expression *)
Theorem C10_regex_matches_strings_only : forall regex_match re e, rx_test regex_match re e = true -> exists s, e = Some (VStr s).
Proof. intros rm re e H. destruct e as [v|]; [|discriminate H]. destruct v; try discriminate H. eexists. reflexivity. Qed.
Print Assumptions C10_regex_matches_strings_only.
