(* Prop_C10.v — property C10: comparisons are type-strict and numeric by value (partial).
   Proved here, on the comparator/validator model of Eval.v: the validator chosen by the literal's
   type blanks every operand of another JSON type; json.Number operands are replaced by their
   float64 value before any comparison (so the verdict depends on the numeric value only); the
   ordering comparators never reach their unchecked assertions on validated operands.
   NOT yet proved (tied by the correspondence check only): the lifting of these element-wise facts
   through compute/filter_loop to whole selections under both decodings (C10_decode_invariant). *)
From JP Require Import Eval Verdict CompareFacts.

Theorem C10_type_strict_partial : forall vd x,
  match (match validate_entry vd x with Some y => y | None => x end) with
  | Some v => exists w, x = Some w /\ vd_type vd w = true
  | None => True
  end.
Proof. exact validate_entry_strict. Qed.
Print Assumptions C10_type_strict_partial.

Theorem C10_json_number_by_value_partial : forall s f,
  validate_entry VdNumeric (Some (VJNum s f)) = Some (Some (VNum f)).
Proof. exact validate_jnum. Qed.
Print Assumptions C10_json_number_by_value_partial.

Theorem C10_ordering_no_panic_partial : forall rm c b x,
  (c = CLt \/ c = CLe \/ c = CGt \/ c = CGe) -> numeric_entry x -> no_panic rm c (Some (VNum b)) x.
Proof. exact ordering_no_panic. Qed.
Print Assumptions C10_ordering_no_panic_partial.

Theorem C10_numeric_after_validation_partial : forall x,
  numeric_entry (match validate_entry VdNumeric x with Some y => y | None => x end).
Proof. exact validate_numeric. Qed.
Print Assumptions C10_numeric_after_validation_partial.
