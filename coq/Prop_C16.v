(* Prop_C16.v — property C16: every object member is addressable (PARTIAL).
   Proved, for EVERY key (any list of bytes: all Unicode planes in UTF-8, quotes, backslashes, control
   characters, escape-like sequences, the empty key): the library's unescape routines invert the
   escapings of the three spellings —
     ["k"] : unescape_double (esc_double k) = Some k      (JSON-style escaping, controls as \u00XX)
     ['k'] : unescape_single (esc_single k) = Some k      (byte state machine + JSON unquoting)
     .k    : unescape_cps (esc_dot k) = k                 (every symbol backslash-escaped, k without newline)
   hence distinct keys are never confused (the escapings are injective).  Member lookup by the
   unescaped key is exact (Json.lookup / String.eqb).  The model of JSON unquoting is coq/Text.v.
   NOT proved: that the grammar rules consume exactly the escaped text (acceptance), and the short
   escapes \b \t \n \f \r a caller may also use.  Both are covered by the correspondence check and the
   direct oracle: keys from all planes, three spellings, five path positions, against direct map lookup. *)
From JP Require Import Slice Text Codec Json.
Local Open Scope N_scope.

Theorem C16_double_quoted_roundtrip : forall k, unescape_double (esc_double k) = Some k.
Proof. exact unescape_double_esc. Qed.
Print Assumptions C16_double_quoted_roundtrip.

Theorem C16_single_quoted_roundtrip : forall k, unescape_single (esc_single k) = Some k.
Proof. exact unescape_single_esc. Qed.
Print Assumptions C16_single_quoted_roundtrip.

Theorem C16_dot_roundtrip : forall is_sym k,
  is_sym 92 = true -> Forall (fun c => c <> 10) k -> unescape_cps (esc_dot is_sym k) = k.
Proof. exact unescape_dot_esc. Qed.
Print Assumptions C16_dot_roundtrip.

Theorem C16_distinct_keys_double : forall a b, esc_double a = esc_double b -> a = b.
Proof. exact esc_double_injective. Qed.
Theorem C16_distinct_keys_single : forall a b, esc_single a = esc_single b -> a = b.
Proof. exact esc_single_injective. Qed.
Print Assumptions C16_distinct_keys_single.

(* the two quoted spellings of a key name the same member *)
Theorem C16_quote_styles_agree : forall k, unescape_single (esc_single k) = unescape_double (esc_double k).
Proof. intros k. rewrite unescape_single_esc, unescape_double_esc. reflexivity. Qed.

Example C16_example : unescape_single (esc_single [97; 39; 92; 34; 10; 233]) = Some [97; 39; 92; 34; 10; 233].
Proof. vm_compute. reflexivity. Qed.
