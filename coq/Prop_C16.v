(* Prop_C16.v — property C16: every object member is addressable.
   Proved, for EVERY key (any list of code points / bytes: all Unicode planes in UTF-8, quotes, backslashes,
   control characters, escape-like sequences, the empty key):
   * from the path text: the grammar regenerated from jsonpath.peg accepts the bracket spellings key_path 34 k
     and key_path 39 k (KeyDefs.v: the quote and the backslash escaped by a backslash, controls as \u00XX,
     everything else verbatim), the quoted-name rule consumes exactly the escaped text, and Parse returns the
     single step naming exactly k (C16_bracket_spelling_parses); a retrieval with that path on an object holding
     the member returns exactly that member, with its location in accessor mode (C16_member_addressable); on an
     object without it, it selects nothing (C16_absent_key_selects_nothing);
   * the library's unescape routines invert the escapings of the three spellings —
       ["k"] : unescape_double (esc_double k) = Some k      (JSON-style escaping, controls as \u00XX)
       ['k'] : unescape_single (esc_single k) = Some k      (byte state machine + JSON unquoting)
       .k    : unescape_cps (esc_dot k) = k                 (every symbol backslash-escaped, k without newline)
     hence distinct keys are never confused (the escapings are injective).  Member lookup by the unescaped key is
     exact (Json.lookup / String.eqb).  The model of JSON unquoting is coq/Text.v.
   * the dot spelling likewise: for every non-empty key without control characters dot_path k ($.k with every
     symbol character backslash-escaped) is accepted and names exactly k (C16_dot_spelling_parses,
     C16_member_addressable_dot, C16_absent_key_selects_nothing_dot), and the three spellings of a key behave
     identically on every object (C16_spellings_agree);
   * every node: a path of any number of name steps (in any mixture of the three spellings) and index steps
     [digits] (chain_path) is accepted, builds the chain of single steps and returns exactly the value reached
     through the nested objects and arrays, or nothing when a name or index is missing on the way (C16_chain_parses, C16_member_addressable_at_depth,
     C16_absent_at_depth);
   NOT proved from the text: names after .., in a filter operand, in a multi-name selector, and the short escapes \b \t \n \f \r a caller may also use.  These are covered by the correspondence check and the direct oracle: keys from all
   planes, three spellings, five path positions, against direct map lookup; the harness also sends key_path
   itself (the driver confirms that the text sent is the extracted key_path of the key). *)
From JP Require Import Slice Text Codec Json.
Local Open Scope N_scope.

Theorem C16_double_quoted_roundtrip : forall k, unescape_double (esc_double k) = Some k.
Proof. exact unescape_double_esc. Qed.
Print Assumptions C16_double_quoted_roundtrip.

Theorem C16_single_quoted_roundtrip : forall k, unescape_single (esc_single k) = Some k.
Proof. exact unescape_single_esc. Qed.
Print Assumptions C16_single_quoted_roundtrip.

Theorem C16_dot_roundtrip : forall is_sym k,
  is_sym 92 = true -> Forall (fun c => c <> 10) k -> unescape_cps (esc_dot is_sym k) = k.
Proof. exact unescape_dot_esc. Qed.
Print Assumptions C16_dot_roundtrip.

Theorem C16_distinct_keys_double : forall a b, esc_double a = esc_double b -> a = b.
Proof. exact esc_double_injective. Qed.
Theorem C16_distinct_keys_single : forall a b, esc_single a = esc_single b -> a = b.
Proof. exact esc_single_injective. Qed.
Print Assumptions C16_distinct_keys_single.

(* the two quoted spellings of a key name the same member *)
Theorem C16_quote_styles_agree : forall k, unescape_single (esc_single k) = unescape_double (esc_double k).
Proof. intros k. rewrite unescape_single_esc, unescape_double_esc. reflexivity. Qed.

Example C16_example : unescape_single (esc_single [97; 39; 92; 34; 10; 233]) = Some [97; 39; 92; 34; 10; 233].
Proof. vm_compute. reflexivity. Qed.

(* ---------- from the path text (KeyParse.v, KeyAddr.v) ---------- *)
From JP Require Import Peg Grammar Tree Actions Eval EvalInv1 EvalInv4 EvalTop KeyDefs KeyParse KeyAddr DecFacts IdxParse SliceParse UnionParse WildParse RecParse ChainParse ChainAddr.
Local Open Scope N_scope.
Open Scope list_scope.

(* the grammar regenerated from jsonpath.peg accepts the bracket spelling of EVERY key (any list of code
   points, in either quote style, escaped by the JSON rules: the quote, the backslash, controls as \u00XX,
   everything else — all planes — verbatim), and Parse returns the one step that names exactly that key *)
Theorem C16_bracket_spelling_parses : forall cfg parse_float regex_ok q k, (q = 34 \/ q = 39) ->
  parse_with cfg parse_float regex_ok jsonpath_grammar (key_path q k) = ParseOk (key_node cfg q k).
Proof. exact parse_key_path. Qed.
Print Assumptions C16_bracket_spelling_parses.

(* ... and a retrieval with that path on an object holding the member returns exactly that member *)
Theorem C16_member_addressable : forall cfg parse_float regex_ok ffun afun regex_match,
  (forall f v w, small v -> ffun f v = Some w -> small w) ->
  (forall f l w, Forall small l -> afun f l = Some w -> small w) ->
  forall q k m v st, (q = 34 \/ q = 39) -> small (VObj m) -> ok st ->
  lookup m (string_of_bytes (utf8 k)) = Some v ->
  exists t, parse_with cfg parse_float regex_ok jsonpath_grammar (key_path q k) = ParseOk t /\
            fst (eval_run ffun afun regex_match t (VObj m) st) = OOk [key_result cfg (string_of_bytes (utf8 k)) v].
Proof. exact key_addressable. Qed.
Print Assumptions C16_member_addressable.

(* ... and on an object without it selects nothing: no other member answers to the spelling *)
Theorem C16_absent_key_selects_nothing : forall cfg parse_float regex_ok ffun afun regex_match,
  (forall f v w, small v -> ffun f v = Some w -> small w) ->
  (forall f l w, Forall small l -> afun f l = Some w -> small w) ->
  forall q k m st, (q = 34 \/ q = 39) -> small (VObj m) -> ok st ->
  lookup m (string_of_bytes (utf8 k)) = None ->
  exists t e, parse_with cfg parse_float regex_ok jsonpath_grammar (key_path q k) = ParseOk t /\
              fst (eval_run ffun afun regex_match t (VObj m) st) = OErr e.
Proof. exact key_absent. Qed.
Print Assumptions C16_absent_key_selects_nothing.

(* the dot spelling: for every non-empty key without control characters, $.k with every symbol character
   backslash-escaped (KeyDefs.dot_path) is accepted and builds the single step naming exactly k ... *)
Theorem C16_dot_spelling_parses : forall cfg parse_float regex_ok c k, forallb dot_char (c :: k) = true ->
  parse_with cfg parse_float regex_ok jsonpath_grammar (dot_path (c :: k)) = ParseOk (dot_node cfg (c :: k)).
Proof. exact parse_dot_path. Qed.
Print Assumptions C16_dot_spelling_parses.

(* ... which returns exactly the member, or nothing when the object does not hold it *)
Theorem C16_member_addressable_dot : forall cfg parse_float regex_ok ffun afun regex_match,
  (forall f v w, small v -> ffun f v = Some w -> small w) ->
  (forall f l w, Forall small l -> afun f l = Some w -> small w) ->
  forall c k m v st, forallb dot_char (c :: k) = true -> small (VObj m) -> ok st ->
  lookup m (string_of_bytes (utf8 (c :: k))) = Some v ->
  exists t, parse_with cfg parse_float regex_ok jsonpath_grammar (dot_path (c :: k)) = ParseOk t /\
            fst (eval_run ffun afun regex_match t (VObj m) st) = OOk [key_result cfg (string_of_bytes (utf8 (c :: k))) v].
Proof. exact dot_addressable. Qed.
Print Assumptions C16_member_addressable_dot.
Theorem C16_absent_key_selects_nothing_dot : forall cfg parse_float regex_ok ffun afun regex_match,
  (forall f v w, small v -> ffun f v = Some w -> small w) ->
  (forall f l w, Forall small l -> afun f l = Some w -> small w) ->
  forall c k m st, forallb dot_char (c :: k) = true -> small (VObj m) -> ok st ->
  lookup m (string_of_bytes (utf8 (c :: k))) = None ->
  exists t e, parse_with cfg parse_float regex_ok jsonpath_grammar (dot_path (c :: k)) = ParseOk t /\
              fst (eval_run ffun afun regex_match t (VObj m) st) = OErr e.
Proof. exact dot_absent. Qed.
Print Assumptions C16_absent_key_selects_nothing_dot.

(* all three spellings of one key behave identically on every object: the same results, or all of them fail *)
Theorem C16_spellings_agree : forall cfg parse_float regex_ok ffun afun regex_match,
  (forall f v w, small v -> ffun f v = Some w -> small w) ->
  (forall f l w, Forall small l -> afun f l = Some w -> small w) ->
  forall c k m st, forallb dot_char (c :: k) = true -> small (VObj m) -> ok st ->
  exists t1 t2 t3,
    parse_with cfg parse_float regex_ok jsonpath_grammar (key_path 34 (c :: k)) = ParseOk t1 /\
    parse_with cfg parse_float regex_ok jsonpath_grammar (key_path 39 (c :: k)) = ParseOk t2 /\
    parse_with cfg parse_float regex_ok jsonpath_grammar (dot_path (c :: k)) = ParseOk t3 /\
    match fst (eval_run ffun afun regex_match t1 (VObj m) st) with
    | OOk rs => fst (eval_run ffun afun regex_match t2 (VObj m) st) = OOk rs /\ fst (eval_run ffun afun regex_match t3 (VObj m) st) = OOk rs
    | OErr _ => (exists e, fst (eval_run ffun afun regex_match t2 (VObj m) st) = OErr e) /\
                (exists e, fst (eval_run ffun afun regex_match t3 (VObj m) st) = OErr e)
    | OPanic _ => False
    end.
Proof. exact spellings_agree. Qed.
Print Assumptions C16_spellings_agree.

Example C16_dot_path_example :
  dot_path [97; 46; 98; 32; 233; 92; 128512; 45; 95] = [36; 46; 97; 92; 46; 98; 92; 32; 233; 92; 92; 128512; 45; 95] /\
  forallb dot_char [97; 46; 98; 32; 233; 92; 128512; 45; 95] = true.
Proof. split; vm_compute; reflexivity. Qed.

(* ---------- every node of the document (IdxParse.v, ChainParse.v, ChainAddr.v) ---------- *)
(* a path of ANY number of steps — name steps in any of the three spellings, index steps [digits] and wildcard
   steps .* / [*], each possibly after `..` (KeyDefs.chain_path) — is accepted and builds the chain of steps (the first node carrying the
   value-group flag of the whole path) ... *)
Theorem C16_chain_parses : forall cfg parse_float regex_ok x r, forallb rstep_ok (x :: r) = true ->
  parse_with cfg parse_float regex_ok jsonpath_grammar (chain_path (x :: r)) = ParseOk (chain_node cfg (x :: r)).
Proof. exact parse_chain_path. Qed.
Print Assumptions C16_chain_parses.

(* ... which returns exactly the value reached by following the names and indexes through the nested objects and
   arrays (nav_chain; with that location in accessor mode), and nothing when a name or index is missing on the
   way: every member — every node — of a document is addressable by the path that spells its location, and all
   spellings behave identically after other steps *)
Theorem C16_member_addressable_at_depth : forall cfg parse_float regex_ok ffun afun regex_match,
  (forall f v w, small v -> ffun f v = Some w -> small w) ->
  (forall f l w, Forall small l -> afun f l = Some w -> small w) ->
  forall s r doc v st, forallb step_ok (s :: r) = true -> no_wild (s :: r) = true -> small doc -> ok st ->
  nav_chain doc (s :: r) = Some v ->
  exists t, parse_with cfg parse_float regex_ok jsonpath_grammar (chain_path (map RPlain (s :: r))) = ParseOk t /\
            fst (eval_run ffun afun regex_match t doc st) = OOk [chain_result cfg (s :: r) v].
Proof. exact chain_addressable. Qed.
Print Assumptions C16_member_addressable_at_depth.
Theorem C16_absent_at_depth : forall cfg parse_float regex_ok ffun afun regex_match,
  (forall f v w, small v -> ffun f v = Some w -> small w) ->
  (forall f l w, Forall small l -> afun f l = Some w -> small w) ->
  forall s r doc st, forallb step_ok (s :: r) = true -> no_wild (s :: r) = true -> small doc -> ok st ->
  nav_chain doc (s :: r) = None ->
  exists t e, parse_with cfg parse_float regex_ok jsonpath_grammar (chain_path (map RPlain (s :: r))) = ParseOk t /\
              fst (eval_run ffun afun regex_match t doc st) = OErr e.
Proof. exact chain_absent. Qed.
Print Assumptions C16_absent_at_depth.

(* an index step written with the decimal digits of n (n < 2^63) is well formed and means element n *)
Theorem C16_decimal_index_step : forall n, (Z.of_N n < 2 ^ 63)%Z ->
  step_ok (SIdx (dec n)) = true /\ step_idx (dec n) = Z.of_N n.
Proof. exact idx_step_ok. Qed.
Print Assumptions C16_decimal_index_step.

Example C16_chain_example :
  chain_path (map RPlain [SBr 34 [97; 34]; SIdx (dec 12); SDot [98; 46]; SBr 39 []]) =
    [36; 91; 34; 97; 92; 34; 34; 93; 91; 49; 50; 93; 46; 98; 92; 46; 91; 39; 39; 93] /\
  forallb step_ok [SBr 34 [97; 34]; SIdx (dec 12); SDot [98; 46]; SBr 39 []] = true.
Proof. split; vm_compute; reflexivity. Qed.

(* non-vacuity: the key  a, double quote, backslash, single quote, LF, e-acute, U+1F600  in both spellings *)
Example C16_path_example :
  key_path 34 [97; 34; 92; 39; 10; 233; 128512] =
    [36; 91; 34; 97; 92; 34; 92; 92; 39; 92; 117; 48; 48; 48; 97; 233; 128512; 34; 93] /\
  key_path 39 [97; 34; 92; 39; 10; 233; 128512] =
    [36; 91; 39; 97; 34; 92; 92; 92; 39; 92; 117; 48; 48; 48; 97; 233; 128512; 39; 93].
Proof. split; vm_compute; reflexivity. Qed.

(* non-vacuity of C16_member_addressable: an object with the members a-quote-b and x, and the initial state, meet the
   hypotheses for the key  a, double quote, b *)
Example C16_hypotheses_satisfiable :
  let m := [(string_of_bytes (utf8 [97; 34; 98]), VNull); (string_of_bytes (utf8 [120]), VBool true)] in
  small (VObj m) /\ ok st_init /\ lookup m (string_of_bytes (utf8 [97; 34; 98])) = Some VNull.
Proof. cbv zeta. split; [cbn; repeat split|]. split; [repeat split|]. vm_compute. reflexivity. Qed.

(* A member name inside a FILTER operand (KeyFilt.v): the existence tests over a single-quoted, double-quoted or dot name select exactly the members of the
   document that are objects having a member named k, in member order (elements in index order, member values in ascending key
   order), and `$[?(!@…)]` exactly the others — for every key the spelling can express; they fail when that selection is empty. *)
From JP Require Import FiltChain FiltChainAddr ErrNames BoolText KeyFilt.
Theorem C16_member_test_in_filter_operand : forall cfg parse_float regex_ok ffun afun regex_match,
  (forall f v w, small v -> ffun f v = Some w -> small w) ->
  (forall f l w, Forall small l -> afun f l = Some w -> small w) ->
  forall neg s doc st, step_ok s = true -> is_name s = true -> small doc -> ok st ->
  exists t, parse_with cfg parse_float regex_ok jsonpath_grammar (fchain_path [name_filter neg s]) = ParseOk t /\
            match filter (fun m => xorb neg (has_member s (snd m))) (members ([], doc)) with
            | [] => exists e, fst (eval_run ffun afun regex_match t doc st) = OErr e
            | l => fst (eval_run ffun afun regex_match t doc st) = OOk (map (loc_result cfg) l)
            end.
Proof. exact name_in_filter_operand. Qed.
Print Assumptions C16_member_test_in_filter_operand.

(* the existence test over the double-quoted name a-quote-b, and the negated test over the dot name k, as texts *)
Example C16_filter_operand_example :
  fchain_path [name_filter false (SBr 34 [97; 34; 98])] = [36; 91; 63; 40; 64; 91; 34; 97; 92; 34; 98; 34; 93; 41; 93] /\
  fchain_path [name_filter true (SDot [107])] = [36; 91; 63; 40; 33; 64; 46; 107; 41; 93] /\
  step_ok (SBr 34 [97; 34; 98]) = true /\ is_name (SBr 34 [97; 34; 98]) = true.
Proof. repeat split; vm_compute; reflexivity. Qed.
