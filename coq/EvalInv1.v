(* EvalInv1.v — basic facts used by the evaluator invariant: strong induction on values,
   locations, frames on the evaluator state, validated operand lists. *)
From JP Require Import Eval WF Verdict.
From Coq Require Import Lia.
Open Scope string_scope.
Open Scope list_scope.

(* ---------- induction on values through nested lists ---------- *)
Lemma value_ind_strong (P : value -> Prop) :
  P VNull -> (forall b, P (VBool b)) -> (forall x, P (VNum x)) -> (forall s x, P (VJNum s x)) ->
  (forall s, P (VStr s)) ->
  (forall l, Forall P l -> P (VArr l)) ->
  (forall m, Forall (fun kv => P (snd kv)) m -> P (VObj m)) ->
  (forall t i s, P (VOpaque t i s)) ->
  forall v, P v.
Proof.
  intros H0 H1 H2 H3 H4 H5 H6 H7.
  fix IH 1. intros v. destruct v as [|b|x|s x|s|l|m|t i s].
  - exact H0. - apply H1. - apply H2. - apply H3. - apply H4.
  - apply H5. induction l as [|a l IHl]; constructor; [apply IH|exact IHl].
  - apply H6. induction m as [|[k a] m IHm]; constructor; [apply IH|exact IHm].
  - apply H7.
Qed.

(* ---------- locations ---------- *)
Lemma get_loc_snoc : forall p v s w x,
  get_loc v p = Some w -> step_into w s = Some x -> get_loc v (p ++ [s]) = Some x.
Proof.
  induction p as [|t p IH]; intros v s w x H1 H2; cbn [get_loc app] in *.
  - inversion H1; subst. rewrite H2. reflexivity.
  - destruct (step_into v t) as [u|]; [|discriminate]. eapply IH; eassumption.
Qed.

(* ---------- values that fit in Go memory: every array is shorter than 2^62 ---------- *)
Fixpoint small (v : value) : Prop :=
  match v with
  | VArr l => (Z.of_nat (List.length l) < two62)%Z /\
              (fix go (l : list value) : Prop := match l with [] => True | x :: r => small x /\ go r end) l
  | VObj m => (fix go (m : list (string * value)) : Prop :=
                 match m with [] => True | (_, x) :: r => small x /\ go r end) m
  | _ => True
  end.
Lemma small_arr_in l x : small (VArr l) -> In x l -> small x.
Proof.
  cbn [small]. intros [_ H]. induction l as [|a l IH]; intros Hin; [contradiction|].
  destruct H as [Ha Hl]. destruct Hin as [->|Hin]; [exact Ha|apply IH; assumption].
Qed.
Lemma small_arr_len l : small (VArr l) -> (0 <= Z.of_nat (List.length l) < two62)%Z.
Proof. cbn [small]. intros [H _]. lia. Qed.
Lemma small_obj_lookup m k x : small (VObj m) -> lookup m k = Some x -> small x.
Proof.
  cbn [small]. induction m as [|[k' a] m IH]; cbn [lookup]; intros H Hl; [discriminate|].
  destruct H as [Ha Hm]. destruct (String.eqb k k'); [inversion Hl; subst; exact Ha|apply IH; assumption].
Qed.
Lemma nth_value_in : forall xs i x, nth_value xs i = Some x -> In x xs.
Proof.
  induction xs as [|a xs IH]; intros i x H; cbn [nth_value] in H; [discriminate|].
  destruct (i =? 0)%Z; [inversion H; left; reflexivity|].
  destruct (i <? 0)%Z; [discriminate|]. right. eapply IH. exact H.
Qed.
Lemma small_step v s x : small v -> step_into v s = Some x -> small x.
Proof.
  intros Hs H. destruct s as [k|i], v; cbn [step_into] in H; try discriminate.
  - eapply small_obj_lookup; eassumption.
  - eapply small_arr_in; [eassumption|]. eapply nth_value_in. exact H.
Qed.

Definition res_val (x : res) : value := match x with RVal v => v | RAcc _ _ v => v end.
Definition loc_ok (root : value) (x : res) : Prop :=
  match x with RAcc _ (Some p) v => get_loc root p = Some v | _ => True end /\ small (res_val x).
Definition cur_ok (root : value) (cur : cursor) : Prop :=
  match fst cur with Some p => get_loc root p = Some (snd cur) | None => True end /\ small (snd cur).

Lemma cur_ok_ext root cur s x :
  cur_ok root cur -> step_into (snd cur) s = Some x -> cur_ok root (ext_loc (fst cur) s, x).
Proof.
  unfold cur_ok. intros [H1 Hs] H2. split; [|cbn [snd]; eapply small_step; eassumption].
  destruct cur as [[p|] v]; cbn [fst snd ext_loc] in *; [|trivial].
  eapply get_loc_snoc; eassumption.
Qed.
Lemma cur_ok_root root : small root -> cur_ok root (Some [], root).
Proof. intros H. split; [reflexivity|exact H]. Qed.
Lemma cur_ok_none root v : small v -> cur_ok root (None, v).
Proof. intros H. split; [exact I|exact H]. Qed.

Lemma nth_value_index_list : forall xs k i v, In (i, v) (index_list xs k) ->
  (k <= i)%Z /\ nth_value xs (i - k)%Z = Some v.
Proof.
  induction xs as [|x xs IH]; intros k i v H; cbn [index_list] in H; [contradiction|].
  destruct H as [H|H].
  - inversion H; subst. split; [lia|]. cbn [nth_value]. replace (i - i)%Z with 0%Z by lia. reflexivity.
  - apply IH in H. destruct H as [Hk Hn]. split; [lia|]. cbn [nth_value].
    destruct (i - k =? 0)%Z eqn:E0; [lia|]. destruct (i - k <? 0)%Z eqn:E1; [lia|].
    replace (i - k - 1)%Z with (i - (k + 1))%Z by lia. exact Hn.
Qed.

Lemma index_list_step xs i v : In (i, v) (index_list xs 0) -> step_into (VArr xs) (PIdx i) = Some v.
Proof. intros H. apply nth_value_index_list in H. destruct H as [_ H]. cbn. rewrite Z.sub_0_r in H. exact H. Qed.

(* ---------- frames on the evaluator state ---------- *)
Definition frame (st st' : estate) : Prop :=
  g_empty st' = g_empty st /\ g_full st' = g_full st /\ wlog st' = wlog st /\
  panicked st' = panicked st /\ exists cs, calls st' = calls st ++ cs.
Definition ok (st : estate) : Prop := good st /\ panicked st = None.

Lemma frame_refl st : frame st st.
Proof. repeat split; try reflexivity. exists []. rewrite app_nil_r. reflexivity. Qed.
Lemma frame_trans a b c : frame a b -> frame b c -> frame a c.
Proof.
  intros (A1 & A2 & A3 & A4 & [x A5]) (B1 & B2 & B3 & B4 & [y B5]).
  repeat split; try congruence. exists (x ++ y). rewrite B5, A5, app_assoc. reflexivity.
Qed.
Lemma frame_log_call c st : frame st (log_call c st).
Proof. repeat split; try reflexivity. exists [c]. reflexivity. Qed.
Lemma ok_frame st st' : ok st -> frame st st' -> ok st'.
Proof. intros [[G1 G2] P] (A1 & A2 & _ & A4 & _). repeat split; congruence. Qed.

(* ---------- rewriting operand lists ---------- *)
Lemma rewrite_list_length f : forall l i, List.length (fst (rewrite_list f l i)) = List.length l.
Proof.
  induction l as [|x l IH]; intros i; cbn [rewrite_list]; [reflexivity|].
  specialize (IH (S i)). destruct (rewrite_list f l (S i)) as [r ws]. cbn [fst] in IH.
  destruct (f x); cbn [fst List.length]; rewrite IH; reflexivity.
Qed.
Lemma rewrite_list_nowrite f : forall l i, (forall x, In x l -> f x = None) -> rewrite_list f l i = (l, []).
Proof.
  induction l as [|x l IH]; intros i H; cbn [rewrite_list]; [reflexivity|].
  rewrite IH by (intros y Hy; apply H; right; exact Hy). rewrite (H x (or_introl eq_refl)). reflexivity.
Qed.

(* entries left by a validator: the marker, or a value of the validator's own representation *)
Definition validated (vd : validator) (x : entry) : Prop :=
  match x with
  | None => True
  | Some v => match vd, v with
              | VdNumeric, VNum _ | VdBool, VBool _ | VdString, VStr _ | VdNil, VNull => True
              | _, _ => False
              end
  end.
Lemma rewrite_list_validated vd : forall l i, Forall (validated vd) (fst (rewrite_list (validate_entry vd) l i)).
Proof.
  induction l as [|x l IH]; intros i; cbn [rewrite_list]; [constructor|].
  specialize (IH (S i)). destruct (rewrite_list (validate_entry vd) l (S i)) as [r ws]. cbn [fst] in IH.
  destruct (validate_entry vd x) as [y|] eqn:E; cbn [fst]; constructor; try exact IH.
  - destruct x as [v|]; [|discriminate]. destruct vd, v; cbn in E; inversion E; subst; exact I.
  - destruct x as [v|]; [|exact I]. destruct vd, v; cbn in E; try discriminate; exact I.
Qed.
(* a valid entry is still a value after the rewrite *)
Lemma rewrite_list_valid_hd vd x i :
  valid_entry vd x = true ->
  exists v, fst (rewrite_list (validate_entry vd) [x] i) = [Some v] /\ validated vd (Some v).
Proof.
  intros H. destruct x as [v|]; [|discriminate].
  destruct vd, v; cbn in H; try discriminate; cbn; eexists; split; try reflexivity; exact I.
Qed.

Lemma length1 {A} (l : list A) : List.length l = 1 -> exists x, l = [x].
Proof. destruct l as [|x [|y l]]; cbn; intros H; try discriminate. exists x. reflexivity. Qed.
