(* SpacePath.v — C18: blanks before and after a path are insignificant: the padded text is accepted and Parse
   returns the very same tree as for the bare text (so every behaviour, errors included, is identical). *)
From JP Require Import Peg Grammar Slice Text Tree Actions PegFacts PegMono PegEv Codec FuelRules ParseFacts KeyDefs KeyParse IdxParse SliceParse WildParse RecParse ChainParse.
From Coq Require Import Lia.
Local Open Scope N_scope.
Open Scope list_scope.


Lemma ev_blank_star n rest pos : (match rest with [] => True | c :: _ => c <> 32 end) ->
  evG (PStar (PLit [32])) (blanks n ++ rest) pos (POk rest (pos + n) []).
Proof.
  intros Hr. revert pos. induction n as [|n IH]; intros pos.
  - cbn [blanks repeat app]. eapply ev_conv; [apply ev_star_stop|f_equal; lia].
    destruct rest as [|c r]; [apply (ev_lit_fail G [32]); reflexivity|apply (ev_lit_fail G [32]); apply strip1_no; exact Hr].
  - cbn [blanks repeat app]. fold (blanks n).
    assert (E : evG (PLit [32]) (32 :: blanks n ++ rest) pos (POk (blanks n ++ rest) (pos + 1) [])) by (apply (ev_lit_ok G [32]); apply strip1_ok).
    pose proof (ev_star_step G _ _ _ _ _ _ _ _ _ E ltac:(lia) (IH (pos + 1)%nat)) as E2.
    eapply ev_conv; [exact E2|]. f_equal. lia.
Qed.
Lemma ev_space_blanks n rest pos : (match rest with [] => True | c :: _ => c <> 32 end) ->
  evG (PRef 58) (blanks n ++ rest) pos (POk rest (pos + n) []).
Proof. intros Hr. eapply ev_ref; [reflexivity|]. apply ev_blank_star. exact Hr. Qed.

(* childNode and function fail on a blank *)
Lemma ev_rule7_blank r pos : evG (PRef 7) (32 :: r) pos PFail.
Proof.
  eapply ev_ref; [reflexivity|].
  apply ev_alt_r; [apply ev_seq_fail; apply (ev_lit_fail G [46; 46]); apply strip2_no; discriminate|].
  apply ev_alt_r; [apply ev_seq_fail; apply ev_cap_fail; apply ev_seq_fail; apply (ev_lit_fail G [46]); apply strip1_no; discriminate|].
  apply ev_rule10_fail. discriminate.
Qed.
Lemma ev_rule8_blank r pos : evG (PRef 8) (32 :: r) pos PFail.
Proof.
  eapply ev_ref; [reflexivity|]. apply ev_seq_fail. apply ev_cap_fail. apply ev_seq_fail. apply (ev_lit_fail G [46]). apply strip1_no. discriminate.
Qed.

Lemma tail_stop steps n : dot_stop (render_steps steps ++ blanks n).
Proof.
  destruct steps as [|x r].
  - cbn [render_steps flat_map app]. destruct n as [|n]; [exact I|]. unfold blanks. simpl. repeat split; try reflexivity; discriminate.
  - pose proof (steps_stop (x :: r)) as H. destruct (render_steps (x :: r)) as [|c l] eqn:E.
    + exfalso. pose proof (render_rstep_len_pos x) as Hl. unfold render_steps in E. cbn [flat_map] in E. apply (f_equal (@List.length N)) in E. rewrite app_length in E. cbn [List.length] in E. lia.
    + cbn [app dot_stop] in *. exact H.
Qed.

Lemma ev_steps_star_tail steps n pos : forallb rstep_ok steps = true ->
  evG (PStar (PRef 7)) (render_steps steps ++ blanks n) pos (POk (blanks n) (pos + List.length (render_steps steps)) (steps_tokens pos steps)).
Proof.
  revert pos. induction steps as [|s r IH]; intros pos Hs.
  - cbn [render_steps flat_map List.length steps_tokens app]. eapply ev_conv; [apply ev_star_stop|f_equal; lia].
    destruct n; [apply ev_rule7_eof|apply ev_rule7_blank].
  - cbn [forallb] in Hs. apply andb_true_iff in Hs. destruct Hs as [H1 H2].
    unfold render_steps in *. cbn [flat_map steps_tokens]. rewrite app_length, <- app_assoc.
    pose proof (ev_rule7_rstep s (flat_map render_rstep r ++ blanks n) pos H1 (tail_stop r n)) as E1.
    pose proof (render_rstep_len_pos s) as Hl.
    pose proof (ev_star_step G _ _ _ _ _ _ _ _ _ E1 ltac:(lia) (IH (pos + List.length (render_rstep s))%nat H2)) as E2.
    eapply ev_conv; [exact E2|]. f_equal. lia.
Qed.

Definition padded_tokens (n1 : nat) (steps : list rstep) : list token := TAct 8 :: steps_tokens (n1 + 1) steps ++ [TAct 2; TAct 0].

Lemma blanks_len n : List.length (blanks n) = n.
Proof. apply repeat_length. Qed.

Lemma ev_padded_path n1 n2 steps : forallb rstep_ok steps = true ->
  evG (PRef 0) (padded_path n1 n2 steps) 0 (POk [] (n1 + 1 + List.length (render_steps steps) + n2) (padded_tokens n1 steps)).
Proof.
  intros Hs. unfold padded_path, chain_path, padded_tokens. eapply ev_conv.
  - eapply ev_ref; [reflexivity|]. apply ev_alt_l.
    eapply ev_seq_ok; [| |reflexivity].
    + eapply ev_ref; [reflexivity|].
      eapply ev_seq_ok; [apply (ev_space_blanks n1 ((36 :: render_steps steps) ++ blanks n2) 0); cbn [app]; discriminate| |reflexivity].
      eapply ev_seq_ok; [| |reflexivity].
      * cbn [app]. eapply ev_ref; [reflexivity|]. apply ev_alt_l. eapply ev_ref; [reflexivity|].
        eapply ev_seq_ok; [apply (ev_lit_ok G [36]); apply strip1_ok|apply ev_act|reflexivity].
      * eapply ev_ref; [reflexivity|].
        eapply ev_seq_ok; [apply (ev_steps_star_tail steps n2); exact Hs| |reflexivity].
        eapply ev_seq_ok; [apply ev_star_stop; destruct n2; [apply ev_rule8_eof|apply ev_rule8_blank]| |reflexivity].
        eapply ev_seq_ok; [|apply ev_act|reflexivity].
        pose proof (ev_space_blanks n2 [] (0 + n1 + 1 + List.length (render_steps steps)) I) as H. rewrite app_nil_r in H. exact H.
    + eapply ev_seq_ok; [| apply ev_act |reflexivity].
      eapply ev_ref; [reflexivity|]. apply ev_not_ok. apply ev_any_fail.
  - cbn [List.length app Nat.add]. rewrite <- !app_assoc. cbn [app]. f_equal.
Qed.
Lemma peg_padded_path n1 n2 steps : forallb rstep_ok steps = true ->
  peg_parse G (padded_path n1 n2 steps) = POk [] (n1 + 1 + List.length (render_steps steps) + n2) (padded_tokens n1 steps).
Proof. intros Hs. apply ev_peg_parse; [apply ev_padded_path; exact Hs|apply peg_never_out_of_fuel]. Qed.

Section SpaceExec.
  Variable cfg : config.
  Variable parse_float : string -> option num.
  Variable regex_ok : string -> bool.
  Notation execute := (execute cfg parse_float regex_ok).
  Notation exec_action := (exec_action cfg parse_float regex_ok).

  Lemma exec_steps_tail input steps tail : forall p ps toks cps b, forallb rstep_ok steps = true -> skipn p input = render_steps steps ++ tail ->
    exists cps' b', execute (steps_tokens p steps ++ toks) input cps b (mk ps) =
                    execute toks input cps' b' (mk (ps ++ map (fun s => INode (rpre_node cfg s)) steps)).
  Proof.
    induction steps as [|s r IH]; intros p ps toks cps b Hs Hin.
    - exists cps, b. cbn [steps_tokens app map]. rewrite app_nil_r. reflexivity.
    - cbn [forallb] in Hs. apply andb_true_iff in Hs. destruct Hs as [H1 H2].
      unfold render_steps in Hin. cbn [flat_map] in Hin. rewrite <- app_assoc in Hin. cbn [steps_tokens]. rewrite <- app_assoc.
      destruct (exec_rstep cfg parse_float regex_ok input p s ps (steps_tokens (p + List.length (render_rstep s)) r ++ toks) cps b _ H1 Hin) as (c1 & b1 & E1).
      rewrite E1.
      destruct (IH (p + List.length (render_rstep s))%nat (ps ++ [INode (rpre_node cfg s)]) toks c1 b1 H2 (skipn_next input p _ _ Hin)) as (cps' & b' & E).
      exists cps', b'. rewrite E. cbn [map]. rewrite <- app_assoc. reflexivity.
  Qed.

  (* blanks around a path change nothing: the very same tree *)
  Theorem parse_padded_path n1 n2 s r : forallb rstep_ok (s :: r) = true ->
    parse_with cfg parse_float regex_ok G (padded_path n1 n2 (s :: r)) = ParseOk (chain_node cfg (s :: r)).
  Proof.
    intros Hs. unfold parse_with, parse_from. rewrite (peg_padded_path n1 n2 (s :: r) Hs). unfold padded_tokens.
    cbn [Actions.execute].
    change (exec_action 8 [] 0 ps_init) with (AOk (mk [INode (Node KRoot (root_basic cfg) ONone)])). cbn [abind].
    assert (Hsk : skipn (n1 + 1) (padded_path n1 n2 (s :: r)) = render_steps (s :: r) ++ blanks n2).
    { unfold padded_path, chain_path. rewrite skipn_add, skipn_app. rewrite (skipn_all2 (blanks n1)) by (rewrite blanks_len; lia).
      rewrite blanks_len, Nat.sub_diag. reflexivity. }
    destruct (exec_steps_tail (padded_path n1 n2 (s :: r)) (s :: r) (blanks n2) (n1 + 1) [INode (Node KRoot (root_basic cfg) ONone)] [TAct 2; TAct 0] [] 0 Hs Hsk) as (cps' & b' & E).
    rewrite E. clear E. cbn [map app Actions.execute].
    change (exec_action 2 cps' b' ?st) with (abind (set_node_chain st) update_root_vg).
    unfold set_node_chain, mk. cbn [params].
    pose proof (chain_fold cfg (root_basic cfg) (s :: r) []) as F. cbn [map app] in F. change (link (pres cfg [])) with ONone in F. rewrite F. clear F.
    cbn [abind with_params params saved proot]. unfold update_root_vg. cbn [params with_params saved proot abind].
    unfold with_params. cbn [params saved proot].
    change (exec_action 0 cps' b' ?st) with
      (abind (pop_node st) (fun '(rt, st1) => AOk {| params := params st1; saved := saved st1; proot := Some (set_ctext_deep (delete_root rt) "") |})).
    unfold pop_node, pop. cbn [params rev app abind with_params saved proot].
    unfold chain_node. pose proof (pres_plain cfg (s :: r)) as Hp.
    destruct (pres cfg (s :: r)) as [|x l] eqn:Ep.
    { exfalso. unfold pres in Ep. cbn [flat_map] in Ep. destruct s as [s0|s0]; discriminate Ep. }
    inversion Hp as [|? ? Hx Hl]; subst.
    assert (Ev : delete_root (update_vg (Node KRoot (root_basic cfg) (link (x :: l)))) = Node (fst x) (set_vgroup (any_vg (x :: l)) (snd x)) (link l)).
    { unfold update_vg. cbn [chain_vg]. rewrite link_vg. cbn [root_basic mk_basic vgroup orb].
      destruct (any_vg (x :: l)) eqn:Ea.
      - reflexivity.
      - cbn [link delete_root vgroup]. cbn [any_vg existsb] in Ea. apply orb_false_iff in Ea. destruct Ea as [Ea _].
        rewrite <- Ea at 1. rewrite set_vgroup_same. reflexivity. }
    rewrite Ev. rewrite (set_ctext_link _ _ l Hx Hl). reflexivity.
  Qed.

  Corollary padded_same_parse n1 n2 s r : forallb rstep_ok (s :: r) = true ->
    parse_with cfg parse_float regex_ok G (padded_path n1 n2 (s :: r)) = parse_with cfg parse_float regex_ok G (chain_path (s :: r)).
  Proof. intros Hs. rewrite parse_padded_path, parse_chain_path by exact Hs. reflexivity. Qed.
End SpaceExec.
