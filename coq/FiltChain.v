(* FiltChain.v — paths whose steps may be existence filters: `$` then any sequence of steps (names, indexes, wildcards,
   slices, unions, each possibly after `..`) and filters [?(@ steps)].  The chain-level inductions of ChainParse, redone
   over the larger step type; the per-step facts come from ChainParse (ordinary steps) and FiltParse (filters). *)
From JP Require Import Peg Grammar Text Tree Actions PegFacts PegMono PegEv FuelRules ParseFacts KeyDefs KeyParse IdxParse SliceParse UnionParse WildParse RecParse ChainParse SpacePath FunParse AggParse Frame FiltParse CmpParse CmpSpace NegFilt QueryParse FiltSpace QuerySpace QueryTree.
From Coq Require Import Lia.
Local Open Scope N_scope.
Open Scope list_scope.

Definition is_filt (x : fstep) : bool := match x with FS _ | FR _ => false | _ => true end.
Fixpoint fstep_ok (x : fstep) : bool :=
  match x with FS y => rstep_ok y | FE i | FN i => forallb rstep_ok i | FC i o lit | FCS i _ _ o _ _ lit => forallb rstep_ok i && negb (steps_vg i) && lit_ok lit | FQ d => dnf_ok d
             | FR y => is_filt y && fstep_ok y | FES _ _ _ i _ => forallb rstep_ok i | FQS _ d => sdnf_ok d | FT t => wf 2 t end.
Fixpoint fstep_tokens (p : nat) (x : fstep) : list token :=
  match x with FS y => rstep_tokens p y | FE i => filt_tokens p i | FC i o lit => cmp_tokens p i o lit | FN i => neg_tokens p i | FQ d => fq_tokens p d
             | FR y => fstep_tokens (p + 2) y ++ [TAct 3] | FCS i g0 a o b g1 lit => scmp_tokens p i g0 a o b g1 lit | FES neg g0 gn i g1 => fes_tokens p neg g0 gn i g1 | FQS g0 d => sfq_tokens p g0 d | FT t => ft_tokens p t end.
Fixpoint fsteps_tokens (p : nat) (l : list fstep) : list token :=
  match l with [] => [] | x :: r => fstep_tokens p x ++ fsteps_tokens (p + List.length (render_fstep x)) r end.

Lemma filt_text_len i : List.length (filt_text i) = (6 + List.length (render_steps i))%nat.
Proof. unfold filt_text. cbn [app List.length]. rewrite app_length. cbn [List.length]. lia. Qed.
Lemma render_fstep_len_pos x : (1 <= List.length (render_fstep x))%nat.
Proof. destruct x as [y|i|i o lit|i|d|y|i g0 a o b g1 lit|neg g0 gn i g1|g0' d'|t']; cbn [render_fstep]; [apply render_rstep_len_pos|rewrite filt_text_len; lia|rewrite cmp_text_len; lia|rewrite neg_text_len; lia|rewrite fq_text_len; lia|cbn [List.length]; lia|rewrite scmp_text_len; lia|rewrite fes_text_len; lia|rewrite sfq_text_len; lia|rewrite ft_text_len; lia]. Qed.

Lemma fsteps_stop l : dot_stop (render_fsteps l).
Proof.
  destruct l as [|[y|i|i o lit|i|d|y|i g0 a o b g1 lit|neg g0 gn i g1|g0' d'|t'] r]; [exact I| | | | | | | | | |].
  - pose proof (steps_stop [y]) as H. unfold render_steps in H. cbn [flat_map] in H. rewrite app_nil_r in H.
    unfold render_fsteps. cbn [flat_map render_fstep]. pose proof (render_rstep_len_pos y) as Hl.
    destruct (render_rstep y) as [|c t]; [cbn [List.length] in Hl; lia|exact H].
  - cbn. repeat split; try reflexivity; discriminate.
  - cbn. repeat split; try reflexivity; discriminate.
  - cbn. repeat split; try reflexivity; discriminate.
  - cbn. repeat split; try reflexivity; discriminate.
  - cbn. repeat split; try reflexivity; discriminate.
  - cbn. repeat split; try reflexivity; discriminate.
  - cbn. repeat split; try reflexivity; discriminate.
  - cbn. repeat split; try reflexivity; discriminate.
  - cbn. repeat split; try reflexivity; discriminate.
Qed.

(* a filter step is a bracket: childNode reads it through its last alternative, bracketNode *)
Lemma filt_head x : is_filt x = true -> exists s, render_fstep x = 91 :: s.
Proof. destruct x as [y|i|i o lit|i|d|y|i g0 a o b g1 lit|neg g0 gn i g1|g0' d'|t']; intros H; try discriminate H; eexists; reflexivity. Qed.
Lemma rule7_to_10 s pos R : evG (PRef 7) (91 :: s) pos R -> evG (PRef 10) (91 :: s) pos R.
Proof.
  intros [Hn [f0 H]]. split; [exact Hn|]. exists (S f0). intros f Hf. destruct f as [|f]; [lia|].
  rewrite <- (H (S (S f))) by lia. reflexivity.
Qed.

Lemma ev_rule7_filt x rest pos : is_filt x = true -> fstep_ok x = true ->
  evG (PRef 7) (render_fstep x ++ rest) pos (POk rest (pos + List.length (render_fstep x)) (fstep_tokens pos x)).
Proof.
  intros Hf Hs. destruct x as [y|i|i o lit|i|d|y|i g0 a o b g1 lit|neg g0 gn i g1|g0' d'|t']; try discriminate Hf; cbn [render_fstep fstep_tokens fstep_ok] in *; [| |apply (ev_rule7_neg i rest pos Hs)|apply (ev_rule7_fq d rest pos Hs)| |apply (ev_rule7_fes neg g0 gn i g1 rest pos Hs)|apply (ev_rule7_sfq g0' d' rest pos Hs)|apply (ev_rule7_ft t' rest pos Hs)].
  - eapply ev_conv; [apply (ev_rule7_exists i rest pos Hs)|]. rewrite filt_text_len. f_equal. lia.
  - apply andb_true_iff in Hs. destruct Hs as [Hs Hl]. apply andb_true_iff in Hs. destruct Hs as [Hs _]. apply (ev_rule7_cmp i o lit rest pos Hs Hl).
  - apply andb_true_iff in Hs. destruct Hs as [Hs Hl]. apply andb_true_iff in Hs. destruct Hs as [Hs _]. apply (ev_rule7_scmp i g0 a o b g1 lit rest pos Hs Hl).
Qed.

Lemma ev_rule7_fstep x rest pos : fstep_ok x = true -> dot_stop rest ->
  evG (PRef 7) (render_fstep x ++ rest) pos (POk rest (pos + List.length (render_fstep x)) (fstep_tokens pos x)).
Proof.
  intros Hs Hr. destruct x as [y|i|i o lit|i|d|y|i g0 a o b g1 lit|neg g0 gn i g1|g0' d'|t']; [apply ev_rule7_rstep; assumption|apply ev_rule7_filt; [reflexivity|exact Hs]..| |apply ev_rule7_filt; [reflexivity|exact Hs]|apply ev_rule7_filt; [reflexivity|exact Hs]|apply ev_rule7_filt; [reflexivity|exact Hs]|apply ev_rule7_filt; [reflexivity|exact Hs]].
  cbn [fstep_ok] in Hs. apply andb_true_iff in Hs. destruct Hs as [Hf Hs]. cbn [render_fstep fstep_tokens app].
  destruct (filt_head y Hf) as (s & Es).
  pose proof (ev_rule7_filt y rest (pos + 2) Hf Hs) as E7. rewrite Es in E7. cbn [app] in E7.
  eapply ev_conv.
  - eapply ev_ref; [reflexivity|]. apply ev_alt_l.
    eapply ev_seq_ok; [apply (ev_lit_ok G [46; 46]); reflexivity| |reflexivity].
    eapply ev_seq_ok; [apply ev_alt_l; rewrite Es; cbn [app]; apply rule7_to_10; exact E7|apply ev_act|reflexivity].
  - cbn [List.length app Nat.add]. rewrite Es. cbn [List.length]. f_equal; try lia.
Qed.

Lemma ev_fsteps_star l tail pos : forallb fstep_ok l = true ->
  dot_stop tail -> (forall p, evG (PRef 7) tail p PFail) ->
  evG (PStar (PRef 7)) (render_fsteps l ++ tail) pos (POk tail (pos + List.length (render_fsteps l)) (fsteps_tokens pos l)).
Proof.
  intros Hs Hd Hf. revert pos Hs. induction l as [|s r IH]; intros pos Hs.
  - cbn [render_fsteps flat_map List.length fsteps_tokens app]. eapply ev_conv; [apply ev_star_stop; apply Hf|f_equal; lia].
  - cbn [forallb] in Hs. apply andb_true_iff in Hs. destruct Hs as [H1 H2].
    unfold render_fsteps in *. cbn [flat_map fsteps_tokens]. rewrite app_length, <- app_assoc.
    assert (Hst : dot_stop (flat_map render_fstep r ++ tail)).
    { destruct r as [|y r']; [exact Hd|]. pose proof (fsteps_stop (y :: r')) as H. unfold render_fsteps in H.
      destruct (flat_map render_fstep (y :: r')) as [|c l0] eqn:E; [|exact H].
      exfalso. pose proof (render_fstep_len_pos y) as Hl. cbn [flat_map] in E. apply (f_equal (@List.length N)) in E. rewrite app_length in E. cbn [List.length] in E. lia. }
    pose proof (ev_rule7_fstep s (flat_map render_fstep r ++ tail) pos H1 Hst) as E1.
    pose proof (render_fstep_len_pos s) as Hl.
    pose proof (ev_star_step G _ _ _ _ _ _ _ _ _ E1 ltac:(lia) (IH (pos + List.length (render_fstep s))%nat H2)) as E2.
    eapply ev_conv; [exact E2|]. f_equal. lia.
Qed.

Definition fchain_tokens (l : list fstep) : list token := TAct 8 :: fsteps_tokens 1 l ++ [TAct 2; TAct 0].

Lemma ev_fchain_path l : forallb fstep_ok l = true ->
  evG (PRef 0) (fchain_path l) 0 (POk [] (1 + List.length (render_fsteps l)) (fchain_tokens l)).
Proof.
  intros Hs. unfold fchain_path, fchain_tokens. eapply ev_conv.
  - eapply ev_ref; [reflexivity|]. apply ev_alt_l.
    eapply ev_seq_ok; [| |reflexivity].
    + eapply ev_ref; [reflexivity|].
      eapply ev_seq_ok; [apply ev_space_stop; discriminate| |reflexivity].
      eapply ev_seq_ok; [| |reflexivity].
      * eapply ev_ref; [reflexivity|]. apply ev_alt_l. eapply ev_ref; [reflexivity|].
        eapply ev_seq_ok; [apply (ev_lit_ok G [36]); apply strip1_ok|apply ev_act|reflexivity].
      * eapply ev_ref; [reflexivity|].
        pose proof (ev_fsteps_star l [] 1 Hs I (fun p => ev_rule7_eof p)) as E. rewrite app_nil_r in E.
        eapply ev_seq_ok; [exact E| |reflexivity].
        eapply ev_seq_ok; [apply ev_star_stop; apply ev_rule8_eof| |reflexivity].
        eapply ev_seq_ok; [apply ev_space_eof|apply ev_act|reflexivity].
    + eapply ev_seq_ok; [| apply ev_act |reflexivity].
      eapply ev_ref; [reflexivity|]. apply ev_not_ok. apply ev_any_fail.
  - cbn [List.length app Nat.add]. rewrite <- !app_assoc. cbn [app]. f_equal.
Qed.
Lemma peg_fchain_path l : forallb fstep_ok l = true ->
  peg_parse G (fchain_path l) = POk [] (1 + List.length (render_fsteps l)) (fchain_tokens l).
Proof. intros Hs. apply ev_peg_parse; [apply ev_fchain_path; assumption|apply peg_never_out_of_fuel]. Qed.

Section FChainExec.
  Variable cfg : config.
  Variable parse_float : string -> option num.
  Variable regex_ok : string -> bool.
  Notation execute := (execute cfg parse_float regex_ok).
  Notation exec_action := (exec_action cfg parse_float regex_ok).
  Notation plainl := (Forall (fun kb : kind * basic => plain_kind (fst kb))).

  (* the number a literal denotes (strconv.ParseFloat, a parameter of the model) *)
  Definition lit_num (lit : list N) : num := match parse_float (text_of lit) with Some f => f | None => Fin 0 0 end.
  Fixpoint fstep_okp (x : fstep) : bool :=
    match x with FC _ _ lit => match parse_float (text_of lit) with Some _ => true | None => false end | FQ d => dnf_okp parse_float regex_ok d | FQS _ d => sdnf_okp parse_float regex_ok d | FT t => qt_okp parse_float regex_ok t
               | FR y => fstep_okp y | FCS _ _ _ _ _ _ lit => match parse_float (text_of lit) with Some _ => true | None => false end | _ => true end.
  Fixpoint fpre_of (x : fstep) : list (kind * basic) :=
    match x with
    | FS y => rstep_pre cfg y
    | FE i => [(filt_kind cfg i, filt_basic cfg i)]
    | FC i o lit => [(cmp_kind cfg i o (lit_num lit), cmp_basic cfg i o lit)]
    | FN i => [(neg_kind cfg i, neg_basic cfg i)]
    | FQ d => [(fq_kind cfg parse_float d, fq_basic cfg d)]
    | FR y => (KRec true true, rec_basic cfg) :: fpre_of y
    | FCS i g0 a o b g1 lit => [(cmp_kind cfg i o (lit_num lit), scmp_basic cfg i g0 a o b g1 lit)]
    | FES neg g0 gn i g1 => [(fes_kind cfg neg i, fes_basic cfg neg g0 gn i g1)]
    | FQS g0 d => [(fq_kind cfg parse_float (unspace_dnf d), sfq_basic cfg g0 d)]
    | FT t => [(ft_kind cfg parse_float t, ft_basic cfg t)]
    end.
  Definition fnode_of (x : fstep) : node :=
    match fpre_of x with x0 :: r => Node (fst x0) (snd x0) (link r) | [] => nil_node end.
  Definition fpres (l : list fstep) : list (kind * basic) := flat_map fpre_of l.

  Lemma fpre_plain x : plainl (fpre_of x).
  Proof.
    induction x as [y|i|i o lit|i|d|y IH|i g0 a o b g1 lit|neg g0 gn i g1|g0' d'|t']; cbn [fpre_of]; [apply rstep_pre_plain| | | | | | | | |]; try (constructor; [split; intros; discriminate|constructor]).
    - constructor; [split; intros; discriminate|exact IH].
    - destruct neg; (constructor; [split; intros; discriminate|constructor]).
  Qed.
  Lemma fpres_plain l : plainl (fpres l).
  Proof. induction l as [|x r IH]; [constructor|]. unfold fpres. cbn [flat_map]. apply Forall_app. split; [apply fpre_plain|exact IH]. Qed.
  Lemma fpre_nonempty x : fpre_of x <> [].
  Proof. destruct x as [[s|s]|i|i o lit|i|d|y|i g0 a o b g1 lit|neg g0 gn i g1|g0' d'|t']; discriminate. Qed.

  Lemma filt_single x : is_filt x = true -> exists k b, fpre_of x = [(k, b)] /\ exists q, k = KFilter q.
  Proof. destruct x as [y|i|i o lit|i|d|y|i g0 a o b g1 lit|neg g0 gn i g1|g0' d'|t']; intros H; try discriminate H; cbn [fpre_of]; eexists _, _; (split; [reflexivity|]); try (eexists; reflexivity); destruct neg; eexists; reflexivity. Qed.

  Lemma exec_fstep input x : forall p ps toks cps b rest, fstep_ok x = true -> fstep_okp x = true -> skipn p input = render_fstep x ++ rest ->
    exists cps' b', execute (fstep_tokens p x ++ toks) input cps b (mk ps) = execute toks input cps' b' (mk (ps ++ [INode (fnode_of x)])).
  Proof.
    induction x as [y|i|i o lit|i|d|y IH|i g0 a o b0 g1 lit|neg g0 gn i g1|g0' d'|t']; intros p ps toks cps b rest Hs Hp Hin; cbn [fstep_ok fstep_okp fstep_tokens render_fstep] in *.
    10: { apply (exec_ft cfg parse_float regex_ok input p t' rest ps toks cps b (wf_leaves t' 2 Hs) Hp Hin). }
    9: { apply (exec_sfq cfg parse_float regex_ok input p g0' d' rest ps toks cps b Hs Hp Hin). }
    8: { apply (exec_fes cfg parse_float regex_ok input p neg g0 gn i g1 rest ps toks cps b Hs Hin). }
    7: { apply andb_true_iff in Hs. destruct Hs as [Hs Hl]. apply andb_true_iff in Hs. destruct Hs as [Hs Hvg]. apply negb_true_iff in Hvg.
         unfold fnode_of. cbn [fpre_of fst snd link]. unfold lit_num. destruct (parse_float (text_of lit)) as [f|] eqn:Ef; [|discriminate Hp].
         apply (exec_scmp cfg parse_float regex_ok input p i g0 a o b0 g1 lit f rest ps toks cps b Hs Hvg Ef Hin). }
    6: { apply andb_true_iff in Hs. destruct Hs as [Hf Hs]. rewrite <- app_assoc.
         assert (Hin2 : skipn (p + 2) input = render_fstep y ++ rest) by (apply (skipn_next input p [46; 46] _ Hin)).
         destruct (IH (p + 2)%nat ps ([TAct 3] ++ toks) cps b rest Hs Hp Hin2) as (c1 & b1 & E1). rewrite E1. cbn [app].
         rewrite (exec_act3 cfg parse_float regex_ok). exists c1, b1. f_equal.
         destruct (filt_single y Hf) as (k & kb & Ek & q & Eq). unfold fnode_of. cbn [fpre_of]. rewrite Ek. subst k. reflexivity. }
    - apply (exec_rstep cfg parse_float regex_ok input p y ps toks cps b rest Hs Hin).
    - apply (exec_filt cfg parse_float regex_ok input p i rest ps toks cps b Hs Hin).
    - apply andb_true_iff in Hs. destruct Hs as [Hs Hl]. apply andb_true_iff in Hs. destruct Hs as [Hs Hvg]. apply negb_true_iff in Hvg.
      unfold fnode_of, fpre_of, lit_num. cbn [fst snd link]. destruct (parse_float (text_of lit)) as [f|] eqn:Ef; [|discriminate Hp].
      apply (exec_cmp cfg parse_float regex_ok input p i o lit f rest ps toks cps b Hs Hvg Ef Hin).
    - apply (exec_neg cfg parse_float regex_ok input p i rest ps toks cps b Hs Hin).
    - apply (exec_fq cfg parse_float regex_ok input p d rest ps toks cps b Hs Hp Hin).
  Qed.

  Lemma exec_fsteps_tail input l tail : forall p ps toks cps b, forallb fstep_ok l = true -> forallb fstep_okp l = true -> skipn p input = render_fsteps l ++ tail ->
    exists cps' b', execute (fsteps_tokens p l ++ toks) input cps b (mk ps) =
                    execute toks input cps' b' (mk (ps ++ map (fun s => INode (fnode_of s)) l)).
  Proof.
    induction l as [|s r IH]; intros p ps toks cps b Hs Hp Hin.
    - exists cps, b. cbn [fsteps_tokens app map]. rewrite app_nil_r. reflexivity.
    - cbn [forallb] in Hs, Hp. apply andb_true_iff in Hs. destruct Hs as [H1 H2]. apply andb_true_iff in Hp. destruct Hp as [P1 P2].
      unfold render_fsteps in Hin. cbn [flat_map] in Hin. rewrite <- app_assoc in Hin. cbn [fsteps_tokens]. rewrite <- app_assoc.
      destruct (exec_fstep input s p ps (fsteps_tokens (p + List.length (render_fstep s)) r ++ toks) cps b _ H1 P1 Hin) as (c1 & b1 & E1).
      rewrite E1.
      destruct (IH (p + List.length (render_fstep s))%nat (ps ++ [INode (fnode_of s)]) toks c1 b1 H2 P2 (skipn_next input p _ _ Hin)) as (cps' & b' & E).
      exists cps', b'. rewrite E. cbn [map]. rewrite <- app_assoc. reflexivity.
  Qed.
  Lemma exec_fsteps input l : forall p ps toks cps b, forallb fstep_ok l = true -> forallb fstep_okp l = true -> skipn p input = render_fsteps l ->
    exists cps' b', execute (fsteps_tokens p l ++ toks) input cps b (mk ps) =
                    execute toks input cps' b' (mk (ps ++ map (fun s => INode (fnode_of s)) l)).
  Proof. intros p ps toks cps b Hs Hp Hin. apply (exec_fsteps_tail input l [] p ps toks cps b Hs Hp). rewrite app_nil_r. exact Hin. Qed.

  Lemma fnode_not_agg root x : chain_step (AOk root) (INode (fnode_of x)) = AOk (append_deep root (fnode_of x)).
  Proof. destruct x as [y|i|i o lit|i|d|y|i g0 a o b g1 lit|neg g0 gn i g1|g0' d'|t']; [apply (rpre_not_agg cfg)|reflexivity|reflexivity|reflexivity|reflexivity|reflexivity|reflexivity|destruct neg; reflexivity|reflexivity|reflexivity]. Qed.

  Lemma chain_fold_f k b l : plain_kind k -> forall l0, plainl l0 ->
    fold_left chain_step (map (fun s => INode (fnode_of s)) l) (AOk (Node k b (link l0))) = AOk (Node k b (link (l0 ++ fpres l))).
  Proof.
    intros Hk. induction l as [|s r IH]; intros l0 Hl; cbn [map fold_left]; [unfold fpres; cbn [flat_map]; rewrite app_nil_r; reflexivity|].
    rewrite fnode_not_agg. unfold fnode_of.
    rewrite (append_link k b l0 (fpre_of s) Hk Hl (fpre_nonempty s)).
    rewrite IH by (apply Forall_app; split; [exact Hl|apply fpre_plain]).
    unfold fpres. cbn [flat_map]. rewrite <- app_assoc. reflexivity.
  Qed.

  Definition fchain_node (l : list fstep) : node := node_of (fpres l).

  Theorem parse_fchain_path s r : forallb fstep_ok (s :: r) = true -> forallb fstep_okp (s :: r) = true ->
    parse_with cfg parse_float regex_ok G (fchain_path (s :: r)) = ParseOk (fchain_node (s :: r)).
  Proof.
    intros Hs Hokp. unfold parse_with, parse_from. rewrite (peg_fchain_path (s :: r) Hs). unfold fchain_tokens.
    cbn [Actions.execute].
    change (exec_action 8 [] 0 ps_init) with (AOk (mk [INode (Node KRoot (root_basic cfg) ONone)])). cbn [abind].
    destruct (exec_fsteps (fchain_path (s :: r)) (s :: r) 1 [INode (Node KRoot (root_basic cfg) ONone)] [TAct 2; TAct 0] [] 0 Hs Hokp eq_refl) as (cps' & b' & E).
    rewrite E. clear E. cbn [app Actions.execute].
    change (exec_action 2 cps' b' ?st) with (abind (set_node_chain st) update_root_vg).
    unfold set_node_chain, mk. cbn [params map app].
    change (INode (fnode_of s) :: map (fun x => INode (fnode_of x)) r) with (map (fun x => INode (fnode_of x)) (s :: r)).
    pose proof (chain_fold_f KRoot (root_basic cfg) (s :: r) ltac:(split; intros; discriminate) [] ltac:(constructor)) as F. cbn [link app] in F. rewrite F. clear F.
    cbn [abind with_params params saved proot]. unfold update_root_vg. cbn [params with_params saved proot abind].
    unfold with_params. cbn [params saved proot].
    change (exec_action 0 cps' b' ?st) with
      (abind (pop_node st) (fun '(rt, st1) => AOk {| params := params st1; saved := saved st1; proot := Some (set_ctext_deep (delete_root rt) "") |})).
    unfold pop_node, pop. cbn [params rev app abind with_params saved proot].
    unfold fchain_node, node_of. pose proof (fpres_plain (s :: r)) as Hp.
    destruct (fpres (s :: r)) as [|x l] eqn:Ep.
    { exfalso. unfold fpres in Ep. cbn [flat_map] in Ep. pose proof (fpre_nonempty s) as Hn. destruct (fpre_of s); [contradiction Hn; reflexivity|discriminate Ep]. }
    inversion Hp as [|? ? Hx Hl]; subst.
    assert (Ev : delete_root (update_vg (Node KRoot (root_basic cfg) (link (x :: l)))) = Node (fst x) (set_vgroup (any_vg (x :: l)) (snd x)) (link l)).
    { unfold update_vg. cbn [chain_vg]. rewrite link_vg. cbn [root_basic mk_basic vgroup orb].
      destruct (any_vg (x :: l)) eqn:Ea.
      - reflexivity.
      - cbn [link delete_root vgroup]. cbn [any_vg existsb] in Ea. apply orb_false_iff in Ea. destruct Ea as [Ea _].
        rewrite <- Ea at 1. rewrite set_vgroup_same. reflexivity. }
    rewrite Ev. rewrite (set_ctext_link _ _ l Hx Hl). reflexivity.
  Qed.
End FChainExec.
