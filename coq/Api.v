(* Api.v — the API state machine of jsonpath.go: one package-level parser whose embedded action
   state (params, paramsList, root, function tables, accessor flag) survives between calls, the
   configuration copied into it only when a Config is passed, and the deferred function that zeroes
   it on every exit — normal return, documented error (a panic carrying an error) or any other panic. *)
From JP Require Import Peg Grammar Text Tree Actions.

Record gparser := { gp_state : pstate; gp_cfg : config }.
Definition gp_zero : gparser := {| gp_state := ps_init; gp_cfg := cfg_none |}.

Section Api.
  Variable parse_float : string -> option num.
  Variable regex_ok : string -> bool.

  Definition api_parse (g : gparser) (cfg : option config) (path : list N) : presult * gparser :=
    (* jsonpath.go:44-48: the fields are assigned only `if len(config) > 0` *)
    let cfg' := match cfg with Some c => c | None => gp_cfg g end in
    (* parser.Parse(); parser.Execute() run on whatever action state the parser holds *)
    let res := parse_from cfg' parse_float regex_ok (gp_state g) jsonpath_grammar path in
    (* jsonpath.go:24-32: defer { recover…; parser.jsonPathParser = jsonPathParser{}; unlock } *)
    (res, gp_zero).

  Definition fresh_parse (cfg : option config) (path : list N) : presult :=
    parse_with (match cfg with Some c => c | None => cfg_none end) parse_float regex_ok jsonpath_grammar path.

  Fixpoint api_history (g : gparser) (calls : list (option config * list N)) : list presult :=
    match calls with
    | [] => []
    | (cfg, path) :: r => let '(res, g') := api_parse g cfg path in res :: api_history g' r
    end.

  Lemma api_parse_zero cfg path : api_parse gp_zero cfg path = (fresh_parse cfg path, gp_zero).
  Proof. unfold api_parse, fresh_parse, parse_with. destruct cfg; reflexivity. Qed.

  (* every call of every history — whatever was parsed before, whether it succeeded, failed with a
     documented error or crashed, with whatever configuration — returns what the same call returns
     on a fresh parser; in particular functions and accessor mode of one Config never reach a later call *)
  Theorem api_history_independent : forall calls,
    api_history gp_zero calls = map (fun c => fresh_parse (fst c) (snd c)) calls.
  Proof.
    induction calls as [|[cfg path] r IH]; cbn [api_history map fst snd]; [reflexivity|].
    rewrite api_parse_zero. rewrite IH. reflexivity.
  Qed.

  Theorem api_state_reset : forall g cfg path, snd (api_parse g cfg path) = gp_zero.
  Proof. reflexivity. Qed.
End Api.
