(* Prop_C15.v — property C15: runtime errors name a real failing step (PARTIAL).
   Proved on the evaluator model: the ranking rule of addDeepestError — the selected error is always
   one of the candidates; a failure further along the path (shorter remaining text) replaces the
   remembered one and a shallower one never does; at the same depth a type mismatch yields to the
   next candidate while a missing member / failed function is kept — and what the single-valued steps
   report (MemberNotExist when the object lacks the key, TypeUnmatched with the expected kind and the
   Go type found otherwise, each carrying the failing node's own text).  From C03_invariant: an error
   is returned exactly when nothing was selected.
   NOT proved: the global statement "the reported error is select(failure events of the specification)"
   for multi-branch paths.  It is decided by the correspondence check (error type, path text, expected
   and found compared exactly with the model on every failing generated pair) and by an independent
   first-failing-step oracle for single-valued paths. *)
From JP Require Import Eval WF EvalInv3 ErrFacts.
Open Scope string_scope.

Theorem C15_selected_is_candidate_partial : forall err dl de,
  snd (add_deepest err dl de) = Some err \/ snd (add_deepest err dl de) = de.
Proof. exact add_deepest_choice. Qed.
Theorem C15_deeper_wins_partial : forall err dl de, (depth_len err < dl)%nat -> add_deepest err dl de = (depth_len err, Some err).
Proof. exact add_deepest_deeper. Qed.
Theorem C15_shallower_loses_partial : forall err dl de, (dl <> 0)%nat -> (dl < depth_len err)%nat -> add_deepest err dl de = (dl, de).
Proof. exact add_deepest_shallower. Qed.
Theorem C15_tie_prefers_non_type_partial : forall err dl old, (dl <> 0)%nat -> dl = depth_len err ->
  add_deepest err dl (Some old) = (dl, Some (if is_type_err old then err else old)).
Proof. exact add_deepest_tie. Qed.
Print Assumptions C15_selected_is_candidate_partial.
Print Assumptions C15_tie_prefers_non_type_partial.

Theorem C15_name_step_missing_partial : forall ffun afun rm key b next root l m c st, lookup m key = None ->
  retrieve ffun afun rm (Node (KSingle key) b next) root (l, VObj m) c st = (c, Some (EMember b), st).
Proof. exact name_step_missing. Qed.
Theorem C15_name_step_type_partial : forall ffun afun rm key b next root l v c st, (forall m, v <> VObj m) ->
  retrieve ffun afun rm (Node (KSingle key) b next) root (l, v) c st = (c, Some (EType b "object" (go_type v)), st).
Proof. exact name_step_type. Qed.
Theorem C15_subscript_step_type_partial : forall ffun afun rm subs b next root l v c st, (forall xs, v <> VArr xs) ->
  retrieve ffun afun rm (Node (KUnion subs) b next) root (l, v) c st = (c, Some (EType b "array" (go_type v)), st).
Proof. exact subscript_step_type. Qed.
Print Assumptions C15_name_step_type_partial.
