(* Prop_C15.v — property C15: runtime errors name a real failing step — the deepest one, of the right kind.
   On the evaluator model, for every well-formed tree whose nodes carry their remaining-path text
   (wf_node, ctext_ok: decidable, evaluated by the driver on every tree the parser model builds), every
   document and every state:
   * C15_error_is_specified: a call fails with exactly the error of the stateless specification
     ErrSpec.serr, and succeeds exactly when that specification reports none;
     C15_error_iff_nothing_selected: which is exactly when the path selects nothing (Spec.sp);
   * C15_error_is_real_and_deepest: the reported error is one of the failure events of this path on this
     document (ErrReal.events: for every node the preceding steps reach, the failure of the step applied
     there), it carries the text of a step of the path as written, no failure event lies further along
     the path (shorter remaining text), and a type mismatch is reported only if every failure event at
     that depth is a type mismatch (a missing member or a failed function is preferred);
   * what each kind of step reports for itself: MemberNotExist when the object lacks the key,
     TypeUnmatched with the expected kind and the Go type found otherwise (C15_name_step_*,
     C15_subscript_step_type), and the ranking rule itself (C15_select_spec over any candidate list).
   Outside the theorems: that the Go evaluator behaves like Eval.v and the parser builds these trees
   (correspondence check: error type, path text, expected and found compared exactly with the model on
   every failing generated pair; the driver also runs the specification next to the model). *)
From JP Require Import Peg Grammar Text Tree Actions Eval WF Spec ErrSpec EvalInv1 EvalInv3 ErrFacts ErrSelect ErrReal ErrTop StackRules EndToEnd.
Open Scope string_scope.
Open Scope list_scope.

Theorem C15_error_is_specified : forall ffun afun regex_match,
  (forall f v w, small v -> ffun f v = Some w -> small w) ->
  (forall f l w, Forall small l -> afun f l = Some w -> small w) ->
  forall t doc st, wf_node t = true -> small doc -> ok st ->
  match fst (eval_run ffun afun regex_match t doc st) with
  | OErr e => spec_error ffun afun regex_match t doc = Some e
  | OOk _ => spec_error ffun afun regex_match t doc = None
  | OPanic _ => False
  end.
Proof. exact eval_run_error. Qed.
Print Assumptions C15_error_is_specified.

Theorem C15_error_iff_nothing_selected : forall ffun afun regex_match,
  (forall f v w, small v -> ffun f v = Some w -> small w) ->
  (forall f l w, Forall small l -> afun f l = Some w -> small w) ->
  forall t doc, wf_node t = true -> small doc ->
  (spec_error ffun afun regex_match t doc = None <-> sp ffun afun regex_match t doc (Some [], doc) <> []).
Proof. exact spec_error_iff_empty. Qed.
Print Assumptions C15_error_iff_nothing_selected.

Theorem C15_error_is_real_and_deepest : forall ffun afun regex_match,
  (forall f v w, small v -> ffun f v = Some w -> small w) ->
  (forall f l w, Forall small l -> afun f l = Some w -> small w) ->
  forall t doc st e, wf_node t = true -> ctext_ok t = true -> small doc -> ok st ->
  fst (eval_run ffun afun regex_match t doc st) = OErr e ->
  In e (events ffun afun regex_match t doc (Some [], doc)) /\
  In (err_basic e) (basics t) /\
  (forall x, In x (events ffun afun regex_match t doc (Some [], doc)) -> depth_len e <= depth_len x)%nat /\
  (is_type_err e = true ->
   forall x, In x (events ffun afun regex_match t doc (Some [], doc)) -> depth_len x = depth_len e -> is_type_err x = true).
Proof. exact eval_run_error_real. Qed.
Print Assumptions C15_error_is_real_and_deepest.

(* both hypotheses on the tree hold for every tree Parse returns (the stack-effect checker's item types carry
   them: C02_parsed_trees_well_formed, parse_builds_ctext_ok), so for parsed trees the statement is unconditional *)
Theorem C15_parsed_trees_ctext_ok : forall cfg parse_float regex_ok input t,
  parse_with cfg parse_float regex_ok jsonpath_grammar input = ParseOk t -> ctext_ok t = true.
Proof. exact parse_builds_ctext_ok. Qed.
Print Assumptions C15_parsed_trees_ctext_ok.

Theorem C15_end_to_end : forall cfg parse_float regex_ok ffun afun regex_match,
  (forall f v w, small v -> ffun f v = Some w -> small w) ->
  (forall f l w, Forall small l -> afun f l = Some w -> small w) ->
  forall input t doc st e, parse_with cfg parse_float regex_ok jsonpath_grammar input = ParseOk t -> small doc -> ok st ->
  fst (eval_run ffun afun regex_match t doc st) = OErr e ->
  In e (events ffun afun regex_match t doc (Some [], doc)) /\
  In (err_basic e) (basics t) /\
  (forall x, In x (events ffun afun regex_match t doc (Some [], doc)) -> depth_len e <= depth_len x)%nat /\
  (is_type_err e = true ->
   forall x, In x (events ffun afun regex_match t doc (Some [], doc)) -> depth_len x = depth_len e -> is_type_err x = true).
Proof. exact retrieve_error_end_to_end. Qed.
Print Assumptions C15_end_to_end.

(* the ranking among the candidates of one multi-valued step *)
Theorem C15_select_spec : forall es, (forall x, In x es -> (1 <= depth_len x)%nat) ->
  match select es with
  | None => es = []
  | Some e => In e es /\ (forall x, In x es -> depth_len e <= depth_len x)%nat /\
              (is_type_err e = true -> forall x, In x es -> depth_len x = depth_len e -> is_type_err x = true)
  end.
Proof. exact select_spec. Qed.
Print Assumptions C15_select_spec.

Theorem C15_selected_is_candidate : forall err dl de,
  snd (add_deepest err dl de) = Some err \/ snd (add_deepest err dl de) = de.
Proof. exact add_deepest_choice. Qed.
Theorem C15_deeper_wins : forall err dl de, (depth_len err < dl)%nat -> add_deepest err dl de = (depth_len err, Some err).
Proof. exact add_deepest_deeper. Qed.
Theorem C15_shallower_loses : forall err dl de, (dl <> 0)%nat -> (dl < depth_len err)%nat -> add_deepest err dl de = (dl, de).
Proof. exact add_deepest_shallower. Qed.
Theorem C15_tie_prefers_non_type : forall err dl old, (dl <> 0)%nat -> dl = depth_len err ->
  add_deepest err dl (Some old) = (dl, Some (if is_type_err old then err else old)).
Proof. exact add_deepest_tie. Qed.
Print Assumptions C15_tie_prefers_non_type.

Theorem C15_name_step_missing : forall ffun afun rm key b next root l m c st, lookup m key = None ->
  retrieve ffun afun rm (Node (KSingle key) b next) root (l, VObj m) c st = (c, Some (EMember b), st).
Proof. exact name_step_missing. Qed.
Theorem C15_name_step_type : forall ffun afun rm key b next root l v c st, (forall m, v <> VObj m) ->
  retrieve ffun afun rm (Node (KSingle key) b next) root (l, v) c st = (c, Some (EType b "object" (go_type v)), st).
Proof. exact name_step_type. Qed.
Theorem C15_subscript_step_type : forall ffun afun rm subs b next root l v c st, (forall xs, v <> VArr xs) ->
  retrieve ffun afun rm (Node (KUnion subs) b next) root (l, v) c st = (c, Some (EType b "array" (go_type v)), st).
Proof. exact subscript_step_type. Qed.
Print Assumptions C15_name_step_type.

(* non-vacuity: a two-branch failure where the deeper branch wins *)
Example C15_example :
  let bb t ct := {| text := t; ctext := ct; vgroup := false; accessor := false |} in
  let path := Node KRoot (bb "$" "$[*].a") (OSome (Node KWild (bb "[*]" "[*].a") (OSome (Node (KSingle "a") (bb ".a" ".a") ONone)))) in
  let doc := VArr [VObj []; VNum (num_of_Z 1)] in
  spec_error (fun _ _ => None) (fun _ _ => None) (fun _ _ => false) path doc = Some (EMember (bb ".a" ".a")).
Proof. vm_compute. reflexivity. Qed.

(* From the path text (ErrNames.v): a path of name steps (each in any of the three spellings) fails at the FIRST step that
   cannot be taken — "member did not exist" when the value there is an object without that member, "type unmatched"
   (expected object, found the Go type of the value) when it is not an object — and the error carries the text of that
   step as written; it succeeds when every step can be taken.  first_fail is defined on the document alone. *)
From JP Require Import Json Text Tree Grammar Actions KeyDefs ChainParse ChainAddr ErrNames.
From Coq Require Import List. Import ListNotations.
Theorem C15_first_failing_step_from_text : forall cfg parse_float regex_ok ffun afun regex_match,
  (forall f v w, small v -> ffun f v = Some w -> small w) ->
  (forall f l w, Forall small l -> afun f l = Some w -> small w) ->
  forall s r doc st, forallb step_ok (s :: r) = true -> forallb is_name (s :: r) = true -> small doc -> ok st ->
  exists t, parse_with cfg parse_float regex_ok jsonpath_grammar (chain_path (map RPlain (s :: r))) = ParseOk t /\
            match first_fail doc (s :: r) with
            | None => exists rs, fst (eval_run ffun afun regex_match t doc st) = OOk rs
            | Some (x, None) => exists b, fst (eval_run ffun afun regex_match t doc st) = OErr (EMember b) /\ text b = step_text x
            | Some (x, Some ty) => exists b, fst (eval_run ffun afun regex_match t doc st) = OErr (EType b "object" ty) /\ text b = step_text x
            end.
Proof. exact name_path_error. Qed.
Print Assumptions C15_first_failing_step_from_text.

(* The same for paths of name steps AND index steps `[n]` (ErrSteps.v; n written with digits — step_ok; a signed index is a
   one-entry union for the grammar and belongs to the union theorems of C11): the first step
   that cannot be taken is named as written — "member did not exist" for a missing member or an index outside the array, "type
   unmatched" with the expected container (object for a name, array for an index) and the Go type found there. *)
From JP Require Import ErrSteps.
Theorem C15_first_failing_step_with_indexes_from_text : forall cfg parse_float regex_ok ffun afun regex_match,
  (forall f v w, small v -> ffun f v = Some w -> small w) ->
  (forall f l w, Forall small l -> afun f l = Some w -> small w) ->
  forall s r doc st, forallb step_ok (s :: r) = true -> forallb is_loc_step (s :: r) = true -> small doc -> ok st ->
  exists t, parse_with cfg parse_float regex_ok jsonpath_grammar (chain_path (map RPlain (s :: r))) = ParseOk t /\
            match first_fail2 doc (s :: r) with
            | None => exists rs, fst (eval_run ffun afun regex_match t doc st) = OOk rs
            | Some (x, None) => exists b, fst (eval_run ffun afun regex_match t doc st) = OErr (EMember b) /\ text b = step_text x
            | Some (x, Some (ex, ty)) => exists b, fst (eval_run ffun afun regex_match t doc st) = OErr (EType b ex ty) /\ text b = step_text x
            end.
Proof. exact loc_path_error. Qed.
Print Assumptions C15_first_failing_step_with_indexes_from_text.

(* `$.a[2].b` on {"a":[{"b":1},7]}: the index is outside the array; `$.a[1].b`: 7 is not an object; `$.a[0].b`: found *)
Example C15_index_steps_example :
  let doc := VObj [("a", VArr [VObj [("b", VNum (num_of_Z 1))]; VNum (num_of_Z 7)])]%string in
  first_fail2 doc [SDot [97%N]; SIdx [50%N]; SDot [98%N]] = Some (SIdx [50%N], None) /\
  first_fail2 doc [SDot [97%N]; SIdx [49%N]; SDot [98%N]] = Some (SDot [98%N], Some ("object", "float64"))%string /\
  first_fail2 doc [SDot [97%N]; SIdx [48%N]; SDot [98%N]] = None /\
  forallb step_ok [SDot [97%N]; SIdx [48%N]; SDot [98%N]] = true /\
  first_fail2 doc [SDot [97%N]; SDot [98%N]] = Some (SDot [98%N], Some ("object", "[]interface {}"))%string /\
  first_fail2 doc [SIdx [48%N]] = Some (SIdx [48%N], Some ("array", "map[string]interface {}"))%string.
Proof. repeat split; vm_compute; reflexivity. Qed.

(* … followed by filter functions (ErrFuns.v): `$` steps `.f().g()` fails at the first step that cannot be taken, else at the FIRST
   function that fails on what the functions before it returned — "function failed" naming that call as written — and succeeds
   when no step and no function fails. *)
From JP Require Import FunParse ErrFuns.
Theorem C15_failing_function_from_text : forall cfg parse_float regex_ok ffun afun regex_match,
  (forall f v w, small v -> ffun f v = Some w -> small w) ->
  (forall f l w, Forall small l -> afun f l = Some w -> small w) ->
  forall s r fs doc st, forallb step_ok (s :: r) = true -> forallb is_loc_step (s :: r) = true ->
  forallb fname_ok fs = true -> forallb (fun_known cfg) fs = true -> small doc -> ok st ->
  exists t, parse_with cfg parse_float regex_ok jsonpath_grammar (chain_fun_path (map RPlain (s :: r)) fs) = ParseOk t /\
            match walk_err ffun doc (s :: r) fs with
            | None => exists rs, fst (eval_run ffun afun regex_match t doc st) = OOk rs
            | Some (FStep x None) => exists b, fst (eval_run ffun afun regex_match t doc st) = OErr (EMember b) /\ text b = step_text x
            | Some (FStep x (Some (ex, ty))) => exists b, fst (eval_run ffun afun regex_match t doc st) = OErr (EType b ex ty) /\ text b = step_text x
            | Some (FFun f) => exists b, fst (eval_run ffun afun regex_match t doc st) = OErr (EFunc b) /\ text b = text_of (fun_text f)
            end.
Proof. exact fun_path_error. Qed.
Print Assumptions C15_failing_function_from_text.

(* `$.a[0].f().g()` with f the identity and g failing on numbers: g is the one named; with the member missing: the step *)
Example C15_failing_function_example :
  let doc := VObj [("a", VArr [VNum (num_of_Z 7)])]%string in
  let ffun := fun (f : string) (v : value) => if String.eqb f "f" then Some v else None in
  walk_err ffun doc [SDot [97%N]; SIdx [48%N]] [[102%N]; [103%N]] = Some (FFun [103%N]) /\
  walk_err ffun doc [SDot [97%N]; SIdx [48%N]] [[102%N]; [102%N]] = None /\
  walk_err ffun doc [SDot [98%N]; SIdx [48%N]] [[103%N]] = Some (FStep (SDot [98%N]) None).
Proof. repeat split; vm_compute; reflexivity. Qed.

(* … with an aggregate function first (ErrAggs.v): `$` steps `.g().f()…` — the first step that cannot be taken; else the aggregate,
   when it fails on its argument list (the elements of the array reached, or the single value reached); else the first filter
   function that fails on what came before it. *)
From JP Require Import AggParse AggAddr ErrAggs.
Theorem C15_failing_aggregate_from_text : forall cfg parse_float regex_ok ffun afun regex_match,
  (forall f v w, small v -> ffun f v = Some w -> small w) ->
  (forall f l w, Forall small l -> afun f l = Some w -> small w) ->
  forall s r g fs doc st, forallb step_ok (s :: r) = true -> forallb is_loc_step (s :: r) = true ->
  forallb fname_ok (g :: fs) = true -> agg_known cfg g = true -> forallb (fun_known cfg) fs = true -> small doc -> ok st ->
  exists t, parse_with cfg parse_float regex_ok jsonpath_grammar (chain_fun_path (map RPlain (s :: r)) (g :: fs)) = ParseOk t /\
            match agg_walk_err ffun afun doc (s :: r) g fs with
            | None => exists rs, fst (eval_run ffun afun regex_match t doc st) = OOk rs
            | Some (FStep x None) => exists b, fst (eval_run ffun afun regex_match t doc st) = OErr (EMember b) /\ text b = step_text x
            | Some (FStep x (Some (ex, ty))) => exists b, fst (eval_run ffun afun regex_match t doc st) = OErr (EType b ex ty) /\ text b = step_text x
            | Some (FFun f) => exists b, fst (eval_run ffun afun regex_match t doc st) = OErr (EFunc b) /\ text b = text_of (fun_text f)
            end.
Proof. exact agg_path_error. Qed.
Print Assumptions C15_failing_aggregate_from_text.
