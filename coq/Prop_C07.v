(* Prop_C07.v — property C07: result order is deterministic.
   In the model an object is an association list in ARBITRARY order (Go's map iteration order is not
   represented at all): the evaluator and the specification reach the members of an object only
   through sorted_keys and lookup.
   * C07_order_independent: two documents that are the same JSON value built in different member
     orders (same_doc: the same keys, recursively the same members; C07_same_document_same_canon: they
     have the same canonical form) give, for every function-free path, the same sequence of results —
     same length, same order, values equal up to canonical form — on the specification, which the
     evaluator model refines exactly (C01_refines_spec).  Deep equality, the only operation that looks
     at whole objects, is shown insensitive to member order (deep_eq_canon).
   * C07_keys_sorted: members are visited in ascending byte-wise key order; C07_keys_order_independent,
     C07_lookup_order_independent: that order and member lookup depend only on the set of members;
     C07_preorder_*: recursive descent visits a container before its descendants, array elements in
     index order and object members in sorted key order; arrays, unions and multi-name selectors are
     visited in index / written order by the definition of the specification.
   Hypotheses: objects have distinct keys at every level (what encoding/json produces); the path has
   no user function (a user function would have to respect the equivalence itself).
   Tie to the code: repeated evaluation on independently built equal maps (3 insertion orders,
   aliased sub-values, interleaved with other maps) against the model. *)
From JP Require Import Json Eval WF Spec SortFacts EvalInv4 SpecDecode SpecPerm.
From Coq Require Import Sorting.Permutation Sorting.Sorted.
Open Scope list_scope.

Theorem C07_order_independent : forall ffun afun regex_match t d1 d2,
  fun_free t = true -> nd_doc d1 -> nd_doc d2 -> canon d1 = canon d2 ->
  map cres (sp ffun afun regex_match t d1 (Some [], d1)) = map cres (sp ffun afun regex_match t d2 (Some [], d2)).
Proof. exact order_independent. Qed.
Print Assumptions C07_order_independent.

Theorem C07_same_document_same_canon : forall a b, nd_doc a -> same_doc a b -> canon a = canon b.
Proof. exact same_doc_canon. Qed.
Print Assumptions C07_same_document_same_canon.

Theorem C07_path_on_canonical_form : forall ffun afun regex_match t doc, fun_free t = true -> nd_doc doc ->
  sp ffun afun regex_match t (canon doc) (Some [], canon doc) = map cres (sp ffun afun regex_match t doc (Some [], doc)).
Proof. exact path_canon_invariant. Qed.
Print Assumptions C07_path_on_canonical_form.

Theorem C07_keys_sorted : forall m, StronglySorted le (sorted_keys m).
Proof. intros m. apply sort_keys_sorted. Qed.
Print Assumptions C07_keys_sorted.

Theorem C07_keys_order_independent : forall m m', Permutation m m' -> sorted_keys m = sorted_keys m'.
Proof. exact sorted_keys_perm_invariant. Qed.
Print Assumptions C07_keys_order_independent.

Theorem C07_lookup_order_independent : forall m m' k, NoDup (map fst m) -> Permutation m m' -> lookup m k = lookup m' k.
Proof. exact lookup_perm_invariant. Qed.
Print Assumptions C07_lookup_order_independent.

Theorem C07_preorder_array : forall l xs,
  containers l (VArr xs) =
  (l, VArr xs) :: flat_map (fun iv => containers (ext_loc l (PIdx (fst iv))) (snd iv)) (index_list xs 0).
Proof. exact containers_arr. Qed.
Theorem C07_preorder_object : forall l m,
  containers l (VObj m) =
  (l, VObj m) :: flat_map (fun k => match lookup m k with
                                    | Some x => containers (ext_loc l (PKey k)) x
                                    | None => []
                                    end) (sorted_keys m).
Proof. exact containers_obj. Qed.
Print Assumptions C07_preorder_object.

Example C07_example : sorted_keys [("b", VNull); ("a", VNull); ("B", VNull); ("aa", VNull)]%string = ["B"; "a"; "aa"; "b"]%string.
Proof. reflexivity. Qed.

(* non-vacuity: two insertion orders of {"b":{"y":1,"x":2},"a":[3]} are the same document *)
Example C07_same_doc_example :
  let one := VNum (num_of_Z 1) in let two := VNum (num_of_Z 2) in let three := VNum (num_of_Z 3) in
  let d1 := VObj [("b", VObj [("y", one); ("x", two)]); ("a", VArr [three])]%string in
  let d2 := VObj [("a", VArr [three]); ("b", VObj [("x", two); ("y", one)])]%string in
  nd_doc d1 /\ nd_doc d2 /\ canon d1 = canon d2.
Proof.
  cbv zeta. split; [|split].
  - cbn. repeat constructor; cbn; intuition discriminate.
  - cbn. repeat constructor; cbn; intuition discriminate.
  - vm_compute. reflexivity.
Qed.

(* From the path text (ChainParse.v, ChainAddr.v): `$.*` and `$[*]` on an object return its members in the order of
   sorted_keys — ascending (C07_keys_sorted) and independent of the insertion order (C07_keys_order_independent). *)
From JP Require Import Text Tree Grammar Actions EvalInv1 KeyDefs ChainParse ChainAddr.
From Coq Require Import List. Import ListNotations.
Theorem C07_wildcard_order_from_text : forall cfg parse_float regex_ok ffun afun regex_match,
  (forall f v w, small v -> ffun f v = Some w -> small w) ->
  (forall f l w, Forall small l -> afun f l = Some w -> small w) ->
  forall d m st, small (VObj m) -> ok st ->
  exists t, parse_with cfg parse_float regex_ok jsonpath_grammar (chain_path [RPlain (SWild d)]) = ParseOk t /\
            match flat_map (fun k => match lookup m k with Some x => [([PKey k], x)] | None => [] end) (sorted_keys m) with
            | [] => exists e, fst (eval_run ffun afun regex_match t (VObj m) st) = OErr e
            | l => fst (eval_run ffun afun regex_match t (VObj m) st) = OOk (map (loc_result cfg) l)
            end.
Proof.
  intros cfg parse_float regex_ok ffun afun regex_match Hf Ha d m st Hsm Hok.
  destruct (chain_retrieval cfg parse_float regex_ok ffun afun regex_match Hf Ha (RPlain (SWild d)) [] (VObj m) st eq_refl Hsm Hok) as (t & Hp & H).
  exists t. split; [exact Hp|]. cbn [nav_all nav1r nav1 fst snd app] in H.
  rewrite (flat_map_single (fun x : list pstep * value => x)), map_id in H. exact H.
Qed.
Print Assumptions C07_wildcard_order_from_text.

(* From the path text (BoolText.v, with C01_filter_retrieval): a filter step — whatever its query: existence, negation,
   comparison, a query in disjunctive form, spaced or not — visits the members of an object in ascending key order
   (sorted_keys) and the elements of an array in index order, and keeps those whose verdict is true: its results are a
   subsequence of the wildcard's (C07_wildcard_order_from_text). *)
From JP Require Import FiltChain FiltAddr QueryAddr FiltChainAddr BoolText.
Theorem C07_filter_order_from_text : forall parse_float regex_match root x p, is_filt x = true ->
  (forall m, nav1f parse_float regex_match root x (p, VObj m) =
     flat_map (fun k => match lookup m k with
                        | Some v => if verdict parse_float regex_match root x (kids (VObj m)) v then [(p ++ [PKey k], v)] else []
                        | None => []
                        end) (sorted_keys m)) /\
  (forall xs, nav1f parse_float regex_match root x (p, VArr xs) =
     flat_map (fun iv : Z * value => if verdict parse_float regex_match root x xs (snd iv) then [(p ++ [PIdx (fst iv)], snd iv)] else []) (index_list xs 0)).
Proof. exact filter_step_order. Qed.
Print Assumptions C07_filter_order_from_text.
