(* Prop_C07.v — property C07: result order is deterministic (PARTIAL).
   In the model an object is an association list in ARBITRARY order (Go's map iteration order is not
   represented at all): the evaluator and the specification reach the members of an object only
   through sorted_keys and lookup.  Proved: sorted_keys is sorted ascending by the byte-wise order
   (C07_keys_sorted), it and lookup depend only on the set of members, not on the order of the
   association list (C07_keys_order_independent, C07_lookup_order_independent); recursive descent
   visits a container before its descendants, array elements in index order and object members in
   sorted key order (C07_preorder_array / C07_preorder_object); arrays, unions and multi-name selectors
   are visited in index / written order by the definition of the specification, which the
   implementation model refines exactly (C01_refines_spec).
   NOT proved: the congruence "documents equal up to permutation of every object give results equal
   up to permutation" through the whole evaluator (it needs user functions to respect the
   equivalence).  Tie to the code: repeated evaluation on independently built equal maps, interleaved
   with other maps, against the model. *)
From JP Require Import Json Eval WF SortFacts EvalInv4.
From Coq Require Import Sorting.Permutation Sorting.Sorted.

Theorem C07_keys_sorted : forall m, StronglySorted le (sorted_keys m).
Proof. intros m. apply sort_keys_sorted. Qed.
Print Assumptions C07_keys_sorted.

Theorem C07_keys_order_independent : forall m m', Permutation m m' -> sorted_keys m = sorted_keys m'.
Proof. exact sorted_keys_perm_invariant. Qed.
Print Assumptions C07_keys_order_independent.

Theorem C07_lookup_order_independent : forall m m' k, NoDup (map fst m) -> Permutation m m' -> lookup m k = lookup m' k.
Proof. exact lookup_perm_invariant. Qed.
Print Assumptions C07_lookup_order_independent.

Theorem C07_preorder_array_partial : forall l xs,
  containers l (VArr xs) =
  (l, VArr xs) :: flat_map (fun iv => containers (ext_loc l (PIdx (fst iv))) (snd iv)) (index_list xs 0).
Proof. exact containers_arr. Qed.
Theorem C07_preorder_object_partial : forall l m,
  containers l (VObj m) =
  (l, VObj m) :: flat_map (fun k => match lookup m k with
                                    | Some x => containers (ext_loc l (PKey k)) x
                                    | None => []
                                    end) (sorted_keys m).
Proof. exact containers_obj. Qed.
Print Assumptions C07_preorder_object_partial.

Example C07_example : sorted_keys [("b", VNull); ("a", VNull); ("B", VNull); ("aa", VNull)]%string = ["B"; "a"; "aa"; "b"]%string.
Proof. reflexivity. Qed.
