(* CmpParse.v — the comparison filter [?(@ steps OP number)] through the regenerated grammar, OP one of == != < <= > >=:
   basicQuery's second alternative, `comparator`; the left operand is a path from the current node, the right one a
   number literal. *)
From JP Require Import Peg Grammar Text Tree Actions PegFacts PegMono PegEv FuelRules ParseFacts KeyDefs KeyParse IdxParse SliceParse UnionParse WildParse RecParse ChainParse SpacePath FunParse AggParse Frame FiltParse NoDollar.
From Coq Require Import Lia ZifyBool ZifyN.
Local Open Scope N_scope.
Open Scope list_scope.

Definition num_tail : list (N * N) := [(45, 45); (43, 43); (46, 46); (48, 57); (97, 122); (65, 90)].
Definition is_sign (c : N) : bool := (c =? 45) || (c =? 43).
Definition is_dig (c : N) : bool := in_ranges c [(48, 57)].
(* the spelling of a number literal: an optional sign, a digit, then letters, digits, signs and dots *)
Definition lit_ok (lit : list N) : bool :=
  match lit with
  | [] => false
  | c :: r => if is_sign c then match r with d :: body => is_dig d && forallb (fun x => in_ranges x num_tail) body | [] => false end
              else is_dig c && forallb (fun x => in_ranges x num_tail) r
  end.
Definition lit_act (o : cmpop) : nat := match o with OEq | ONe => 35%nat | _ => 36%nat end.
Definition op_act (o : cmpop) : nat :=
  match o with OEq => 28%nat | ONe => 29%nat | OLt => 31%nat | OLe => 30%nat | OGt => 33%nat | OGe => 32%nat end.

Lemma sign_ranges c : in_ranges c [(45, 45); (43, 43)] = is_sign c.
Proof. unfold in_ranges, is_sign. cbn. lia. Qed.
Lemma lit_head lit : lit_ok lit = true -> exists c r, lit = c :: r /\ c <> 32 /\ c <> 61 /\ (is_sign c = true \/ is_dig c = true).
Proof.
  destruct lit as [|c r]; [discriminate|]. cbn [lit_ok]. intros H. exists c, r. split; [reflexivity|].
  destruct (is_sign c) eqn:Es.
  - unfold is_sign in Es. apply orb_true_iff in Es. destruct Es as [E|E]; apply N.eqb_eq in E; subst c; (split; [discriminate|split; [discriminate|left; reflexivity]]).
  - apply andb_true_iff in H. destruct H as [Hd _]. unfold is_dig, in_ranges in Hd. cbn in Hd. rewrite orb_false_r in Hd.
    apply andb_true_iff in Hd. destruct Hd as [H1 H2]. apply N.leb_le in H1. apply N.leb_le in H2.
    split; [intros ->; lia|]. split; [intros ->; lia|]. right. unfold is_dig, in_ranges. cbn. rewrite orb_false_r. apply andb_true_iff. split; apply N.leb_le; assumption.
Qed.

Lemma qend_not_tail c : qend c -> in_ranges c num_tail = false.
Proof. intros [E|[E|E]]; subst c; reflexivity. Qed.

Lemma ev_tail_star body c t pos : qend c -> forallb (fun x => in_ranges x num_tail) body = true ->
  evG (PStar (PCls false num_tail)) (body ++ c :: t) pos (POk (c :: t) (pos + List.length body) []).
Proof.
  intros Hq. revert pos. induction body as [|x r IH]; intros pos Hb.
  - cbn [app List.length]. eapply ev_conv; [apply ev_star_stop; apply ev_cls_fail; rewrite Bool.xorb_false_l; apply qend_not_tail; exact Hq|f_equal; lia].
  - cbn [forallb] in Hb. apply andb_true_iff in Hb. destruct Hb as [H1 H2]. cbn [app].
    pose proof (ev_star_step G (PCls false num_tail) (x :: r ++ c :: t) pos _ (S pos) [] _ _ [] (ev_cls_ok G false num_tail x _ pos (eq_trans (Bool.xorb_false_l _) H1)) ltac:(lia) (IH (S pos) H2)) as E.
    eapply ev_conv; [exact E|]. f_equal. cbn [List.length]. lia.
Qed.

Lemma ev_rule45_lit lit c t pos : qend c -> lit_ok lit = true ->
  evG (PRef 45) (lit ++ c :: t) pos (POk (c :: t) (pos + List.length lit) [TText pos (pos + List.length lit); TAct 40]).
Proof.
  intros Hq H. destruct lit as [|c0 r]; [discriminate|]. cbn [lit_ok] in H. destruct (is_sign c0) eqn:Es.
  - destruct r as [|d body]; [discriminate|]. apply andb_true_iff in H. destruct H as [Hd Hb]. eapply ev_conv.
    + eapply ev_ref; [reflexivity|]. eapply ev_seq_ok; [apply ev_cap| apply ev_act |reflexivity].
      eapply ev_seq_ok; [apply ev_opt_some; apply ev_cls_ok; rewrite Bool.xorb_false_l, sign_ranges; exact Es| |reflexivity].
      eapply ev_seq_ok; [apply ev_cls_ok; rewrite Bool.xorb_false_l; exact Hd|apply (ev_tail_star body c t _ Hq Hb)|reflexivity].
    + cbn [List.length app]. replace (pos + S (S (List.length body)))%nat with (S (S pos) + List.length body)%nat by lia. reflexivity.
  - apply andb_true_iff in H. destruct H as [Hd Hb]. eapply ev_conv.
    + eapply ev_ref; [reflexivity|]. eapply ev_seq_ok; [apply ev_cap| apply ev_act |reflexivity].
      eapply ev_seq_ok; [apply ev_opt_none; apply ev_cls_fail; rewrite Bool.xorb_false_l, sign_ranges; exact Es| |reflexivity].
      eapply ev_seq_ok; [apply ev_cls_ok; rewrite Bool.xorb_false_l; exact Hd|apply (ev_tail_star r c t _ Hq Hb)|reflexivity].
    + cbn [List.length app]. replace (pos + S (List.length r))%nat with (S pos + List.length r)%nat by lia. reflexivity.
Qed.

(* the left operand @ steps, up to a character that ends it *)
Lemma ev_rule3_cur_c isteps c t pos : forallb rstep_ok isteps = true -> closer c ->
  evG (PRef 3) (64 :: render_steps isteps ++ c :: t) pos
      (POk (c :: t) (pos + 1 + List.length (render_steps isteps)) (inner_tokens pos isteps)).
Proof.
  intros Hs Hc. pose proof Hc as (Hsym & H46 & H91 & H32 & H92 & H40). unfold inner_tokens. eapply ev_conv.
  - eapply ev_ref; [reflexivity|].
    eapply ev_seq_ok; [apply ev_space_stop; discriminate| |reflexivity].
    eapply ev_seq_ok; [| |reflexivity].
    + eapply ev_ref; [reflexivity|]. apply ev_alt_r.
      * eapply ev_ref; [reflexivity|]. apply ev_seq_fail. apply (ev_lit_fail G [36]). reflexivity.
      * eapply ev_ref; [reflexivity|]. eapply ev_seq_ok; [apply (ev_lit_ok G [64]); apply strip1_ok|apply ev_act|reflexivity].
    + eapply ev_ref; [reflexivity|].
      assert (Hd : dot_stop (c :: t)) by (cbn; repeat split; assumption).
      eapply ev_seq_ok; [apply (ev_steps_star_gen isteps (c :: t) _ Hs Hd (fun p => ev_rule7_closer c t p Hc))| |reflexivity].
      eapply ev_seq_ok; [apply ev_star_stop; apply ev_rule8_closer; exact Hc| |reflexivity].
      eapply ev_seq_ok; [apply ev_space_stop; exact H32|apply ev_act|reflexivity].
  - cbn [List.length app Nat.add]. replace (pos + 0 + 1)%nat with (pos + 1)%nat by lia. rewrite <- ?app_assoc. reflexivity.
Qed.

Definition left43_tokens (pos : nat) (isteps : list rstep) : list token :=
  [TAct 38] ++ inner_tokens pos isteps ++ [TAct 39; TText pos (pos + 1 + List.length (render_steps isteps)); TAct 37].

Lemma ev_rule43_c isteps c t pos : forallb rstep_ok isteps = true -> closer c ->
  evG (PRef 43) (64 :: render_steps isteps ++ c :: t) pos (POk (c :: t) (pos + 1 + List.length (render_steps isteps)) (left43_tokens pos isteps)).
Proof.
  intros Hs Hc. unfold left43_tokens. eapply ev_conv.
  - eapply ev_ref; [reflexivity|]. eapply ev_seq_ok; [apply ev_cap|apply ev_act|reflexivity].
    eapply ev_ref; [reflexivity|].
    eapply ev_seq_ok; [apply ev_act| |reflexivity].
    eapply ev_seq_ok; [apply (ev_rule3_cur_c isteps c t pos Hs Hc)|apply ev_act|reflexivity].
  - cbn [app]. rewrite <- !app_assoc. reflexivity.
Qed.

Lemma closer_op o r : exists c r', op_text o ++ r = c :: r' /\ closer c.
Proof. destruct o; cbn [op_text app]; eexists _, _; (split; [reflexivity|]); unfold closer; repeat split; try reflexivity; discriminate. Qed.

Definition cmp39_tokens (pos : nat) (isteps : list rstep) (o : cmpop) (lit : list N) : list token :=
  let pr := (pos + 1 + List.length (render_steps isteps) + List.length (op_text o))%nat in
  left43_tokens pos isteps ++ [TText pr (pr + List.length lit); TAct 40; TAct (lit_act o); TAct (op_act o)].

Section CmpPeg.
  Variable isteps : list rstep.
  Variable lit t : list N.
  Variable c : N.
  Hypothesis Hq : qend c.
  Hypothesis Hs : forallb rstep_ok isteps = true.
  Hypothesis Hl : lit_ok lit = true.
  Notation L := (List.length (render_steps isteps)).

  Lemma left40 o pos : evG (PRef 40) (64 :: render_steps isteps ++ op_text o ++ lit ++ c :: t) pos
                           (POk (op_text o ++ lit ++ c :: t) (pos + 1 + L) (left43_tokens pos isteps)).
  Proof.
    destruct (closer_op o (lit ++ c :: t)) as (c1 & r' & E & Hc). rewrite E.
    eapply ev_ref; [reflexivity|]. apply ev_alt_r; [apply ev_seq_fail; apply ev_rule42_at|]. apply (ev_rule43_c isteps c1 r' pos Hs Hc).
  Qed.
  Lemma left41 o pos : evG (PRef 41) (64 :: render_steps isteps ++ op_text o ++ lit ++ c :: t) pos
                           (POk (op_text o ++ lit ++ c :: t) (pos + 1 + L) (left43_tokens pos isteps)).
  Proof.
    destruct (closer_op o (lit ++ c :: t)) as (c1 & r' & E & Hc). rewrite E.
    eapply ev_ref; [reflexivity|]. apply ev_alt_r; [apply ev_seq_fail; apply ev_rule45_at|]. apply (ev_rule43_c isteps c1 r' pos Hs Hc).
  Qed.
  Lemma right40 p : evG (PRef 40) (lit ++ c :: t) p (POk (c :: t) (p + List.length lit) [TText p (p + List.length lit); TAct 40; TAct 35]).
  Proof.
    eapply ev_conv.
    - eapply ev_ref; [reflexivity|]. apply ev_alt_l. eapply ev_seq_ok; [|apply ev_act|reflexivity].
      eapply ev_ref; [reflexivity|]. apply ev_alt_l. apply (ev_rule45_lit lit c t p Hq Hl).
    - reflexivity.
  Qed.
  Lemma right41 p : evG (PRef 41) (lit ++ c :: t) p (POk (c :: t) (p + List.length lit) [TText p (p + List.length lit); TAct 40; TAct 36]).
  Proof.
    eapply ev_conv.
    - eapply ev_ref; [reflexivity|]. apply ev_alt_l. eapply ev_seq_ok; [|apply ev_act|reflexivity]. apply (ev_rule45_lit lit c t p Hq Hl).
    - reflexivity.
  Qed.
  Lemma space_lit p : evG (PRef 58) (lit ++ c :: t) p (POk (lit ++ c :: t) p []).
  Proof. destruct (lit_head lit Hl) as (c1 & r & E & H32 & _). rewrite E. cbn [app]. apply ev_space_stop. exact H32. Qed.
  Lemma space_op o p : evG (PRef 58) (op_text o ++ lit ++ c :: t) p (POk (op_text o ++ lit ++ c :: t) p []).
  Proof. destruct o; cbn [op_text app]; apply ev_space_stop; discriminate. Qed.

  (* a one-character operator is not the two-character one: the literal does not start with = *)
  Lemma strip_two_no a p : strip_prefix [a; 61] (a :: lit ++ c :: p) = None.
  Proof.
    destruct (lit_head lit Hl) as (c1 & r & E & _ & H61 & _). rewrite E. cbn [app strip_prefix]. rewrite N.eqb_refl.
    assert (E2 : (61 =? c1) = false) by (apply N.eqb_neq; intros H; apply H61; symmetry; exact H). rewrite E2. reflexivity.
  Qed.

  (* operator, blanks, right operand, action *)
  Lemma op_then_right (ref : nat) (a35 : nat) o p k :
    (forall q, evG (PRef ref) (lit ++ c :: t) q (POk (c :: t) (q + List.length lit) [TText q (q + List.length lit); TAct 40; TAct a35])) ->
    evG (PSeq (PLit (op_text o)) (PSeq (PRef 58) (PSeq (PRef ref) (PAct k)))) (op_text o ++ lit ++ c :: t) p
        (POk (c :: t) (p + List.length (op_text o) + List.length lit)
             [TText (p + List.length (op_text o)) (p + List.length (op_text o) + List.length lit); TAct 40; TAct a35; TAct k]).
  Proof.
    intros Hr. eapply ev_conv.
    - eapply ev_seq_ok; [apply (ev_lit_ok G (op_text o)); destruct o; cbn [op_text app strip_prefix]; rewrite ?N.eqb_refl; reflexivity| |reflexivity].
      eapply ev_seq_ok; [apply space_lit| |reflexivity].
      eapply ev_seq_ok; [apply Hr|apply ev_act|reflexivity].
    - cbn [app]. reflexivity.
  Qed.

  Theorem ev_rule39_cmp o pos :
    evG (PRef 39) (64 :: render_steps isteps ++ op_text o ++ lit ++ c :: t) pos
        (POk (c :: t) (pos + 1 + L + List.length (op_text o) + List.length lit) (cmp39_tokens pos isteps o lit)).
  Proof.
    unfold cmp39_tokens. cbv zeta.
    assert (A1fail : forall o', (o' = OLt \/ o' = OLe \/ o' = OGt \/ o' = OGe) ->
              evG (PSeq (PRef 40) (PSeq (PRef 58) (PAlt (PSeq (PLit [61; 61]) (PSeq (PRef 58) (PSeq (PRef 40) (PAct 28))))
                                                       (PSeq (PLit [33; 61]) (PSeq (PRef 58) (PSeq (PRef 40) (PAct 29)))))))
                  (64 :: render_steps isteps ++ op_text o' ++ lit ++ c :: t) pos PFail).
    { intros o' Ho. eapply ev_seq_fail2; [apply left40|]. eapply ev_seq_fail2; [apply space_op|].
      destruct Ho as [E|[E|[E|E]]]; subst o'; cbn [op_text app]; apply ev_alt_r; apply ev_seq_fail; apply (ev_lit_fail G); reflexivity. }
    eapply ev_ref; [reflexivity|]. destruct o.
    - (* == *) apply ev_alt_l. eapply ev_conv.
      + eapply ev_seq_ok; [apply left40| |reflexivity]. eapply ev_seq_ok; [apply space_op| |reflexivity].
        apply ev_alt_l. apply (op_then_right 40 35 OEq _ 28 right40).
      + cbn [op_text List.length app lit_act op_act]. f_equal; lia.
    - (* != *) apply ev_alt_l. eapply ev_conv.
      + eapply ev_seq_ok; [apply left40| |reflexivity]. eapply ev_seq_ok; [apply space_op| |reflexivity].
        apply ev_alt_r; [apply ev_seq_fail; apply (ev_lit_fail G [61; 61]); reflexivity|]. apply (op_then_right 40 35 ONe _ 29 right40).
      + cbn [op_text List.length app lit_act op_act]. f_equal; lia.
    - (* < *) apply ev_alt_r; [apply (A1fail OLt); auto|]. apply ev_alt_l. eapply ev_conv.
      + eapply ev_seq_ok; [apply left41| |reflexivity]. eapply ev_seq_ok; [apply space_op| |reflexivity].
        apply ev_alt_r; [apply ev_seq_fail; apply (ev_lit_fail G [60; 61]); apply (strip_two_no 60)|].
        apply ev_alt_l. apply (op_then_right 41 36 OLt _ 31 right41).
      + cbn [op_text List.length app lit_act op_act]. f_equal; lia.
    - (* <= *) apply ev_alt_r; [apply (A1fail OLe); auto|]. apply ev_alt_l. eapply ev_conv.
      + eapply ev_seq_ok; [apply left41| |reflexivity]. eapply ev_seq_ok; [apply space_op| |reflexivity].
        apply ev_alt_l. apply (op_then_right 41 36 OLe _ 30 right41).
      + cbn [op_text List.length app lit_act op_act]. f_equal; lia.
    - (* > *) apply ev_alt_r; [apply (A1fail OGt); auto|]. apply ev_alt_l. eapply ev_conv.
      + eapply ev_seq_ok; [apply left41| |reflexivity]. eapply ev_seq_ok; [apply space_op| |reflexivity].
        apply ev_alt_r; [apply ev_seq_fail; apply (ev_lit_fail G [60; 61]); reflexivity|].
        apply ev_alt_r; [apply ev_seq_fail; apply (ev_lit_fail G [60]); reflexivity|].
        apply ev_alt_r; [apply ev_seq_fail; apply (ev_lit_fail G [62; 61]); apply (strip_two_no 62)|].
        apply (op_then_right 41 36 OGt _ 33 right41).
      + cbn [op_text List.length app lit_act op_act]. f_equal; lia.
    - (* >= *) apply ev_alt_r; [apply (A1fail OGe); auto|]. apply ev_alt_l. eapply ev_conv.
      + eapply ev_seq_ok; [apply left41| |reflexivity]. eapply ev_seq_ok; [apply space_op| |reflexivity].
        apply ev_alt_r; [apply ev_seq_fail; apply (ev_lit_fail G [60; 61]); reflexivity|].
        apply ev_alt_r; [apply ev_seq_fail; apply (ev_lit_fail G [60]); reflexivity|].
        apply ev_alt_l. apply (op_then_right 41 36 OGe _ 32 right41).
      + cbn [op_text List.length app lit_act op_act]. f_equal; lia.
  Qed.
End CmpPeg.

(* from a basicQuery to the bracket: query, filter, qualifier, bracketNode, childNode *)
Lemma ev_rule33_of35 X r pos p' toks : evG (PRef 35) (X ++ 41 :: r) pos (POk (41 :: r) p' toks) ->
  evG (PRef 33) (X ++ 41 :: r) pos (POk (41 :: r) p' toks).
Proof.
  intros E. eapply ev_conv.
  - eapply ev_ref; [reflexivity|].
    eapply ev_seq_ok; [| |reflexivity].
    + eapply ev_ref; [reflexivity|].
      eapply ev_seq_ok; [exact E| |reflexivity].
      apply ev_star_stop. apply ev_seq_fail. eapply ev_ref; [reflexivity|].
      eapply ev_seq_fail2; [apply ev_space_stop; discriminate|]. apply ev_seq_fail. apply (ev_lit_fail G [38; 38]). reflexivity.
    + apply ev_star_stop. apply ev_seq_fail. eapply ev_ref; [reflexivity|].
      eapply ev_seq_fail2; [apply ev_space_stop; discriminate|]. apply ev_seq_fail. apply (ev_lit_fail G [124; 124]). reflexivity.
  - rewrite !app_nil_r. reflexivity.
Qed.

Lemma ev_rule7_of35 X r pos toks : (forall x0 r0, X = x0 :: r0 -> x0 <> 32) -> X <> [] ->
  evG (PRef 35) (X ++ 41 :: 93 :: r) (pos + 3) (POk (41 :: 93 :: r) (pos + 3 + List.length X) toks) ->
  evG (PRef 7) ([91; 63; 40] ++ X ++ [41; 93] ++ r) pos
      (POk r (pos + 5 + List.length X) (toks ++ [TAct 23; TText pos (pos + 5 + List.length X); TAct 7])).
Proof.
  intros Hx Hne E. destruct X as [|x0 X']; [contradiction Hne; reflexivity|]. pose proof (Hx x0 X' eq_refl) as E0.
  eapply ev_ref; [reflexivity|].
  apply ev_alt_r; [apply ev_seq_fail; apply (ev_lit_fail G [46; 46]); reflexivity|].
  apply ev_alt_r; [apply ev_seq_fail; apply ev_cap_fail; apply ev_seq_fail; apply (ev_lit_fail G [46]); reflexivity|].
  cbn [app]. eapply ev_conv.
  - eapply ev_ref; [reflexivity|].
    eapply ev_seq_ok; [apply ev_cap|apply ev_act|reflexivity].
    eapply ev_seq_ok; [| |reflexivity].
    + eapply ev_ref; [reflexivity|]. eapply ev_seq_ok; [apply (ev_lit_ok G [91]); apply strip1_ok|apply ev_space_stop; discriminate|reflexivity].
    + eapply ev_seq_ok; [| |reflexivity].
      * apply ev_alt_r; [apply ev_rule15_q|].
        eapply ev_ref; [reflexivity|].
        apply ev_alt_r; [apply ev_rule23_q|].
        apply ev_alt_r; [eapply ev_ref; [reflexivity|]; apply ev_seq_fail; eapply ev_ref; [reflexivity|]; apply ev_seq_fail; apply (ev_lit_fail G [40]); reflexivity|].
        eapply ev_ref; [reflexivity|].
        eapply ev_seq_ok; [| |reflexivity].
        -- eapply ev_ref; [reflexivity|]. eapply ev_seq_ok; [apply (ev_lit_ok G [63; 40]); reflexivity|apply ev_space_stop; exact E0|reflexivity].
        -- eapply ev_seq_ok; [| |reflexivity].
           ++ pose proof (ev_rule33_of35 (x0 :: X') (93 :: r) (pos + 3) _ _ E) as E33. cbn [app] in E33.
              assert (E33' : evG (PRef 33) (x0 :: X' ++ 41 :: 93 :: r) (pos + List.length [91] + List.length [63; 40])%nat
                                 (POk (41 :: 93 :: r) (pos + 3 + List.length (x0 :: X')) toks))
                by (replace (pos + List.length [91] + List.length [63; 40])%nat with (pos + 3)%nat by (cbn [List.length]; lia); exact E33).
              exact E33'.
           ++ eapply ev_seq_ok; [|apply ev_act|reflexivity].
              eapply ev_ref; [reflexivity|]. eapply ev_seq_ok; [apply ev_space_stop; discriminate|apply (ev_lit_ok G [41]); apply strip1_ok|reflexivity].
      * eapply ev_ref; [reflexivity|]. eapply ev_seq_ok; [apply ev_space_stop; discriminate|apply (ev_lit_ok G [93]); apply strip1_ok|reflexivity].
  - cbn [List.length app Nat.add]. f_equal; try lia.
    replace (pos + 3 + S (List.length X') + 1 + 1)%nat with (pos + 5 + S (List.length X'))%nat by lia.
    repeat (progress (cbn [app]) || rewrite <- app_assoc || rewrite app_nil_r). reflexivity.
Qed.

Definition cmp_tokens (p : nat) (isteps : list rstep) (o : cmpop) (lit : list N) : list token :=
  let n := (1 + List.length (render_steps isteps) + List.length (op_text o) + List.length lit)%nat in
  cmp39_tokens (p + 3) isteps o lit ++ [TText (p + 3) (p + 3 + n); TAct 26; TAct 23; TText p (p + 5 + n); TAct 7].

Lemma cmp_text_len i o lit : List.length (cmp_text i o lit) = (6 + List.length (render_steps i) + List.length (op_text o) + List.length lit)%nat.
Proof. unfold cmp_text. cbn [app List.length]. rewrite !app_length. cbn [List.length]. lia. Qed.

Lemma ev_rule7_cmp isteps o lit r pos : forallb rstep_ok isteps = true -> lit_ok lit = true ->
  evG (PRef 7) (cmp_text isteps o lit ++ r) pos (POk r (pos + List.length (cmp_text isteps o lit)) (cmp_tokens pos isteps o lit)).
Proof.
  intros Hs Hl. unfold cmp_tokens. cbv zeta.
  set (X := 64 :: render_steps isteps ++ op_text o ++ lit).
  assert (HX : List.length X = (1 + List.length (render_steps isteps) + List.length (op_text o) + List.length lit)%nat)
    by (unfold X; cbn [List.length]; rewrite !app_length; lia).
  assert (E35 : evG (PRef 35) (X ++ 41 :: 93 :: r) (pos + 3) (POk (41 :: 93 :: r) (pos + 3 + List.length X)
                    (cmp39_tokens (pos + 3) isteps o lit ++ [TText (pos + 3) (pos + 3 + List.length X); TAct 26]))).
  { unfold X. replace ((64 :: render_steps isteps ++ op_text o ++ lit) ++ 41 :: 93 :: r) with (64 :: render_steps isteps ++ op_text o ++ lit ++ 41 :: 93 :: r)
      by (cbn [app]; rewrite <- !app_assoc; reflexivity).
    eapply ev_conv.
    - eapply ev_ref; [reflexivity|].
      apply ev_alt_r; [apply ev_seq_fail; eapply ev_ref; [reflexivity|]; apply ev_seq_fail; apply (ev_lit_fail G [40]); reflexivity|].
      apply ev_alt_l. eapply ev_seq_ok; [apply ev_cap; apply (ev_rule39_cmp isteps lit (93 :: r) 41 (or_introl eq_refl) Hs Hl o (pos + 3))|apply ev_act|reflexivity].
    - fold X. rewrite HX.
      replace (pos + 3 + 1 + List.length (render_steps isteps) + List.length (op_text o) + List.length lit)%nat
        with (pos + 3 + (1 + List.length (render_steps isteps) + List.length (op_text o) + List.length lit))%nat by lia.
      rewrite <- !app_assoc. reflexivity. }
  replace (cmp_text isteps o lit ++ r) with ([91; 63; 40] ++ X ++ [41; 93] ++ r)
    by (unfold cmp_text, X; cbn [app]; rewrite <- !app_assoc; reflexivity).
  eapply ev_conv; [apply (ev_rule7_of35 X r pos _ ltac:(unfold X; intros x0 r0 E; inversion E; discriminate) ltac:(unfold X; discriminate) E35)|].
  rewrite cmp_text_len, HX.
  replace (pos + (6 + List.length (render_steps isteps) + List.length (op_text o) + List.length lit))%nat
    with (pos + 5 + (1 + List.length (render_steps isteps) + List.length (op_text o) + List.length lit))%nat by lia.
  rewrite <- !app_assoc. reflexivity.
Qed.

(* ---------- the token replay ---------- *)
Section CmpExec.
  Variable cfg : config.
  Variable parse_float : string -> option num.
  Variable regex_ok : string -> bool.
  Notation execute := (execute cfg parse_float regex_ok).
  Notation exec_action := (exec_action cfg parse_float regex_ok).

  Definition cmp_left (isteps : list rstep) : cparam := CP (filter_pq cfg isteps) false.
  Definition cmp_right (f : num) : cparam := CP (PqLit (VNum f)) true.
  Definition cmp_query (isteps : list rstep) (o : cmpop) (f : num) : query :=
    let l := cmp_left isteps in let r := cmp_right f in
    match o with
    | OEq => QCmp l r (CDirectEq VdNumeric)
    | ONe => QNot (QCmp l r (CDirectEq VdNumeric))
    | OLt => QCmp l r CLt
    | OLe => QCmp l r CLe
    | OGt => QCmp l r CGt
    | OGe => QCmp l r CGe
    end.
  Definition cmp_kind (isteps : list rstep) (o : cmpop) (f : num) : kind := KFilter (cmp_query isteps o f).
  Definition cmp_basic (isteps : list rstep) (o : cmpop) (lit : list N) : basic := mk_basic (text_of (cmp_text isteps o lit)) true (cfg_accessor cfg).
  Definition cmp_node (isteps : list rstep) (o : cmpop) (lit : list N) (f : num) : node := Node (cmp_kind isteps o f) (cmp_basic isteps o lit) ONone.

  Lemma operand_vg isteps : vgroup (node_basic (clear_acc (delete_root (inner_root cfg isteps)))) = steps_vg isteps.
  Proof.
    rewrite <- (pres_vg cfg). unfold inner_root. pose proof (pres_plain cfg isteps) as Hp. destruct (pres cfg isteps) as [|y l]; [reflexivity|].
    inversion Hp as [|? ? Hy Hl]; subst. unfold update_vg. cbn [chain_vg]. rewrite link_vg. cbn [cur_basic mk_basic vgroup orb].
    destruct (any_vg (y :: l)) eqn:Ea.
    - cbn [set_node_vg link delete_root vgroup set_vgroup]. rewrite (clear_link (fst y) _ l (proj1 Hy) Hl). reflexivity.
    - cbn [link delete_root cur_basic mk_basic vgroup]. rewrite (clear_link (fst y) _ l (proj1 Hy) Hl). cbn [node_basic set_accessor vgroup].
      cbn [any_vg existsb] in Ea. apply orb_false_iff in Ea. exact (proj1 Ea).
  Qed.

  Lemma exec_cmp input p isteps o lit f rest ps toks cps b : forallb rstep_ok isteps = true -> steps_vg isteps = false ->
    parse_float (text_of lit) = Some f ->
    skipn p input = cmp_text isteps o lit ++ rest ->
    exists cps' b', execute (cmp_tokens p isteps o lit ++ toks) input cps b (mk ps) = execute toks input cps' b' (mk (ps ++ [INode (cmp_node isteps o lit f)])).
  Proof.
    intros Hs Hvg Hpf Hin. unfold cmp_tokens, cmp39_tokens, left43_tokens. cbv zeta.
    set (L := List.length (render_steps isteps)). set (K := List.length (op_text o)). set (M := List.length lit).
    assert (Hin' : skipn p input = [91; 63; 40] ++ (64 :: render_steps isteps) ++ op_text o ++ lit ++ [41; 93] ++ rest).
    { rewrite Hin. unfold cmp_text. cbn [app]. rewrite <- !app_assoc. reflexivity. }
    assert (Hsk3 : skipn (p + 3) input = 64 :: render_steps isteps ++ op_text o ++ lit ++ [41; 93] ++ rest) by (apply (skipn_next input p [91; 63; 40] _ Hin')).
    set (sv0 := match ps with [] => [] | _ :: _ => [ps] end).
    rewrite <- !app_assoc. cbn [app Actions.execute].
    assert (E38 : exec_action 38 cps b (mk ps) = AOk (with_saved sv0 (mk []))) by (destruct ps; reflexivity).
    rewrite E38. cbn [abind].
    rewrite (execute_under cfg parse_float regex_ok sv0 (inner_tokens (p + 3) isteps) input cps b (mk []) _ ltac:(unfold inner_tokens; rewrite !frame_free_app, frame_free_steps; reflexivity)
               (exec_inner cfg parse_float regex_ok input (p + 3) isteps _ cps b Hs Hsk3)).
    cbn [Actions.execute].
    assert (E39 : forall c0 b0, exec_action 39 c0 b0 (with_saved sv0 (mk [INode (inner_root cfg isteps)])) =
                               AOk (mk (ps ++ [IPQ (filter_pq cfg isteps); IBool false]))).
    { intros c0 b0. cbn [Actions.exec_action].
      assert (El : load_params (with_saved sv0 (mk [INode (inner_root cfg isteps)])) = mk (ps ++ [INode (inner_root cfg isteps)])) by (destruct ps; reflexivity).
      rewrite El. unfold pop_node. rewrite pop_mk. cbn [abind]. rewrite inner_root_kind.
      unfold push, mk, with_params. cbn [params saved proot]. rewrite <- app_assoc. reflexivity. }
    rewrite E39. cbn [abind].
    assert (E37 : forall c0 b0, exec_action 37 c0 b0 (mk (ps ++ [IPQ (filter_pq cfg isteps); IBool false])) = AOk (mk (ps ++ [ICParam (cmp_left isteps)]))).
    { intros c0 b0. cbn [Actions.exec_action].
      change (ps ++ [IPQ (filter_pq cfg isteps); IBool false]) with (ps ++ [IPQ (filter_pq cfg isteps)] ++ [IBool false]). rewrite app_assoc, pop_mk. cbn [abind].
      rewrite pop_mk. cbn [abind]. unfold cmp_left, filter_pq. rewrite operand_vg, Hvg. reflexivity. }
    rewrite E37. cbn [abind].
    assert (Elit : sub_list input (p + 3 + 1 + L + K) (p + 3 + 1 + L + K + M) = lit).
    { pose proof (sub_at input p (3 + 1 + L + K) ([91; 63; 40] ++ (64 :: render_steps isteps) ++ op_text o) lit ([41; 93] ++ rest)) as H.
      replace (p + (3 + 1 + L + K))%nat with (p + 3 + 1 + L + K)%nat in H by lia. apply H.
      - rewrite Hin'. rewrite <- !app_assoc. reflexivity.
      - unfold L, K. cbn [List.length app]. rewrite !app_length. cbn [List.length]. lia. }
    fold L K M. rewrite Elit.
    assert (E40 : forall b0 st, exec_action 40 lit b0 st = AOk (push (INum f) st)) by (intros b0 st; cbn [Actions.exec_action]; rewrite Hpf; reflexivity).
    rewrite E40. cbn [abind].
    change (push (INum f) (mk (ps ++ [ICParam (cmp_left isteps)]))) with (mk ((ps ++ [ICParam (cmp_left isteps)]) ++ [INum f])).
    assert (Elt : forall c0 b0, exec_action (lit_act o) c0 b0 (mk ((ps ++ [ICParam (cmp_left isteps)]) ++ [INum f])) =
                               AOk (mk ((ps ++ [ICParam (cmp_left isteps)]) ++ [ICParam (cmp_right f)]))).
    { intros c0 b0. destruct o; cbn [lit_act Actions.exec_action]; rewrite pop_mk; reflexivity. }
    rewrite Elt. cbn [abind].
    assert (Eop : forall c0 b0, exec_action (op_act o) c0 b0 (mk ((ps ++ [ICParam (cmp_left isteps)]) ++ [ICParam (cmp_right f)])) =
                               AOk (mk (ps ++ [IQuery (cmp_query isteps o f)]))).
    { intros c0 b0. destruct o; cbn [op_act Actions.exec_action]; unfold two_operands, pop_cparam; rewrite pop_mk; cbn [abind]; rewrite pop_mk; cbn [abind]; try reflexivity.
      unfold pop_query. change (push_compare_eq (cmp_left isteps) (cmp_right f) (mk ps)) with (mk (ps ++ [IQuery (QCmp (cmp_left isteps) (cmp_right f) (CDirectEq VdNumeric))])).
      rewrite pop_mk. reflexivity. }
    rewrite Eop. cbn [abind].
    assert (E26 : forall c0 b0, exec_action 26 c0 b0 (mk (ps ++ [IQuery (cmp_query isteps o f)])) = AOk (mk (ps ++ [IQuery (cmp_query isteps o f)]))).
    { intros c0 b0. cbn [Actions.exec_action]. rewrite pop_mk. cbn [abind]. destruct o; reflexivity. }
    rewrite E26. cbn [abind].
    assert (E23 : forall c0 b0, exec_action 23 c0 b0 (mk (ps ++ [IQuery (cmp_query isteps o f)])) =
                               AOk (mk (ps ++ [INode (Node (cmp_kind isteps o f) (mk_basic "" true (cfg_accessor cfg)) ONone)]))).
    { intros c0 b0. cbn [Actions.exec_action]. unfold pop_query. rewrite pop_mk. reflexivity. }
    rewrite E23. cbn [abind].
    assert (Et : sub_list input p (p + 5 + (1 + L + K + M)) = cmp_text isteps o lit).
    { pose proof (sub_at input p 0 [] (cmp_text isteps o lit) rest) as H. rewrite Nat.add_0_r in H.
      replace (p + 5 + (1 + L + K + M))%nat with (p + List.length (cmp_text isteps o lit))%nat by (rewrite cmp_text_len; unfold L, K, M; lia).
      apply H; [exact Hin|reflexivity]. }
    rewrite Et.
    assert (E7 : forall b0, exec_action 7 (cmp_text isteps o lit) b0 (mk (ps ++ [INode (Node (cmp_kind isteps o f) (mk_basic "" true (cfg_accessor cfg)) ONone)])) =
                            AOk (mk (ps ++ [INode (cmp_node isteps o lit f)]))).
    { intros b0. cbn [Actions.exec_action]. unfold set_last_node_text, pop_node. rewrite pop_mk. reflexivity. }
    rewrite E7. cbn [abind]. eexists _, _. reflexivity.
  Qed.
End CmpExec.
