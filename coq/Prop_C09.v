(* Prop_C09.v — property C09: filter logic is Boolean algebra over members; comparisons obey
   their dualities.  Only property theorems (closed by `exact`) and Print Assumptions.
   den n l i = "member i of n is selected by verdict list l" is exactly how the filter node
   (Eval.filter_loop) reads a list; vl_ok n l = the list has one entry per member or exactly one. *)
From JP Require Import Json Tree Eval Actions Spec Verdict VerdictCompute CompareFacts SpecPerm CompareSym.
Open Scope nat_scope.

Section C09.
  Variable ffun : string -> value -> option value.
  Variable afun : string -> list value -> option value.
  Variable regex_match : string -> string -> bool.
  Notation compute := (compute ffun afun regex_match).

  (* A && B selects the intersection, for every member count (0 and 1 included) *)
  Theorem C09_and : forall n a b root vals st L st1 R st2 X st3 i,
    compute a root vals st = (L, st1) -> compute b root vals st1 = (R, st2) ->
    compute (QAnd a b) root vals st = (X, st3) ->
    good st1 -> good st2 -> vl_ok n (lget st1 L) -> vl_ok n (lget st2 R) ->
    den n (lget st3 X) i = den n (lget st1 L) i && den n (lget st2 R) i.
  Proof.
    intros n a b root vals st L st1 R st2 X st3 i Ha Hb Hab G1 G2 VL VR.
    destruct (compute_and ffun afun regex_match n a b root vals st L st1 R st2 X st3 Ha Hb Hab G1 G2 VL VR) as [-> _].
    exact (den_and n _ _ i VL VR).
  Qed.

  (* A || B selects the union *)
  Theorem C09_or : forall n a b root vals st L st1 R st2 X st3 i,
    compute a root vals st = (L, st1) -> compute b root vals st1 = (R, st2) ->
    compute (QOr a b) root vals st = (X, st3) ->
    good st1 -> good st2 -> vl_ok n (lget st1 L) -> vl_ok n (lget st2 R) ->
    den n (lget st3 X) i = den n (lget st1 L) i || den n (lget st2 R) i.
  Proof.
    intros n a b root vals st L st1 R st2 X st3 i Ha Hb Hab G1 G2 VL VR.
    destruct (compute_or ffun afun regex_match n a b root vals st L st1 R st2 X st3 Ha Hb Hab G1 G2 VL VR) as [-> _].
    exact (den_or n _ _ i VL VR).
  Qed.

  (* !A selects the complement; `x != y` is built as NOT(x == y) by the parser (action 29),
     so it selects exactly the complement of `x == y` *)
  Theorem C09_not : forall n a root vals st L st1 X st2 i,
    compute a root vals st = (L, st1) -> compute (QNot a) root vals st = (X, st2) ->
    good st1 -> vl_ok n (lget st1 L) ->
    den n (lget st2 X) i = (i <? n) && negb (den n (lget st1 L) i).
  Proof.
    intros n a root vals st L st1 X st2 i Ha Hn G1 VL.
    destruct (compute_not ffun afun regex_match n a root vals st L st1 X st2 Ha Hn G1 VL) as [-> _].
    exact (den_not n _ i VL).
  Qed.
End C09.
Print Assumptions C09_and.
Print Assumptions C09_or.
Print Assumptions C09_not.

(* well-formedness of the verdict lists is preserved by the three operators, so the laws compose
   through nested expressions *)
Theorem C09_wf_and : forall n l r, vl_ok n l -> vl_ok n r -> vl_ok n (and_lists l r).
Proof. exact vl_ok_and. Qed.
Theorem C09_wf_or : forall n l r, vl_ok n l -> vl_ok n r -> vl_ok n (or_lists l r).
Proof. exact vl_ok_or. Qed.
Theorem C09_wf_not : forall n l, vl_ok n l -> vl_ok n (not_list l).
Proof. exact vl_ok_not. Qed.
Print Assumptions C09_wf_and.

(* mirrored operators: `a OP b` and `b OP' a` build the same query (hence select the same members)
   whenever the operands have different ranks (literal > $-path > @-path); == likewise *)
Theorem C09_mirror_ord : forall c l r st, rank l <> rank r ->
  push_compare_ord c l r st = push_compare_ord (mirror c) r l st.
Proof. exact push_compare_ord_mirror. Qed.
Theorem C09_mirror_eq : forall l r st, rank l <> rank r -> push_compare_eq l r st = push_compare_eq r l st.
Proof. exact push_compare_eq_sym. Qed.
Print Assumptions C09_mirror_ord.
Print Assumptions C09_mirror_eq.

(* ... and when the operands have the SAME rank (two `$` paths, two literals) the two spellings build two
   different queries that select the same members: `a < b` / `b > a` (all four ordering pairs) for any values,
   `a == b` / `b == a` between `$` paths whose values are decoded JSON (deep equality is symmetric on documents
   with distinct keys), and between two scalar literals.  Operands of these kinds are single-valued
   (C09_root_operand_single; a literal is [Some v] by definition). *)
Theorem C09_mirror_equal_rank_ord : forall ffun afun regex_match c lp ll rp rl st root vals x y,
  is_ord c = true -> rank (CP lp ll) = rank (CP rp rl) ->
  Spec.operand ffun afun regex_match lp root vals = [x] -> Spec.operand ffun afun regex_match rp root vals = [y] ->
  exists q1 q2, push_compare_ord c (CP lp ll) (CP rp rl) st = push (IQuery q1) st /\
                push_compare_ord (mirror c) (CP rp rl) (CP lp ll) st = push (IQuery q2) st /\
                Spec.holds ffun afun regex_match q1 root vals = Spec.holds ffun afun regex_match q2 root vals.
Proof. exact mirror_equal_rank_ord. Qed.
Theorem C09_mirror_equal_rank_eq_paths : forall ffun afun regex_match lp ll rp rl st root vals x y,
  (forall v, lp <> PqLit v) -> (forall v, rp <> PqLit v) -> rank (CP lp ll) = rank (CP rp rl) ->
  Spec.operand ffun afun regex_match lp root vals = [x] -> Spec.operand ffun afun regex_match rp root vals = [y] ->
  entry_ok x -> entry_ok y ->
  exists q1 q2, push_compare_eq (CP lp ll) (CP rp rl) st = push (IQuery q1) st /\
                push_compare_eq (CP rp rl) (CP lp ll) st = push (IQuery q2) st /\
                Spec.holds ffun afun regex_match q1 root vals = Spec.holds ffun afun regex_match q2 root vals.
Proof. exact mirror_equal_rank_eq_paths. Qed.
Theorem C09_mirror_equal_rank_eq_literals : forall ffun afun regex_match v w ll rl st root vals vdv vdw,
  lit_vd v = Some vdv -> lit_vd w = Some vdw ->
  exists q1 q2, push_compare_eq (CP (PqLit v) ll) (CP (PqLit w) rl) st = push (IQuery q1) st /\
                push_compare_eq (CP (PqLit w) rl) (CP (PqLit v) ll) st = push (IQuery q2) st /\
                Spec.holds ffun afun regex_match q1 root vals = Spec.holds ffun afun regex_match q2 root vals.
Proof. exact mirror_equal_rank_eq_lits. Qed.
Theorem C09_root_operand_single : forall ffun afun regex_match n root vals,
  exists x, Spec.operand ffun afun regex_match (PqRoot n) root vals = [x].
Proof. exact operand_root_single. Qed.
Theorem C09_deep_equality_symmetric : forall v w, nd_doc v -> nd_doc w -> no_opaque v -> no_opaque w -> deep_eq v w = deep_eq w v.
Proof. exact deep_eq_sym. Qed.
Print Assumptions C09_mirror_equal_rank_ord.
Print Assumptions C09_mirror_equal_rank_eq_paths.
Print Assumptions C09_mirror_equal_rank_eq_literals.
Print Assumptions C09_deep_equality_symmetric.

(* against a number literal, <= selects the union of < and ==, >= the union of > and == *)
Theorem C09_le_lt_eq : forall rm b x, numeric_entry x ->
  keeps rm CLe (Some (VNum b)) x = keeps rm CLt (Some (VNum b)) x || keeps rm (CDirectEq VdNumeric) (Some (VNum b)) x.
Proof. exact keeps_le. Qed.
Theorem C09_ge_gt_eq : forall rm b x, numeric_entry x ->
  keeps rm CGe (Some (VNum b)) x = keeps rm CGt (Some (VNum b)) x || keeps rm (CDirectEq VdNumeric) (Some (VNum b)) x.
Proof. exact keeps_ge. Qed.
Print Assumptions C09_le_lt_eq.
Print Assumptions C09_ge_gt_eq.

(* non-vacuity: a concrete evaluation where the hypotheses hold and the sets differ *)
Example C09_example :
  let l := [Some (VNum (Fin 1 0)); None; Some (VNum (Fin 3 0))] in
  let r := [None; None; Some (VBool true)] in
  vl_ok 3 l /\ vl_ok 3 r /\ map (den 3 (and_lists l r)) [0;1;2] = [false; false; true]
  /\ map (den 3 (or_lists l r)) [0;1;2] = [true; false; true] /\ map (den 3 (not_list l)) [0;1;2] = [false; true; false].
Proof. cbv. repeat split; auto. Qed.

(* From the path text (CmpParse.v, CmpAddr.v): the comparison filter `$[?(@ inner OP number)]`, OP one of == != < <= > >=,
   inner a single-valued path of name/index steps, keeps exactly the elements (index order) or members (ascending key
   order) whose value reached by inner is a number — float64 or json.Number alike — in that relation to the literal;
   `!=` is the complement of `==` over the members (so members offering no number are kept); the literal is what
   strconv.ParseFloat (parameter pf) makes of its spelling. *)
From JP Require Import Json Text Tree Grammar Actions Eval WF EvalInv1 KeyDefs ChainParse AggParse FiltParse CmpParse FiltChain ChainAddr FiltAddr CmpAddr FiltChainAddr.
From Coq Require Import List. Import ListNotations.
Theorem C09_comparison_filter_from_text : forall cfg parse_float regex_ok ffun afun regex_match,
  (forall f v w, small v -> ffun f v = Some w -> small w) ->
  (forall f l w, Forall small l -> afun f l = Some w -> small w) ->
  forall i o lit f doc st, forallb rstep_ok i = true -> steps_vg i = false -> lit_ok lit = true ->
  parse_float (text_of lit) = Some f -> small doc -> ok st ->
  exists t, parse_with cfg parse_float regex_ok jsonpath_grammar (fchain_path [FC i o lit]) = ParseOk t /\
            match navp (ctest i o f) ([], doc) with
            | [] => exists e, fst (eval_run ffun afun regex_match t doc st) = OErr e
            | l => fst (eval_run ffun afun regex_match t doc st) = OOk (map (loc_result cfg) l)
            end.
Proof.
  intros cfg parse_float regex_ok ffun afun regex_match Hf Ha i o lit f doc st Hs Hvg Hl Hpf Hd Hok.
  assert (H1 : forallb fstep_ok [FC i o lit] = true) by (cbn [forallb fstep_ok]; rewrite Hs, Hvg, Hl; reflexivity).
  assert (H2 : forallb (fstep_okp parse_float regex_ok) [FC i o lit] = true) by (cbn [forallb fstep_okp]; rewrite Hpf; reflexivity).
  destruct (fchain_retrieval cfg parse_float regex_ok ffun afun regex_match Hf Ha (FC i o lit) [] doc st H1 H2 Hd Hok) as (t & Hp & H).
  exists t. split; [exact Hp|]. cbn [nav_allf nav1f] in H. unfold lit_num in H. rewrite Hpf in H.
  rewrite (flat_map_single (fun x : list pstep * value => x)), map_id in H. exact H.
Qed.
Print Assumptions C09_comparison_filter_from_text.

(* The Boolean algebra of filters from the path text (BoolText.v).  C01_filter_retrieval expresses what a path returns through
   nav1f, step by step; for a filter step nav1f is "the members (elements in index order, member values in ascending key order)
   whose verdict is true" — a subsequence of the members.  Hence, for the filters written `[?(…||…)]`, `[?(…&&…)]`, `[?(!…)]`:
   || selects the union, && the intersection (in member order: filtering twice), ! the complement among the members; the
   negated basic queries (!@p, !$p, !=) are the negations of the plain ones. *)
From JP Require Import Json KeyDefs FiltChain FiltAddr QueryAddr FiltChainAddr BoolText.
From Coq Require Import List. Import ListNotations.
Theorem C09_or_is_union_from_text : forall parse_float regex_match root d1 d2 lv m,
  In m (nav1f parse_float regex_match root (FQ (d1 ++ d2)) lv) <->
  In m (nav1f parse_float regex_match root (FQ d1) lv) \/ In m (nav1f parse_float regex_match root (FQ d2) lv).
Proof. exact or_is_union. Qed.
Print Assumptions C09_or_is_union_from_text.
Theorem C09_and_is_intersection_from_text : forall parse_float regex_match root c1 c2 lv m,
  In m (nav1f parse_float regex_match root (FQ [c1 ++ c2]) lv) <->
  In m (nav1f parse_float regex_match root (FQ [c1]) lv) /\ In m (nav1f parse_float regex_match root (FQ [c2]) lv).
Proof. exact and_is_intersection. Qed.
Print Assumptions C09_and_is_intersection_from_text.
Theorem C09_and_in_member_order_from_text : forall parse_float regex_match root c1 c2 lv,
  nav1f parse_float regex_match root (FQ [c1 ++ c2]) lv =
  filter (fun m => dnf_test parse_float regex_match root (kids (snd lv)) [c2] (snd m)) (nav1f parse_float regex_match root (FQ [c1]) lv).
Proof. exact and_in_member_order. Qed.
Theorem C09_not_is_complement_from_text : forall parse_float regex_match root i lv m, In m (members lv) ->
  (In m (nav1f parse_float regex_match root (FN i) lv) <-> ~ In m (nav1f parse_float regex_match root (FE i) lv)).
Proof. exact not_is_complement. Qed.
Print Assumptions C09_not_is_complement_from_text.
(* the same for arbitrary sub-queries, parenthesised or not (QueryTree.v: `FT t`, t a tree of `&&`, `||` and parentheses over
   basic queries) *)
From JP Require Import QueryTree.
Theorem C09_subquery_or_is_union_from_text : forall parse_float regex_match root l r lv m,
  In m (nav1f parse_float regex_match root (FT (TO l r)) lv) <->
  In m (nav1f parse_float regex_match root (FT l) lv) \/ In m (nav1f parse_float regex_match root (FT r) lv).
Proof. exact tree_or_is_union. Qed.
Print Assumptions C09_subquery_or_is_union_from_text.
Theorem C09_subquery_and_is_intersection_from_text : forall parse_float regex_match root l r lv m,
  In m (nav1f parse_float regex_match root (FT (TA l r)) lv) <->
  In m (nav1f parse_float regex_match root (FT l) lv) /\ In m (nav1f parse_float regex_match root (FT r) lv).
Proof. exact tree_and_is_intersection. Qed.
Print Assumptions C09_subquery_and_is_intersection_from_text.
Theorem C09_parentheses_from_text : forall parse_float regex_match root lv,
  (forall t, nav1f parse_float regex_match root (FT (TP t)) lv = nav1f parse_float regex_match root (FT t) lv) /\
  (forall a b c, nav1f parse_float regex_match root (FT (TA (TP (TO a b)) c)) lv = nav1f parse_float regex_match root (FT (TO (TA a c) (TA b c))) lv) /\
  (forall b bs cs, nav1f parse_float regex_match root (FQ ((b :: bs) :: map (fun c : bq * list bq => fst c :: snd c) cs)) lv =
                   nav1f parse_float regex_match root (FT (dnf_tree b bs cs)) lv).
Proof.
  intros pf rm root lv. split; [intros t; apply parentheses_only_group|]. split; [intros a b c; apply and_distributes_over_or|].
  intros b bs cs. apply dnf_is_the_flat_tree.
Qed.
Print Assumptions C09_parentheses_from_text.
Theorem C09_negated_basic_queries_from_text : forall parse_float regex_match root vals v,
  (forall i, bq_test parse_float regex_match root vals (BN i) v = negb (bq_test parse_float regex_match root vals (BE i) v)) /\
  (forall j, bq_test parse_float regex_match root vals (BRN j) v = negb (bq_test parse_float regex_match root vals (BRE j) v)) /\
  (forall i l, bq_test parse_float regex_match root vals (BL i true l) v = negb (bq_test parse_float regex_match root vals (BL i false l) v)) /\
  (forall i j, bq_test parse_float regex_match root vals (BPQ i true j) v = negb (bq_test parse_float regex_match root vals (BPQ i false j) v)) /\
  (forall i lit, bq_test parse_float regex_match root vals (BC i ONe lit) v = negb (bq_test parse_float regex_match root vals (BC i OEq lit) v)).
Proof. exact negated_basic_queries. Qed.
Theorem C09_selection_keeps_member_order_from_text : forall parse_float regex_match root x lv, is_filt x = true ->
  exists h, nav1f parse_float regex_match root x lv = filter h (members lv).
Proof. exact selection_is_subsequence. Qed.
Print Assumptions C09_selection_keeps_member_order_from_text.
