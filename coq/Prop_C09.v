(* Prop_C09.v — property C09: filter logic is Boolean algebra over members; comparisons obey
   their dualities.  Only property theorems (closed by `exact`) and Print Assumptions.
   den n l i = "member i of n is selected by verdict list l" is exactly how the filter node
   (Eval.filter_loop) reads a list; vl_ok n l = the list has one entry per member or exactly one. *)
From JP Require Import Eval Actions Verdict VerdictCompute CompareFacts.
Open Scope nat_scope.

Section C09.
  Variable ffun : string -> value -> option value.
  Variable afun : string -> list value -> option value.
  Variable regex_match : string -> string -> bool.
  Notation compute := (compute ffun afun regex_match).

  (* A && B selects the intersection, for every member count (0 and 1 included) *)
  Theorem C09_and : forall n a b root vals st L st1 R st2 X st3 i,
    compute a root vals st = (L, st1) -> compute b root vals st1 = (R, st2) ->
    compute (QAnd a b) root vals st = (X, st3) ->
    good st1 -> good st2 -> vl_ok n (lget st1 L) -> vl_ok n (lget st2 R) ->
    den n (lget st3 X) i = den n (lget st1 L) i && den n (lget st2 R) i.
  Proof.
    intros n a b root vals st L st1 R st2 X st3 i Ha Hb Hab G1 G2 VL VR.
    destruct (compute_and ffun afun regex_match n a b root vals st L st1 R st2 X st3 Ha Hb Hab G1 G2 VL VR) as [-> _].
    exact (den_and n _ _ i VL VR).
  Qed.

  (* A || B selects the union *)
  Theorem C09_or : forall n a b root vals st L st1 R st2 X st3 i,
    compute a root vals st = (L, st1) -> compute b root vals st1 = (R, st2) ->
    compute (QOr a b) root vals st = (X, st3) ->
    good st1 -> good st2 -> vl_ok n (lget st1 L) -> vl_ok n (lget st2 R) ->
    den n (lget st3 X) i = den n (lget st1 L) i || den n (lget st2 R) i.
  Proof.
    intros n a b root vals st L st1 R st2 X st3 i Ha Hb Hab G1 G2 VL VR.
    destruct (compute_or ffun afun regex_match n a b root vals st L st1 R st2 X st3 Ha Hb Hab G1 G2 VL VR) as [-> _].
    exact (den_or n _ _ i VL VR).
  Qed.

  (* !A selects the complement; `x != y` is built as NOT(x == y) by the parser (action 29),
     so it selects exactly the complement of `x == y` *)
  Theorem C09_not : forall n a root vals st L st1 X st2 i,
    compute a root vals st = (L, st1) -> compute (QNot a) root vals st = (X, st2) ->
    good st1 -> vl_ok n (lget st1 L) ->
    den n (lget st2 X) i = (i <? n) && negb (den n (lget st1 L) i).
  Proof.
    intros n a root vals st L st1 X st2 i Ha Hn G1 VL.
    destruct (compute_not ffun afun regex_match n a root vals st L st1 X st2 Ha Hn G1 VL) as [-> _].
    exact (den_not n _ i VL).
  Qed.
End C09.
Print Assumptions C09_and.
Print Assumptions C09_or.
Print Assumptions C09_not.

(* well-formedness of the verdict lists is preserved by the three operators, so the laws compose
   through nested expressions *)
Theorem C09_wf_and : forall n l r, vl_ok n l -> vl_ok n r -> vl_ok n (and_lists l r).
Proof. exact vl_ok_and. Qed.
Theorem C09_wf_or : forall n l r, vl_ok n l -> vl_ok n r -> vl_ok n (or_lists l r).
Proof. exact vl_ok_or. Qed.
Theorem C09_wf_not : forall n l, vl_ok n l -> vl_ok n (not_list l).
Proof. exact vl_ok_not. Qed.
Print Assumptions C09_wf_and.

(* mirrored operators: `a OP b` and `b OP' a` build the same query (hence select the same members)
   whenever the operands have different ranks (literal > $-path > @-path); == likewise *)
Theorem C09_mirror_ord : forall c l r st, rank l <> rank r ->
  push_compare_ord c l r st = push_compare_ord (mirror c) r l st.
Proof. exact push_compare_ord_mirror. Qed.
Theorem C09_mirror_eq : forall l r st, rank l <> rank r -> push_compare_eq l r st = push_compare_eq r l st.
Proof. exact push_compare_eq_sym. Qed.
Print Assumptions C09_mirror_ord.
Print Assumptions C09_mirror_eq.

(* against a number literal, <= selects the union of < and ==, >= the union of > and == *)
Theorem C09_le_lt_eq : forall rm b x, numeric_entry x ->
  keeps rm CLe (Some (VNum b)) x = keeps rm CLt (Some (VNum b)) x || keeps rm (CDirectEq VdNumeric) (Some (VNum b)) x.
Proof. exact keeps_le. Qed.
Theorem C09_ge_gt_eq : forall rm b x, numeric_entry x ->
  keeps rm CGe (Some (VNum b)) x = keeps rm CGt (Some (VNum b)) x || keeps rm (CDirectEq VdNumeric) (Some (VNum b)) x.
Proof. exact keeps_ge. Qed.
Print Assumptions C09_le_lt_eq.
Print Assumptions C09_ge_gt_eq.

(* non-vacuity: a concrete evaluation where the hypotheses hold and the sets differ *)
Example C09_example :
  let l := [Some (VNum (Fin 1 0)); None; Some (VNum (Fin 3 0))] in
  let r := [None; None; Some (VBool true)] in
  vl_ok 3 l /\ vl_ok 3 r /\ map (den 3 (and_lists l r)) [0;1;2] = [false; false; true]
  /\ map (den 3 (or_lists l r)) [0;1;2] = [true; false; true] /\ map (den 3 (not_list l)) [0;1;2] = [false; true; false].
Proof. cbv. repeat split; auto. Qed.
