(* DecFacts.v — decimal spelling of an array index and its round trip through strconv.Atoi (the model's atoi). *)
From JP Require Import Slice Text.
From Coq Require Import Lia ZArith NArith List ZifyN ZifyNat ZifyBool.
Import ListNotations.
Open Scope Z_scope.

Definition is_digitZ (c : N) : bool := ((48 <=? c) && (c <=? 57))%N.

(* value of a digit string, most significant digit first *)
Fixpoint dval (ds : list N) : Z :=
  match ds with [] => 0 | d :: r => (Z.of_N d - 48) * 10 ^ Z.of_nat (List.length r) + dval r end.

Lemma digits_val_dval : forall ds a, forallb is_digitZ ds = true ->
  digits_val ds a = Some (a * 10 ^ Z.of_nat (List.length ds) + dval ds).
Proof.
  induction ds as [|d ds IH]; intros a Hd.
  - cbn [digits_val List.length dval]. f_equal. change (10 ^ Z.of_nat 0) with 1. lia.
  - cbn [forallb] in Hd. apply andb_true_iff in Hd. destruct Hd as [H1 H2].
    cbn [digits_val]. unfold digit_val. unfold is_digitZ in H1. rewrite H1. rewrite IH by exact H2.
    f_equal. cbn [List.length dval]. rewrite Nat2Z.inj_succ, Z.pow_succ_r by lia.
    apply andb_true_iff in H1. destruct H1 as [B1 B2]. apply N.leb_le in B1. apply N.leb_le in B2.
    rewrite N2Z.inj_sub by exact B1. change (Z.of_N 48) with 48. ring.
Qed.

(* the digits of n, least significant first into the accumulator *)
Fixpoint dec_aux (fuel : nat) (n : N) (acc : list N) : list N :=
  match fuel with
  | O => acc
  | S f => if (n <? 10)%N then (48 + n)%N :: acc else dec_aux f (n / 10)%N ((48 + n mod 10)%N :: acc)
  end.
Definition dec (n : N) : list N := dec_aux 20 n [].

Lemma dec_aux_digits : forall f n acc, forallb is_digitZ acc = true -> forallb is_digitZ (dec_aux f n acc) = true.
Proof.
  induction f as [|f IH]; intros n acc Ha; cbn [dec_aux]; [exact Ha|].
  destruct (n <? 10)%N eqn:E.
  - apply N.ltb_lt in E. cbn [forallb]. rewrite Ha, andb_true_r. unfold is_digitZ. apply andb_true_iff. split; apply N.leb_le; lia.
  - apply IH. cbn [forallb]. rewrite Ha, andb_true_r. unfold is_digitZ.
    pose proof (N.mod_lt n 10 ltac:(lia)). apply andb_true_iff. split; apply N.leb_le; lia.
Qed.
Lemma dec_aux_nonempty : forall f n acc, (0 < f)%nat -> dec_aux f n acc <> [].
Proof.
  induction f as [|f IH]; intros n acc Hf; [lia|]. cbn [dec_aux]. destruct (n <? 10)%N; [discriminate|].
  destruct f as [|f']; [cbn [dec_aux]; discriminate|]. apply IH. lia.
Qed.

Lemma dec_aux_val : forall f n acc, (Z.of_N n < 10 ^ Z.of_nat f) -> (0 < f)%nat ->
  dval (dec_aux f n acc) = Z.of_N n * 10 ^ Z.of_nat (List.length acc) + dval acc /\
  List.length (dec_aux f n acc) = (List.length (dec_aux f n []) + List.length acc)%nat.
Proof.
  induction f as [|f IH]; intros n acc Hn Hf; [lia|]. cbn [dec_aux].
  destruct (n <? 10)%N eqn:E.
  - apply N.ltb_lt in E. split; [|cbn [List.length]; lia]. cbn [dval]. rewrite N2Z.inj_add. change (Z.of_N 48) with 48. ring.
  - apply N.ltb_ge in E.
    assert (Hf' : (0 < f)%nat).
    { destruct f; [|lia]. change (10 ^ Z.of_nat 1) with 10 in Hn. lia. }
    assert (Hq : Z.of_N (n / 10) < 10 ^ Z.of_nat f).
    { rewrite N2Z.inj_div. change (Z.of_N 10) with 10. apply Z.div_lt_upper_bound; [lia|].
      rewrite Nat2Z.inj_succ, Z.pow_succ_r in Hn by lia. exact Hn. }
    destruct (IH (n / 10)%N ((48 + n mod 10)%N :: acc) Hq Hf') as [V L].
    destruct (IH (n / 10)%N [(48 + n mod 10)%N] Hq Hf') as [_ L1].
    split.
    + rewrite V. cbn [List.length dval]. rewrite Nat2Z.inj_succ, Z.pow_succ_r by lia.
      rewrite N2Z.inj_add, N2Z.inj_mod, N2Z.inj_div. change (Z.of_N 48) with 48. change (Z.of_N 10) with 10.
      pose proof (Z.div_mod (Z.of_N n) 10 ltac:(lia)) as Hdm. 
      replace (48 + Z.of_N n mod 10 - 48) with (Z.of_N n mod 10) by lia.
      set (q := Z.of_N n / 10) in *. set (m := Z.of_N n mod 10) in *. set (P := 10 ^ Z.of_nat (List.length acc)).
      rewrite Hdm. ring.
    + rewrite L, L1. cbn [List.length]. lia.
Qed.

(* strconv.Atoi reads the decimal spelling of n back as n *)
Theorem atoi_dec n : (Z.of_N n < 2 ^ 63) -> atoi (dec n) = Some (Z.of_N n) /\ forallb is_digitZ (dec n) = true /\ dec n <> [].
Proof.
  intros Hn. unfold dec.
  assert (Hd : forallb is_digitZ (dec_aux 20 n []) = true) by (apply dec_aux_digits; reflexivity).
  assert (Hne : dec_aux 20 n [] <> []) by (apply dec_aux_nonempty; lia).
  split; [|split; assumption].
  assert (Hlt : Z.of_N n < 10 ^ Z.of_nat 20) by (change (10 ^ Z.of_nat 20) with 100000000000000000000; change (2 ^ 63) with 9223372036854775808 in Hn; lia).
  destruct (dec_aux_val 20 n [] Hlt ltac:(lia)) as [V _]. cbn [List.length dval] in V. change (10 ^ Z.of_nat 0) with 1 in V.
  unfold atoi. destruct (dec_aux 20 n []) as [|c r] eqn:E; [contradiction Hne; reflexivity|].
  assert (Hc : is_digitZ c = true) by (cbn [forallb] in Hd; apply andb_true_iff in Hd; tauto).
  unfold is_digitZ in Hc. apply andb_true_iff in Hc. destruct Hc as [C1 C2]. apply N.leb_le in C1. apply N.leb_le in C2.
  assert (E1 : (c =? 45)%N = false) by (apply N.eqb_neq; lia). assert (E2 : (c =? 43)%N = false) by (apply N.eqb_neq; lia).
  rewrite E1, E2. rewrite (digits_val_dval (c :: r) 0 Hd). rewrite V.
  replace (0 * 10 ^ Z.of_nat (List.length (c :: r)) + (Z.of_N n * 1 + 0)) with (Z.of_N n) by ring.
  assert (Hin : in64b (Z.of_N n) = true).
  { unfold in64b, two63. change (2 ^ 63) with 9223372036854775808 in Hn. apply andb_true_iff. split; [apply Z.leb_le|apply Z.ltb_lt]; lia. }
  rewrite Hin. reflexivity.
Qed.
