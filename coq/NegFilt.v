(* NegFilt.v — the negated existence filter [?(!@ steps)] through the regenerated grammar: basicQuery's third alternative
   with logicNot present; the captured text then starts with `!` and action 27 wraps the operand in a negation. *)
From JP Require Import Peg Grammar Text Tree Actions PegFacts PegMono PegEv FuelRules ParseFacts KeyDefs KeyParse IdxParse SliceParse UnionParse WildParse RecParse ChainParse SpacePath FunParse AggParse Frame FiltParse CmpParse NoDollar.
From Coq Require Import Lia.
Local Open Scope N_scope.
Open Scope list_scope.

Definition neg_tokens (p : nat) (isteps : list rstep) : list token :=
  let L := List.length (render_steps isteps) in
  [TAct 38] ++ inner_tokens (p + 4) isteps ++
  [TAct 39; TText (p + 3) (p + 5 + L); TAct 27; TAct 23; TText p (p + 7 + L); TAct 7].

Lemma neg_text_len i : List.length (neg_text i) = (7 + List.length (render_steps i))%nat.
Proof. unfold neg_text. cbn [app List.length]. rewrite app_length. cbn [List.length]. lia. Qed.

(* nothing that starts an operand starts with ! *)
Lemma ev_rule43_bang r pos : evG (PRef 43) (33 :: r) pos PFail.
Proof.
  eapply ev_ref; [reflexivity|]. apply ev_seq_fail. apply ev_cap_fail. eapply ev_ref; [reflexivity|].
  eapply ev_seq_fail2; [apply ev_act|]. apply ev_seq_fail. eapply ev_ref; [reflexivity|].
  eapply ev_seq_fail2; [apply ev_space_stop; discriminate|]. apply ev_seq_fail. eapply ev_ref; [reflexivity|].
  apply ev_alt_r; eapply ev_ref; try reflexivity; apply ev_seq_fail; apply (ev_lit_fail G); reflexivity.
Qed.
Lemma ev_rule45_bang r pos : evG (PRef 45) (33 :: r) pos PFail.
Proof.
  eapply ev_ref; [reflexivity|]. apply ev_seq_fail. apply ev_cap_fail.
  eapply ev_seq_fail2; [apply ev_opt_none; apply ev_cls_fail; reflexivity|]. apply ev_seq_fail. apply ev_cls_fail. reflexivity.
Qed.
Lemma ev_rule42_bang r pos : evG (PRef 42) (33 :: r) pos PFail.
Proof.
  eapply ev_ref; [reflexivity|]. apply ev_alt_r; [apply ev_rule45_bang|].
  apply ev_alt_r.
  { eapply ev_ref; [reflexivity|]. apply ev_alt_r; apply ev_seq_fail;
      (apply ev_alt_r; [apply (ev_lit_fail G); reflexivity|]; apply ev_alt_r; apply (ev_lit_fail G); reflexivity). }
  apply ev_alt_r.
  { eapply ev_ref; [reflexivity|]. apply ev_alt_r; apply ev_seq_fail; apply (ev_lit_fail G); reflexivity. }
  eapply ev_ref; [reflexivity|]. apply ev_seq_fail.
  apply ev_alt_r; [apply (ev_lit_fail G); reflexivity|]; apply ev_alt_r; apply (ev_lit_fail G); reflexivity.
Qed.
Lemma ev_rule39_bang r pos : evG (PRef 39) (33 :: r) pos PFail.
Proof.
  eapply ev_ref; [reflexivity|].
  apply ev_alt_r; [apply ev_seq_fail; eapply ev_ref; [reflexivity|]; apply ev_alt_r; [apply ev_seq_fail; apply ev_rule42_bang|apply ev_rule43_bang]|].
  apply ev_alt_r; [apply ev_seq_fail; eapply ev_ref; [reflexivity|]; apply ev_alt_r; [apply ev_seq_fail; apply ev_rule45_bang|apply ev_rule43_bang]|].
  apply ev_seq_fail. apply ev_rule43_bang.
Qed.

Lemma ev_rule7_neg isteps r pos : forallb rstep_ok isteps = true ->
  evG (PRef 7) (neg_text isteps ++ r) pos (POk r (pos + List.length (neg_text isteps)) (neg_tokens pos isteps)).
Proof.
  intros Hs. unfold neg_tokens. cbv zeta. set (L := List.length (render_steps isteps)).
  set (X := 33 :: 64 :: render_steps isteps).
  assert (HX : List.length X = (2 + L)%nat) by reflexivity.
  assert (E35 : evG (PRef 35) (X ++ 41 :: 93 :: r) (pos + 3) (POk (41 :: 93 :: r) (pos + 3 + List.length X)
                    ([TAct 38] ++ inner_tokens (pos + 4) isteps ++ [TAct 39; TText (pos + 3) (pos + 5 + L); TAct 27]))).
  { unfold X. cbn [app]. eapply ev_conv.
    - eapply ev_ref; [reflexivity|].
      apply ev_alt_r; [apply ev_seq_fail; eapply ev_ref; [reflexivity|]; apply ev_seq_fail; apply (ev_lit_fail G [40]); reflexivity|].
      apply ev_alt_r; [apply ev_seq_fail; apply ev_cap_fail; apply ev_rule39_bang|].
      eapply ev_seq_ok; [apply ev_cap| apply ev_act |reflexivity].
      eapply ev_seq_ok; [apply ev_opt_some; eapply ev_ref; [reflexivity|];
                         eapply ev_seq_ok; [apply (ev_lit_ok G [33]); apply strip1_ok|apply ev_space_stop; discriminate|reflexivity]| |reflexivity].
      apply (ev_rule44 isteps (93 :: r) _ Hs).
    - cbn [List.length app Nat.add]. fold L. f_equal; try lia.
      replace (pos + 3 + 1)%nat with (pos + 4)%nat by lia. replace (pos + 4 + 1 + L)%nat with (pos + 5 + L)%nat by lia.
      repeat (progress (cbn [app]) || rewrite <- app_assoc || rewrite app_nil_r). reflexivity. }
  replace (neg_text isteps ++ r) with ([91; 63; 40] ++ X ++ [41; 93] ++ r)
    by (unfold neg_text, X; cbn [app]; rewrite <- !app_assoc; reflexivity).
  eapply ev_conv; [apply (ev_rule7_of35 X r pos _ ltac:(unfold X; intros x0 r0 E; inversion E; discriminate) ltac:(unfold X; discriminate) E35)|].
  rewrite neg_text_len, HX. fold L. f_equal; try lia.
  replace (pos + 5 + (2 + L))%nat with (pos + 7 + L)%nat by lia.
  repeat (progress (cbn [app]) || rewrite <- app_assoc || rewrite app_nil_r). reflexivity.
Qed.

Section NegExec.
  Variable cfg : config.
  Variable parse_float : string -> option num.
  Variable regex_ok : string -> bool.
  Notation execute := (execute cfg parse_float regex_ok).
  Notation exec_action := (exec_action cfg parse_float regex_ok).

  Definition neg_kind (isteps : list rstep) : kind := KFilter (QNot (QParam (filter_pq cfg isteps))).
  Definition neg_basic (isteps : list rstep) : basic := mk_basic (text_of (neg_text isteps)) true (cfg_accessor cfg).
  Definition neg_node (isteps : list rstep) : node := Node (neg_kind isteps) (neg_basic isteps) ONone.

  Lemma exec_neg input p isteps rest ps toks cps b : forallb rstep_ok isteps = true ->
    skipn p input = neg_text isteps ++ rest ->
    exists cps' b', execute (neg_tokens p isteps ++ toks) input cps b (mk ps) = execute toks input cps' b' (mk (ps ++ [INode (neg_node isteps)])).
  Proof.
    intros Hs Hin. unfold neg_tokens. cbv zeta.
    set (L := List.length (render_steps isteps)).
    assert (Hin' : skipn p input = [91; 63; 40; 33] ++ (64 :: render_steps isteps) ++ [41; 93] ++ rest).
    { rewrite Hin. unfold neg_text. cbn [app]. rewrite <- app_assoc. reflexivity. }
    assert (Hsk4 : skipn (p + 4) input = 64 :: render_steps isteps ++ [41; 93] ++ rest) by (apply (skipn_next input p [91; 63; 40; 33] _ Hin')).
    set (sv0 := match ps with [] => [] | _ :: _ => [ps] end).
    rewrite <- !app_assoc. cbn [app Actions.execute].
    assert (E38 : exec_action 38 cps b (mk ps) = AOk (with_saved sv0 (mk []))) by (destruct ps; reflexivity).
    rewrite E38. cbn [abind].
    rewrite (execute_under cfg parse_float regex_ok sv0 (inner_tokens (p + 4) isteps) input cps b (mk []) _ ltac:(unfold inner_tokens; rewrite !frame_free_app, frame_free_steps; reflexivity)
               (exec_inner cfg parse_float regex_ok input (p + 4) isteps _ cps b Hs Hsk4)).
    cbn [Actions.execute].
    assert (E39 : forall c0 b0, exec_action 39 c0 b0 (with_saved sv0 (mk [INode (inner_root cfg isteps)])) =
                               AOk (mk (ps ++ [IPQ (filter_pq cfg isteps); IBool false]))).
    { intros c0 b0. cbn [Actions.exec_action].
      assert (El : load_params (with_saved sv0 (mk [INode (inner_root cfg isteps)])) = mk (ps ++ [INode (inner_root cfg isteps)])) by (destruct ps; reflexivity).
      rewrite El. unfold pop_node. rewrite pop_mk. cbn [abind]. rewrite inner_root_kind.
      unfold push, mk, with_params. cbn [params saved proot]. rewrite <- app_assoc. reflexivity. }
    rewrite E39. cbn [abind].
    assert (Ec : sub_list input (p + 3) (p + 5 + L) = 33 :: 64 :: render_steps isteps).
    { pose proof (sub_at input p 3 [91; 63; 40] (33 :: 64 :: render_steps isteps) ([41; 93] ++ rest)) as H.
      cbn [List.length] in H. fold L in H. replace (p + 3 + S (S L))%nat with (p + 5 + L)%nat in H by lia. apply H; [|reflexivity].
      rewrite Hin'. cbn [app]. reflexivity. }
    rewrite Ec.
    assert (E27 : forall b0, exec_action 27 (33 :: 64 :: render_steps isteps) b0 (mk (ps ++ [IPQ (filter_pq cfg isteps); IBool false])) =
                             AOk (mk (ps ++ [IQuery (QNot (QParam (filter_pq cfg isteps)))]))).
    { intros b0. cbn [Actions.exec_action].
      change (ps ++ [IPQ (filter_pq cfg isteps); IBool false]) with (ps ++ [IPQ (filter_pq cfg isteps)] ++ [IBool false]). rewrite app_assoc, pop_mk. cbn [abind].
      unfold pop_query. rewrite pop_mk. cbn [abind]. reflexivity. }
    rewrite E27. cbn [abind].
    assert (E23 : forall c0 b0, exec_action 23 c0 b0 (mk (ps ++ [IQuery (QNot (QParam (filter_pq cfg isteps)))])) =
                               AOk (mk (ps ++ [INode (Node (neg_kind isteps) (mk_basic "" true (cfg_accessor cfg)) ONone)]))).
    { intros c0 b0. cbn [Actions.exec_action]. unfold pop_query. rewrite pop_mk. reflexivity. }
    rewrite E23. cbn [abind].
    assert (Et : sub_list input p (p + 7 + L) = neg_text isteps).
    { pose proof (sub_at input p 0 [] (neg_text isteps) rest) as H. rewrite Nat.add_0_r in H.
      replace (p + 7 + L)%nat with (p + List.length (neg_text isteps))%nat by (rewrite neg_text_len; unfold L; lia).
      apply H; [exact Hin|reflexivity]. }
    rewrite Et.
    assert (E7 : forall b0, exec_action 7 (neg_text isteps) b0 (mk (ps ++ [INode (Node (neg_kind isteps) (mk_basic "" true (cfg_accessor cfg)) ONone)])) =
                            AOk (mk (ps ++ [INode (neg_node isteps)]))).
    { intros b0. cbn [Actions.exec_action]. unfold set_last_node_text, pop_node. rewrite pop_mk. reflexivity. }
    rewrite E7. cbn [abind]. eexists _, _. reflexivity.
  Qed.
End NegExec.
