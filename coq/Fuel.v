(* Fuel.v — the interpreter's fuel bound suffices (C02, termination): in a grammar where every rule
   reference is either preceded by something that must consume input or points to a rule of lower
   rank, and every repeated body must consume input, a match with fuel K*|input| + rank + 1 never
   runs out of fuel — in particular no repetition loops without progress.  The side conditions are
   decidable and are evaluated on the regenerated grammar (FuelRules.v). *)
From JP Require Import Peg PegFacts StackLogic.
From Coq Require Import Lia Wf_nat.
Open Scope list_scope.

Section Fuel.
  Variable g : grammar.
  Variable cl : nat -> bool.           (* rules that must consume input *)
  Hypothesis cl_ok : forall r body, cl r = true -> nth_error g r = Some body -> consumesb cl body = true.
  Variable rank : nat -> nat.
  Variable K : nat.

  Fixpoint gcheck (rho : nat) (gd : bool) (e : pexp) : bool :=
    match e with
    | PRef r => gd || Nat.ltb (rank r) rho
    | PSeq a b => gcheck rho gd a && gcheck rho (gd || consumesb cl a) b
    | PAlt a b => gcheck rho gd a && gcheck rho gd b
    | PStar a | PPlus a => consumesb cl a && gcheck rho gd a
    | POpt a | PCap a | PNot a | PAnd a => gcheck rho gd a
    | _ => true
    end.

  Hypothesis rules_ok : forall r body, nth_error g r = Some body -> gcheck (rank r) false body = true /\ rank r < K.
  Hypothesis K_pos : 1 <= K.

  Definition ok (n rho : nat) (gd : bool) (f : nat) (rest : list N) : Prop :=
    K * n + rho + 1 <= f /\ (if gd then List.length rest < n else List.length rest <= n).

  Lemma star_no_fuel a rho gd n :
    consumesb cl a = true ->
    (forall m, m <= n -> forall f rest pos, ok m rho gd f rest -> run g f a rest pos <> PFuel) ->
    forall m, m <= n -> forall f rest pos, ok m rho gd f rest -> run g f (PStar a) rest pos <> PFuel.
  Proof.
    intros Hc Hbody. induction m as [|m IHm]; intros Hm f rest pos [Hf Hr] H.
    - destruct f as [|f0]; [lia|]. rewrite run_star in H.
      pose proof (Hbody 0 Hm (S f0) rest pos (conj Hf Hr)) as Hb.
      destruct (run g (S f0) a rest pos) as [| |r1 p1 t1] eqn:Ea; try discriminate; [contradiction Hb; reflexivity|].
      pose proof (consumes_sound g cl cl_ok _ _ _ _ _ _ _ Hc Ea) as Hlt.
      destruct (run_accounting _ _ _ _ _ _ _ _ Ea) as (A1 & _ & _).
      destruct gd; lia.
    - destruct f as [|f0]; [lia|]. rewrite run_star in H.
      pose proof (Hbody (S m) Hm (S f0) rest pos (conj Hf Hr)) as Hb.
      destruct (run g (S f0) a rest pos) as [| |r1 p1 t1] eqn:Ea; try discriminate; [contradiction Hb; reflexivity|].
      pose proof (consumes_sound g cl cl_ok _ _ _ _ _ _ _ Hc Ea) as Hlt.
      destruct (run_accounting _ _ _ _ _ _ _ _ Ea) as (A1 & _ & _).
      assert (En : Nat.eqb p1 pos = false) by (apply Nat.eqb_neq; lia). rewrite En in H.
      destruct (run g f0 (PStar a) r1 p1) as [| |r2 p2 t2] eqn:Es; try discriminate.
      apply (IHm ltac:(lia) f0 r1 p1); [|exact Es].
      split; [nia|]. destruct gd; lia.
  Qed.

  Theorem no_fuel : forall n rho e gd, gcheck rho gd e = true ->
    forall f rest pos, ok n rho gd f rest -> run g f e rest pos <> PFuel.
  Proof.
    induction n as [n IHn] using lt_wf_ind. induction rho as [rho IHrho] using lt_wf_ind.
    induction e as [ |s|neg rs|a IHa b IHb|a IHa b IHb|a IHa|a IHa|a IHa|a IHa|a IHa|r|a IHa|k| ];
      intros gd Hg f rest pos [Hf Hr] H; (destruct f as [|f0]; [lia|]); cbn [gcheck] in Hg.
    - rewrite run_any in H. destruct rest; discriminate.
    - change (run g (S f0) (PLit s) rest pos) with
        (match strip_prefix s rest with Some r => POk r (pos + List.length s) [] | None => PFail end) in H.
      destruct (strip_prefix s rest); discriminate.
    - change (run g (S f0) (PCls neg rs) rest pos) with
        (match rest with c :: r => if xorb neg (in_ranges c rs) then POk r (S pos) [] else PFail | [] => PFail end) in H.
      destruct rest as [|c rest']; [discriminate|]. destruct (xorb neg (in_ranges c rs)); discriminate.
    - (* sequence *)
      apply andb_true_iff in Hg. destruct Hg as [Ga Gb]. rewrite run_seq in H.
      destruct (run g (S f0) a rest pos) as [| |r1 p1 t1] eqn:Ea; try discriminate.
      + exact (IHa gd Ga (S f0) rest pos (conj Hf Hr) Ea).
      + destruct (run g (S f0) b r1 p1) as [| |r2 p2 t2] eqn:Eb; try discriminate.
        destruct (run_accounting _ _ _ _ _ _ _ _ Ea) as (A1 & A2 & _).
        apply (IHb _ Gb (S f0) r1 p1); [|exact Eb]. split; [exact Hf|].
        destruct gd; cbn [orb]; [lia|].
        destruct (consumesb cl a) eqn:Ec; [|lia].
        pose proof (consumes_sound g cl cl_ok _ _ _ _ _ _ _ Ec Ea). lia.
    - (* choice *)
      apply andb_true_iff in Hg. destruct Hg as [Ga Gb]. rewrite run_alt in H.
      destruct (run g (S f0) a rest pos) as [| |r1 p1 t1] eqn:Ea; try discriminate.
      + exact (IHb gd Gb (S f0) rest pos (conj Hf Hr) H).
      + exact (IHa gd Ga (S f0) rest pos (conj Hf Hr) Ea).
    - (* star *)
      apply andb_true_iff in Hg. destruct Hg as [Gc Ga].
      apply (star_no_fuel a rho gd n Gc) with (m := n) (f := S f0) (rest := rest) (pos := pos); [|lia|split; assumption|exact H].
      intros m Hm f1 rest1 pos1 Hok. destruct (Nat.eq_dec m n) as [->|Hne].
      + exact (IHa gd Ga f1 rest1 pos1 Hok).
      + apply (IHn m ltac:(lia) rho a gd Ga f1 rest1 pos1). exact Hok.
    - (* plus *)
      apply andb_true_iff in Hg. destruct Hg as [Gc Ga].
      change (run g (S f0) (PPlus a) rest pos) with
        (match run g (S f0) a rest pos with
         | POk r p t => if Nat.eqb p pos then PFuel
                        else match run g f0 (PStar a) r p with POk r' p' t' => POk r' p' (t ++ t') | x => x end
         | x => x end) in H.
      destruct (run g (S f0) a rest pos) as [| |r1 p1 t1] eqn:Ea; try discriminate.
      + exact (IHa gd Ga (S f0) rest pos (conj Hf Hr) Ea).
      + pose proof (consumes_sound g cl cl_ok _ _ _ _ _ _ _ Gc Ea) as Hlt.
        destruct (run_accounting _ _ _ _ _ _ _ _ Ea) as (A1 & _ & _).
        assert (En : Nat.eqb p1 pos = false) by (apply Nat.eqb_neq; lia). rewrite En in H.
        destruct (run g f0 (PStar a) r1 p1) as [| |r2 p2 t2] eqn:Es; try discriminate.
        assert (Hn : 1 <= n) by (destruct gd; lia).
        apply (star_no_fuel a rho gd n Gc) with (m := n - 1) (f := f0) (rest := r1) (pos := p1); [|lia| |exact Es].
        * intros m Hm f1 rest1 pos1 Hok. destruct (Nat.eq_dec m n) as [->|Hne].
          -- exact (IHa gd Ga f1 rest1 pos1 Hok).
          -- apply (IHn m ltac:(lia) rho a gd Ga f1 rest1 pos1). exact Hok.
        * split; [nia|]. destruct gd; lia.
    - rewrite run_opt in H. destruct (run g (S f0) a rest pos) as [| |r1 p1 t1] eqn:Ea; try discriminate.
      exact (IHa gd Hg (S f0) rest pos (conj Hf Hr) Ea).
    - rewrite run_not in H. destruct (run g (S f0) a rest pos) as [| |r1 p1 t1] eqn:Ea; try discriminate.
      exact (IHa gd Hg (S f0) rest pos (conj Hf Hr) Ea).
    - change (run g (S f0) (PAnd a) rest pos) with
        (match run g (S f0) a rest pos with POk _ _ _ => POk rest pos [] | x => x end) in H.
      destruct (run g (S f0) a rest pos) as [| |r1 p1 t1] eqn:Ea; try discriminate.
      exact (IHa gd Hg (S f0) rest pos (conj Hf Hr) Ea).
    - (* rule reference *)
      rewrite run_ref in H. destruct (nth_error g r) as [body|] eqn:En; [|discriminate].
      destruct (rules_ok r body En) as [Gb Hk].
      destruct gd; cbn [orb] in Hg.
      + destruct n as [|n']; [lia|].
        apply (IHn n' ltac:(lia) (rank r) body false Gb f0 rest pos); [|exact H]. split; [nia|lia].
      + apply Nat.ltb_lt in Hg.
        apply (IHrho (rank r) Hg body false Gb f0 rest pos); [|exact H]. split; [lia|exact Hr].
    - rewrite run_cap in H. destruct (run g (S f0) a rest pos) as [| |r1 p1 t1] eqn:Ea; try discriminate.
      exact (IHa gd Hg (S f0) rest pos (conj Hf Hr) Ea).
    - rewrite run_act in H. discriminate.
    - change (run g (S f0) PEps rest pos) with (POk rest pos []) in H. discriminate.
  Qed.
End Fuel.
