(* AccDefs.v — definitions used by the accessor-parity theorem (C12) and evaluated by the harness:
   erasing accessor flags, and the flag discipline the parser guarantees.  Definitions only. *)
From JP Require Export Eval WF.
Open Scope string_scope.
Open Scope list_scope.

Definition erase_b (b : basic) : basic := set_accessor false b.

Fixpoint erase (n : node) : node :=
  match n with
  | Node k b next =>
      Node (match k with
            | KMulti ids aw uq => KMulti (erase_ids ids) aw (match uq with OSome u => OSome (erase u) | ONone => ONone end)
            | KFilter q => KFilter (erase_q q)
            | KAgg f p => KAgg f (erase p)
            | other => other
            end) (erase_b b) (match next with OSome m => OSome (erase m) | ONone => ONone end)
  end
with erase_ids (ids : nodes) : nodes :=
  match ids with NNil => NNil | NCons n r => NCons (erase n) (erase_ids r) end
with erase_q (q : query) : query :=
  match q with
  | QAnd a b => QAnd (erase_q a) (erase_q b)
  | QOr a b => QOr (erase_q a) (erase_q b)
  | QNot a => QNot (erase_q a)
  | QCmp (CP l ll) (CP r rl) c => QCmp (CP (erase_p l) ll) (CP (erase_p r) rl) c
  | QParam p => QParam (erase_p p)
  end
with erase_p (p : pquery) : pquery :=
  match p with PqLit v => PqLit v | PqCur n => PqCur (erase n) | PqRoot n => PqRoot (erase n) end.

(* no accessor flag anywhere below *)
Fixpoint all_false (n : node) : bool :=
  match n with
  | Node k b next =>
      negb (accessor b) &&
      (match k with
       | KMulti ids _ uq => all_false_ids ids && match uq with OSome u => all_false u | ONone => true end
       | KFilter q => all_false_q q
       | KAgg _ p => all_false p
       | _ => true
       end) && match next with OSome m => all_false m | ONone => true end
  end
with all_false_ids (ids : nodes) : bool :=
  match ids with NNil => true | NCons n r => all_false n && all_false_ids r end
with all_false_q (q : query) : bool :=
  match q with
  | QAnd a b | QOr a b => all_false_q a && all_false_q b
  | QNot a => all_false_q a
  | QCmp (CP l _) (CP r _) _ => all_false_p l && all_false_p r
  | QParam p => all_false_p p
  end
with all_false_p (p : pquery) : bool :=
  match p with PqLit _ => true | PqCur n | PqRoot n => all_false n end.

(* function parameters and filter operands carry no accessor flag *)
Fixpoint acc_clean (n : node) : bool :=
  match n with
  | Node k b next =>
      (match k with
       | KMulti ids _ uq => acc_clean_ids ids && match uq with OSome u => acc_clean u | ONone => true end
       | KFilter q => all_false_q q
       | KAgg _ p => all_false p
       | _ => true
       end) && match next with OSome m => acc_clean m | ONone => true end
  end
with acc_clean_ids (ids : nodes) : bool :=
  match ids with NNil => true | NCons n r => acc_clean n && acc_clean_ids r end.

