(* ErrText.v — a syntax error and its position, from the path text (C17): a valid path of steps and existence filters
   followed by a character that can neither continue it nor start a function (any ASCII symbol other than `.`, `[`,
   blank, backslash and `(`) is rejected with "unrecognized input" at exactly the offset of that character, and the
   excerpt starts there. *)
From JP Require Import Peg Grammar Text Tree Actions PegFacts PegMono PegEv FuelRules ParseFacts KeyDefs KeyParse IdxParse SliceParse UnionParse WildParse RecParse ChainParse SpacePath FunParse AggParse Frame FiltParse FiltChain.
From Coq Require Import Lia.
Local Open Scope N_scope.
Open Scope list_scope.

Definition prefix_tokens (l : list fstep) : list token := TAct 8 :: fsteps_tokens 1 l ++ [TAct 2].

Lemma ev_rule2_prefix l c t : forallb fstep_ok l = true -> closer c ->
  evG (PRef 2) (fchain_path l ++ c :: t) 0 (POk (c :: t) (1 + List.length (render_fsteps l)) (prefix_tokens l)).
Proof.
  intros Hs Hc. pose proof Hc as (Hsym & H46 & H91 & H32 & H92 & H40). unfold fchain_path, prefix_tokens. cbn [app]. eapply ev_conv.
  - eapply ev_ref; [reflexivity|].
    eapply ev_seq_ok; [apply ev_space_stop; discriminate| |reflexivity].
    eapply ev_seq_ok; [| |reflexivity].
    + eapply ev_ref; [reflexivity|]. apply ev_alt_l. eapply ev_ref; [reflexivity|].
      eapply ev_seq_ok; [apply (ev_lit_ok G [36]); apply strip1_ok|apply ev_act|reflexivity].
    + eapply ev_ref; [reflexivity|].
      assert (Hd : dot_stop (c :: t)) by (cbn; repeat split; assumption).
      pose proof (ev_fsteps_star l (c :: t) 1 Hs Hd (fun p => ev_rule7_closer c t p Hc)) as Est.
      eapply ev_seq_ok; [exact Est| |reflexivity].
      eapply ev_seq_ok; [apply ev_star_stop; apply ev_rule8_closer; exact Hc| |reflexivity].
      eapply ev_seq_ok; [apply ev_space_stop; exact H32|apply ev_act|reflexivity].
  - cbn [List.length app Nat.add]. f_equal; rewrite <- ?app_assoc; reflexivity.
Qed.

Lemma ev_star_any l pos : evG (PStar PAny) l pos (POk [] (pos + List.length l) []).
Proof.
  revert pos. induction l as [|x r IH]; intros pos.
  - eapply ev_conv; [apply ev_star_stop; apply ev_any_fail|f_equal; cbn [List.length]; lia].
  - pose proof (ev_star_step G PAny (x :: r) pos r (S pos) [] [] _ [] (ev_any_ok G x r pos) ltac:(lia) (IH (S pos))) as E.
    eapply ev_conv; [exact E|]. f_equal. cbn [List.length]. lia.
Qed.

Definition garbage_tokens (l : list fstep) (n : nat) : list token :=
  prefix_tokens l ++ [TText (1 + List.length (render_fsteps l)) (1 + List.length (render_fsteps l) + n); TAct 1].

Lemma ev_garbage l c t : forallb fstep_ok l = true -> closer c ->
  evG (PRef 0) (fchain_path l ++ c :: t) 0
      (POk [] (1 + List.length (render_fsteps l) + List.length (c :: t)) (garbage_tokens l (List.length (c :: t)))).
Proof.
  intros Hs Hc. pose proof (ev_rule2_prefix l c t Hs Hc) as E2. unfold garbage_tokens. eapply ev_conv.
  - eapply ev_ref; [reflexivity|]. apply ev_alt_r.
    + eapply ev_seq_fail2; [exact E2|]. apply ev_seq_fail. eapply ev_ref; [reflexivity|]. eapply ev_not_fail. apply ev_any_ok.
    + eapply ev_seq_ok; [apply ev_opt_some; exact E2| |reflexivity].
      eapply ev_seq_ok; [apply ev_cap; apply ev_star_any| |reflexivity].
      eapply ev_seq_ok; [eapply ev_ref; [reflexivity|]; apply ev_not_ok; apply ev_any_fail|apply ev_act|reflexivity].
  - cbn [app]. f_equal; rewrite <- ?app_assoc; reflexivity.
Qed.

Section ErrText.
  Variable cfg : config.
  Variable parse_float : string -> option num.
  Variable regex_ok : string -> bool.
  Notation execute := (execute cfg parse_float regex_ok).
  Notation exec_action := (exec_action cfg parse_float regex_ok).

  Theorem garbage_after_path l c t : forallb fstep_ok l = true -> forallb (fstep_okp parse_float regex_ok) l = true -> closer c ->
    parse_with cfg parse_float regex_ok G (fchain_path l ++ c :: t) = ParseErr (ESyntax (1 + List.length (render_fsteps l)) RUnrecognized).
  Proof.
    intros Hs Hokp Hc. unfold parse_with, parse_from.
    rewrite (ev_peg_parse G _ _ (ev_garbage l c t Hs Hc) (peg_never_out_of_fuel _)). unfold garbage_tokens.
    assert (Hin : skipn 1 (fchain_path l ++ c :: t) = render_fsteps l ++ c :: t) by reflexivity.
    assert (Hs' : forallb fstep_ok l = true) by exact Hs.
    (* replay the prefix on an input with a tail: exec_fsteps wants the exact rest, so go through the general form *)
    unfold prefix_tokens. cbn [app Actions.execute].
    change (exec_action 8 [] 0 ps_init) with (AOk (mk [INode (Node KRoot (root_basic cfg) ONone)])). cbn [abind].
    rewrite <- app_assoc.
    destruct (exec_fsteps_tail cfg parse_float regex_ok (fchain_path l ++ c :: t) l (c :: t) 1 [INode (Node KRoot (root_basic cfg) ONone)]
                ([TAct 2] ++ [TText (1 + List.length (render_fsteps l)) (1 + List.length (render_fsteps l) + List.length (c :: t)); TAct 1]) [] 0 Hs Hokp Hin) as (c1 & b1 & E).
    rewrite E. clear E. cbn [app Actions.execute].
    change (exec_action 2 c1 b1 ?st) with (abind (set_node_chain st) update_root_vg).
    assert (Hch : exists n, set_node_chain (mk (INode (Node KRoot (root_basic cfg) ONone) :: map (fun s => INode (fnode_of cfg parse_float s)) l)) = AOk (mk [INode n])).
    { unfold set_node_chain, mk. cbn [params app]. destruct l as [|x r]; [eexists; reflexivity|].
      pose proof (chain_fold_f cfg parse_float KRoot (root_basic cfg) (x :: r) ltac:(split; intros; discriminate) [] ltac:(constructor)) as F. cbn [link app] in F.
      cbn [map] in *. rewrite F. eexists. reflexivity. }
    destruct Hch as (n & Hch). rewrite Hch. cbn [abind]. unfold update_root_vg, mk. cbn [params abind Actions.execute Actions.exec_action]. reflexivity.
  Qed.
End ErrText.
