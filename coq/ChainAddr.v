(* ChainAddr.v — every node of a document is addressable, from the path text: a path of name steps (each in any of
   the three spellings) and index steps [digits] returns exactly the value reached by following the names and
   indexes through the nested objects and arrays (with that location in accessor mode), and nothing when a
   name or index is missing on the way. *)
From JP Require Import Peg Grammar Slice Text Tree Actions Json Eval WF Spec SortFacts EvalInv1 EvalInv4 EvalTop EndToEnd Codec KeyDefs KeyParse IdxParse SliceParse UnionParse WildParse RecParse ChainParse.
From Coq Require Import Lia.
Open Scope list_scope.

(* one navigation step, and a whole chain of them *)
Definition nav (v : value) (s : kstep) : option value :=
  match s with
  | SIdx ds => match v with VArr xs => nth_value xs (step_idx ds) | _ => None end
  | SWild _ | SSlice _ _ _ | SUnion _ _ => None
  | _ => match v with VObj m => lookup m (step_key s) | _ => None end
  end.
Fixpoint nav_chain (v : value) (steps : list kstep) : option value :=
  match steps with
  | [] => Some v
  | s :: r => match nav v s with Some x => nav_chain x r | None => None end
  end.
Definition step_loc (s : kstep) : pstep := match s with SIdx ds => PIdx (step_idx ds) | _ => PKey (step_key s) end.
Definition multi_step (s : kstep) : bool := match s with SWild _ | SSlice _ _ _ | SUnion _ _ => true | _ => false end.

(* the values one step reaches from a value at a location: a name or an index reaches at most one, a wildcard all the
   members of an object in ascending key order, or all the elements of an array in index order *)
(* a slice bound as Python sees it: None when omitted *)
Definition bopt (t : list N) : option Z := match t with [] => None | _ :: _ => Some (step_idx t) end.

(* the indexes one subscript of a union selects in an array of the given length, in order *)
Definition sub_indexes (u : usub) (len : Z) : list Z :=
  match u with
  | UIdx t => py_index (step_idx t) len
  | USlice a b c0 => py_slice (bopt a) (bopt b) (match c0 with Some t => bopt t | None => None end) len
  | UWild => iota (Z.to_nat len) 0
  end.

Definition nav1 (s : kstep) (lv : list pstep * value) : list (list pstep * value) :=
  match s with
  | SWild _ => match snd lv with
               | VObj m => flat_map (fun k => match lookup m k with Some x => [(fst lv ++ [PKey k], x)] | None => [] end) (sorted_keys m)
               | VArr xs => map (fun iv => (fst lv ++ [PIdx (fst iv)], snd iv)) (index_list xs 0)
               | _ => []
               end
  | SSlice a b c0 =>
      match snd lv with
      | VArr xs => flat_map (fun i => match nth_value xs i with Some x => [(fst lv ++ [PIdx i], x)] | None => [] end)
                            (py_slice (bopt a) (bopt b) (match c0 with Some t => bopt t | None => None end) (Z.of_nat (List.length xs)))
      | _ => []
      end
  | SUnion u us =>
      match snd lv with
      | VArr xs => flat_map (fun v => flat_map (fun i => match nth_value xs i with Some x => [(fst lv ++ [PIdx i], x)] | None => [] end)
                                               (sub_indexes v (Z.of_nat (List.length xs)))) (u :: us)
      | _ => []
      end
  | _ => match nav (snd lv) s with Some x => [(fst lv ++ [step_loc s], x)] | None => [] end
  end.
(* `..step`: the step applied to every container below (and including) the value, in pre-order *)
Definition cu_loc (cu : cursor) : list pstep := match fst cu with Some l => l | None => [] end.
Definition nav1r (x : rstep) (lv : list pstep * value) : list (list pstep * value) :=
  match x with
  | RPlain s => nav1 s lv
  | RRec s => flat_map (fun cu => nav1 s (cu_loc cu, snd cu)) (containers (Some (fst lv)) (snd lv))
  end.
Fixpoint nav_all (steps : list rstep) (lv : list pstep * value) : list (list pstep * value) :=
  match steps with [] => [lv] | x :: r => flat_map (nav_all r) (nav1r x lv) end.

Lemma flat_map_flat_map {A B C} (f : B -> list C) (g : A -> list B) l :
  flat_map f (flat_map g l) = flat_map (fun x => flat_map f (g x)) l.
Proof. induction l as [|a l IH]; cbn [flat_map]; [reflexivity|]. rewrite flat_map_app, IH. reflexivity. Qed.
Lemma flat_map_map' {A B C} (f : B -> list C) (g : A -> B) l : flat_map f (map g l) = flat_map (fun x => f (g x)) l.
Proof. induction l as [|a l IH]; cbn [flat_map map]; [reflexivity|]. rewrite IH. reflexivity. Qed.
Lemma flat_map_ext' {A B} (f g : A -> list B) l : (forall a, f a = g a) -> flat_map f l = flat_map g l.
Proof. intros H. induction l as [|a l IH]; cbn [flat_map]; [reflexivity|]. rewrite H, IH. reflexivity. Qed.
Lemma flat_map_single {A B} (f : A -> B) l : flat_map (fun x => [f x]) l = map f l.
Proof. induction l as [|a l IH]; cbn [flat_map map app]; [reflexivity|]. rewrite IH. reflexivity. Qed.

(* without wildcards a chain reaches at most one value: the one nav_chain finds *)
Lemma nav_all_single : forall steps (p : list pstep) v, existsb multi_step steps = false ->
  nav_all (map RPlain steps) (p, v) = match nav_chain v steps with Some x => [(p ++ map step_loc steps, x)] | None => [] end.
Proof.
  induction steps as [|s r IH]; intros p v Hw; cbn [nav_all nav_chain map nav1r].
  - rewrite app_nil_r. reflexivity.
  - cbn [existsb] in Hw. apply orb_false_iff in Hw. destruct Hw as [H1 H2].
    assert (E : nav1 s (p, v) = match nav v s with Some x => [(p ++ [step_loc s], x)] | None => [] end) by (destruct s; try reflexivity; discriminate H1).
    rewrite E. destruct (nav v s) as [x|]; [|reflexivity]. cbn [flat_map]. rewrite app_nil_r, IH by exact H2. rewrite <- app_assoc. reflexivity.
Qed.

Lemma containers_some : forall v p, small v -> Forall (fun cu => (exists l, fst cu = Some l) /\ small (snd cu)) (containers (Some p) v).
Proof.
  induction v as [|b|x|s x|s|xs IH|m IH|t i s] using value_ind_strong; intros p Hsm; [constructor|constructor|constructor|constructor|constructor| | |constructor].
  - rewrite containers_arr. constructor; [split; [exists p; reflexivity|exact Hsm]|].
    apply Forall_forall. intros cu Hin. apply in_flat_map in Hin. destruct Hin as [[i x] [Hix Hcu]]. cbn [fst snd ext_loc] in Hcu.
    assert (Hx : In x xs).
    { clear -Hix. revert Hix. generalize 0%Z. induction xs as [|y ys IHy]; intros z Hix; [contradiction|].
      cbn [index_list] in Hix. destruct Hix as [E|Hix]; [inversion E; left; reflexivity|right; exact (IHy _ Hix)]. }
    rewrite Forall_forall in IH. pose proof (IH x Hx (p ++ [PIdx i]) (small_arr_in xs x Hsm Hx)) as H. rewrite Forall_forall in H. exact (H cu Hcu).
  - rewrite containers_obj. constructor; [split; [exists p; reflexivity|exact Hsm]|].
    apply Forall_forall. intros cu Hin. apply in_flat_map in Hin. destruct Hin as [k [_ Hcu]].
    destruct (lookup m k) as [x|] eqn:El; [|contradiction]. cbn [ext_loc] in Hcu.
    pose proof (small_obj_lookup m k x Hsm El) as Hsx. apply lookup_some_in in El. rewrite Forall_forall in IH. pose proof (IH (k, x) El (p ++ [PKey k]) Hsx) as H. cbn [snd] in H.
    rewrite Forall_forall in H. exact (H cu Hcu).
Qed.
Lemma flat_map_ext_in' {A B} (f g : A -> list B) l : (forall a, In a l -> f a = g a) -> flat_map f l = flat_map g l.
Proof.
  induction l as [|a l IH]; intros H; cbn [flat_map]; [reflexivity|].
  rewrite (H a (or_introl eq_refl)), IH; [reflexivity|]. intros b Hb. apply H. right. exact Hb.
Qed.
Lemma map_flat_map' {A B C} (f : B -> C) (g : A -> list B) l : map f (flat_map g l) = flat_map (fun x => map f (g x)) l.
Proof. induction l as [|a l IH]; cbn [flat_map map]; [reflexivity|]. rewrite map_app, IH. reflexivity. Qed.

Lemma digits_val_nonneg ds : forall acc z, (0 <= acc)%Z -> digits_val ds acc = Some z -> (0 <= z)%Z.
Proof.
  induction ds as [|d ds IH]; intros acc z Ha H; cbn [digits_val] in H.
  - inversion H; subst. exact Ha.
  - unfold digit_val in H. destruct ((48 <=? d)%N && (d <=? 57)%N); [|discriminate].
    pose proof (N2Z.is_nonneg (d - 48)) as Hn. apply (IH (acc * 10 + Z.of_N (d - 48))%Z z); [lia|exact H].
Qed.
Lemma step_idx_nonneg ds : forallb is_digit ds = true -> (0 <= step_idx ds)%Z.
Proof.
  intros Hd. unfold step_idx. destruct (atoi ds) as [z|] eqn:E; [|lia].
  unfold atoi in E. destruct ds as [|d ds]; [discriminate E|].
  cbn [forallb] in Hd. apply andb_true_iff in Hd. destruct Hd as [H1 _]. destruct (digit_bounds d H1) as [B1 B2].
  assert (E1 : (d =? 45)%N = false) by (apply N.eqb_neq; lia). assert (E2 : (d =? 43)%N = false) by (apply N.eqb_neq; lia).
  rewrite E1, E2 in E. destruct (digits_val (d :: ds) 0) as [v|] eqn:Ev; [|discriminate E].
  destruct (in64b v); [|discriminate E]. inversion E; subst. exact (digits_val_nonneg (d :: ds) 0%Z z (Z.le_refl 0) Ev).
Qed.
Lemma nth_value_out : forall xs i, (Z.of_nat (List.length xs) <= i)%Z -> nth_value xs i = None.
Proof.
  induction xs as [|x xs IH]; intros i H; cbn [nth_value]; [reflexivity|]. cbn [List.length] in H.
  assert (E0 : (i =? 0)%Z = false) by (apply Z.eqb_neq; lia). assert (E1 : (i <? 0)%Z = false) by (apply Z.ltb_ge; lia).
  rewrite E0, E1. apply IH. lia.
Qed.

Section ChainAddr.
  Variable cfg : config.
  Variable parse_float : string -> option num.
  Variable regex_ok : string -> bool.
  Variable ffun : string -> value -> option value.
  Variable afun : string -> list value -> option value.
  Variable regex_match : string -> string -> bool.
  Hypothesis ffun_small : forall f v w, small v -> ffun f v = Some w -> small w.
  Hypothesis afun_small : forall f l w, Forall small l -> afun f l = Some w -> small w.
  Notation parse := (parse_with cfg parse_float regex_ok jsonpath_grammar).
  Notation eval_run := (eval_run ffun afun regex_match).
  Notation sp := (sp ffun afun regex_match).

  Definition fwd (b : basic) (next : onode) (root : value) (lv : list pstep * value) : list sres :=
    match next with
    | OSome nx => sp nx root (Some (fst lv), snd lv)
    | ONone => [(b, true, (Some (fst lv), snd lv))]
    end.

  (* the specification of one step: navigate, then go on from every value reached *)
  Lemma sp_step s b next root p v : step_ok s = true -> small v ->
    sp (Node (step_kind s) b next) root (Some p, v) = flat_map (fwd b next root) (nav1 s (p, v)).
  Proof.
    intros Hs Hsm. destruct s as [q k|k|ds|d|sa sb sc|u us].
    - cbn [step_kind nav1 nav step_loc fst snd]. cbn [Spec.sp snd fst]. destruct v; try reflexivity.
      destruct (lookup m (step_key (SBr q k))); [|reflexivity]. cbn [flat_map fwd fst snd ext_loc]. rewrite app_nil_r. destruct next; reflexivity.
    - cbn [step_kind nav1 nav step_loc fst snd]. cbn [Spec.sp snd fst]. destruct v; try reflexivity.
      destruct (lookup m (step_key (SDot k))); [|reflexivity]. cbn [flat_map fwd fst snd ext_loc]. rewrite app_nil_r. destruct next; reflexivity.
    - destruct ds as [|d ds]; [discriminate Hs|]. cbn [step_ok] in Hs. apply andb_true_iff in Hs. destruct Hs as [Hd _].
      pose proof (step_idx_nonneg (d :: ds) Hd) as Hz. set (z := step_idx (d :: ds)) in *.
      cbn [step_kind nav1 nav step_loc fst snd]. fold z. cbn [Spec.sp snd fst]. destruct v; try reflexivity.
      cbn [flat_map get_indexes]. unfold get_indexes_index.
      cbv zeta. assert (E0 : (z <? 0)%Z = false) by (apply Z.ltb_ge; exact Hz). rewrite !E0. cbn [orb].
      destruct (z >=? Z.of_nat (List.length l))%Z eqn:Eg.
      + rewrite nth_value_out by (apply Z.geb_le in Eg; lia). reflexivity.
      + cbn [flat_map]. rewrite !app_nil_r. destruct (nth_value l z); [|reflexivity]. cbn [flat_map fwd fst snd ext_loc]. rewrite app_nil_r. destruct next; reflexivity.
    - cbn [step_kind nav1 fst snd]. cbn [Spec.sp snd fst]. destruct v; try reflexivity.
      + rewrite flat_map_map'. apply flat_map_ext'. intros [i x]. cbn [fst snd fwd ext_loc]. destruct next; reflexivity.
      + rewrite flat_map_flat_map. apply flat_map_ext'. intros key. destruct (lookup m key); [|reflexivity].
        cbn [flat_map fwd fst snd ext_loc]. rewrite app_nil_r. destruct next; reflexivity.
    - cbn [step_kind nav1 fst snd]. cbn [Spec.sp snd fst]. destruct v; try reflexivity.
      cbn [flat_map]. rewrite app_nil_r.
      cbn [step_ok] in Hs. apply andb_true_iff in Hs. destruct Hs as [Hs Hc]. apply andb_true_iff in Hs. destruct Hs as [Hs Hb]. apply andb_true_iff in Hs. destruct Hs as [_ Ha].
      assert (Hin : forall t, atoi_ok t = true -> in64 (number (bound_idx t))).
      { intros t Ht. destruct t as [|c1 r1]; [cbn; unfold in64, two63; lia|]. cbn [bound_idx number]. unfold step_idx. cbn [atoi_ok] in Ht.
        destruct (atoi (c1 :: r1)) as [z|] eqn:Ez; [|discriminate Ht].
        pose proof (StackActs.atoi_in64 _ _ Ez) as Hz. unfold in64b in Hz. apply andb_true_iff in Hz. destruct Hz as [Z1 Z2].
        apply Z.leb_le in Z1. apply Z.ltb_lt in Z2. split; assumption. }
      unfold slice_sub.
      rewrite (SliceProofs.slice_python (bound_idx sa) (bound_idx sb) _ (Z.of_nat (List.length l)) (small_arr_len l Hsm) (Hin sa Ha) (Hin sb Hb)).
      + assert (Eo : forall t, opt (bound_idx t) = bopt t) by (intros [|c1 r1]; reflexivity). rewrite !Eo.
        assert (Ec : py_slice (bopt sa) (bopt sb) (opt match sc with Some t => bound_idx t | None => {| number := 1; omitted := false |} end) (Z.of_nat (List.length l)) =
                     py_slice (bopt sa) (bopt sb) (match sc with Some t => bopt t | None => None end) (Z.of_nat (List.length l))).
        { destruct sc as [t|]; [rewrite Eo; reflexivity|reflexivity]. }
        rewrite Ec. rewrite flat_map_flat_map. apply flat_map_ext'. intros i. destruct (nth_value l i); [|reflexivity].
        cbn [flat_map fwd fst snd ext_loc]. rewrite app_nil_r. destruct next; reflexivity.
      + destruct sc as [t|]; [apply Hin; exact Hc|cbn; unfold in64, two63; lia].
    - cbn [step_kind nav1 fst snd]. cbn [Spec.sp snd fst]. destruct v; try reflexivity.
      cbn [step_ok] in Hs. apply andb_true_iff in Hs. destruct Hs as [_ Hat].
      rewrite flat_map_map', flat_map_flat_map. apply flat_map_ext_in'. intros w Hw.
      rewrite forallb_forall in Hat. specialize (Hat w Hw).
      assert (Hin64 : forall t, atoi_ok t = true -> in64 (number (bound_idx t))).
      { intros t Ht. destruct t as [|c1 r1]; [cbn; unfold in64, two63; lia|]. cbn [bound_idx number]. unfold step_idx. cbn [atoi_ok] in Ht.
        destruct (atoi (c1 :: r1)) as [z|] eqn:Ez; [|discriminate Ht].
        pose proof (StackActs.atoi_in64 _ _ Ez) as Hz. unfold in64b in Hz. apply andb_true_iff in Hz. destruct Hz as [Z1 Z2].
        apply Z.leb_le in Z1. apply Z.ltb_lt in Z2. split; assumption. }
      assert (Eg : get_indexes (sub_of w) (Z.of_nat (List.length l)) = IOk (sub_indexes w (Z.of_nat (List.length l)))).
      { destruct w as [t|sa sb sc|]; cbn [usub_atoi sub_of sub_indexes] in *.
        - apply SliceProofs.index_python; [exact (small_arr_len l Hsm)|]. destruct t as [|c1 r1]; [unfold step_idx; cbn; unfold in64, two63; lia|exact (Hin64 (c1 :: r1) Hat)].
        - apply andb_true_iff in Hat. destruct Hat as [Hab Hc]. apply andb_true_iff in Hab. destruct Hab as [Ha Hb].
          unfold slice_sub. rewrite (SliceProofs.slice_python (bound_idx sa) (bound_idx sb) _ (Z.of_nat (List.length l)) (small_arr_len l Hsm) (Hin64 sa Ha) (Hin64 sb Hb)).
          + assert (Eo : forall t, opt (bound_idx t) = bopt t) by (intros [|c1 r1]; reflexivity). rewrite !Eo.
            destruct sc as [t|]; [rewrite Eo; reflexivity|reflexivity].
          + destruct sc as [t|]; [apply Hin64; exact Hc|cbn; unfold in64, two63; lia].
        - reflexivity. }
      rewrite Eg. rewrite flat_map_flat_map. apply flat_map_ext'. intros i. destruct (nth_value l i); [|reflexivity].
      cbn [flat_map fwd fst snd ext_loc]. rewrite app_nil_r. destruct next; reflexivity.
  Qed.

  (* every value a step reaches from a small value is small *)
  Lemma nav1_small s p v : small v -> Forall (fun lv => small (snd lv)) (nav1 s (p, v)).
  Proof.
    intros Hsm. apply Forall_forall. intros [l x] Hin. cbn [snd].
    assert (Hnav : forall s0, In (l, x) (match nav v s0 with Some y => [(p ++ [step_loc s0], y)] | None => [] end) -> small x).
    { intros s0 H. destruct (nav v s0) as [y|] eqn:En; [|contradiction]. destruct H as [E|[]]. inversion E; subst.
      destruct s0 as [q k|k|ds|d|sa sb sc|u us]; cbn [nav] in En; destruct v; try discriminate En;
        try (eapply small_obj_lookup; eassumption); try (eapply small_arr_in; [exact Hsm|eapply nth_value_in; exact En]). }
    destruct s as [q k|k|ds|d|sa sb sc|u us]; cbn [nav1 fst snd] in Hin; try (exact (Hnav _ Hin)).
    - destruct v; try contradiction.
      + apply in_map_iff in Hin. destruct Hin as [[i y] [E Hiy]]. inversion E; subst.
        eapply small_arr_in; [exact Hsm|]. clear -Hiy. revert Hiy. generalize 0%Z. induction l0 as [|z zs IHz]; intros k Hiy; [contradiction|].
        cbn [index_list] in Hiy. destruct Hiy as [E|Hiy]; [inversion E; left; reflexivity|right; exact (IHz _ Hiy)].
      + apply in_flat_map in Hin. destruct Hin as [k [_ Hk]]. destruct (lookup m k) as [y|] eqn:El; [|contradiction].
        destruct Hk as [E|[]]. inversion E; subst. eapply small_obj_lookup; eassumption.
    - destruct v; try contradiction. apply in_flat_map in Hin. destruct Hin as [i [_ Hi]].
      destruct (nth_value l0 i) as [y|] eqn:En; [|contradiction]. destruct Hi as [E|[]]. inversion E; subst.
      eapply small_arr_in; [exact Hsm|eapply nth_value_in; exact En].
    - destruct v; try contradiction. apply in_flat_map in Hin. destruct Hin as [w [_ Hw]]. apply in_flat_map in Hw. destruct Hw as [i [_ Hi]].
      destruct (nth_value l0 i) as [y|] eqn:En; [|contradiction]. destruct Hi as [E|[]]. inversion E; subst.
      eapply small_arr_in; [exact Hsm|eapply nth_value_in; exact En].
  Qed.
  Lemma nav1r_small x p v : small v -> Forall (fun lv => small (snd lv)) (nav1r x (p, v)).
  Proof.
    intros Hsm. destruct x as [s|s]; cbn [nav1r fst snd]; [apply nav1_small; exact Hsm|].
    apply Forall_forall. intros lv Hin. apply in_flat_map in Hin. destruct Hin as [cu [Hcu Hlv]].
    pose proof (containers_some v p Hsm) as Hc. rewrite Forall_forall in Hc. destruct (Hc cu Hcu) as [_ Hs].
    pose proof (nav1_small s (cu_loc cu) (snd cu) Hs) as H. rewrite Forall_forall in H. exact (H lv Hlv).
  Qed.

  (* the nodes of one step with arbitrary basics, followed by next *)
  Definition seg (x : rstep) (b1 b2 : basic) (next : onode) : node :=
    match x with
    | RPlain s => Node (step_kind s) b2 next
    | RRec s => Node (KRec (fst (rec_flags s)) (snd (rec_flags s))) b1 (OSome (Node (step_kind s) b2 next))
    end.

  Lemma sp_seg x b1 b2 next root p v : rstep_ok x = true -> small v ->
    sp (seg x b1 b2 next) root (Some p, v) = flat_map (fwd b2 next root) (nav1r x (p, v)).
  Proof.
    intros Hs Hsm. destruct x as [s|s]; cbn [seg nav1r rstep_ok] in *; [apply sp_step; assumption|].
    cbn [fst snd].
    assert (E : sp (Node (KRec (fst (rec_flags s)) (snd (rec_flags s))) b1 (OSome (Node (step_kind s) b2 next))) root (Some p, v) =
                flat_map (fun cu => sp (Node (step_kind s) b2 next) root cu) (containers (Some p) v)).
    { cbn [Spec.sp fst snd]. apply flat_map_ext'. intros [l x]. cbn [snd].
      destruct s as [q k|k|ds|d|sa sb sc|u us]; cbn [rec_flags fst snd step_kind]; destruct x; reflexivity. }
    rewrite E. rewrite flat_map_flat_map. apply flat_map_ext_in'. intros cu Hin.
    pose proof (containers_some v p Hsm) as Hc. rewrite Forall_forall in Hc. destruct (Hc cu Hin) as [[l Hl] Hsx].
    destruct cu as [ol x]. cbn [fst snd] in *. subst ol. unfold cu_loc. cbn [fst snd].
    apply sp_step; assumption.
  Qed.

  Lemma fin_pres x r : exists b1 b2, fin (pres cfg (x :: r)) = OSome (seg x b1 b2 (fin (pres cfg r))) /\ accessor b2 = cfg_accessor cfg.
  Proof.
    unfold pres. cbn [flat_map]. destruct x as [s|s]; cbn [rstep_pre app fin fst snd seg].
    - eexists (pre_basic cfg s), _. split; [reflexivity|]. reflexivity.
    - eexists _, _. split; [reflexivity|]. destruct s as [q k|k|ds|[|]|sa sb sc|u us]; reflexivity.
  Qed.
  Lemma chain_node_seg x r : exists b1 b2, chain_node cfg (x :: r) = seg x b1 b2 (fin (pres cfg r)) /\ accessor b2 = cfg_accessor cfg.
  Proof.
    unfold chain_node, pres. cbn [flat_map]. destruct x as [s|s]; cbn [rstep_pre app fin fst snd seg].
    - eexists (pre_basic cfg s), _. split; [reflexivity|]. reflexivity.
    - eexists _, _. split; [reflexivity|]. destruct s as [q k|k|ds|[|]|sa sb sc|u us]; reflexivity.
  Qed.

  Lemma sp_chain : forall r x b1 b2, forallb rstep_ok (x :: r) = true -> accessor b2 = cfg_accessor cfg ->
    exists B, accessor B = cfg_accessor cfg /\ forall root p v, small v ->
      sp (seg x b1 b2 (fin (pres cfg r))) root (Some p, v) =
      map (fun lv => (B, true, (Some (fst lv), snd lv))) (nav_all (x :: r) (p, v)).
  Proof.
    induction r as [|y r IH]; intros x b1 b2 Hs Hb; cbn [forallb] in Hs; apply andb_true_iff in Hs; destruct Hs as [H1 H2].
    - exists b2. split; [exact Hb|]. intros root p v Hsm. change (fin (pres cfg [])) with ONone. rewrite sp_seg by assumption.
      cbn [nav_all]. rewrite <- flat_map_single, flat_map_flat_map. apply flat_map_ext'. intros lv. reflexivity.
    - destruct (fin_pres y r) as (c1 & c2 & Ef & Hc). destruct (IH y c1 c2 H2 Hc) as (B & HB & Hsp).
      exists B. split; [exact HB|]. intros root p v Hsm. rewrite Ef, sp_seg by assumption.
      cbn [nav_all]. rewrite map_flat_map'. apply flat_map_ext_in'. intros [l z] Hin. unfold fwd. cbn [fst snd]. apply Hsp.
      pose proof (nav1r_small x p v Hsm) as Hn. rewrite Forall_forall in Hn. exact (Hn (l, z) Hin).
  Qed.

  Definition loc_result (lv : list pstep * value) : res :=
    if cfg_accessor cfg then RAcc true (Some (fst lv)) (snd lv) else RVal (snd lv).

  Lemma spec_chain x r doc : forallb rstep_ok (x :: r) = true -> small doc ->
    spec_results ffun afun regex_match (chain_node cfg (x :: r)) doc = map loc_result (nav_all (x :: r) ([], doc)).
  Proof.
    intros Hs Hsm. destruct (chain_node_seg x r) as (b1 & b2 & En & Hb). destruct (sp_chain r x b1 b2 Hs Hb) as (B & HB & Hsp).
    unfold spec_results. rewrite En, Hsp by exact Hsm. rewrite map_map. apply map_ext. intros [l z].
    cbn [wrap fst snd]. rewrite HB. unfold loc_result. cbn [fst snd]. destruct (cfg_accessor cfg); reflexivity.
  Qed.

  (* a path of name, index and wildcard steps, each possibly after `..`, returns exactly the values its steps reach,
     in order, with their locations in accessor mode; it fails exactly when they reach nothing *)
  Theorem chain_retrieval x r doc st : forallb rstep_ok (x :: r) = true -> small doc -> ok st ->
    exists t, parse (chain_path (x :: r)) = ParseOk t /\
              match nav_all (x :: r) ([], doc) with
              | [] => exists e, fst (eval_run t doc st) = OErr e
              | l => fst (eval_run t doc st) = OOk (map loc_result l)
              end.
  Proof.
    intros Hs Hd Hok. exists (chain_node cfg (x :: r)).
    pose proof (parse_chain_path cfg parse_float regex_ok x r Hs) as Hp. split; [exact Hp|].
    pose proof (retrieve_end_to_end cfg parse_float regex_ok ffun afun regex_match ffun_small afun_small (chain_path (x :: r)) doc st Hd Hok) as H.
    rewrite Hp in H. rewrite (spec_chain x r doc Hs Hd) in H.
    destruct (nav_all (x :: r) ([], doc)) as [|a l] eqn:En.
    - destruct (fst (eval_run (chain_node cfg (x :: r)) doc st)) as [rs|e|pn].
      + destruct H as [H1 [H2 _]]. contradiction (H2 H1).
      + exists e. reflexivity.
      + contradiction.
    - destruct (fst (eval_run (chain_node cfg (x :: r)) doc st)) as [rs|e|pn].
      + destruct H as [H _]. rewrite H. reflexivity.
      + destruct H as [H _]. discriminate.
      + contradiction.
  Qed.

  (* without wildcards and `..`: every node of the document is addressable by the path that spells its location *)
  Definition chain_result (steps : list kstep) (v : value) : res :=
    if cfg_accessor cfg then RAcc true (Some (map step_loc steps)) v else RVal v.
  Definition no_wild (steps : list kstep) : bool := negb (existsb multi_step steps).
  Lemma plain_ok steps : forallb step_ok steps = true -> forallb rstep_ok (map RPlain steps) = true.
  Proof. induction steps as [|s r IH]; [reflexivity|]. cbn [forallb map rstep_ok]. intros H. apply andb_true_iff in H. destruct H as [H1 H2]. rewrite H1, IH by exact H2. reflexivity. Qed.

  Theorem chain_addressable s r doc v st : forallb step_ok (s :: r) = true -> no_wild (s :: r) = true -> small doc -> ok st ->
    nav_chain doc (s :: r) = Some v ->
    exists t, parse (chain_path (map RPlain (s :: r))) = ParseOk t /\ fst (eval_run t doc st) = OOk [chain_result (s :: r) v].
  Proof.
    intros Hs Hw Hd Hok Hl. pose proof (plain_ok (s :: r) Hs) as Hs'. cbn [map] in Hs'.
    destruct (chain_retrieval (RPlain s) (map RPlain r) doc st Hs' Hd Hok) as (t & Hp & H). exists t. split; [exact Hp|].
    unfold no_wild in Hw. apply negb_true_iff in Hw. pose proof (nav_all_single (s :: r) [] doc Hw) as E. cbn [map] in E.
    rewrite E, Hl in H. exact H.
  Qed.
  Theorem chain_absent s r doc st : forallb step_ok (s :: r) = true -> no_wild (s :: r) = true -> small doc -> ok st ->
    nav_chain doc (s :: r) = None ->
    exists t e, parse (chain_path (map RPlain (s :: r))) = ParseOk t /\ fst (eval_run t doc st) = OErr e.
  Proof.
    intros Hs Hw Hd Hok Hl. pose proof (plain_ok (s :: r) Hs) as Hs'. cbn [map] in Hs'.
    destruct (chain_retrieval (RPlain s) (map RPlain r) doc st Hs' Hd Hok) as (t & Hp & H). exists t.
    unfold no_wild in Hw. apply negb_true_iff in Hw. pose proof (nav_all_single (s :: r) [] doc Hw) as E. cbn [map] in E.
    rewrite E, Hl in H. destruct H as [e He]. exists e. split; assumption.
  Qed.
End ChainAddr.

(* the decimal spelling of an index is an index step that means that index *)
From JP Require Import DecFacts.
Lemma idx_step_ok n : (Z.of_N n < 2 ^ 63)%Z -> step_ok (SIdx (dec n)) = true /\ step_idx (dec n) = Z.of_N n.
Proof.
  intros Hn. destruct (atoi_dec n Hn) as (Ha & Hd & Hne). unfold step_idx. rewrite Ha. split; [|reflexivity].
  cbn [step_ok]. destruct (dec n) as [|c r] eqn:E; [contradiction Hne; reflexivity|].
  rewrite Ha. change is_digit with is_digitZ. rewrite Hd. reflexivity.
Qed.
