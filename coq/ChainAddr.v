(* ChainAddr.v — every node of a document is addressable, from the path text: a path of name steps (each in any of
   the three spellings) and index steps [digits] returns exactly the value reached by following the names and
   indexes through the nested objects and arrays (with that location in accessor mode), and nothing when a
   name or index is missing on the way. *)
From JP Require Import Peg Grammar Slice Text Tree Actions Json Eval WF Spec EvalInv1 EvalInv4 EvalTop EndToEnd Codec KeyDefs KeyParse IdxParse ChainParse.
From Coq Require Import Lia.
Open Scope list_scope.

(* one navigation step, and a whole chain of them *)
Definition nav (v : value) (s : kstep) : option value :=
  match s with
  | SIdx ds => match v with VArr xs => nth_value xs (step_idx ds) | _ => None end
  | _ => match v with VObj m => lookup m (step_key s) | _ => None end
  end.
Fixpoint nav_chain (v : value) (steps : list kstep) : option value :=
  match steps with
  | [] => Some v
  | s :: r => match nav v s with Some x => nav_chain x r | None => None end
  end.
Definition step_loc (s : kstep) : pstep := match s with SIdx ds => PIdx (step_idx ds) | _ => PKey (step_key s) end.

Lemma digits_val_nonneg ds : forall acc z, (0 <= acc)%Z -> digits_val ds acc = Some z -> (0 <= z)%Z.
Proof.
  induction ds as [|d ds IH]; intros acc z Ha H; cbn [digits_val] in H.
  - inversion H; subst. exact Ha.
  - unfold digit_val in H. destruct ((48 <=? d)%N && (d <=? 57)%N); [|discriminate].
    pose proof (N2Z.is_nonneg (d - 48)) as Hn. apply (IH (acc * 10 + Z.of_N (d - 48))%Z z); [lia|exact H].
Qed.
Lemma step_idx_nonneg ds : forallb is_digit ds = true -> (0 <= step_idx ds)%Z.
Proof.
  intros Hd. unfold step_idx. destruct (atoi ds) as [z|] eqn:E; [|lia].
  unfold atoi in E. destruct ds as [|d ds]; [discriminate E|].
  cbn [forallb] in Hd. apply andb_true_iff in Hd. destruct Hd as [H1 _]. destruct (digit_bounds d H1) as [B1 B2].
  assert (E1 : (d =? 45)%N = false) by (apply N.eqb_neq; lia). assert (E2 : (d =? 43)%N = false) by (apply N.eqb_neq; lia).
  rewrite E1, E2 in E. destruct (digits_val (d :: ds) 0) as [v|] eqn:Ev; [|discriminate E].
  destruct (in64b v); [|discriminate E]. inversion E; subst. exact (digits_val_nonneg (d :: ds) 0%Z z (Z.le_refl 0) Ev).
Qed.
Lemma nth_value_out : forall xs i, (Z.of_nat (List.length xs) <= i)%Z -> nth_value xs i = None.
Proof.
  induction xs as [|x xs IH]; intros i H; cbn [nth_value]; [reflexivity|]. cbn [List.length] in H.
  assert (E0 : (i =? 0)%Z = false) by (apply Z.eqb_neq; lia). assert (E1 : (i <? 0)%Z = false) by (apply Z.ltb_ge; lia).
  rewrite E0, E1. apply IH. lia.
Qed.

Section ChainAddr.
  Variable cfg : config.
  Variable parse_float : string -> option num.
  Variable regex_ok : string -> bool.
  Variable ffun : string -> value -> option value.
  Variable afun : string -> list value -> option value.
  Variable regex_match : string -> string -> bool.
  Hypothesis ffun_small : forall f v w, small v -> ffun f v = Some w -> small w.
  Hypothesis afun_small : forall f l w, Forall small l -> afun f l = Some w -> small w.
  Notation parse := (parse_with cfg parse_float regex_ok jsonpath_grammar).
  Notation eval_run := (eval_run ffun afun regex_match).
  Notation sp := (sp ffun afun regex_match).

  Fixpoint last_basic (s : kstep) (r : list kstep) : basic :=
    match r with [] => fin_basic cfg s [] | x :: r' => last_basic x r' end.
  Lemma last_basic_acc s r : accessor (last_basic s r) = cfg_accessor cfg.
  Proof. revert s. induction r as [|x r IH]; intros s; [reflexivity|apply IH]. Qed.

  (* the specification of one step of the chain: navigate, then go on *)
  Lemma sp_step s b next root p v : step_ok s = true ->
    sp (Node (step_kind s) b next) root (Some p, v) =
    match nav v s with
    | Some x => match next with
                | OSome nx => sp nx root (Some (p ++ [step_loc s]), x)
                | ONone => [(b, true, (Some (p ++ [step_loc s]), x))]
                end
    | None => []
    end.
  Proof.
    intros Hs. destruct s as [q k|k|ds].
    - cbn [step_kind nav step_loc]. cbn [Spec.sp snd fst]. destruct v; reflexivity.
    - cbn [step_kind nav step_loc]. cbn [Spec.sp snd fst]. destruct v; reflexivity.
    - destruct ds as [|d ds]; [discriminate Hs|]. cbn [step_ok] in Hs. apply andb_true_iff in Hs. destruct Hs as [Hd _].
      pose proof (step_idx_nonneg (d :: ds) Hd) as Hz. set (z := step_idx (d :: ds)) in *.
      cbn [step_kind nav step_loc]. fold z. cbn [Spec.sp snd fst]. destruct v; try reflexivity.
      cbn [flat_map get_indexes]. unfold get_indexes_index.
      cbv zeta. assert (E0 : (z <? 0)%Z = false) by (apply Z.ltb_ge; exact Hz). rewrite !E0. cbn [orb].
      destruct (z >=? Z.of_nat (List.length l))%Z eqn:Eg.
      + rewrite nth_value_out by (apply Z.geb_le in Eg; lia). reflexivity.
      + cbn [flat_map]. rewrite !app_nil_r. destruct (nth_value l z); [|reflexivity]. cbn [fst snd ext_loc]. destruct next; reflexivity.
  Qed.

  Lemma sp_chain : forall r s root p v, forallb step_ok (s :: r) = true ->
    sp (chain_node cfg s r) root (Some p, v) =
    match nav_chain v (s :: r) with
    | Some x => [(last_basic s r, true, (Some (p ++ map step_loc (s :: r)), x))]
    | None => []
    end.
  Proof.
    induction r as [|x r IH]; intros s root p v Hs; cbn [forallb] in Hs; apply andb_true_iff in Hs; destruct Hs as [H1 H2].
    - unfold chain_node. cbn [chain1]. rewrite sp_step by exact H1. cbn [nav_chain map last_basic].
      destruct (nav v s); reflexivity.
    - unfold chain_node. cbn [chain1]. rewrite sp_step by exact H1. cbn [nav_chain last_basic].
      destruct (nav v s) as [y|]; [|reflexivity].
      change (Node (step_kind x) (fin_basic cfg x r) (chain1 cfg r)) with (chain_node cfg x r).
      rewrite IH by exact H2. cbn [map]. rewrite <- app_assoc. reflexivity.
  Qed.

  Definition chain_result (steps : list kstep) (v : value) : res :=
    if cfg_accessor cfg then RAcc true (Some (map step_loc steps)) v else RVal v.

  Lemma spec_chain s r doc : forallb step_ok (s :: r) = true ->
    spec_results ffun afun regex_match (chain_node cfg s r) doc =
    match nav_chain doc (s :: r) with
    | Some x => [chain_result (s :: r) x]
    | None => []
    end.
  Proof.
    intros Hs. unfold spec_results. rewrite sp_chain by exact Hs. cbn [app]. destruct (nav_chain doc (s :: r)) as [x|]; [|reflexivity].
    cbn [map wrap]. rewrite last_basic_acc. unfold chain_result. cbn [fst snd]. destruct (cfg_accessor cfg); reflexivity.
  Qed.

  (* every node of the document is addressable by the path that spells its location *)
  Theorem chain_addressable s r doc v st : forallb step_ok (s :: r) = true -> small doc -> ok st ->
    nav_chain doc (s :: r) = Some v ->
    exists t, parse (chain_path (s :: r)) = ParseOk t /\ fst (eval_run t doc st) = OOk [chain_result (s :: r) v].
  Proof.
    intros Hs Hd Hok Hl. exists (chain_node cfg s r).
    pose proof (parse_chain_path cfg parse_float regex_ok s r Hs) as Hp. split; [exact Hp|].
    pose proof (retrieve_end_to_end cfg parse_float regex_ok ffun afun regex_match ffun_small afun_small (chain_path (s :: r)) doc st Hd Hok) as H.
    rewrite Hp in H. rewrite (spec_chain s r doc Hs), Hl in H.
    destruct (fst (eval_run (chain_node cfg s r) doc st)) as [rs|e|pn].
    - destruct H as [H _]. rewrite H. reflexivity.
    - destruct H as [H _]. discriminate.
    - contradiction.
  Qed.
  Theorem chain_absent s r doc st : forallb step_ok (s :: r) = true -> small doc -> ok st ->
    nav_chain doc (s :: r) = None ->
    exists t e, parse (chain_path (s :: r)) = ParseOk t /\ fst (eval_run t doc st) = OErr e.
  Proof.
    intros Hs Hd Hok Hl. exists (chain_node cfg s r).
    pose proof (parse_chain_path cfg parse_float regex_ok s r Hs) as Hp.
    pose proof (retrieve_end_to_end cfg parse_float regex_ok ffun afun regex_match ffun_small afun_small (chain_path (s :: r)) doc st Hd Hok) as H.
    rewrite Hp in H. rewrite (spec_chain s r doc Hs), Hl in H.
    destruct (fst (eval_run (chain_node cfg s r) doc st)) as [rs|e|pn].
    - destruct H as [H1 [H2 _]]. contradiction (H2 H1).
    - exists e. split; [exact Hp|reflexivity].
    - contradiction.
  Qed.
End ChainAddr.

(* the decimal spelling of an index is an index step that means that index *)
From JP Require Import DecFacts.
Lemma idx_step_ok n : (Z.of_N n < 2 ^ 63)%Z -> step_ok (SIdx (dec n)) = true /\ step_idx (dec n) = Z.of_N n.
Proof.
  intros Hn. destruct (atoi_dec n Hn) as (Ha & Hd & Hne). unfold step_idx. rewrite Ha. split; [|reflexivity].
  cbn [step_ok]. destruct (dec n) as [|c r] eqn:E; [contradiction Hne; reflexivity|].
  rewrite Ha. change is_digit with is_digitZ. rewrite Hd. reflexivity.
Qed.
