(* ChainAddr.v — C16 at every depth: a path of name steps, each in any of the three spellings, returns exactly the
   member reached by following the names through nested objects, and nothing when a name is missing on the way. *)
From JP Require Import Peg Grammar Text Tree Actions Json Eval WF Spec EvalInv1 EvalInv4 EvalTop EndToEnd Codec KeyDefs KeyParse ChainParse.
Open Scope list_scope.

(* following names through nested objects *)
Fixpoint lookup_chain (v : value) (keys : list string) : option value :=
  match keys with
  | [] => Some v
  | k :: r => match v with
              | VObj m => match lookup m k with Some x => lookup_chain x r | None => None end
              | _ => None
              end
  end.

Section ChainAddr.
  Variable cfg : config.
  Variable parse_float : string -> option num.
  Variable regex_ok : string -> bool.
  Variable ffun : string -> value -> option value.
  Variable afun : string -> list value -> option value.
  Variable regex_match : string -> string -> bool.
  Hypothesis ffun_small : forall f v w, small v -> ffun f v = Some w -> small w.
  Hypothesis afun_small : forall f l w, Forall small l -> afun f l = Some w -> small w.
  Notation parse := (parse_with cfg parse_float regex_ok jsonpath_grammar).
  Notation eval_run := (eval_run ffun afun regex_match).
  Notation sp := (sp ffun afun regex_match).

  Fixpoint last_basic (s : kstep) (r : list kstep) : basic :=
    match r with [] => fin_basic cfg s [] | x :: r' => last_basic x r' end.
  Lemma last_basic_acc s r : accessor (last_basic s r) = cfg_accessor cfg.
  Proof. revert s. induction r as [|x r IH]; intros s; [reflexivity|apply IH]. Qed.

  Lemma sp_chain : forall r s root p v,
    sp (chain_node cfg s r) root (Some p, v) =
    match lookup_chain v (step_key s :: map step_key r) with
    | Some x => [(last_basic s r, true, (Some (p ++ map PKey (step_key s :: map step_key r)), x))]
    | None => []
    end.
  Proof.
    induction r as [|x r IH]; intros s root p v.
    - unfold chain_node. cbn [chain1 map lookup_chain last_basic]. cbn [Spec.sp snd fst].
      destruct v; try reflexivity. destruct (lookup m (step_key s)); reflexivity.
    - unfold chain_node. cbn [chain1 map lookup_chain last_basic].
      change (sp (Node (KSingle (step_key s)) (fin_basic cfg s (x :: r)) (OSome (Node (KSingle (step_key x)) (fin_basic cfg x r) (chain1 cfg r)))) root (Some p, v))
        with (match v with
              | VObj m => match lookup m (step_key s) with
                          | Some y => sp (chain_node cfg x r) root (ext_loc (Some p) (PKey (step_key s)), y)
                          | None => []
                          end
              | _ => []
              end).
      destruct v; try reflexivity. destruct (lookup m (step_key s)) as [y|]; [|reflexivity].
      cbn [ext_loc]. rewrite IH. cbn [map]. rewrite <- app_assoc. reflexivity.
  Qed.

  Definition chain_result (keys : list string) (v : value) : res :=
    if cfg_accessor cfg then RAcc true (Some (map PKey keys)) v else RVal v.

  Lemma spec_chain s r doc :
    spec_results ffun afun regex_match (chain_node cfg s r) doc =
    match lookup_chain doc (map step_key (s :: r)) with
    | Some x => [chain_result (map step_key (s :: r)) x]
    | None => []
    end.
  Proof.
    unfold spec_results. rewrite sp_chain. cbn [map app]. destruct (lookup_chain doc (step_key s :: map step_key r)) as [x|]; [|reflexivity].
    cbn [map wrap]. rewrite last_basic_acc. unfold chain_result. cbn [map fst snd]. destruct (cfg_accessor cfg); reflexivity.
  Qed.

  (* every member at every depth is addressable, in any mixture of the three spellings *)
  Theorem chain_addressable s r doc v st : forallb step_ok (s :: r) = true -> small doc -> ok st ->
    lookup_chain doc (map step_key (s :: r)) = Some v ->
    exists t, parse (chain_path (s :: r)) = ParseOk t /\
              fst (eval_run t doc st) = OOk [chain_result (map step_key (s :: r)) v].
  Proof.
    intros Hs Hd Hok Hl. exists (chain_node cfg s r).
    pose proof (parse_chain_path cfg parse_float regex_ok s r Hs) as Hp. split; [exact Hp|].
    pose proof (retrieve_end_to_end cfg parse_float regex_ok ffun afun regex_match ffun_small afun_small (chain_path (s :: r)) doc st Hd Hok) as H.
    rewrite Hp in H. rewrite spec_chain, Hl in H.
    destruct (fst (eval_run (chain_node cfg s r) doc st)) as [rs|e|pn].
    - destruct H as [H _]. rewrite H. reflexivity.
    - destruct H as [H _]. discriminate.
    - contradiction.
  Qed.
  Theorem chain_absent s r doc st : forallb step_ok (s :: r) = true -> small doc -> ok st ->
    lookup_chain doc (map step_key (s :: r)) = None ->
    exists t e, parse (chain_path (s :: r)) = ParseOk t /\ fst (eval_run t doc st) = OErr e.
  Proof.
    intros Hs Hd Hok Hl. exists (chain_node cfg s r).
    pose proof (parse_chain_path cfg parse_float regex_ok s r Hs) as Hp.
    pose proof (retrieve_end_to_end cfg parse_float regex_ok ffun afun regex_match ffun_small afun_small (chain_path (s :: r)) doc st Hd Hok) as H.
    rewrite Hp in H. rewrite spec_chain, Hl in H.
    destruct (fst (eval_run (chain_node cfg s r) doc st)) as [rs|e|pn].
    - destruct H as [H1 [H2 _]]. contradiction (H2 H1).
    - exists e. split; [exact Hp|reflexivity].
    - contradiction.
  Qed.
End ChainAddr.
