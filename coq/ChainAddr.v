(* ChainAddr.v — every node of a document is addressable, from the path text: a path of name steps (each in any of
   the three spellings) and index steps [digits] returns exactly the value reached by following the names and
   indexes through the nested objects and arrays (with that location in accessor mode), and nothing when a
   name or index is missing on the way. *)
From JP Require Import Peg Grammar Slice Text Tree Actions Json Eval WF Spec SortFacts EvalInv1 EvalInv4 EvalTop EndToEnd Codec KeyDefs KeyParse IdxParse WildParse RecParse ChainParse.
From Coq Require Import Lia.
Open Scope list_scope.

(* one navigation step, and a whole chain of them *)
Definition nav (v : value) (s : kstep) : option value :=
  match s with
  | SIdx ds => match v with VArr xs => nth_value xs (step_idx ds) | _ => None end
  | _ => match v with VObj m => lookup m (step_key s) | _ => None end
  end.
Fixpoint nav_chain (v : value) (steps : list kstep) : option value :=
  match steps with
  | [] => Some v
  | s :: r => match nav v s with Some x => nav_chain x r | None => None end
  end.
Definition step_loc (s : kstep) : pstep := match s with SIdx ds => PIdx (step_idx ds) | _ => PKey (step_key s) end.

(* the values one step reaches from a value at a location: a name or an index reaches at most one, a wildcard all the
   members of an object in ascending key order, or all the elements of an array in index order *)
Definition nav1 (s : kstep) (lv : list pstep * value) : list (list pstep * value) :=
  match s with
  | SWild _ => match snd lv with
               | VObj m => flat_map (fun k => match lookup m k with Some x => [(fst lv ++ [PKey k], x)] | None => [] end) (sorted_keys m)
               | VArr xs => map (fun iv => (fst lv ++ [PIdx (fst iv)], snd iv)) (index_list xs 0)
               | _ => []
               end
  | _ => match nav (snd lv) s with Some x => [(fst lv ++ [step_loc s], x)] | None => [] end
  end.
(* `..step`: the step applied to every container below (and including) the value, in pre-order *)
Definition cu_loc (cu : cursor) : list pstep := match fst cu with Some l => l | None => [] end.
Definition nav1r (x : rstep) (lv : list pstep * value) : list (list pstep * value) :=
  match x with
  | RPlain s => nav1 s lv
  | RRec s => flat_map (fun cu => nav1 s (cu_loc cu, snd cu)) (containers (Some (fst lv)) (snd lv))
  end.
Fixpoint nav_all (steps : list rstep) (lv : list pstep * value) : list (list pstep * value) :=
  match steps with [] => [lv] | x :: r => flat_map (nav_all r) (nav1r x lv) end.

Lemma flat_map_flat_map {A B C} (f : B -> list C) (g : A -> list B) l :
  flat_map f (flat_map g l) = flat_map (fun x => flat_map f (g x)) l.
Proof. induction l as [|a l IH]; cbn [flat_map]; [reflexivity|]. rewrite flat_map_app, IH. reflexivity. Qed.
Lemma flat_map_map' {A B C} (f : B -> list C) (g : A -> B) l : flat_map f (map g l) = flat_map (fun x => f (g x)) l.
Proof. induction l as [|a l IH]; cbn [flat_map map]; [reflexivity|]. rewrite IH. reflexivity. Qed.
Lemma flat_map_ext' {A B} (f g : A -> list B) l : (forall a, f a = g a) -> flat_map f l = flat_map g l.
Proof. intros H. induction l as [|a l IH]; cbn [flat_map]; [reflexivity|]. rewrite H, IH. reflexivity. Qed.
Lemma flat_map_single {A B} (f : A -> B) l : flat_map (fun x => [f x]) l = map f l.
Proof. induction l as [|a l IH]; cbn [flat_map map app]; [reflexivity|]. rewrite IH. reflexivity. Qed.

(* without wildcards a chain reaches at most one value: the one nav_chain finds *)
Lemma nav_all_single : forall steps (p : list pstep) v, existsb (fun s => match s with SWild _ => true | _ => false end) steps = false ->
  nav_all (map RPlain steps) (p, v) = match nav_chain v steps with Some x => [(p ++ map step_loc steps, x)] | None => [] end.
Proof.
  induction steps as [|s r IH]; intros p v Hw; cbn [nav_all nav_chain map nav1r].
  - rewrite app_nil_r. reflexivity.
  - cbn [existsb] in Hw. apply orb_false_iff in Hw. destruct Hw as [H1 H2].
    assert (E : nav1 s (p, v) = match nav v s with Some x => [(p ++ [step_loc s], x)] | None => [] end) by (destruct s; try reflexivity; discriminate H1).
    rewrite E. destruct (nav v s) as [x|]; [|reflexivity]. cbn [flat_map]. rewrite app_nil_r, IH by exact H2. rewrite <- app_assoc. reflexivity.
Qed.

Lemma containers_some : forall v p, Forall (fun cu => exists l, fst cu = Some l) (containers (Some p) v).
Proof.
  induction v as [|b|x|s x|s|xs IH|m IH|t i s] using value_ind_strong; intros p; [constructor|constructor|constructor|constructor|constructor| | |constructor].
  - rewrite containers_arr. constructor; [exists p; reflexivity|].
    apply Forall_forall. intros cu Hin. apply in_flat_map in Hin. destruct Hin as [[i x] [Hix Hcu]]. cbn [fst snd ext_loc] in Hcu.
    assert (Hx : In x xs).
    { clear -Hix. revert Hix. generalize 0%Z. induction xs as [|y ys IHy]; intros z Hix; [contradiction|].
      cbn [index_list] in Hix. destruct Hix as [E|Hix]; [inversion E; left; reflexivity|right; exact (IHy _ Hix)]. }
    rewrite Forall_forall in IH. pose proof (IH x Hx (p ++ [PIdx i])) as H. rewrite Forall_forall in H. exact (H cu Hcu).
  - rewrite containers_obj. constructor; [exists p; reflexivity|].
    apply Forall_forall. intros cu Hin. apply in_flat_map in Hin. destruct Hin as [k [_ Hcu]].
    destruct (lookup m k) as [x|] eqn:El; [|contradiction]. cbn [ext_loc] in Hcu.
    apply lookup_some_in in El. rewrite Forall_forall in IH. pose proof (IH (k, x) El (p ++ [PKey k])) as H. cbn [snd] in H.
    rewrite Forall_forall in H. exact (H cu Hcu).
Qed.
Lemma flat_map_ext_in' {A B} (f g : A -> list B) l : (forall a, In a l -> f a = g a) -> flat_map f l = flat_map g l.
Proof.
  induction l as [|a l IH]; intros H; cbn [flat_map]; [reflexivity|].
  rewrite (H a (or_introl eq_refl)), IH; [reflexivity|]. intros b Hb. apply H. right. exact Hb.
Qed.
Lemma map_flat_map' {A B C} (f : B -> C) (g : A -> list B) l : map f (flat_map g l) = flat_map (fun x => map f (g x)) l.
Proof. induction l as [|a l IH]; cbn [flat_map map]; [reflexivity|]. rewrite map_app, IH. reflexivity. Qed.

Lemma digits_val_nonneg ds : forall acc z, (0 <= acc)%Z -> digits_val ds acc = Some z -> (0 <= z)%Z.
Proof.
  induction ds as [|d ds IH]; intros acc z Ha H; cbn [digits_val] in H.
  - inversion H; subst. exact Ha.
  - unfold digit_val in H. destruct ((48 <=? d)%N && (d <=? 57)%N); [|discriminate].
    pose proof (N2Z.is_nonneg (d - 48)) as Hn. apply (IH (acc * 10 + Z.of_N (d - 48))%Z z); [lia|exact H].
Qed.
Lemma step_idx_nonneg ds : forallb is_digit ds = true -> (0 <= step_idx ds)%Z.
Proof.
  intros Hd. unfold step_idx. destruct (atoi ds) as [z|] eqn:E; [|lia].
  unfold atoi in E. destruct ds as [|d ds]; [discriminate E|].
  cbn [forallb] in Hd. apply andb_true_iff in Hd. destruct Hd as [H1 _]. destruct (digit_bounds d H1) as [B1 B2].
  assert (E1 : (d =? 45)%N = false) by (apply N.eqb_neq; lia). assert (E2 : (d =? 43)%N = false) by (apply N.eqb_neq; lia).
  rewrite E1, E2 in E. destruct (digits_val (d :: ds) 0) as [v|] eqn:Ev; [|discriminate E].
  destruct (in64b v); [|discriminate E]. inversion E; subst. exact (digits_val_nonneg (d :: ds) 0%Z z (Z.le_refl 0) Ev).
Qed.
Lemma nth_value_out : forall xs i, (Z.of_nat (List.length xs) <= i)%Z -> nth_value xs i = None.
Proof.
  induction xs as [|x xs IH]; intros i H; cbn [nth_value]; [reflexivity|]. cbn [List.length] in H.
  assert (E0 : (i =? 0)%Z = false) by (apply Z.eqb_neq; lia). assert (E1 : (i <? 0)%Z = false) by (apply Z.ltb_ge; lia).
  rewrite E0, E1. apply IH. lia.
Qed.

Section ChainAddr.
  Variable cfg : config.
  Variable parse_float : string -> option num.
  Variable regex_ok : string -> bool.
  Variable ffun : string -> value -> option value.
  Variable afun : string -> list value -> option value.
  Variable regex_match : string -> string -> bool.
  Hypothesis ffun_small : forall f v w, small v -> ffun f v = Some w -> small w.
  Hypothesis afun_small : forall f l w, Forall small l -> afun f l = Some w -> small w.
  Notation parse := (parse_with cfg parse_float regex_ok jsonpath_grammar).
  Notation eval_run := (eval_run ffun afun regex_match).
  Notation sp := (sp ffun afun regex_match).

  Definition fwd (b : basic) (next : onode) (root : value) (lv : list pstep * value) : list sres :=
    match next with
    | OSome nx => sp nx root (Some (fst lv), snd lv)
    | ONone => [(b, true, (Some (fst lv), snd lv))]
    end.

  (* the specification of one step: navigate, then go on from every value reached *)
  Lemma sp_step s b next root p v : step_ok s = true ->
    sp (Node (step_kind s) b next) root (Some p, v) = flat_map (fwd b next root) (nav1 s (p, v)).
  Proof.
    intros Hs. destruct s as [q k|k|ds|d].
    - cbn [step_kind nav1 nav step_loc fst snd]. cbn [Spec.sp snd fst]. destruct v; try reflexivity.
      destruct (lookup m (step_key (SBr q k))); [|reflexivity]. cbn [flat_map fwd fst snd ext_loc]. rewrite app_nil_r. destruct next; reflexivity.
    - cbn [step_kind nav1 nav step_loc fst snd]. cbn [Spec.sp snd fst]. destruct v; try reflexivity.
      destruct (lookup m (step_key (SDot k))); [|reflexivity]. cbn [flat_map fwd fst snd ext_loc]. rewrite app_nil_r. destruct next; reflexivity.
    - destruct ds as [|d ds]; [discriminate Hs|]. cbn [step_ok] in Hs. apply andb_true_iff in Hs. destruct Hs as [Hd _].
      pose proof (step_idx_nonneg (d :: ds) Hd) as Hz. set (z := step_idx (d :: ds)) in *.
      cbn [step_kind nav1 nav step_loc fst snd]. fold z. cbn [Spec.sp snd fst]. destruct v; try reflexivity.
      cbn [flat_map get_indexes]. unfold get_indexes_index.
      cbv zeta. assert (E0 : (z <? 0)%Z = false) by (apply Z.ltb_ge; exact Hz). rewrite !E0. cbn [orb].
      destruct (z >=? Z.of_nat (List.length l))%Z eqn:Eg.
      + rewrite nth_value_out by (apply Z.geb_le in Eg; lia). reflexivity.
      + cbn [flat_map]. rewrite !app_nil_r. destruct (nth_value l z); [|reflexivity]. cbn [flat_map fwd fst snd ext_loc]. rewrite app_nil_r. destruct next; reflexivity.
    - cbn [step_kind nav1 fst snd]. cbn [Spec.sp snd fst]. destruct v; try reflexivity.
      + rewrite flat_map_map'. apply flat_map_ext'. intros [i x]. cbn [fst snd fwd ext_loc]. destruct next; reflexivity.
      + rewrite flat_map_flat_map. apply flat_map_ext'. intros key. destruct (lookup m key); [|reflexivity].
        cbn [flat_map fwd fst snd ext_loc]. rewrite app_nil_r. destruct next; reflexivity.
  Qed.

  (* the nodes of one step with arbitrary basics, followed by next *)
  Definition seg (x : rstep) (b1 b2 : basic) (next : onode) : node :=
    match x with
    | RPlain s => Node (step_kind s) b2 next
    | RRec s => Node (KRec (fst (rec_flags s)) (snd (rec_flags s))) b1 (OSome (Node (step_kind s) b2 next))
    end.

  Lemma sp_seg x b1 b2 next root p v : rstep_ok x = true ->
    sp (seg x b1 b2 next) root (Some p, v) = flat_map (fwd b2 next root) (nav1r x (p, v)).
  Proof.
    intros Hs. destruct x as [s|s]; cbn [seg nav1r rstep_ok] in *; [apply sp_step; exact Hs|].
    cbn [fst snd].
    assert (E : sp (Node (KRec (fst (rec_flags s)) (snd (rec_flags s))) b1 (OSome (Node (step_kind s) b2 next))) root (Some p, v) =
                flat_map (fun cu => sp (Node (step_kind s) b2 next) root cu) (containers (Some p) v)).
    { cbn [Spec.sp fst snd]. apply flat_map_ext'. intros [l x]. cbn [snd].
      destruct s as [q k|k|ds|d]; cbn [rec_flags fst snd step_kind]; destruct x; reflexivity. }
    rewrite E. rewrite flat_map_flat_map. apply flat_map_ext_in'. intros cu Hin.
    pose proof (containers_some v p) as Hc. rewrite Forall_forall in Hc. destruct (Hc cu Hin) as [l Hl].
    destruct cu as [ol x]. cbn [fst snd] in *. subst ol. unfold cu_loc. cbn [fst snd].
    apply sp_step. exact Hs.
  Qed.

  Lemma fin_pres x r : exists b1 b2, fin (pres cfg (x :: r)) = OSome (seg x b1 b2 (fin (pres cfg r))) /\ accessor b2 = cfg_accessor cfg.
  Proof.
    unfold pres. cbn [flat_map]. destruct x as [s|s]; cbn [rstep_pre app fin fst snd seg].
    - eexists (pre_basic cfg s), _. split; [reflexivity|]. reflexivity.
    - eexists _, _. split; [reflexivity|]. destruct s as [q k|k|ds|[|]]; reflexivity.
  Qed.
  Lemma chain_node_seg x r : exists b1 b2, chain_node cfg (x :: r) = seg x b1 b2 (fin (pres cfg r)) /\ accessor b2 = cfg_accessor cfg.
  Proof.
    unfold chain_node, pres. cbn [flat_map]. destruct x as [s|s]; cbn [rstep_pre app fin fst snd seg].
    - eexists (pre_basic cfg s), _. split; [reflexivity|]. reflexivity.
    - eexists _, _. split; [reflexivity|]. destruct s as [q k|k|ds|[|]]; reflexivity.
  Qed.

  Lemma sp_chain : forall r x b1 b2, forallb rstep_ok (x :: r) = true -> accessor b2 = cfg_accessor cfg ->
    exists B, accessor B = cfg_accessor cfg /\ forall root p v,
      sp (seg x b1 b2 (fin (pres cfg r))) root (Some p, v) =
      map (fun lv => (B, true, (Some (fst lv), snd lv))) (nav_all (x :: r) (p, v)).
  Proof.
    induction r as [|y r IH]; intros x b1 b2 Hs Hb; cbn [forallb] in Hs; apply andb_true_iff in Hs; destruct Hs as [H1 H2].
    - exists b2. split; [exact Hb|]. intros root p v. change (fin (pres cfg [])) with ONone. rewrite sp_seg by exact H1.
      cbn [nav_all]. rewrite <- flat_map_single, flat_map_flat_map. apply flat_map_ext'. intros lv. reflexivity.
    - destruct (fin_pres y r) as (c1 & c2 & Ef & Hc). destruct (IH y c1 c2 H2 Hc) as (B & HB & Hsp).
      exists B. split; [exact HB|]. intros root p v. rewrite Ef, sp_seg by exact H1.
      cbn [nav_all]. rewrite map_flat_map'. apply flat_map_ext'. intros [l z]. unfold fwd. cbn [fst snd]. apply Hsp.
  Qed.

  Definition loc_result (lv : list pstep * value) : res :=
    if cfg_accessor cfg then RAcc true (Some (fst lv)) (snd lv) else RVal (snd lv).

  Lemma spec_chain x r doc : forallb rstep_ok (x :: r) = true ->
    spec_results ffun afun regex_match (chain_node cfg (x :: r)) doc = map loc_result (nav_all (x :: r) ([], doc)).
  Proof.
    intros Hs. destruct (chain_node_seg x r) as (b1 & b2 & En & Hb). destruct (sp_chain r x b1 b2 Hs Hb) as (B & HB & Hsp).
    unfold spec_results. rewrite En, Hsp. rewrite map_map. apply map_ext. intros [l z].
    cbn [wrap fst snd]. rewrite HB. unfold loc_result. cbn [fst snd]. destruct (cfg_accessor cfg); reflexivity.
  Qed.

  (* a path of name, index and wildcard steps, each possibly after `..`, returns exactly the values its steps reach,
     in order, with their locations in accessor mode; it fails exactly when they reach nothing *)
  Theorem chain_retrieval x r doc st : forallb rstep_ok (x :: r) = true -> small doc -> ok st ->
    exists t, parse (chain_path (x :: r)) = ParseOk t /\
              match nav_all (x :: r) ([], doc) with
              | [] => exists e, fst (eval_run t doc st) = OErr e
              | l => fst (eval_run t doc st) = OOk (map loc_result l)
              end.
  Proof.
    intros Hs Hd Hok. exists (chain_node cfg (x :: r)).
    pose proof (parse_chain_path cfg parse_float regex_ok x r Hs) as Hp. split; [exact Hp|].
    pose proof (retrieve_end_to_end cfg parse_float regex_ok ffun afun regex_match ffun_small afun_small (chain_path (x :: r)) doc st Hd Hok) as H.
    rewrite Hp in H. rewrite (spec_chain x r doc Hs) in H.
    destruct (nav_all (x :: r) ([], doc)) as [|a l] eqn:En.
    - destruct (fst (eval_run (chain_node cfg (x :: r)) doc st)) as [rs|e|pn].
      + destruct H as [H1 [H2 _]]. contradiction (H2 H1).
      + exists e. reflexivity.
      + contradiction.
    - destruct (fst (eval_run (chain_node cfg (x :: r)) doc st)) as [rs|e|pn].
      + destruct H as [H _]. rewrite H. reflexivity.
      + destruct H as [H _]. discriminate.
      + contradiction.
  Qed.

  (* without wildcards and `..`: every node of the document is addressable by the path that spells its location *)
  Definition chain_result (steps : list kstep) (v : value) : res :=
    if cfg_accessor cfg then RAcc true (Some (map step_loc steps)) v else RVal v.
  Definition no_wild (steps : list kstep) : bool := negb (existsb (fun s => match s with SWild _ => true | _ => false end) steps).
  Lemma plain_ok steps : forallb step_ok steps = true -> forallb rstep_ok (map RPlain steps) = true.
  Proof. induction steps as [|s r IH]; [reflexivity|]. cbn [forallb map rstep_ok]. intros H. apply andb_true_iff in H. destruct H as [H1 H2]. rewrite H1, IH by exact H2. reflexivity. Qed.

  Theorem chain_addressable s r doc v st : forallb step_ok (s :: r) = true -> no_wild (s :: r) = true -> small doc -> ok st ->
    nav_chain doc (s :: r) = Some v ->
    exists t, parse (chain_path (map RPlain (s :: r))) = ParseOk t /\ fst (eval_run t doc st) = OOk [chain_result (s :: r) v].
  Proof.
    intros Hs Hw Hd Hok Hl. pose proof (plain_ok (s :: r) Hs) as Hs'. cbn [map] in Hs'.
    destruct (chain_retrieval (RPlain s) (map RPlain r) doc st Hs' Hd Hok) as (t & Hp & H). exists t. split; [exact Hp|].
    unfold no_wild in Hw. apply negb_true_iff in Hw. pose proof (nav_all_single (s :: r) [] doc Hw) as E. cbn [map] in E.
    rewrite E, Hl in H. exact H.
  Qed.
  Theorem chain_absent s r doc st : forallb step_ok (s :: r) = true -> no_wild (s :: r) = true -> small doc -> ok st ->
    nav_chain doc (s :: r) = None ->
    exists t e, parse (chain_path (map RPlain (s :: r))) = ParseOk t /\ fst (eval_run t doc st) = OErr e.
  Proof.
    intros Hs Hw Hd Hok Hl. pose proof (plain_ok (s :: r) Hs) as Hs'. cbn [map] in Hs'.
    destruct (chain_retrieval (RPlain s) (map RPlain r) doc st Hs' Hd Hok) as (t & Hp & H). exists t.
    unfold no_wild in Hw. apply negb_true_iff in Hw. pose proof (nav_all_single (s :: r) [] doc Hw) as E. cbn [map] in E.
    rewrite E, Hl in H. destruct H as [e He]. exists e. split; assumption.
  Qed.
End ChainAddr.

(* the decimal spelling of an index is an index step that means that index *)
From JP Require Import DecFacts.
Lemma idx_step_ok n : (Z.of_N n < 2 ^ 63)%Z -> step_ok (SIdx (dec n)) = true /\ step_idx (dec n) = Z.of_N n.
Proof.
  intros Hn. destruct (atoi_dec n Hn) as (Ha & Hd & Hne). unfold step_idx. rewrite Ha. split; [|reflexivity].
  cbn [step_ok]. destruct (dec n) as [|c r] eqn:E; [contradiction Hne; reflexivity|].
  rewrite Ha. change is_digit with is_digitZ. rewrite Hd. reflexivity.
Qed.
