(* NoDollarFun.v — the leading `$` may be omitted also when filter functions follow the steps and filters (C18 / C14):
   `a[?(@.b)].f().g()` is accepted and returns what `$.a[?(@.b)].f().g()` returns: the functions applied, in the written order,
   to every value the steps and filters reach, in the order they reach them. *)
From JP Require Import Peg Grammar Slice Text Tree Actions Json Eval WF Spec SortFacts EvalInv1 EvalInv4 EvalTop EndToEnd Codec PegFacts PegMono PegEv FuelRules ParseFacts KeyDefs KeyParse IdxParse SliceParse UnionParse WildParse RecParse ChainParse SpacePath FunParse AggParse Frame FiltParse CmpParse CmpSpace NegFilt LitParse RootOp RegexOp LitLeft QueryParse FiltSpace QuerySpace QueryTree FiltChain ChainAddr FunAddr AggAddr FiltAddr CmpAddr QueryAddr FiltChainAddr NoDollar FiltFun NoDollarFilt.
From Coq Require Import Lia.
Local Open Scope N_scope.
Open Scope list_scope.

Lemma dot_stop_app a b : dot_stop a -> dot_stop b -> dot_stop (a ++ b).
Proof. intros Ha Hb. destruct a as [|x a']; [exact Hb|exact Ha]. Qed.

Definition fchain_fun_tokens0 (s : kstep) (l : list fstep) (fs : list (list N)) : list token :=
  first_tokens s ++ fsteps_tokens (List.length (rec_body s)) l ++
  funs_tokens (List.length (rec_body s) + List.length (render_fsteps l)) fs ++ [TAct 2; TAct 0].

Lemma ev_fchain_fun_path0 s l fs : step_ok s = true -> forallb fstep_ok l = true -> forallb fname_ok fs = true ->
  evG (PRef 0) (fchain_fun_path0 s l fs) 0
      (POk [] (List.length (rec_body s) + List.length (render_fsteps l) + List.length (render_funs fs)) (fchain_fun_tokens0 s l fs)).
Proof.
  intros Hs Hl Hf. unfold fchain_fun_path0, fchain_fun_tokens0. destruct (rec_body_head s Hs) as (c & r0 & Hc & H32). eapply ev_conv.
  - eapply ev_ref; [reflexivity|]. apply ev_alt_l.
    eapply ev_seq_ok; [| |reflexivity].
    + eapply ev_ref; [reflexivity|].
      eapply ev_seq_ok; [rewrite Hc; cbn [app]; apply ev_space_stop; exact H32| |reflexivity].
      change (c :: r0 ++ render_fsteps l ++ render_funs fs) with ((c :: r0) ++ render_fsteps l ++ render_funs fs). rewrite <- Hc.
      eapply ev_seq_ok; [apply (ev_rule5_first s (render_fsteps l ++ render_funs fs) Hs (dot_stop_app _ _ (fsteps_stop l) (funs_stop fs)))| |reflexivity].
      eapply ev_ref; [reflexivity|].
      eapply ev_seq_ok; [apply (ev_fsteps_star l (render_funs fs) _ Hl (funs_stop fs) (funs_rule7_fail fs Hf))| |reflexivity].
      eapply ev_seq_ok; [apply (ev_funs_star fs _ Hf)| |reflexivity].
      eapply ev_seq_ok; [apply ev_space_eof|apply ev_act|reflexivity].
    + eapply ev_seq_ok; [| apply ev_act |reflexivity].
      eapply ev_ref; [reflexivity|]. apply ev_not_ok. apply ev_any_fail.
  - cbn [app Nat.add]. rewrite <- !app_assoc. cbn [app]. reflexivity.
Qed.
Lemma peg_fchain_fun_path0 s l fs : step_ok s = true -> forallb fstep_ok l = true -> forallb fname_ok fs = true ->
  peg_parse G (fchain_fun_path0 s l fs) =
  POk [] (List.length (rec_body s) + List.length (render_fsteps l) + List.length (render_funs fs)) (fchain_fun_tokens0 s l fs).
Proof. intros Hs Hl Hf. apply ev_peg_parse; [apply ev_fchain_fun_path0; assumption|apply peg_never_out_of_fuel]. Qed.

Section NoDollarFunExec.
  Variable cfg : config.
  Variable parse_float : string -> option num.
  Variable regex_ok : string -> bool.
  Notation execute := (execute cfg parse_float regex_ok).
  Notation exec_action := (exec_action cfg parse_float regex_ok).
  Notation fpres_f := (FiltChain.fpres cfg parse_float).
  Notation fpres_u := (FunParse.fpres cfg).

  Definition fchain_fun_node0 (s : kstep) (l : list fstep) (fs : list (list N)) : node :=
    Node (step_kind s)
         (set_ctext (text (rec_inner_basic cfg s) ++ ctx (fpres_f l ++ fpres_u fs))
                    (set_vgroup (any_vg ((step_kind s, rec_inner_basic cfg s) :: fpres_f l ++ fpres_u fs)) (rec_inner_basic cfg s)))
         (fin (fpres_f l ++ fpres_u fs)).

  Theorem parse_fchain_fun_path0 s l fs : step_ok s = true -> forallb fstep_ok l = true -> forallb (fstep_okp parse_float regex_ok) l = true ->
    forallb fname_ok fs = true -> forallb (fun_known cfg) fs = true ->
    parse_with cfg parse_float regex_ok G (fchain_fun_path0 s l fs) = ParseOk (fchain_fun_node0 s l fs).
  Proof.
    intros Hs Hl Hp Hf Hkn. unfold parse_with, parse_from. rewrite (peg_fchain_fun_path0 s l fs Hs Hl Hf). unfold fchain_fun_tokens0.
    destruct (exec_first cfg parse_float regex_ok (fchain_fun_path0 s l fs) s
                (fsteps_tokens (List.length (rec_body s)) l ++ funs_tokens (List.length (rec_body s) + List.length (render_fsteps l)) fs ++ [TAct 2; TAct 0])
                (render_fsteps l ++ render_funs fs) Hs eq_refl) as (c1 & b1 & E1).
    rewrite E1. clear E1.
    assert (Hsk : skipn (List.length (rec_body s)) (fchain_fun_path0 s l fs) = render_fsteps l ++ render_funs fs).
    { unfold fchain_fun_path0. rewrite skipn_app, skipn_all, Nat.sub_diag. reflexivity. }
    destruct (exec_fsteps_tail cfg parse_float regex_ok (fchain_fun_path0 s l fs) l (render_funs fs) (List.length (rec_body s)) [INode (first_node cfg s)]
                (funs_tokens (List.length (rec_body s) + List.length (render_fsteps l)) fs ++ [TAct 2; TAct 0]) c1 b1 Hl Hp Hsk) as (c2 & b2 & E).
    rewrite E. clear E.
    destruct (exec_funs cfg parse_float regex_ok (fchain_fun_path0 s l fs) fs _ ([INode (first_node cfg s)] ++ map (fun x => INode (fnode_of cfg parse_float x)) l)
                [TAct 2; TAct 0] c2 b2 Hkn (skipn_next _ _ _ _ Hsk)) as (cps' & b' & E).
    rewrite E. clear E. cbn [app Actions.execute].
    change (exec_action 2 cps' b' ?st) with (abind (set_node_chain st) update_root_vg).
    assert (Hk : plain_kind (step_kind s)) by (apply step_kind_plain).
    assert (Hpl : Forall (fun kb : kind * basic => plain_kind (fst kb)) (fpres_f l ++ fpres_u fs))
      by (apply Forall_app; split; [apply FiltChain.fpres_plain|apply FunParse.fpres_plain]).
    assert (Hchain : set_node_chain (mk (INode (first_node cfg s) :: map (fun x => INode (fnode_of cfg parse_float x)) l ++ map (fun f : list N => INode (fnode cfg f)) fs)) =
                     AOk (mk [INode (Node (step_kind s) (rec_inner_basic cfg s) (link (fpres_f l ++ fpres_u fs)))])).
    { unfold set_node_chain, mk. cbn [params].
      assert (F : fold_left chain_step (map (fun x => INode (fnode_of cfg parse_float x)) l ++ map (fun f : list N => INode (fnode cfg f)) fs)
                    (AOk (Node (step_kind s) (rec_inner_basic cfg s) (link []))) =
                  AOk (Node (step_kind s) (rec_inner_basic cfg s) (link (fpres_f l ++ fpres_u fs)))).
      { rewrite fold_left_app.
        pose proof (chain_fold_f cfg parse_float (step_kind s) (rec_inner_basic cfg s) l Hk [] (Forall_nil _)) as F1. cbn [app] in F1. rewrite F1.
        apply (chain_fold_funs cfg (step_kind s) (rec_inner_basic cfg s) fs Hk _ (FiltChain.fpres_plain cfg parse_float l)). }
      destruct (map (fun x => INode (fnode_of cfg parse_float x)) l ++ map (fun f : list N => INode (fnode cfg f)) fs) as [|i0 rest] eqn:Em.
      - cbn [fold_left link] in F. injection F as F'. rewrite <- F'. reflexivity.
      - unfold first_node. cbn [link] in F. rewrite F. reflexivity. }
    rewrite Hchain. cbn [abind]. unfold update_root_vg, mk. cbn [params with_params saved proot abind].
    unfold with_params. cbn [params saved proot].
    change (exec_action 0 cps' b' ?st) with
      (abind (pop_node st) (fun '(rt, st1) => AOk {| params := params st1; saved := saved st1; proot := Some (set_ctext_deep (delete_root rt) "") |})).
    unfold pop_node, pop. cbn [params rev app abind with_params saved proot].
    assert (Ev : delete_root (update_vg (Node (step_kind s) (rec_inner_basic cfg s) (link (fpres_f l ++ fpres_u fs)))) =
                 Node (step_kind s) (set_vgroup (any_vg ((step_kind s, rec_inner_basic cfg s) :: fpres_f l ++ fpres_u fs)) (rec_inner_basic cfg s)) (link (fpres_f l ++ fpres_u fs))).
    { unfold update_vg. cbn [chain_vg]. rewrite link_vg. cbn [any_vg existsb snd]. fold (any_vg (fpres_f l ++ fpres_u fs)).
      destruct (vgroup (rec_inner_basic cfg s) || any_vg (fpres_f l ++ fpres_u fs)) eqn:Ea.
      - cbn [set_node_vg]. destruct s as [q k|k|ds|[|]|a b c0|u us]; reflexivity.
      - apply orb_false_iff in Ea. destruct Ea as [Ea _]. pose proof (set_vgroup_same (rec_inner_basic cfg s)) as Hsame. rewrite Ea in Hsame. rewrite Hsame.
        destruct s as [q k|k|ds|[|]|a b c0|u us]; reflexivity. }
    rewrite Ev. rewrite (set_ctext_link _ _ (fpres_f l ++ fpres_u fs) Hk Hpl). reflexivity.
  Qed.
End NoDollarFunExec.

Section NoDollarFunAddr.
  Variable cfg : config.
  Variable parse_float : string -> option num.
  Variable regex_ok : string -> bool.
  Variable ffun : string -> value -> option value.
  Variable afun : string -> list value -> option value.
  Variable regex_match : string -> string -> bool.
  Hypothesis ffun_small : forall f v w, small v -> ffun f v = Some w -> small w.
  Hypothesis afun_small : forall f l w, Forall small l -> afun f l = Some w -> small w.
  Notation parse := (parse_with cfg parse_float regex_ok jsonpath_grammar).
  Notation eval_run := (eval_run ffun afun regex_match).
  Notation nav_allf := (nav_allf parse_float regex_match).
  Notation fpres_f := (FiltChain.fpres cfg parse_float).
  Notation fpres_u := (FunParse.fpres cfg).

  Lemma fchain_fun_node0_seg s l fs : exists b2,
    fchain_fun_node0 cfg parse_float s l fs = FiltChainAddr.fseg cfg parse_float (FS (RPlain s)) b2 b2 (fin (fpres_f l ++ fpres_u fs)) /\ accessor b2 = cfg_accessor cfg.
  Proof.
    unfold fchain_fun_node0. cbn [FiltChainAddr.fseg seg]. eexists. split; [reflexivity|]. destruct s as [q k|k|ds|[|]|a b c0|u us]; reflexivity.
  Qed.

  Lemma spec_fchain_funs0 s l f fs doc : step_ok s = true -> forallb fstep_ok l = true -> small doc ->
    spec_results ffun afun regex_match (fchain_fun_node0 cfg parse_float s l (f :: fs)) doc =
    funs_all cfg ffun (f :: fs) (nav_allf doc (FS (RPlain s) :: l) ([], doc)).
  Proof.
    intros Hs Hl Hsm. destruct (fchain_fun_node0_seg s l (f :: fs)) as (b2 & En & Hb).
    assert (Hall : forallb fstep_ok (FS (RPlain s) :: l) = true) by (cbn [forallb fstep_ok rstep_ok]; rewrite Hs, Hl; reflexivity).
    unfold spec_results. rewrite En.
    rewrite (sp_fchain_tail cfg parse_float ffun afun regex_match (fpres_u (f :: fs)) ltac:(discriminate) l (FS (RPlain s)) b2 b2 Hall) by exact Hsm.
    destruct (fin_fpres cfg f fs) as (c & Ef & Hc). destruct (sp_funs cfg ffun afun regex_match fs f c Hc) as (B & HB & Hsp).
    unfold funs_all. rewrite map_flat_map'. apply flat_map_ext'. intros [p z]. rewrite Ef, Hsp. cbn [fst snd].
    destruct (apply_funs ffun (f :: fs) z) as [w|]; [|reflexivity]. cbn [map wrap fst snd]. rewrite HB. unfold fun_result. destruct (cfg_accessor cfg); reflexivity.
  Qed.

  Theorem fchain_fun_retrieval0 s l f fs doc st : step_ok s = true -> forallb fstep_ok l = true -> forallb (fstep_okp parse_float regex_ok) l = true ->
    forallb fname_ok (f :: fs) = true -> forallb (fun_known cfg) (f :: fs) = true -> small doc -> ok st ->
    exists t, parse (fchain_fun_path0 s l (f :: fs)) = ParseOk t /\
              match funs_all cfg ffun (f :: fs) (nav_allf doc (FS (RPlain s) :: l) ([], doc)) with
              | [] => exists e, fst (eval_run t doc st) = OErr e
              | r => fst (eval_run t doc st) = OOk r
              end.
  Proof.
    intros Hs Hl Hokp Hf Hk Hd Hok. exists (fchain_fun_node0 cfg parse_float s l (f :: fs)).
    pose proof (parse_fchain_fun_path0 cfg parse_float regex_ok s l (f :: fs) Hs Hl Hokp Hf Hk) as Hp. split; [exact Hp|].
    pose proof (retrieve_end_to_end cfg parse_float regex_ok ffun afun regex_match ffun_small afun_small (fchain_fun_path0 s l (f :: fs)) doc st Hd Hok) as H.
    rewrite Hp in H. rewrite (spec_fchain_funs0 s l f fs doc Hs Hl Hd) in H.
    destruct (funs_all cfg ffun (f :: fs) (nav_allf doc (FS (RPlain s) :: l) ([], doc))) as [|a r] eqn:En.
    - destruct (fst (eval_run (fchain_fun_node0 cfg parse_float s l (f :: fs)) doc st)) as [rs|e|pn].
      + destruct H as [H1 [H2 _]]. contradiction (H2 H1).
      + exists e. reflexivity.
      + contradiction.
    - destruct (fst (eval_run (fchain_fun_node0 cfg parse_float s l (f :: fs)) doc st)) as [rs|e|pn].
      + destruct H as [H _]. rewrite H. reflexivity.
      + destruct H as [H _]. discriminate.
      + contradiction.
  Qed.

  (* with and without the leading $ : the same results, or both fail *)
  Theorem dollar_optional_fun s l f fs doc st : step_ok s = true -> forallb fstep_ok l = true -> forallb (fstep_okp parse_float regex_ok) l = true ->
    forallb fname_ok (f :: fs) = true -> forallb (fun_known cfg) (f :: fs) = true -> small doc -> ok st ->
    exists t1 t0, parse (fchain_fun_path (FS (RPlain s) :: l) (f :: fs)) = ParseOk t1 /\ parse (fchain_fun_path0 s l (f :: fs)) = ParseOk t0 /\
      match fst (eval_run t1 doc st) with
      | OOk rs => fst (eval_run t0 doc st) = OOk rs
      | OErr _ => exists e, fst (eval_run t0 doc st) = OErr e
      | OPanic _ => False
      end.
  Proof.
    intros Hs Hl Hokp Hf Hk Hd Hok.
    assert (Hall : forallb fstep_ok (FS (RPlain s) :: l) = true) by (cbn [forallb fstep_ok rstep_ok]; rewrite Hs, Hl; reflexivity).
    assert (Hallp : forallb (fstep_okp parse_float regex_ok) (FS (RPlain s) :: l) = true) by (cbn [forallb fstep_okp]; exact Hokp).
    destruct (fchain_fun_retrieval cfg parse_float regex_ok ffun afun regex_match ffun_small afun_small (FS (RPlain s)) l f fs doc st Hall Hallp Hf Hk Hd Hok) as (t1 & P1 & H1).
    destruct (fchain_fun_retrieval0 s l f fs doc st Hs Hl Hokp Hf Hk Hd Hok) as (t0 & P0 & H0).
    exists t1, t0. split; [exact P1|]. split; [exact P0|].
    destruct (funs_all cfg ffun (f :: fs) (nav_allf doc (FS (RPlain s) :: l) ([], doc))) as [|a r].
    - destruct H1 as [e1 E1]. rewrite E1. exact H0.
    - rewrite H1. exact H0.
  Qed.
End NoDollarFunAddr.

(* ---------- the calls ---------- *)
From JP Require Import CallDefs SpecCalls SpecCallsCompose StackRules.
Section NoDollarFunCalls.
  Variable cfg : config.
  Variable parse_float : string -> option num.
  Variable regex_ok : string -> bool.
  Variable ffun : string -> value -> option value.
  Variable afun : string -> list value -> option value.
  Variable regex_match : string -> string -> bool.
  Hypothesis ffun_small : forall f v w, small v -> ffun f v = Some w -> small w.
  Hypothesis afun_small : forall f l w, Forall small l -> afun f l = Some w -> small w.
  Notation parse := (parse_with cfg parse_float regex_ok jsonpath_grammar).
  Notation eval_run := (eval_run ffun afun regex_match).
  Notation sc := (sc ffun afun regex_match).
  Notation nav_allf := (nav_allf parse_float regex_match).
  Notation fpres_f := (FiltChain.fpres cfg parse_float).
  Notation fpres_u := (FunParse.fpres cfg).

  Lemma sc_fchain_funs0 s l f fs doc : step_ok s = true -> forallb fstep_ok l = true -> forallb (fstep_okp parse_float regex_ok) l = true -> small doc ->
    sc (fchain_fun_node0 cfg parse_float s l (f :: fs)) doc (Some [], doc) = calls_all ffun (f :: fs) (nav_allf doc (FS (RPlain s) :: l) ([], doc)).
  Proof.
    intros Hs Hl Hp Hsm. destruct (fchain_fun_node0_seg cfg parse_float s l (f :: fs)) as (b2 & En & Hb).
    assert (Hall : forallb fstep_ok (FS (RPlain s) :: l) = true) by (cbn [forallb fstep_ok rstep_ok]; rewrite Hs, Hl; reflexivity).
    assert (Hallp : forallb (fstep_okp parse_float regex_ok) (FS (RPlain s) :: l) = true) by (cbn [forallb fstep_okp]; exact Hp).
    rewrite En, (sc_fchain_tail cfg parse_float regex_ok ffun afun regex_match (fpres_u (f :: fs)) ltac:(discriminate) l (FS (RPlain s)) b2 b2 Hall Hallp) by exact Hsm.
    destruct (fin_fpres cfg f fs) as (c & Ef & Hc). unfold calls_all. apply flat_map_ext'. intros [p z]. rewrite Ef, (sc_funs cfg ffun afun regex_match). reflexivity.
  Qed.

  Lemma fchain_fun_node0_fcf s l fs : forallb fstep_ok l = true -> filters_call_free (fchain_fun_node0 cfg parse_float s l fs) = true.
  Proof.
    intros Hs. unfold fchain_fun_node0.
    assert (H : Forall (fun kb : kind * basic => cfkind (fst kb)) (fpres_f l ++ fpres_u fs)).
    { apply Forall_app. split.
      - unfold FiltChain.fpres. induction l as [|y l IH]; [constructor|].
        cbn [forallb] in Hs. apply andb_true_iff in Hs. destruct Hs as [H1 H2]. cbn [flat_map]. apply Forall_app. split; [apply fpre_cfk; exact H1|apply IH; exact H2].
      - induction fs as [|f0 fs IH]; constructor; [exact I|exact IH]. }
    cbn [filters_call_free]. rewrite (fin_cfk _ H). destruct s as [q k|k|ds|[|]|a b c0|u us]; reflexivity.
  Qed.

  (* the call log: for each value the steps and filters reach, in the order they reach them, f on it, then the next function on
     what f returned, until one fails — and nothing else *)
  Theorem fchain_fun_calls0 s l f fs doc st : step_ok s = true -> forallb fstep_ok l = true -> forallb (fstep_okp parse_float regex_ok) l = true ->
    forallb fname_ok (f :: fs) = true -> forallb (fun_known cfg) (f :: fs) = true -> small doc -> ok st ->
    exists t, parse (fchain_fun_path0 s l (f :: fs)) = ParseOk t /\
              calls (snd (eval_run t doc st)) = calls st ++ calls_all ffun (f :: fs) (nav_allf doc (FS (RPlain s) :: l) ([], doc)).
  Proof.
    intros Hs Hl Hokp Hf Hk Hd Hok. exists (fchain_fun_node0 cfg parse_float s l (f :: fs)).
    pose proof (parse_fchain_fun_path0 cfg parse_float regex_ok s l (f :: fs) Hs Hl Hokp Hf Hk) as Hp. split; [exact Hp|].
    rewrite (eval_call_log ffun afun regex_match ffun_small afun_small _ doc st (parse_builds_wf cfg parse_float regex_ok _ _ Hp) (fchain_fun_node0_fcf s l (f :: fs) Hl) Hd Hok).
    rewrite (sc_fchain_funs0 s l f fs doc Hs Hl Hokp Hd). reflexivity.
  Qed.
End NoDollarFunCalls.
