(* UnionParse.v — the union step [s1,s2,...] (each subscript an optionally signed index, a slice or the wildcard) through the
   regenerated grammar: union is index, then any number of (sep index {merge}), then not sep; index is slice / number / star. *)
From JP Require Import Peg Grammar Text Tree Actions PegFacts PegMono PegEv FuelRules ParseFacts KeyDefs KeyParse IdxParse SliceParse.
From Coq Require Import Lia.
Local Open Scope N_scope.
Open Scope list_scope.

Definition usub_ok (u : usub) : bool :=
  match u with UIdx t => num_wf t | USlice a b c => slice_ok a b c | UWild => true end.
Definition sub_tokens (p : nat) (u : usub) : list token :=
  match u with
  | UIdx t => [TText p (p + List.length t); TAct 17; TAct 19]
  | USlice a b c => slice_tokens p a b c ++ [TAct 16; TAct 19]
  | UWild => [TAct 18; TAct 19]
  end.

(* indexNumber fails on anything that is neither a sign nor a digit *)
Lemma ev_rule27_no x rest pos : in_ranges x [(45, 45); (43, 43)] = false -> in_ranges x [(48, 57)] = false -> evG (PRef 27) (x :: rest) pos PFail.
Proof.
  intros H1 H2. eapply ev_ref; [reflexivity|].
  eapply ev_seq_fail2; [apply ev_opt_none; apply ev_cls_fail; rewrite H1; reflexivity|].
  apply ev_plus_fail. apply ev_cls_fail. rewrite H2. reflexivity.
Qed.

(* the slice alternative fails on a lone number and on the wildcard *)
Lemma ev_rule25_fail_num t x rest pos : num_wf t = true -> endc x -> evG (PRef 25) (t ++ x :: rest) pos PFail.
Proof.
  intros Ht Hx. eapply ev_ref; [reflexivity|].
  assert (Hb : bound_wf t = true) by (destruct t; [discriminate Ht|exact Ht]).
  eapply ev_seq_fail2; [apply (ev_rule26 t x rest pos Hb (endc_stopc x Hx))|].
  apply ev_seq_fail. apply ev_rule29_fail. exact Hx.
Qed.
Lemma ev_rule25_fail_wild rest pos : evG (PRef 25) (42 :: rest) pos PFail.
Proof.
  eapply ev_ref; [reflexivity|].
  eapply ev_seq_fail2.
  - eapply ev_ref; [reflexivity|]. eapply ev_seq_ok; [apply ev_cap; apply ev_opt_none; apply ev_rule27_no; reflexivity|apply ev_act|reflexivity].
  - apply ev_seq_fail. eapply ev_ref; [reflexivity|]. eapply ev_seq_fail2; [apply ev_space_stop; discriminate|].
    apply ev_seq_fail. apply (ev_lit_fail G [58]). apply strip1_no. discriminate.
Qed.

(* index: one subscript, then the end of the union or a comma *)
Lemma ev_rule24 u x rest pos : usub_ok u = true -> endc x ->
  evG (PRef 24) (render_sub u ++ x :: rest) pos (POk (x :: rest) (pos + List.length (render_sub u)) (sub_tokens pos u)).
Proof.
  intros Hu Hx. eapply ev_ref; [reflexivity|]. destruct u as [t|a b c|]; cbn [usub_ok render_sub sub_tokens] in *.
  - eapply ev_conv.
    + eapply ev_seq_ok; [|apply ev_act|reflexivity].
      apply ev_alt_r; [apply ev_seq_fail; apply ev_rule25_fail_num; assumption|].
      apply ev_alt_l. eapply ev_seq_ok; [apply ev_cap; apply (ev_rule27_num t x rest pos Hu (endc_stopc x Hx))|apply ev_act|reflexivity].
    + cbn [app]. reflexivity.
  - eapply ev_conv.
    + eapply ev_seq_ok; [|apply ev_act|reflexivity].
      apply ev_alt_l. eapply ev_seq_ok; [apply (ev_rule25 a b c x rest pos Hu Hx)|apply ev_act|reflexivity].
    + rewrite <- app_assoc. reflexivity.
  - cbn [app List.length]. eapply ev_conv.
    + eapply ev_seq_ok; [|apply ev_act|reflexivity].
      apply ev_alt_r; [apply ev_seq_fail; apply ev_rule25_fail_wild|].
      apply ev_alt_r; [apply ev_seq_fail; apply ev_cap_fail; apply ev_rule27_no; reflexivity|].
      eapply ev_seq_ok; [apply (ev_lit_ok G [42]); apply strip1_ok|apply ev_act|reflexivity].
    + cbn [app List.length]. f_equal.
Qed.

(* the first character of a subscript: never a blank *)
Lemma sub_head u rest : usub_ok u = true -> exists c r, render_sub u ++ rest = c :: r /\ c <> 32.
Proof.
  intros Hu. destruct u as [t|a b c|]; cbn [usub_ok render_sub] in *.
  - destruct t as [|c0 r0]; [discriminate Hu|]. exists c0, (r0 ++ rest). split; [reflexivity|exact (num_head (c0 :: r0) Hu)].
  - assert (Ha : bound_wf a = true) by (unfold slice_ok in Hu; apply andb_true_iff in Hu; destruct Hu as [H _]; apply andb_true_iff in H; tauto).
    unfold slice_body. destruct a as [|c0 r0].
    + cbn [app]. eexists _, _. split; [reflexivity|discriminate].
    + cbn [app]. eexists _, _. split; [reflexivity|]. exact (num_head (c0 :: r0) Ha).
  - cbn [app]. eexists _, _. split; [reflexivity|discriminate].
Qed.

(* sep: a comma (no blanks are written) *)
Lemma ev_rule28 c r pos : c <> 32 -> evG (PRef 28) (44 :: c :: r) pos (POk (c :: r) (S pos) []).
Proof.
  intros Hc. eapply ev_ref; [reflexivity|]. eapply ev_conv.
  - eapply ev_seq_ok; [apply ev_space_stop; discriminate| |reflexivity].
    eapply ev_seq_ok; [apply (ev_lit_ok G [44]); apply strip1_ok|apply ev_space_stop; exact Hc|reflexivity].
  - cbn [List.length app]. f_equal. lia.
Qed.

Fixpoint rest_tokens (p : nat) (us : list usub) : list token :=
  match us with
  | [] => []
  | v :: r => sub_tokens (p + 1) v ++ [TAct 15] ++ rest_tokens (p + 1 + List.length (render_sub v)) r
  end.
Definition rest_text (us : list usub) : list N := flat_map (fun v => 44 :: render_sub v) us.

(* the repetition of (sep index {merge}) up to the closing bracket *)
Lemma ev_union_star us rest pos : forallb usub_ok us = true ->
  evG (PStar (PSeq (PRef 28) (PSeq (PRef 24) (PAct 15)))) (rest_text us ++ 93 :: rest) pos
      (POk (93 :: rest) (pos + List.length (rest_text us)) (rest_tokens pos us)).
Proof.
  revert pos. induction us as [|v r IH]; intros pos Hs.
  - cbn [rest_text flat_map app List.length rest_tokens]. eapply ev_conv; [apply ev_star_stop|f_equal; lia].
    apply ev_seq_fail. apply ev_sep_fail; discriminate.
  - cbn [forallb] in Hs. apply andb_true_iff in Hs. destruct Hs as [Hv Hr].
    unfold rest_text in *. cbn [flat_map rest_tokens]. rewrite <- app_assoc. cbn [app].
    set (tail := flat_map (fun v0 => 44 :: render_sub v0) r ++ 93 :: rest).
    assert (Hx : exists x tl, tail = x :: tl /\ endc x).
    { unfold tail. destruct r as [|w r']; cbn [flat_map app]; eexists _, _; (split; [reflexivity|]); [left|right]; reflexivity. }
    destruct Hx as (x & tl & Etail & Hx).
    destruct (sub_head v tail Hv) as (c0 & r0 & Ehead & Hc0).
    assert (E1 : evG (PSeq (PRef 28) (PSeq (PRef 24) (PAct 15))) (44 :: render_sub v ++ tail) pos
                     (POk tail (pos + 1 + List.length (render_sub v)) (sub_tokens (pos + 1) v ++ [TAct 15]))).
    { eapply ev_conv.
      - eapply ev_seq_ok; [rewrite Ehead; apply ev_rule28; exact Hc0| |reflexivity]. rewrite <- Ehead.
        eapply ev_seq_ok; [rewrite Etail; apply (ev_rule24 v x tl _ Hv Hx)|apply ev_act|reflexivity].
      - cbn [app]. rewrite <- Etail. f_equal. lia. f_equal. replace (S pos) with (pos + 1)%nat by lia. reflexivity. }
    pose proof (ev_star_step G _ _ _ _ _ _ _ _ _ E1 ltac:(lia) (IH (pos + 1 + List.length (render_sub v))%nat Hr)) as E2.
    eapply ev_conv; [exact E2|]. f_equal.
    + cbn [List.length]. rewrite app_length. lia.
    + rewrite <- app_assoc. reflexivity.
Qed.

Definition union_tokens (p : nat) (u : usub) (us : list usub) : list token :=
  sub_tokens p u ++ rest_tokens (p + List.length (render_sub u)) us.
Lemma render_union_len u us : List.length (render_union u us) = (List.length (render_sub u) + List.length (rest_text us))%nat.
Proof. unfold render_union. rewrite app_length. reflexivity. Qed.

(* union *)
Lemma ev_rule23_union u us rest pos : usub_ok u = true -> forallb usub_ok us = true ->
  evG (PRef 23) (render_union u us ++ 93 :: rest) pos
      (POk (93 :: rest) (pos + List.length (render_union u us)) (union_tokens pos u us)).
Proof.
  intros Hu Hus. rewrite render_union_len. unfold render_union, union_tokens. eapply ev_ref; [reflexivity|]. rewrite <- app_assoc.
  assert (Hx : exists x tl, rest_text us ++ 93 :: rest = x :: tl /\ endc x).
  { unfold rest_text. destruct us as [|w r']; cbn [flat_map app]; eexists _, _; (split; [reflexivity|]); [left|right]; reflexivity. }
  destruct Hx as (x & tl & Etail & Hx). eapply ev_conv.
  - eapply ev_seq_ok; [fold (rest_text us); rewrite Etail; apply (ev_rule24 u x tl pos Hu Hx)| |reflexivity]. rewrite <- Etail.
    eapply ev_seq_ok; [apply (ev_union_star us rest _ Hus)| |reflexivity].
    apply ev_not_ok. apply ev_sep_fail; discriminate.
  - rewrite app_nil_r. f_equal. lia.
Qed.

Definition not_wild (u : usub) : bool := match u with UWild => false | _ => true end.
Definition union_ok (u : usub) (us : list usub) : bool := usub_ok u && not_wild u && forallb usub_ok us.

Lemma num_first c0 r0 : num_wf (c0 :: r0) = true -> c0 <> 32 /\ c0 <> 42 /\ c0 <> 39 /\ c0 <> 34.
Proof.
  cbn [num_wf]. destruct ((c0 =? 45) || (c0 =? 43)) eqn:Es; intros Hu.
  - apply orb_true_iff in Es. destruct Es as [E|E]; apply N.eqb_eq in E; subst c0; repeat split; discriminate.
  - cbn [forallb] in Hu. apply andb_true_iff in Hu. destruct Hu as [Hd _]. destruct (digit_bounds c0 Hd). repeat split; lia.
Qed.

(* the first character of a union whose first subscript is not the wildcard: a sign, a digit or the colon *)
Lemma union_head u us rest : usub_ok u = true -> not_wild u = true ->
  exists x r, render_union u us ++ 93 :: rest = x :: r /\ x <> 32 /\ x <> 42 /\ x <> 39 /\ x <> 34.
Proof.
  intros Hu Hw. unfold render_union. rewrite <- app_assoc. destruct u as [t|a b c|]; [| |discriminate Hw]; cbn [render_sub usub_ok] in *.
  - destruct t as [|c0 r0]; [discriminate Hu|]. cbn [app]. eexists _, _. split; [reflexivity|]. exact (num_first c0 r0 Hu).
  - assert (Ha : bound_wf a = true) by (unfold slice_ok in Hu; apply andb_true_iff in Hu; destruct Hu as [H _]; apply andb_true_iff in H; tauto).
    unfold slice_body. destruct a as [|c0 r0]; cbn [app].
    + eexists _, _. split; [reflexivity|]. repeat split; discriminate.
    + eexists _, _. split; [reflexivity|]. exact (num_first c0 r0 Ha).
Qed.

Definition union_step_tokens (p : nat) (u : usub) (us : list usub) : list token :=
  union_tokens (p + 1) u us ++ [TText p (p + List.length (render_union u us) + 2); TAct 7].

(* bracketNode on [ union ] *)
Lemma ev_rule10_union u us rest pos : union_ok u us = true ->
  evG (PRef 10) (91 :: render_union u us ++ 93 :: rest) pos
      (POk rest (pos + List.length (render_union u us) + 2)%nat (union_step_tokens pos u us)).
Proof.
  intros Hok. unfold union_ok in Hok. apply andb_true_iff in Hok. destruct Hok as [Hok Hus]. apply andb_true_iff in Hok. destruct Hok as [Hu Hw].
  destruct (union_head u us rest Hu Hw) as (x & r & Hx & H32 & H42 & H39 & H34).
  unfold union_step_tokens. eapply ev_conv.
  - eapply ev_ref; [reflexivity|].
    eapply ev_seq_ok; [apply ev_cap| apply ev_act |reflexivity].
    eapply ev_seq_ok; [| |reflexivity].
    + eapply ev_ref; [reflexivity|]. eapply ev_seq_ok; [apply (ev_lit_ok G [91]); apply strip1_ok| |reflexivity].
      rewrite Hx. apply ev_space_stop. exact H32.
    + eapply ev_seq_ok; [| |reflexivity].
      * apply ev_alt_r; [apply ev_rule15_fail_gen; assumption|]. rewrite <- Hx.
        eapply ev_ref; [reflexivity|]. apply ev_alt_l. apply (ev_rule23_union u us rest _ Hu Hus).
      * eapply ev_ref; [reflexivity|]. eapply ev_seq_ok; [apply ev_space_stop; discriminate| |reflexivity].
        apply (ev_lit_ok G [93]). apply strip1_ok.
  - set (L := List.length (render_union u us)). cbn [List.length app]. rewrite !app_nil_r.
    replace (pos + 1 + L + 1)%nat with (pos + L + 2)%nat by lia. rewrite <- app_assoc. reflexivity.
Qed.
Lemma ev_rule7_union u us rest pos : union_ok u us = true ->
  evG (PRef 7) (91 :: render_union u us ++ 93 :: rest) pos
      (POk rest (pos + List.length (render_union u us) + 2)%nat (union_step_tokens pos u us)).
Proof.
  intros Hok. eapply ev_ref; [reflexivity|].
  apply ev_alt_r; [apply ev_seq_fail; apply (ev_lit_fail G [46; 46]); apply strip2_no; discriminate|].
  apply ev_alt_r; [apply ev_seq_fail; apply ev_cap_fail; apply ev_seq_fail; apply (ev_lit_fail G [46]); apply strip1_no; discriminate|].
  apply ev_rule10_union. exact Hok.
Qed.
