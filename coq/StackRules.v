(* StackRules.v — the stack discipline of the regenerated grammar (C02): one summary per rule, checked by
   the verified checker of StackCheck.v (evaluated on Grammar.v as regenerated from jsonpath.peg);
   three rules whose effect is not a plain push (the start rule, continuedJsonpath with its node chain,
   jsonpathFilter with its save/load of the parameter list) are proved by hand in the same logic.
   Result: replaying the tokens of any successful match never reaches a crash site of the action model. *)
From JP Require Import Peg Grammar Text Tree Actions Eval WF AccDefs ErrSpec PegFacts ParseFacts ErrPos StackLogic TreeWf TreeText StackActs StackCheck.
From Coq Require Import Lia.
Open Scope list_scope.
Open Scope nat_scope.

Definition summaries : list summary := [
  (*  0 expression *) SNone;
  (*  1 END *) SPush CAny [];
  (*  2 jsonpath *) SPush CInit [TNodeT];
  (*  3 jsonpathParameter *) SPush CEmpty [TRootedH];
  (*  4 continuedJsonpath *) SChain;
  (*  5 rootNode *) SPush CInv [TNodeT];
  (*  6 parameterRootNode *) SPush CAny [TRooted];
  (*  7 childNode *) SPush CInv [TNodeT];
  (*  8 function *) SPush CAny [TFT];
  (*  9 functionName *) SPush CAny [TStr];
  (* 10 bracketNode *) SPush CInv [TFT];
  (* 11 rootIdentifier *) SPush CAny [TRooted];
  (* 12 currentRootIdentifier *) SPush CAny [TRooted];
  (* 13 dotChildIdentifier *) SPush CAny [TFIT];
  (* 14 signsWithoutHyphenUnderscore *) SPush CAny [];
  (* 15 bracketChildIdentifier *) SPush CAny [TFM];
  (* 16 bracketNodeIdentifier *) SPush CAny [TFI];
  (* 17 wildcardIdentifier *) SPush CAny [TFIT];
  (* 18 singleQuotedNodeIdentifier *) SPush CAny [TFI];
  (* 19 doubleQuotedNodeIdentifier *) SPush CAny [TFI];
  (* 20 hexDigits *) SPush CAny [];
  (* 21 hexDigit *) SPush CAny [];
  (* 22 qualifier *) SPush CInv [TF];
  (* 23 union *) SPush CAny [TUnion];
  (* 24 index *) SPush CAny [TUnion];
  (* 25 slice *) SPush CAny [TIdx; TIdx; TIdx];
  (* 26 anyIndex *) SPush CAny [TIdx];
  (* 27 indexNumber *) SPush CAny [];
  (* 28 sep *) SPush CAny [];
  (* 29 sepSlice *) SPush CAny [];
  (* 30 script *) SBot;
  (* 31 command *) SPush CAny [];
  (* 32 filter *) SPush CInv [TF];
  (* 33 query *) SPush CInv [TQuery];
  (* 34 andQuery *) SPush CInv [TQuery];
  (* 35 basicQuery *) SPush CInv [TQuery];
  (* 36 logicOr *) SPush CAny [];
  (* 37 logicAnd *) SPush CAny [];
  (* 38 logicNot *) SPush CAny [];
  (* 39 comparator *) SPush CInv [TQueryRaw];
  (* 40 qParam *) SPush CInv [TCP];
  (* 41 qNumericParam *) SPush CInv [TCP];
  (* 42 qLiteral *) SPush CAny [TLit];
  (* 43 singleJsonpathFilter *) SPush CInv [TCP];
  (* 44 jsonpathFilter *) SOperand;
  (* 45 lNumber *) SPush CAny [TLit];
  (* 46 lBool *) SPush CAny [TLit];
  (* 47 lString *) SPush CAny [TLit];
  (* 48 lNull *) SPush CAny [TLit];
  (* 49 regex *) SPush CAny [];
  (* 50 squareBracketStart *) SPush CAny [];
  (* 51 squareBracketEnd *) SPush CAny [];
  (* 52 scriptStart *) SPush CAny [];
  (* 53 scriptEnd *) SPush CAny [];
  (* 54 filterStart *) SPush CAny [];
  (* 55 filterEnd *) SPush CAny [];
  (* 56 subQueryStart *) SPush CAny [];
  (* 57 subQueryEnd *) SPush CAny [];
  (* 58 space *) SPush CAny []
].
Definition summary_of (r : nat) : summary := nth r summaries SNone.
Definition claimed (r : nat) : bool := existsb (Nat.eqb r) [3; 6; 11; 12; 44; 50].

Notation G := jsonpath_grammar.
Notation check := (check summary_of claimed).

Definition check_rule (r : nat) : bool :=
  match nth_error G r with
  | None => true
  | Some body =>
      match summary_of r with
      | SPush c tys =>
          if Nat.eqb r 43 then true
          else match check c body init_a with
               | Some res => leqr res (Some (mkA (rev tys) false))
               | None => false
               end
      | SBot => match check CAny body init_a with Some None => true | _ => false end
      | SChain => Nat.eqb r 4
      | SOperand => Nat.eqb r 44
      | SNone => true
      end
  end.

(* the regenerated grammar type-checks against the summaries *)
Lemma grammar_checks : forallb check_rule (seq 0 (List.length G)) = true.
Proof. vm_compute. reflexivity. Qed.

Lemma claimed_ok : forall r body, claimed r = true -> nth_error G r = Some body -> consumesb claimed body = true.
Proof.
  intros r body Hc Hn. unfold claimed in Hc. apply existsb_eqb_in in Hc.
  cbn [In] in Hc. destruct Hc as [<-|[<-|[<-|[<-|[<-|[<-|[]]]]]]]; vm_compute in Hn; inversion Hn; reflexivity.
Qed.

Section Rules.
  Variable cfg : config.
  Variable parse_float : string -> option num.
  Variable regex_ok : string -> bool.
  Notation exec_action := (exec_action cfg parse_float regex_ok).
  Notation tr := (tr cfg parse_float regex_ok G).
  Notation Rules := (Rules cfg parse_float regex_ok G summary_of).
  Notation Sem := (Sem cfg parse_float regex_ok G).
  Notation check_sound := (check_sound cfg parse_float regex_ok G summary_of claimed claimed_ok).

  Lemma at_Gam ps sv pr (z : sigma) : at_ (mk ps sv pr) z -> Gam ps sv pr init_a z.
  Proof.
    unfold at_. intros H. exists []. cbn [a_stk a_cap init_a rev]. rewrite app_nil_r.
    repeat split; [constructor|exact H|discriminate].
  Qed.

  (* rules the checker handles *)
  Lemma rule_step f r : Rules f -> r <> 4 -> r <> 43 -> r <> 44 -> check_rule r = true -> Sem (S f) r (summary_of r).
  Proof.
    intros HR N4 N43 N44 Hc. unfold check_rule in Hc.
    destruct (nth_error G r) as [body|] eqn:En.
    - destruct (summary_of r) as [c tys| | | |] eqn:Es; cbn [StackCheck.Sem].
      + apply Nat.eqb_neq in N43. rewrite N43 in Hc.
        destruct (check c body init_a) as [res|] eqn:Ec; [|discriminate].
        intros ps sv pr Hh. eapply tr_ref; [exact En|].
        eapply tr_conseq; [| |exact (check_sound f HR body c init_a res Ec ps sv pr Hh)].
        * intros z. apply at_Gam.
        * intros z. apply (Gres_leq _ _ _ res (Some (mkA (rev tys) false))). exact Hc.
      + apply Nat.eqb_eq in Hc. contradiction.
      + apply Nat.eqb_eq in Hc. contradiction.
      + destruct (check CAny body init_a) as [[res|]|] eqn:Ec; try discriminate.
        intros st0. eapply tr_ref; [exact En|].
        eapply tr_conseq; [| |exact (check_sound f HR body CAny init_a None Ec (params st0) (saved st0) (proot st0) I)].
        * intros z Hz. apply at_Gam. unfold at_ in *. rewrite Hz. destruct st0; reflexivity.
        * intros z Hz. exact Hz.
      + exact I.
    - destruct (summary_of r); cbn [StackCheck.Sem]; intros; try exact I; apply tr_ref_none; exact En.
  Qed.

  (* calling a summarised rule from a concrete base *)
  Lemma call_rule f e c0 res ps sv pr : Rules f -> check c0 e init_a = Some res -> holds c0 ps sv ->
    tr f e (at_ (mk ps sv pr)) (Gres ps sv pr res).
  Proof.
    intros HR Hc Hh. eapply tr_conseq; [| |exact (check_sound f HR e c0 init_a res Hc ps sv pr Hh)].
    - intros z. apply at_Gam.
    - intros z Hz. exact Hz.
  Qed.

  (* ---------- continuedJsonpath: the node chain ---------- *)
  Lemma nwf_split n : nwf n = true <-> wf_node n = true /\ vgc n = true /\ acc_clean n = true.
  Proof. unfold nwf. rewrite !andb_true_iff. tauto. Qed.

  Definition cnode (n : node) : Prop := nwf n = true /\ tlp true n = true.
  Lemma chain_fold : forall nodes root, cnode root -> Forall cnode nodes -> exists root',
    fold_left chain_step (map INode nodes) (AOk root) = AOk root' /\ rootedb root' = rootedb root /\ cnode root'.
  Proof.
    induction nodes as [|a nodes IH]; intros root [Hr Hrt] Hn; cbn [map fold_left].
    - exists root. split; [reflexivity|split; [reflexivity|split; assumption]].
    - inversion Hn as [|? ? [Ha Hat] Hrest]; subst.
      apply nwf_split in Hr. destruct Hr as (Hr1 & Hr2 & Hr3). pose proof Ha as Ha'. apply nwf_split in Ha'. destruct Ha' as (Ha1 & Ha2 & Ha3).
      assert (Happ : cnode (append_deep root a)).
      { split; [|apply tlp_append; [apply tlp_mono; exact Hrt|exact Hat]].
        apply nwf_split. split; [apply wf_append_deep; assumption|]. split; [apply vgc_append_deep; assumption|apply acc_clean_append_deep; assumption]. }
      destruct a as [k bb nx].
      destruct k; cbn [chain_step abind];
        try (destruct (IH _ Happ Hrest) as (r' & E & R & W); exists r'; split; [exact E|split; [rewrite R; apply rootedb_append_deep|exact W]]).
      (* an aggregate takes the chain so far as its parameter *)
      assert (Hagg : cnode (Node (KAgg f (clear_acc (update_vg root))) bb nx)).
      { split; [|rewrite tlp_eq in *; rewrite tlp_clear_acc, tlp_update_vg, (tlp_mono root Hrt); cbn [andb];
                 apply andb_true_iff in Hat; apply Hat].
        apply nwf_split. cbn [wf_node vgc single_kind orb acc_clean] in *. split; [|split].
        - apply andb_true_iff in Ha1. destruct Ha1 as [_ Hnx]. rewrite wf_clear_acc, wf_update_vg, Hr1. exact Hnx.
        - exact Ha2.
        - apply andb_true_iff in Ha3. destruct Ha3 as [_ Hnx]. rewrite all_false_clear_acc by (rewrite acc_clean_update_vg; exact Hr3). exact Hnx. }
      destruct (IH _ Hagg Hrest) as (r' & E & R & W). exists r'. split; [exact E|]. split; [|exact W].
      rewrite R. change (rootedb (clear_acc (update_vg root)) = rootedb root).
      rewrite rootedb_clear_acc. apply rootedb_update_vg.
  Qed.

  Definition chainJ (x : node) sv pr : asrt :=
    fun y => exists nodes, snd y = mk (INode x :: map INode nodes) sv pr /\ Forall cnode nodes.

  Lemma chain_call f e t x sv pr : Rules f -> check CInv e init_a = Some (Some (mkA [t] false)) ->
    subty t TNodeT = true ->
    tr f e (chainJ x sv pr) (chainJ x sv pr).
  Proof.
    intros HR Hc Hsub. apply tr_pre_ex. intros x0 (nodes & Hs & Hn).
    eapply tr_conseq; [| |exact (call_rule f e CInv _ (INode x :: map INode nodes) sv pr HR Hc ltac:(intros H; discriminate H))].
    - intros z ->. exact Hs.
    - intros z (vals & Ht & Hs1 & _). cbn [a_stk] in Ht.
      inversion Ht as [|v ? vs ? Hv Hvs]; subst. inversion Hvs; subst.
      apply (has_ty_sub v t TNodeT) in Hv; [|exact Hsub].
      destruct v; try discriminate Hv. exists (nodes ++ [n]). split.
      + rewrite Hs1. cbn [rev app]. rewrite map_app. reflexivity.
      + apply Forall_app. split; [exact Hn|]. constructor; [|constructor].
        cbn [has_ty] in Hv. apply andb_true_iff in Hv. exact Hv.
  Qed.

  Lemma rule4 f : Rules f -> Sem (S f) 4 SChain.
  Proof.
    intros HR x sv pr Hx Hxt. eapply tr_ref; [reflexivity|].
    eapply tr_seq with (R := chainJ x sv pr).
    { eapply tr_conseq; [| |apply tr_star with (J := chainJ x sv pr)].
      - intros z Hz. exists []. split; [exact Hz|constructor].
      - intros z Hz. exact Hz.
      - apply (chain_call f (PRef 7) TNodeT); [exact HR|reflexivity|reflexivity]. }
    eapply tr_seq with (R := chainJ x sv pr).
    { apply tr_star. apply (chain_call f (PRef 8) TFT); [exact HR|reflexivity|reflexivity]. }
    eapply tr_seq with (R := chainJ x sv pr).
    { apply tr_pre_ex. intros x0 (nodes & Hs & Hn).
      eapply tr_conseq; [| |exact (call_rule f (PRef 58) CAny (Some init_a) (INode x :: map INode nodes) sv pr HR eq_refl I)].
      - intros z ->. exact Hs.
      - intros z (vals & Ht & Hs1 & _). cbn [a_stk init_a] in Ht. inversion Ht; subst.
        exists nodes. split; [|exact Hn]. rewrite Hs1. cbn [rev]. rewrite app_nil_r. reflexivity. }
    apply tr_act. intros cps b st (nodes & Hs & Hn). cbn [snd] in Hs. subst st.
    cbn [Actions.exec_action]. unfold set_node_chain. cbn [params mk].
    assert (Hfin : forall r0, cnode r0 -> nwf (update_vg r0) = true /\ tlp true (update_vg r0) = true /\ hvg (update_vg r0) = true).
    { intros r0 [H0 H0t]. apply nwf_split in H0. destruct H0 as (H1 & H2 & H3). split; [|split; [rewrite tlp_update_vg; exact H0t|apply hvg_update_vg]].
      apply nwf_split. split; [rewrite wf_update_vg; exact H1|]. split; [apply vgc_update_vg; exact H2|rewrite acc_clean_update_vg; exact H3]. }
    destruct nodes as [|n1 ns].
    - cbn [map abind update_root_vg params wpa]. unfold update_root_vg. cbn [params wpa].
      exists (update_vg x). destruct (Hfin x (conj Hx Hxt)) as (F1 & F2 & F3). repeat split; try assumption.
      intros Hr. rewrite rootedb_update_vg. exact Hr.
    - change (INode n1 :: map INode ns) with (map INode (n1 :: ns)).
      destruct (chain_fold (n1 :: ns) x (conj Hx Hxt) Hn) as (root' & E & R & W).
      cbn [map] in *. rewrite E. cbn [abind]. unfold update_root_vg, with_params. cbn [params saved proot wpa].
      exists (update_vg root'). destruct (Hfin root' W) as (F1 & F2 & F3). repeat split; try assumption.
      intros Hr. rewrite rootedb_update_vg, R. exact Hr.
  Qed.

  (* ---------- jsonpathFilter: the parameter list is saved, the inner path parsed on an empty list, and
     the saved list restored under it ---------- *)
  Lemma operand_ok nd : nwf nd = true -> hvg nd = true ->
    pqwf (PqRoot (clear_acc (delete_root nd))) = true /\ pqwf (PqCur (clear_acc (delete_root nd))) = true.
  Proof.
    intros Hn Hh. apply nwf_split in Hn. destruct Hn as (H1 & H2 & H3).
    pose proof (all_false_clear_acc _ (acc_clean_delete_root nd H3)) as Haf.
    assert (H : nwf (clear_acc (delete_root nd)) && hvg (clear_acc (delete_root nd)) && all_false (clear_acc (delete_root nd)) = true).
    { apply andb_true_iff. split; [apply andb_true_iff; split|exact Haf].
      - apply nwf_split. split; [rewrite wf_clear_acc; apply wf_delete_root; exact H1|].
        split; [rewrite vgc_clear_acc; apply vgc_delete_root; exact H2|apply all_false_acc_clean; exact Haf].
      - rewrite hvg_clear_acc. apply hvg_delete_root. exact Hh. }
    split; exact H.
  Qed.

  Lemma rule44 f : Rules f -> Sem (S f) 44 SOperand.
  Proof.
    intros HR ps sv pr Hinv. cbn [holds] in Hinv. eapply tr_ref; [reflexivity|].
    eapply tr_seq with (R := at_ (save_params (mk ps sv pr))).
    { apply tr_act. intros cps b st Hs. unfold at_ in Hs. cbn [snd] in Hs. subst st.
      cbn [Actions.exec_action wpa]. reflexivity. }
    assert (Hfin : forall (cps : list N) (b : nat) n ps0 sv0,
              has_ty (INode n) TRootedH = true ->
              wpa (do (nd, st1) <- pop_node (mk (ps0 ++ rev [INode n]) sv0 pr);
                   match node_kind (innermost nd) with
                   | KRoot => AOk (push (IBool true) (push (IPQ (PqRoot (clear_acc (delete_root nd)))) st1))
                   | KCurrent => AOk (push (IBool false) (push (IPQ (PqCur (clear_acc (delete_root nd)))) st1))
                   | _ => AOk st1
                   end)
                  (fun st' => exists p b0, snd (cps, b, st') = mk (ps0 ++ [IPQ p; IBool b0]) sv0 pr /\ pq_ok p b0)).
    { intros cps b n ps0 sv0 Hv. cbn [has_ty] in Hv. apply andb_true_iff in Hv. destruct Hv as [Hv Hh].
      apply andb_true_iff in Hv. destruct Hv as [Hn Hroot]. unfold rootedb in Hroot.
      apply andb_true_iff in Hn. destruct Hn as [Hn _].
      destruct (operand_ok n Hn Hh) as [O1 O2].
      unfold pop_node. rewrite pop_G. cbn [abind].
      destruct (node_kind (innermost n)) eqn:Ek; try discriminate Hroot; cbn [wpa snd]; rewrite !push_G; cbn [rev app].
      - exists (PqRoot (clear_acc (delete_root n))), true. split; [reflexivity|]. split; [exact O1|reflexivity].
      - exists (PqCur (clear_acc (delete_root n))), false. split; [reflexivity|]. split; [exact O2|reflexivity]. }
    destruct ps as [|i ps'].
    - rewrite (Hinv eq_refl). change (save_params (mk [] [] pr)) with (mk [] [] pr).
      eapply tr_seq; [exact (call_rule f (PRef 3) CEmpty _ [] [] pr HR eq_refl eq_refl)|].
      apply tr_act. intros cps b st (vals & Ht & Hs & _). cbn [snd a_stk] in *. subst st.
      inversion Ht as [|v ? vs ? Hv Hvs]; subst. inversion Hvs; subst.
      destruct v; try discriminate Hv.
      cbn [Actions.exec_action]. change (load_params (mk ([] ++ rev [INode n]) [] pr)) with (mk ([] ++ rev [INode n]) [] pr).
      apply (Hfin cps b); exact Hv.
    - change (save_params (mk (i :: ps') sv pr)) with (mk [] (sv ++ [i :: ps']) pr).
      eapply tr_seq; [exact (call_rule f (PRef 3) CEmpty _ [] (sv ++ [i :: ps']) pr HR eq_refl eq_refl)|].
      apply tr_act. intros cps b st (vals & Ht & Hs & _). cbn [snd a_stk] in *. subst st.
      inversion Ht as [|v ? vs ? Hv Hvs]; subst. inversion Hvs; subst.
      destruct v; try discriminate Hv.
      cbn [Actions.exec_action].
      assert (Hl : load_params (mk ([] ++ rev [INode n]) (sv ++ [i :: ps']) pr) = mk ((i :: ps') ++ rev [INode n]) sv pr).
      { unfold load_params, mk. cbn [saved params proot]. rewrite rev_app_distr. cbn [rev app]. rewrite rev_involutive. reflexivity. }
      rewrite Hl. apply (Hfin cps b); exact Hv.
  Qed.

  (* ---------- singleJsonpathFilter: the operand of a comparison must be single-valued ---------- *)
  Lemma single_of_head n : nwf n = true -> hvg n = true -> vgroup (node_basic n) = false -> single_chain n = true.
  Proof.
    intros Hn Hh Hv. apply nwf_split in Hn. destruct Hn as (_ & Hvgc & _). apply vgc_single; [exact Hvgc|].
    unfold hvg in Hh. rewrite Hv in Hh. destruct (chain_vg n); [discriminate|reflexivity].
  Qed.

  Lemma rule43 f : Rules f -> Sem (S f) 43 (SPush CInv [TCP]).
  Proof.
    intros HR ps sv pr Hinv. eapply tr_ref; [reflexivity|].
    pose proof (HR 44) as H44. change (summary_of 44) with SOperand in H44. cbn [StackCheck.Sem] in H44.
    eapply tr_seq with (R := fun y => exists p b, snd y = mk (ps ++ [IPQ p; IBool b]) sv pr /\ pq_ok p b).
    { eapply tr_cap with (ne := false) (Q' := fun y => exists p b, snd y = mk (ps ++ [IPQ p; IBool b]) sv pr /\ pq_ok p b).
      - exact (H44 ps sv pr Hinv).
      - discriminate.
      - intros cps0 b0 st' cps' b' H _. exact H. }
    apply tr_act. intros cps b st (p & b0 & Hs & Hp & Hb). cbn [snd] in Hs. subst st.
    cbn [Actions.exec_action].
    change (ps ++ [IPQ p; IBool b0]) with (ps ++ rev [IBool b0; IPQ p]). rewrite pop_G. cbn [abind]. rewrite pop_G. cbn [abind].
    unfold pqwf in Hp.
    assert (Hdone : forall (q : pquery) (lit : bool) n, nwf n = true -> hvg n = true ->
              node_basic n = node_basic n -> cpwf (CP q lit) = true ->
              Gam ps sv pr (mkA (rev [TCP]) false) (cps, b, mk (ps ++ rev [ICParam (CP q lit)]) sv pr)).
    { intros q lit n _ _ _ Hq. exists [ICParam (CP q lit)]. cbn [a_stk a_cap rev app snd fst]. split; [|split; [reflexivity|discriminate]].
      constructor; [exact Hq|constructor]. }
    destruct p as [v|n|n]; [contradiction| |]; apply andb_true_iff in Hp; destruct Hp as [Hp Haf];
      apply andb_true_iff in Hp; destruct Hp as [Hn Hh]; subst b0.
    - destruct (vgroup (node_basic n)) eqn:Ev; [exact I|]. cbn [wpa]. rewrite push_G.
      apply (Hdone _ _ n Hn Hh eq_refl). cbn [cpwf negb andb].
      pose proof (single_of_head n Hn Hh Ev) as Hsc. apply nwf_split in Hn. destruct Hn as (Hw & _). rewrite Hw, Hsc, Haf. reflexivity.
    - destruct (vgroup (node_basic n)) eqn:Ev; [exact I|]. cbn [wpa]. rewrite push_G.
      apply (Hdone _ _ n Hn Hh eq_refl). cbn [cpwf negb andb].
      pose proof (single_of_head n Hn Hh Ev) as Hsc. apply nwf_split in Hn. destruct Hn as (Hw & _). rewrite Hw, Hsc, Haf. reflexivity.
  Qed.

  (* ---------- every rule, at every fuel ---------- *)
  Theorem rules_all : forall f, Rules f.
  Proof.
    induction f as [|f IH]; intros r.
    - destruct (summary_of r); cbn [StackCheck.Sem]; intros; try exact I; apply tr_0.
    - destruct (Nat.eq_dec r 4) as [->|N4]; [exact (rule4 f IH)|].
      destruct (Nat.eq_dec r 43) as [->|N43]; [exact (rule43 f IH)|].
      destruct (Nat.eq_dec r 44) as [->|N44]; [exact (rule44 f IH)|].
      apply rule_step; [exact IH|exact N4|exact N43|exact N44|].
      destruct (Nat.lt_ge_cases r (List.length G)) as [Hlt|Hge].
      + pose proof grammar_checks as Hg. rewrite forallb_forall in Hg. apply Hg. apply in_seq. lia.
      + unfold check_rule. assert (En : nth_error G r = None) by (apply nth_error_None; exact Hge). rewrite En. reflexivity.
  Qed.

  (* ---------- the start rule ---------- *)
  Lemma rule0 f : tr (S f) (PRef 0) (at_ ps_init) (fun y => exists t, proot (snd y) = Some t /\ wf_node t = true /\ acc_clean t = true /\ ctext_ok t = true).
  Proof.
    pose proof (rules_all f) as HR. eapply tr_ref; [reflexivity|]. apply tr_alt.
    - (* jsonpath END {0} *)
      eapply tr_seq; [exact (call_rule f (PRef 2) CInit _ [] [] None HR eq_refl (conj eq_refl eq_refl))|].
      eapply tr_seq; [exact (check_sound f HR (PRef 1) CInit (mkA [TNodeT] false) _ eq_refl [] [] None (conj eq_refl eq_refl))|].
      apply tr_act. intros cps b st (vals & Ht & Hs & _). cbn [snd a_stk] in *. subst st.
      inversion Ht as [|v ? vs ? Hv Hvs]; subst. inversion Hvs; subst. destruct v; try discriminate Hv.
      cbn [Actions.exec_action]. unfold pop_node. rewrite pop_G. cbn [abind wpa proot snd].
      eexists. split; [reflexivity|]. cbn [has_ty] in Hv. apply andb_true_iff in Hv. destruct Hv as [Hv Htl].
      apply nwf_split in Hv. destruct Hv as (Hw & _ & Hacc).
      split; [rewrite wf_set_ctext_deep; apply wf_delete_root; exact Hw|].
      split; [rewrite acc_clean_set_ctext_deep; apply acc_clean_delete_root; exact Hacc|].
      apply (ctext_ok_set true (delete_root n) ""); [apply tlp_delete_root; exact Htl|discriminate].
    - (* the catch-all alternative always ends in action 1 *)
      eapply tr_seq with (R := fun _ => True).
      { apply tr_opt; [|trivial].
        eapply tr_conseq; [| |exact (call_rule f (PRef 2) CInit _ [] [] None HR eq_refl (conj eq_refl eq_refl))]; [intros z Hz; exact Hz|trivial]. }
      eapply tr_seq with (R := fun _ => True).
      { eapply tr_cap with (ne := false) (Q' := fun _ => True); [|discriminate|trivial].
        apply tr_star. apply tr_notok; [reflexivity|trivial]. }
      eapply tr_seq with (R := fun _ => True).
      { apply tr_pre_ex. intros x0 _.
        eapply tr_conseq; [| |exact (call_rule f (PRef 1) CAny _ (params (snd x0)) (saved (snd x0)) (proot (snd x0)) HR eq_refl I)].
        - intros z ->. unfold at_. destruct (snd x0); reflexivity.
        - trivial. }
      apply tr_act. intros cps b st _. cbn [Actions.exec_action wpa]. exact I.
  Qed.

  (* Parse never reaches a crash site of the action model: the only `crash` outcome left is the
     interpreter's own fuel bound (excluded in FuelRules.v) *)
  Theorem parse_never_crashes input s :
    parse_with cfg parse_float regex_ok G input = ParseCrash s -> peg_parse G input = PFuel.
  Proof.
    unfold parse_with, parse_from, peg_parse. generalize (parse_fuel input). intros fuel.
    destruct (run G fuel (PRef 0) input 0) as [| |rest pos toks] eqn:Er.
    - exfalso. exact (expression_total _ _ _ Er).
    - reflexivity.
    - rewrite execute_xrun.
      destruct fuel as [|f]; [discriminate|].
      pose proof (rule0 f (S f) (le_n _) _ _ _ _ _ Er input [] 0 ps_init (le_n _) eq_refl) as Hw.
      destruct (xrun cfg parse_float regex_ok toks input [] 0 ps_init) as [x|err|site]; cbn [abind wp] in *.
      + destruct Hw as (t & Ht & _). rewrite Ht. discriminate.
      + discriminate.
      + contradiction.
  Qed.

  (* every tree Parse returns is well formed: the evaluator theorems apply to it *)
  Theorem parse_builds_wf_acc input t :
    parse_with cfg parse_float regex_ok G input = ParseOk t -> wf_node t = true /\ acc_clean t = true /\ ctext_ok t = true.
  Proof.
    unfold parse_with, parse_from, peg_parse. generalize (parse_fuel input). intros fuel.
    destruct (run G fuel (PRef 0) input 0) as [| |rest pos toks] eqn:Er; try discriminate.
    rewrite execute_xrun.
    destruct fuel as [|f]; [discriminate|].
    pose proof (rule0 f (S f) (le_n _) _ _ _ _ _ Er input [] 0 ps_init (le_n _) eq_refl) as Hw.
    destruct (xrun cfg parse_float regex_ok toks input [] 0 ps_init) as [x|err|site]; cbn [abind wp] in *; try discriminate.
    destruct Hw as (t' & Ht & Hwf). rewrite Ht. intros H. inversion H; subst. exact Hwf.
  Qed.

  (* every tree Parse returns is well formed: the evaluator theorems apply to it *)
  Theorem parse_builds_wf input t :
    parse_with cfg parse_float regex_ok G input = ParseOk t -> wf_node t = true.
  Proof. intros H. exact (proj1 (parse_builds_wf_acc input t H)). Qed.
  (* ... and function parameters and filter operands carry no accessor flag (hypothesis of C12) *)
  Theorem parse_builds_acc_clean input t :
    parse_with cfg parse_float regex_ok G input = ParseOk t -> acc_clean t = true.
  Proof. intros H. exact (proj1 (proj2 (parse_builds_wf_acc input t H))). Qed.
  (* ... and every node that can report an error carries a non-empty remaining-path text (hypothesis of C15) *)
  Theorem parse_builds_ctext_ok input t :
    parse_with cfg parse_float regex_ok G input = ParseOk t -> ctext_ok t = true.
  Proof. intros H. exact (proj2 (proj2 (parse_builds_wf_acc input t H))). Qed.
End Rules.
