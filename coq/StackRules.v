(* StackRules.v — the stack discipline of the regenerated grammar (C02): one summary per rule, checked by
   the verified checker of StackCheck.v (evaluated on Grammar.v as regenerated from jsonpath.peg);
   three rules whose effect is not a plain push (the start rule, continuedJsonpath with its node chain,
   jsonpathFilter with its save/load of the parameter list) are proved by hand in the same logic.
   Result: replaying the tokens of any successful match never reaches a crash site of the action model. *)
From JP Require Import Peg Grammar Text Tree Actions PegFacts ParseFacts ErrPos StackLogic StackActs StackCheck.
From Coq Require Import Lia.
Open Scope list_scope.

Definition summaries : list summary := [
  (*  0 expression *) SNone;
  (*  1 END *) SPush CAny [];
  (*  2 jsonpath *) SPush CInit [TNode];
  (*  3 jsonpathParameter *) SPush CEmpty [TRooted];
  (*  4 continuedJsonpath *) SChain;
  (*  5 rootNode *) SPush CInv [TNode];
  (*  6 parameterRootNode *) SPush CAny [TRooted];
  (*  7 childNode *) SPush CInv [TNode];
  (*  8 function *) SPush CAny [TNode];
  (*  9 functionName *) SPush CAny [TStr];
  (* 10 bracketNode *) SPush CInv [TNode];
  (* 11 rootIdentifier *) SPush CAny [TRooted];
  (* 12 currentRootIdentifier *) SPush CAny [TRooted];
  (* 13 dotChildIdentifier *) SPush CAny [TNode];
  (* 14 signsWithoutHyphenUnderscore *) SPush CAny [];
  (* 15 bracketChildIdentifier *) SPush CAny [TNode];
  (* 16 bracketNodeIdentifier *) SPush CAny [TNode];
  (* 17 wildcardIdentifier *) SPush CAny [TNode];
  (* 18 singleQuotedNodeIdentifier *) SPush CAny [TNode];
  (* 19 doubleQuotedNodeIdentifier *) SPush CAny [TNode];
  (* 20 hexDigits *) SPush CAny [];
  (* 21 hexDigit *) SPush CAny [];
  (* 22 qualifier *) SPush CInv [TNode];
  (* 23 union *) SPush CAny [TUnion];
  (* 24 index *) SPush CAny [TUnion];
  (* 25 slice *) SPush CAny [TIdx; TIdx; TIdx];
  (* 26 anyIndex *) SPush CAny [TIdx];
  (* 27 indexNumber *) SPush CAny [];
  (* 28 sep *) SPush CAny [];
  (* 29 sepSlice *) SPush CAny [];
  (* 30 script *) SBot;
  (* 31 command *) SPush CAny [];
  (* 32 filter *) SPush CInv [TNode];
  (* 33 query *) SPush CInv [TQuery];
  (* 34 andQuery *) SPush CInv [TQuery];
  (* 35 basicQuery *) SPush CInv [TQuery];
  (* 36 logicOr *) SPush CAny [];
  (* 37 logicAnd *) SPush CAny [];
  (* 38 logicNot *) SPush CAny [];
  (* 39 comparator *) SPush CInv [TQuery];
  (* 40 qParam *) SPush CInv [TCP];
  (* 41 qNumericParam *) SPush CInv [TCP];
  (* 42 qLiteral *) SPush CAny [TLit];
  (* 43 singleJsonpathFilter *) SPush CInv [TCP];
  (* 44 jsonpathFilter *) SPush CInv [TPQ; TBool];
  (* 45 lNumber *) SPush CAny [TLit];
  (* 46 lBool *) SPush CAny [TLit];
  (* 47 lString *) SPush CAny [TLit];
  (* 48 lNull *) SPush CAny [TLit];
  (* 49 regex *) SPush CAny [];
  (* 50 squareBracketStart *) SPush CAny [];
  (* 51 squareBracketEnd *) SPush CAny [];
  (* 52 scriptStart *) SPush CAny [];
  (* 53 scriptEnd *) SPush CAny [];
  (* 54 filterStart *) SPush CAny [];
  (* 55 filterEnd *) SPush CAny [];
  (* 56 subQueryStart *) SPush CAny [];
  (* 57 subQueryEnd *) SPush CAny [];
  (* 58 space *) SPush CAny []
].
Definition summary_of (r : nat) : summary := nth r summaries SNone.
Definition claimed (r : nat) : bool := existsb (Nat.eqb r) [3; 6; 11; 12; 44].

Notation G := jsonpath_grammar.
Notation check := (check summary_of claimed).

Definition check_rule (r : nat) : bool :=
  match nth_error G r with
  | None => true
  | Some body =>
      match summary_of r with
      | SPush c tys =>
          if Nat.eqb r 44 then true
          else match check c body init_a with
               | Some res => leqr res (Some (mkA (rev tys) false))
               | None => false
               end
      | SBot => match check CAny body init_a with Some None => true | _ => false end
      | SChain => Nat.eqb r 4
      | SNone => true
      end
  end.

(* the regenerated grammar type-checks against the summaries *)
Lemma grammar_checks : forallb check_rule (seq 0 (List.length G)) = true.
Proof. vm_compute. reflexivity. Qed.

Lemma claimed_ok : forall r body, claimed r = true -> nth_error G r = Some body -> consumesb claimed body = true.
Proof.
  intros r body Hc Hn. unfold claimed in Hc. apply existsb_eqb_in in Hc.
  cbn [In] in Hc. destruct Hc as [<-|[<-|[<-|[<-|[<-|[]]]]]]; vm_compute in Hn; inversion Hn; reflexivity.
Qed.

Section Rules.
  Variable cfg : config.
  Variable parse_float : string -> option num.
  Variable regex_ok : string -> bool.
  Notation exec_action := (exec_action cfg parse_float regex_ok).
  Notation tr := (tr cfg parse_float regex_ok G).
  Notation Rules := (Rules cfg parse_float regex_ok G summary_of).
  Notation Sem := (Sem cfg parse_float regex_ok G).
  Notation check_sound := (check_sound cfg parse_float regex_ok G summary_of claimed claimed_ok).

  Lemma at_Gam ps sv pr (z : sigma) : at_ (mk ps sv pr) z -> Gam ps sv pr init_a z.
  Proof.
    unfold at_. intros H. exists []. cbn [a_stk a_cap init_a rev]. rewrite app_nil_r.
    repeat split; [constructor|exact H|discriminate].
  Qed.

  (* rules the checker handles *)
  Lemma rule_step f r : Rules f -> r <> 4 -> r <> 44 -> check_rule r = true -> Sem (S f) r (summary_of r).
  Proof.
    intros HR N4 N44 Hc. unfold check_rule in Hc.
    destruct (nth_error G r) as [body|] eqn:En.
    - destruct (summary_of r) as [c tys| | |] eqn:Es; cbn [StackCheck.Sem].
      + apply Nat.eqb_neq in N44. rewrite N44 in Hc.
        destruct (check c body init_a) as [res|] eqn:Ec; [|discriminate].
        intros ps sv pr Hh. eapply tr_ref; [exact En|].
        eapply tr_conseq; [| |exact (check_sound f HR body c init_a res Ec ps sv pr Hh)].
        * intros z. apply at_Gam.
        * intros z. apply (Gres_leq _ _ _ res (Some (mkA (rev tys) false))). exact Hc.
      + apply Nat.eqb_eq in Hc. contradiction.
      + destruct (check CAny body init_a) as [[res|]|] eqn:Ec; try discriminate.
        intros st0. eapply tr_ref; [exact En|].
        eapply tr_conseq; [| |exact (check_sound f HR body CAny init_a None Ec (params st0) (saved st0) (proot st0) I)].
        * intros z Hz. apply at_Gam. unfold at_ in *. rewrite Hz. destruct st0; reflexivity.
        * intros z Hz. exact Hz.
      + exact I.
    - destruct (summary_of r); cbn [StackCheck.Sem]; intros; try exact I; apply tr_ref_none; exact En.
  Qed.

  (* calling a summarised rule from a concrete base *)
  Lemma call_rule f e c0 res ps sv pr : Rules f -> check c0 e init_a = Some res -> holds c0 ps sv ->
    tr f e (at_ (mk ps sv pr)) (Gres ps sv pr res).
  Proof.
    intros HR Hc Hh. eapply tr_conseq; [| |exact (check_sound f HR e c0 init_a res Hc ps sv pr Hh)].
    - intros z. apply at_Gam.
    - intros z Hz. exact Hz.
  Qed.

  (* ---------- continuedJsonpath: the node chain ---------- *)
  Lemma chain_fold : forall nodes root, exists root',
    fold_left chain_step (map INode nodes) (AOk root) = AOk root' /\ rootedb root' = rootedb root.
  Proof.
    induction nodes as [|a nodes IH]; intros root; cbn [map fold_left].
    - exists root. split; reflexivity.
    - destruct a as [k bb nx].
      destruct k; cbn [chain_step abind];
        match goal with
        | |- exists r, fold_left _ _ (AOk ?new) = _ /\ _ =>
            destruct (IH new) as (r' & E & R); exists r'; split; [exact E|rewrite R]
        end;
        try apply rootedb_append_deep.
      change (rootedb (clear_acc (update_vg root)) = rootedb root).
      rewrite rootedb_clear_acc. apply rootedb_update_vg.
  Qed.

  Definition chainJ (x : node) sv pr : asrt :=
    fun y => exists nodes, snd y = mk (INode x :: map INode nodes) sv pr.

  Lemma chain_call f e x sv pr : Rules f -> check CInv e init_a = Some (Some (mkA [TNode] false)) ->
    tr f e (chainJ x sv pr) (chainJ x sv pr).
  Proof.
    intros HR Hc. apply tr_pre_ex. intros x0 (nodes & Hs).
    eapply tr_conseq; [| |exact (call_rule f e CInv _ (INode x :: map INode nodes) sv pr HR Hc ltac:(intros H; discriminate H))].
    - intros z ->. exact Hs.
    - intros z (vals & Ht & Hs1 & _). cbn [a_stk] in Ht.
      inversion Ht as [|v ? vs ? Hv Hvs]; subst. inversion Hvs; subst.
      destruct v; try discriminate Hv. exists (nodes ++ [n]). rewrite Hs1. cbn [rev app]. rewrite map_app. reflexivity.
  Qed.

  Lemma rule4 f : Rules f -> Sem (S f) 4 SChain.
  Proof.
    intros HR x sv pr. eapply tr_ref; [reflexivity|].
    eapply tr_seq with (R := chainJ x sv pr).
    { eapply tr_conseq; [| |apply tr_star with (J := chainJ x sv pr)].
      - intros z Hz. exists []. exact Hz.
      - intros z Hz. exact Hz.
      - apply chain_call; [exact HR|reflexivity]. }
    eapply tr_seq with (R := chainJ x sv pr).
    { apply tr_star. apply chain_call; [exact HR|reflexivity]. }
    eapply tr_seq with (R := chainJ x sv pr).
    { apply tr_pre_ex. intros x0 (nodes & Hs).
      eapply tr_conseq; [| |exact (call_rule f (PRef 58) CAny (Some init_a) (INode x :: map INode nodes) sv pr HR eq_refl I)].
      - intros z ->. exact Hs.
      - intros z (vals & Ht & Hs1 & _). cbn [a_stk init_a] in Ht. inversion Ht; subst.
        exists nodes. rewrite Hs1. cbn [rev]. rewrite app_nil_r. reflexivity. }
    apply tr_act. intros cps b st (nodes & Hs). cbn [snd] in Hs. subst st.
    cbn [Actions.exec_action]. unfold set_node_chain. cbn [params mk].
    destruct nodes as [|n1 ns].
    - cbn [map abind update_root_vg params wpa]. unfold update_root_vg. cbn [params wpa].
      exists (update_vg x). split; [reflexivity|]. intros Hr. rewrite rootedb_update_vg. exact Hr.
    - change (INode n1 :: map INode ns) with (map INode (n1 :: ns)).
      destruct (chain_fold (n1 :: ns) x) as (root' & E & R).
      cbn [map] in *. rewrite E. cbn [abind]. unfold update_root_vg, with_params. cbn [params saved proot wpa].
      exists (update_vg root'). split; [reflexivity|]. intros Hr. rewrite rootedb_update_vg, R. exact Hr.
  Qed.
  (* ---------- jsonpathFilter: the parameter list is saved, the inner path parsed on an empty list, and
     the saved list restored under it ---------- *)
  Lemma rule44 f : Rules f -> Sem (S f) 44 (SPush CInv [TPQ; TBool]).
  Proof.
    intros HR ps sv pr Hinv. cbn [holds] in Hinv. eapply tr_ref; [reflexivity|].
    eapply tr_seq with (R := at_ (save_params (mk ps sv pr))).
    { apply tr_act. intros cps b st Hs. unfold at_ in Hs. cbn [snd] in Hs. subst st.
      cbn [Actions.exec_action wpa]. reflexivity. }
    destruct ps as [|i ps'].
    - (* nothing to save: by the invariant nothing was saved before either *)
      rewrite (Hinv eq_refl). change (save_params (mk [] [] pr)) with (mk [] [] pr).
      eapply tr_seq; [exact (call_rule f (PRef 3) CEmpty _ [] [] pr HR eq_refl eq_refl)|].
      apply tr_act. intros cps b st (vals & Ht & Hs & _). cbn [snd a_stk] in *. subst st.
      inversion Ht as [|v ? vs ? Hv Hvs]; subst. inversion Hvs; subst.
      destruct v; try discriminate Hv. cbn [has_ty] in Hv. unfold rootedb in Hv.
      cbn [Actions.exec_action]. change (load_params (mk ([] ++ rev [INode n]) [] pr)) with (mk ([] ++ rev [INode n]) [] pr).
      unfold pop_node. rewrite pop_G. cbn [abind].
      destruct (node_kind (innermost n)); try discriminate Hv; cbn [wpa]; rewrite !push_G; eexists; (split; [|split; [reflexivity|discriminate]]);
        repeat constructor.
    - change (save_params (mk (i :: ps') sv pr)) with (mk [] (sv ++ [i :: ps']) pr).
      eapply tr_seq; [exact (call_rule f (PRef 3) CEmpty _ [] (sv ++ [i :: ps']) pr HR eq_refl eq_refl)|].
      apply tr_act. intros cps b st (vals & Ht & Hs & _). cbn [snd a_stk] in *. subst st.
      inversion Ht as [|v ? vs ? Hv Hvs]; subst. inversion Hvs; subst.
      destruct v; try discriminate Hv. cbn [has_ty] in Hv. unfold rootedb in Hv.
      cbn [Actions.exec_action].
      assert (Hl : load_params (mk ([] ++ rev [INode n]) (sv ++ [i :: ps']) pr) = mk ((i :: ps') ++ rev [INode n]) sv pr).
      { unfold load_params, mk. cbn [saved params proot]. rewrite rev_app_distr. cbn [rev app]. rewrite rev_involutive. reflexivity. }
      rewrite Hl. unfold pop_node. rewrite pop_G. cbn [abind].
      destruct (node_kind (innermost n)); try discriminate Hv; cbn [wpa]; rewrite !push_G; eexists; (split; [|split; [reflexivity|discriminate]]);
        repeat constructor.
  Qed.

  (* ---------- every rule, at every fuel ---------- *)
  Theorem rules_all : forall f, Rules f.
  Proof.
    induction f as [|f IH]; intros r.
    - destruct (summary_of r); cbn [StackCheck.Sem]; intros; try exact I; apply tr_0.
    - destruct (Nat.eq_dec r 4) as [->|N4]; [exact (rule4 f IH)|].
      destruct (Nat.eq_dec r 44) as [->|N44]; [exact (rule44 f IH)|].
      apply rule_step; [exact IH|exact N4|exact N44|].
      destruct (Nat.lt_ge_cases r (List.length G)) as [Hlt|Hge].
      + pose proof grammar_checks as Hg. rewrite forallb_forall in Hg. apply Hg. apply in_seq. lia.
      + unfold check_rule. assert (En : nth_error G r = None) by (apply nth_error_None; exact Hge). rewrite En. reflexivity.
  Qed.

  (* ---------- the start rule ---------- *)
  Lemma rule0 f : tr (S f) (PRef 0) (at_ ps_init) (fun y => proot (snd y) <> None).
  Proof.
    pose proof (rules_all f) as HR. eapply tr_ref; [reflexivity|]. apply tr_alt.
    - (* jsonpath END {0} *)
      eapply tr_seq; [exact (call_rule f (PRef 2) CInit _ [] [] None HR eq_refl (conj eq_refl eq_refl))|].
      eapply tr_seq; [exact (check_sound f HR (PRef 1) CInit (mkA [TNode] false) _ eq_refl [] [] None (conj eq_refl eq_refl))|].
      apply tr_act. intros cps b st (vals & Ht & Hs & _). cbn [snd a_stk] in *. subst st.
      inversion Ht as [|v ? vs ? Hv Hvs]; subst. inversion Hvs; subst. destruct v; try discriminate Hv.
      cbn [Actions.exec_action]. unfold pop_node. rewrite pop_G. cbn [abind wpa proot snd]. discriminate.
    - (* the catch-all alternative always ends in action 1 *)
      eapply tr_seq with (R := fun _ => True).
      { apply tr_opt; [|trivial].
        eapply tr_conseq; [| |exact (call_rule f (PRef 2) CInit _ [] [] None HR eq_refl (conj eq_refl eq_refl))]; [intros z Hz; exact Hz|trivial]. }
      eapply tr_seq with (R := fun _ => True).
      { eapply tr_cap with (ne := false) (Q' := fun _ => True); [|discriminate|trivial].
        apply tr_star. apply tr_notok; [reflexivity|trivial]. }
      eapply tr_seq with (R := fun _ => True).
      { apply tr_pre_ex. intros x0 _.
        eapply tr_conseq; [| |exact (call_rule f (PRef 1) CAny _ (params (snd x0)) (saved (snd x0)) (proot (snd x0)) HR eq_refl I)].
        - intros z ->. unfold at_. destruct (snd x0); reflexivity.
        - trivial. }
      apply tr_act. intros cps b st _. cbn [Actions.exec_action wpa]. exact I.
  Qed.

  (* Parse never reaches a crash site of the action model: the only `crash` outcome left is the
     interpreter's own fuel bound (excluded in FuelRules.v) *)
  Theorem parse_never_crashes input s :
    parse_with cfg parse_float regex_ok G input = ParseCrash s -> peg_parse G input = PFuel.
  Proof.
    unfold parse_with, parse_from, peg_parse. generalize (parse_fuel input). intros fuel.
    destruct (run G fuel (PRef 0) input 0) as [| |rest pos toks] eqn:Er.
    - exfalso. exact (expression_total _ _ _ Er).
    - reflexivity.
    - rewrite execute_xrun.
      destruct fuel as [|f]; [discriminate|].
      pose proof (rule0 f (S f) (le_n _) _ _ _ _ _ Er input [] 0 ps_init (le_n _) eq_refl) as Hw.
      destruct (xrun cfg parse_float regex_ok toks input [] 0 ps_init) as [x|err|site]; cbn [abind wp] in *.
      + destruct (proot (snd x)); [discriminate|contradiction Hw; reflexivity].
      + discriminate.
      + contradiction.
  Qed.
End Rules.
