(* LitLeft.v — a comparison whose LEFT operand is the number literal: [?(1<@.a)], [?(2==@.a)].  The literal is read by
   qParam / qNumericParam (lNumber stops at the operator: `=`, `!`, `<`, `>` are not number characters), the operator and its
   blanks as before, the path by singleJsonpathFilter.  The parser's actions then exchange the operands (the literal ranks
   above the path: Actions.swap_required) and mirror an ordering — `1<@.a` is parsed into the query of `@.a>1`. *)
From JP Require Import Peg Grammar Text Tree Actions PegFacts PegMono PegEv FuelRules ParseFacts KeyDefs KeyParse IdxParse SliceParse UnionParse WildParse RecParse ChainParse SpacePath FunParse AggParse Frame FiltParse CmpParse CmpSpace LitParse RootOp.
From Coq Require Import Lia.
Local Open Scope N_scope.
Open Scope list_scope.

Definition mirror_op (o : cmpop) : cmpop := match o with OEq => OEq | ONe => ONe | OLt => OGt | OLe => OGe | OGt => OLt | OGe => OLe end.

Definition lcmp39_tokens (pos : nat) (lit : list N) (o : cmpop) (i : list rstep) : list token :=
  [TText pos (pos + List.length lit); TAct 40; TAct (lit_act o)] ++
  left43_tokens (pos + List.length lit + List.length (op_text o)) i ++ [TAct (op_act o)].

Section LCmpPeg.
  Variable isteps : list rstep.
  Variable lit t : list N.
  Variable c : N.
  Hypothesis Hq : qend c.
  Hypothesis Hs : forallb rstep_ok isteps = true.
  Hypothesis Hl : lit_ok lit = true.
  Notation L := (List.length (render_steps isteps)).
  Notation M := (List.length lit).
  Notation path := (64 :: render_steps isteps ++ c :: t).

  Lemma op_head o r : exists c1 r', op_text o ++ r = c1 :: r' /\ in_ranges c1 num_tail = false /\ c1 <> 32.
  Proof. destruct o; cbn [op_text app]; eexists _, _; (split; [reflexivity|]); (split; [reflexivity|discriminate]). Qed.

  Lemma llit40 o pos : evG (PRef 40) (lit ++ op_text o ++ path) pos (POk (op_text o ++ path) (pos + M) [TText pos (pos + M); TAct 40; TAct 35]).
  Proof.
    destruct (op_head o path) as (c1 & r' & E & Hn & _). rewrite E. eapply ev_conv.
    - eapply ev_ref; [reflexivity|]. apply ev_alt_l. eapply ev_seq_ok; [|apply ev_act|reflexivity].
      eapply ev_ref; [reflexivity|]. apply ev_alt_l. apply (ev_rule45_lit_gen lit c1 r' pos Hn Hl).
    - reflexivity.
  Qed.
  Lemma llit41 o pos : evG (PRef 41) (lit ++ op_text o ++ path) pos (POk (op_text o ++ path) (pos + M) [TText pos (pos + M); TAct 40; TAct 36]).
  Proof.
    destruct (op_head o path) as (c1 & r' & E & Hn & _). rewrite E. eapply ev_conv.
    - eapply ev_ref; [reflexivity|]. apply ev_alt_l. eapply ev_seq_ok; [|apply ev_act|reflexivity]. apply (ev_rule45_lit_gen lit c1 r' pos Hn Hl).
    - reflexivity.
  Qed.
  Lemma lspace_op o p : evG (PRef 58) (op_text o ++ path) p (POk (op_text o ++ path) p []).
  Proof. destruct o; cbn [op_text app]; apply ev_space_stop; discriminate. Qed.
  Lemma rpath40 p : evG (PRef 40) path p (POk (c :: t) (p + 1 + L) (left43_tokens p isteps)).
  Proof. eapply ev_ref; [reflexivity|]. apply ev_alt_r; [apply ev_seq_fail; apply ev_rule42_at|]. apply (ev_rule43_c isteps c t p Hs (qend_closer c Hq)). Qed.
  Lemma rpath41 p : evG (PRef 41) path p (POk (c :: t) (p + 1 + L) (left43_tokens p isteps)).
  Proof. eapply ev_ref; [reflexivity|]. apply ev_alt_r; [apply ev_seq_fail; apply ev_rule45_at|]. apply (ev_rule43_c isteps c t p Hs (qend_closer c Hq)). Qed.

  (* operator, blanks, the path, action *)
  Lemma lop_then_right (ref : nat) o p k :
    (forall q, evG (PRef ref) path q (POk (c :: t) (q + 1 + L) (left43_tokens q isteps))) ->
    evG (PSeq (PLit (op_text o)) (PSeq (PRef 58) (PSeq (PRef ref) (PAct k)))) (op_text o ++ path) p
        (POk (c :: t) (p + List.length (op_text o) + 1 + L) (left43_tokens (p + List.length (op_text o)) isteps ++ [TAct k])).
  Proof.
    intros Hr. eapply ev_conv.
    - eapply ev_seq_ok; [apply (ev_lit_ok G (op_text o)); destruct o; cbn [op_text app strip_prefix]; rewrite ?N.eqb_refl; reflexivity| |reflexivity].
      eapply ev_seq_ok; [apply ev_space_stop; discriminate| |reflexivity].
      eapply ev_seq_ok; [apply Hr|apply ev_act|reflexivity].
    - cbn [app]. reflexivity.
  Qed.

  Theorem ev_rule39_lcmp o pos :
    evG (PRef 39) (lit ++ op_text o ++ path) pos
        (POk (c :: t) (pos + M + List.length (op_text o) + 1 + L) (lcmp39_tokens pos lit o isteps)).
  Proof.
    unfold lcmp39_tokens.
    assert (A1fail : forall o', (o' = OLt \/ o' = OLe \/ o' = OGt \/ o' = OGe) ->
              evG (PSeq (PRef 40) (PSeq (PRef 58) (PAlt (PSeq (PLit [61; 61]) (PSeq (PRef 58) (PSeq (PRef 40) (PAct 28))))
                                                       (PSeq (PLit [33; 61]) (PSeq (PRef 58) (PSeq (PRef 40) (PAct 29)))))))
                  (lit ++ op_text o' ++ path) pos PFail).
    { intros o' Ho. eapply ev_seq_fail2; [apply llit40|]. eapply ev_seq_fail2; [apply lspace_op|].
      destruct Ho as [E|[E|[E|E]]]; subst o'; cbn [op_text app]; apply ev_alt_r; apply ev_seq_fail; apply (ev_lit_fail G); reflexivity. }
    eapply ev_ref; [reflexivity|]. destruct o.
    - (* == *) apply ev_alt_l. eapply ev_conv.
      + eapply ev_seq_ok; [apply llit40| |reflexivity]. eapply ev_seq_ok; [apply lspace_op| |reflexivity].
        apply ev_alt_l. apply (lop_then_right 40 OEq _ 28 rpath40).
      + cbn [op_text List.length app lit_act op_act]. f_equal; lia.
    - (* != *) apply ev_alt_l. eapply ev_conv.
      + eapply ev_seq_ok; [apply llit40| |reflexivity]. eapply ev_seq_ok; [apply lspace_op| |reflexivity].
        apply ev_alt_r; [apply ev_seq_fail; apply (ev_lit_fail G [61; 61]); reflexivity|]. apply (lop_then_right 40 ONe _ 29 rpath40).
      + cbn [op_text List.length app lit_act op_act]. f_equal; lia.
    - (* < *) apply ev_alt_r; [apply (A1fail OLt); auto|]. apply ev_alt_l. eapply ev_conv.
      + eapply ev_seq_ok; [apply llit41| |reflexivity]. eapply ev_seq_ok; [apply lspace_op| |reflexivity].
        apply ev_alt_r; [apply ev_seq_fail; apply (ev_lit_fail G [60; 61]); reflexivity|].
        apply ev_alt_l. apply (lop_then_right 41 OLt _ 31 rpath41).
      + cbn [op_text List.length app lit_act op_act]. f_equal; lia.
    - (* <= *) apply ev_alt_r; [apply (A1fail OLe); auto|]. apply ev_alt_l. eapply ev_conv.
      + eapply ev_seq_ok; [apply llit41| |reflexivity]. eapply ev_seq_ok; [apply lspace_op| |reflexivity].
        apply ev_alt_l. apply (lop_then_right 41 OLe _ 30 rpath41).
      + cbn [op_text List.length app lit_act op_act]. f_equal; lia.
    - (* > *) apply ev_alt_r; [apply (A1fail OGt); auto|]. apply ev_alt_l. eapply ev_conv.
      + eapply ev_seq_ok; [apply llit41| |reflexivity]. eapply ev_seq_ok; [apply lspace_op| |reflexivity].
        apply ev_alt_r; [apply ev_seq_fail; apply (ev_lit_fail G [60; 61]); reflexivity|].
        apply ev_alt_r; [apply ev_seq_fail; apply (ev_lit_fail G [60]); reflexivity|].
        apply ev_alt_r; [apply ev_seq_fail; apply (ev_lit_fail G [62; 61]); reflexivity|].
        apply (lop_then_right 41 OGt _ 33 rpath41).
      + cbn [op_text List.length app lit_act op_act]. f_equal; lia.
    - (* >= *) apply ev_alt_r; [apply (A1fail OGe); auto|]. apply ev_alt_l. eapply ev_conv.
      + eapply ev_seq_ok; [apply llit41| |reflexivity]. eapply ev_seq_ok; [apply lspace_op| |reflexivity].
        apply ev_alt_r; [apply ev_seq_fail; apply (ev_lit_fail G [60; 61]); reflexivity|].
        apply ev_alt_r; [apply ev_seq_fail; apply (ev_lit_fail G [60]); reflexivity|].
        apply ev_alt_l. apply (lop_then_right 41 OGe _ 32 rpath41).
      + cbn [op_text List.length app lit_act op_act]. f_equal; lia.
  Qed.
End LCmpPeg.

(* ---------- a `$` path on the left: [?($.min<@.a)], [?($.x==@.a)] ---------- *)
Definition rl39_tokens (pos : nat) (j : list rstep) (o : cmpop) (i : list rstep) : list token :=
  right43_tokens pos j ++ left43_tokens (pos + 1 + List.length (render_steps j) + List.length (op_text o)) i ++ [TAct (op_act o)].

Section RLPeg.
  Variable isteps j : list rstep.
  Variable t : list N.
  Variable c : N.
  Hypothesis Hq : qend c.
  Hypothesis Hs : forallb rstep_ok isteps = true.
  Hypothesis Hsj : forallb rstep_ok j = true.
  Notation L := (List.length (render_steps isteps)).
  Notation Lj := (List.length (render_steps j)).
  Notation path := (64 :: render_steps isteps ++ c :: t).

  Lemma lroot40 o pos : evG (PRef 40) (36 :: render_steps j ++ op_text o ++ path) pos (POk (op_text o ++ path) (pos + 1 + Lj) (right43_tokens pos j)).
  Proof.
    destruct (closer_op o path) as (c1 & r' & E & Hc). rewrite E.
    eapply ev_ref; [reflexivity|]. apply ev_alt_r; [apply ev_seq_fail; apply ev_rule42_dollar|]. apply (ev_rule43_root j c1 r' pos Hsj Hc).
  Qed.
  Lemma lroot41 o pos : evG (PRef 41) (36 :: render_steps j ++ op_text o ++ path) pos (POk (op_text o ++ path) (pos + 1 + Lj) (right43_tokens pos j)).
  Proof.
    destruct (closer_op o path) as (c1 & r' & E & Hc). rewrite E.
    eapply ev_ref; [reflexivity|]. apply ev_alt_r; [apply ev_seq_fail; apply ev_rule45_nonnum; reflexivity|]. apply (ev_rule43_root j c1 r' pos Hsj Hc).
  Qed.

  Theorem ev_rule39_rl o pos :
    evG (PRef 39) (36 :: render_steps j ++ op_text o ++ path) pos
        (POk (c :: t) (pos + 1 + Lj + List.length (op_text o) + 1 + L) (rl39_tokens pos j o isteps)).
  Proof.
    unfold rl39_tokens.
    assert (A1fail : forall o', (o' = OLt \/ o' = OLe \/ o' = OGt \/ o' = OGe) ->
              evG (PSeq (PRef 40) (PSeq (PRef 58) (PAlt (PSeq (PLit [61; 61]) (PSeq (PRef 58) (PSeq (PRef 40) (PAct 28))))
                                                       (PSeq (PLit [33; 61]) (PSeq (PRef 58) (PSeq (PRef 40) (PAct 29)))))))
                  (36 :: render_steps j ++ op_text o' ++ path) pos PFail).
    { intros o' Ho. eapply ev_seq_fail2; [apply lroot40|]. eapply ev_seq_fail2; [apply (lspace_op isteps t c)|].
      destruct Ho as [E|[E|[E|E]]]; subst o'; cbn [op_text app]; apply ev_alt_r; apply ev_seq_fail; apply (ev_lit_fail G); reflexivity. }
    pose proof (lop_then_right isteps t c) as Hop. pose proof (rpath40 isteps t c Hq Hs) as R40. pose proof (rpath41 isteps t c Hq Hs) as R41.
    pose proof (lspace_op isteps t c) as Hsp.
    eapply ev_ref; [reflexivity|]. destruct o.
    - apply ev_alt_l. eapply ev_conv.
      + eapply ev_seq_ok; [apply lroot40| |reflexivity]. eapply ev_seq_ok; [apply Hsp| |reflexivity].
        apply ev_alt_l. apply (Hop 40%nat OEq _ 28%nat R40).
      + cbn [op_text List.length app op_act]. f_equal; lia.
    - apply ev_alt_l. eapply ev_conv.
      + eapply ev_seq_ok; [apply lroot40| |reflexivity]. eapply ev_seq_ok; [apply Hsp| |reflexivity].
        apply ev_alt_r; [apply ev_seq_fail; apply (ev_lit_fail G [61; 61]); reflexivity|]. apply (Hop 40%nat ONe _ 29%nat R40).
      + cbn [op_text List.length app op_act]. f_equal; lia.
    - apply ev_alt_r; [apply (A1fail OLt); auto|]. apply ev_alt_l. eapply ev_conv.
      + eapply ev_seq_ok; [apply lroot41| |reflexivity]. eapply ev_seq_ok; [apply Hsp| |reflexivity].
        apply ev_alt_r; [apply ev_seq_fail; apply (ev_lit_fail G [60; 61]); reflexivity|].
        apply ev_alt_l. apply (Hop 41%nat OLt _ 31%nat R41).
      + cbn [op_text List.length app op_act]. f_equal; lia.
    - apply ev_alt_r; [apply (A1fail OLe); auto|]. apply ev_alt_l. eapply ev_conv.
      + eapply ev_seq_ok; [apply lroot41| |reflexivity]. eapply ev_seq_ok; [apply Hsp| |reflexivity].
        apply ev_alt_l. apply (Hop 41%nat OLe _ 30%nat R41).
      + cbn [op_text List.length app op_act]. f_equal; lia.
    - apply ev_alt_r; [apply (A1fail OGt); auto|]. apply ev_alt_l. eapply ev_conv.
      + eapply ev_seq_ok; [apply lroot41| |reflexivity]. eapply ev_seq_ok; [apply Hsp| |reflexivity].
        apply ev_alt_r; [apply ev_seq_fail; apply (ev_lit_fail G [60; 61]); reflexivity|].
        apply ev_alt_r; [apply ev_seq_fail; apply (ev_lit_fail G [60]); reflexivity|].
        apply ev_alt_r; [apply ev_seq_fail; apply (ev_lit_fail G [62; 61]); reflexivity|].
        apply (Hop 41%nat OGt _ 33%nat R41).
      + cbn [op_text List.length app op_act]. f_equal; lia.
    - apply ev_alt_r; [apply (A1fail OGe); auto|]. apply ev_alt_l. eapply ev_conv.
      + eapply ev_seq_ok; [apply lroot41| |reflexivity]. eapply ev_seq_ok; [apply Hsp| |reflexivity].
        apply ev_alt_r; [apply ev_seq_fail; apply (ev_lit_fail G [60; 61]); reflexivity|].
        apply ev_alt_r; [apply ev_seq_fail; apply (ev_lit_fail G [60]); reflexivity|].
        apply ev_alt_l. apply (Hop 41%nat OGe _ 32%nat R41).
      + cbn [op_text List.length app op_act]. f_equal; lia.
  Qed.
End RLPeg.
