(* FiltChainAddr.v — retrieval for paths with existence filters, from the path text: the path `$` steps returns exactly
   the values its steps reach, where a filter step [?(@ inner)] keeps, of the elements of an array (index order) or
   the members of an object (ascending key order), those from which the inner steps reach at least one value. *)
From JP Require Import Peg Grammar Slice Text Tree Actions Json Eval WF Spec SortFacts EvalInv1 EvalInv4 EvalTop EndToEnd Codec KeyDefs KeyParse IdxParse SliceParse UnionParse WildParse RecParse ChainParse SpacePath FunParse AggParse FiltParse CmpParse CmpSpace NegFilt RootOp QueryParse FiltSpace QuerySpace QueryTree FiltChain ChainAddr FunAddr AggAddr FiltAddr CmpAddr QueryAddr.
From Coq Require Import Lia.
Open Scope list_scope.

Section FiltChainAddr.
  Variable cfg : config.
  Variable parse_float : string -> option num.
  Variable regex_ok : string -> bool.
  Variable ffun : string -> value -> option value.
  Variable afun : string -> list value -> option value.
  Variable regex_match : string -> string -> bool.
  Hypothesis ffun_small : forall f v w, small v -> ffun f v = Some w -> small w.
  Hypothesis afun_small : forall f l w, Forall small l -> afun f l = Some w -> small w.
  Notation parse := (parse_with cfg parse_float regex_ok jsonpath_grammar).
  Notation eval_run := (eval_run ffun afun regex_match).
  Notation sp := (sp ffun afun regex_match).
  Notation fwd := (ChainAddr.fwd ffun afun regex_match).

  (* one step of the larger kind, and a whole path of them *)
  Fixpoint nav1f (root : value) (x : fstep) (lv : list pstep * value) : list (list pstep * value) :=
    match x with
    | FR y => flat_map (fun cu => nav1f root y (cu_loc cu, snd cu)) (containers (Some (fst lv)) (snd lv))
    | FS y => nav1r y lv
    | FE i => navf i lv
    | FC i o lit | FCS i _ _ o _ _ lit => navp (ctest i o (lit_num parse_float lit)) lv
    | FES neg _ _ i _ => if neg then navp (fun x => negb (reaches i x)) lv else navf i lv
    | FN i => navp (fun x => negb (reaches i x)) lv
    | FQ d => navp (dnf_test parse_float regex_match root (kids (snd lv)) d) lv
    | FQS _ d => navp (dnf_test parse_float regex_match root (kids (snd lv)) (unspace_dnf d)) lv
    | FT t => navp (qt_test parse_float regex_match root (kids (snd lv)) t) lv
    end.
  Fixpoint nav_allf (root : value) (l : list fstep) (lv : list pstep * value) : list (list pstep * value) :=
    match l with [] => [lv] | x :: r => flat_map (nav_allf root r) (nav1f root x lv) end.

  Fixpoint fseg (x : fstep) (b1 b2 : basic) (next : onode) : node :=
    match x with
    | FR y => Node (KRec true true) b1 (OSome (fseg y b1 b2 next))
    | FS y => seg y b1 b2 next
    | FE i => Node (filt_kind cfg i) b2 next
    | FC i o lit | FCS i _ _ o _ _ lit => Node (cmp_kind cfg i o (lit_num parse_float lit)) b2 next
    | FES neg _ _ i _ => Node (fes_kind cfg neg i) b2 next
    | FN i => Node (neg_kind cfg i) b2 next
    | FQ d => Node (fq_kind cfg parse_float d) b2 next
    | FQS _ d => Node (fq_kind cfg parse_float (unspace_dnf d)) b2 next
    | FT t => Node (ft_kind cfg parse_float t) b2 next
    end.

  Lemma sp_fseg x b1 b2 next root : forall p v, fstep_ok x = true -> small root -> small v ->
    sp (fseg x b1 b2 next) root (Some p, v) = flat_map (fwd b2 next root) (nav1f root x (p, v)).
  Proof.
    induction x as [y|i|i o lit|i|d|y IH|i g0 a o b g1 lit|neg g0 gn i g1|g0' d'|t']; intros p v Hs Hr Hsm.
    6: { cbn [fstep_ok] in Hs. apply andb_true_iff in Hs. destruct Hs as [Hf Hs]. cbn [fseg nav1f fst snd].
         assert (E : sp (Node (KRec true true) b1 (OSome (fseg y b1 b2 next))) root (Some p, v) =
                     flat_map (fun cu => sp (fseg y b1 b2 next) root cu) (containers (Some p) v)).
         { cbn [Spec.sp fst snd]. apply flat_map_ext'. intros [l x]. cbn [snd].
           destruct y as [y0|i|i o lit|i|d|y0|i g0 a o b g1 lit|neg g0 gn i g1|g0' d'|t']; try discriminate Hf; cbn [fseg]; try (destruct neg); destruct x; reflexivity. }
         rewrite E. rewrite flat_map_flat_map. apply flat_map_ext_in'. intros cu Hin.
         pose proof (containers_some v p Hsm) as Hc. rewrite Forall_forall in Hc. destruct (Hc cu Hin) as [[l Hl] Hsx].
         destruct cu as [ol x]. cbn [fst snd] in *. subst ol. unfold cu_loc. cbn [fst snd].
         apply IH; assumption. }
    all: cbn [fseg nav1f fstep_ok] in *.
    - apply (sp_seg ffun afun regex_match); assumption.
    - apply (sp_filt cfg ffun afun regex_match); assumption.
    - apply andb_true_iff in Hs. destruct Hs as [Hs _]. apply andb_true_iff in Hs. destruct Hs as [Hs _].
      apply (sp_cmp cfg ffun afun regex_match); assumption.
    - apply (sp_neg cfg ffun afun regex_match); assumption.
    - apply (sp_fq cfg parse_float ffun afun regex_match); assumption.
    - apply andb_true_iff in Hs. destruct Hs as [Hs _]. apply andb_true_iff in Hs. destruct Hs as [Hs _].
      apply (sp_cmp cfg ffun afun regex_match); assumption.
    - destruct neg; cbn [fes_kind]; [apply (sp_neg cfg ffun afun regex_match); assumption|apply (sp_filt cfg ffun afun regex_match); assumption].
    - apply (sp_fq cfg parse_float ffun afun regex_match); [apply unspace_dnf_ok|..]; assumption.
    - apply (sp_ft cfg parse_float ffun afun regex_match); [apply (wf_leaves t' 2)|..]; assumption.
  Qed.

  Lemma navp_small h p v : small v -> Forall (fun lv => small (snd lv)) (navp h (p, v)).
  Proof.
    intros Hsm. apply Forall_forall. intros [l x] Hin. cbn [snd]. unfold navp in Hin. cbn [fst snd] in Hin.
    destruct v as [|bb|x0|s x0|s|xs|m|t i0 s]; try contradiction.
    - apply in_flat_map in Hin. destruct Hin as [[j y] [Hj Hy]]. cbn [fst snd] in Hy. destruct (h y); [|contradiction].
      destruct Hy as [E|[]]. inversion E; subst. eapply small_arr_in; [exact Hsm|].
      clear -Hj. revert Hj. generalize 0%Z. induction xs as [|z zs IHz]; intros k Hj; [contradiction|].
      cbn [index_list] in Hj. destruct Hj as [E|Hj]; [inversion E; left; reflexivity|right; exact (IHz _ Hj)].
    - apply in_flat_map in Hin. destruct Hin as [k [_ Hk]]. destruct (lookup m k) as [y|] eqn:El; [|contradiction].
      destruct (h y); [|contradiction]. destruct Hk as [E|[]]. inversion E; subst. eapply small_obj_lookup; eassumption.
  Qed.

  Lemma navf_small i p v : small v -> Forall (fun lv => small (snd lv)) (navf i (p, v)).
  Proof.
    intros Hsm. apply Forall_forall. intros [l x] Hin. cbn [snd]. unfold navf in Hin. cbn [fst snd] in Hin.
    destruct v as [|bb|x0|s x0|s|xs|m|t i0 s]; try contradiction.
    - apply in_flat_map in Hin. destruct Hin as [[j y] [Hj Hy]]. cbn [fst snd] in Hy. destruct (reaches i y); [|contradiction].
      destruct Hy as [E|[]]. inversion E; subst. eapply small_arr_in; [exact Hsm|].
      clear -Hj. revert Hj. generalize 0%Z. induction xs as [|z zs IHz]; intros k Hj; [contradiction|].
      cbn [index_list] in Hj. destruct Hj as [E|Hj]; [inversion E; left; reflexivity|right; exact (IHz _ Hj)].
    - apply in_flat_map in Hin. destruct Hin as [k [_ Hk]]. destruct (lookup m k) as [y|] eqn:El; [|contradiction].
      destruct (reaches i y); [|contradiction]. destruct Hk as [E|[]]. inversion E; subst. eapply small_obj_lookup; eassumption.
  Qed.
  Lemma nav1f_small root x p v : small v -> Forall (fun lv => small (snd lv)) (nav1f root x (p, v)).
  Proof.
    revert p v. induction x as [y|i|i o lit|i|d|y IH|i g0 a o b g1 lit|neg g0 gn i g1|g0' d'|t']; intros p v Hsm; cbn [nav1f]; [apply nav1r_small|apply navf_small|apply navp_small|apply navp_small|apply navp_small| |apply navp_small|destruct neg; [apply navp_small|apply navf_small]|apply navp_small|apply navp_small]; try exact Hsm.
    cbn [fst snd]. apply Forall_forall. intros a Ha. apply in_flat_map in Ha. destruct Ha as [cu [Hcu Ha]].
    pose proof (containers_some v p Hsm) as Hc. rewrite Forall_forall in Hc. destruct (Hc cu Hcu) as [_ Hs].
    pose proof (IH (cu_loc cu) (snd cu) Hs) as H. rewrite Forall_forall in H. exact (H a Ha).
  Qed.

  Lemma fin_fpre x : forall tl, fstep_ok x = true ->
    exists b1 b2, fin (fpre_of cfg parse_float x ++ tl) = OSome (fseg x b1 b2 (fin tl)) /\ accessor b2 = cfg_accessor cfg.
  Proof.
    destruct x as [[s|s]|i|i o lit|i|d|y|i g0 a o b g1 lit|neg g0 gn i g1|g0' d'|t']; intros tl Hok; cbn [fpre_of rstep_pre app fin fst snd fseg ChainAddr.seg].
    - eexists (pre_basic cfg s), _. split; reflexivity.
    - eexists _, _. split; [reflexivity|]. destruct s as [q k|k|ds|[|]|sa sb sc|u us]; reflexivity.
    - eexists (filt_basic cfg i), _. split; reflexivity.
    - eexists (filt_basic cfg i), _. split; reflexivity.
    - eexists (filt_basic cfg i), _. split; reflexivity.
    - eexists (fq_basic cfg d), _. split; reflexivity.
    - cbn [fstep_ok] in Hok. apply andb_true_iff in Hok. destruct Hok as [Hf _].
      destruct y as [y0|i|i o lit|i|d|y0|i g0 a o b g1 lit|neg g0 gn i g1|g0' d'|t']; try discriminate Hf; cbn [fpre_of app fin fst snd fseg]; eexists _, _; (split; reflexivity).
    - eexists (filt_basic cfg i), _. split; reflexivity.
    - eexists (filt_basic cfg i), _. split; reflexivity.
    - eexists (filt_basic cfg []), _. split; reflexivity.
    - eexists (filt_basic cfg []), _. split; reflexivity.
  Qed.
  Lemma fin_fpres_f x r : fstep_ok x = true ->
    exists b1 b2, fin (fpres cfg parse_float (x :: r)) = OSome (fseg x b1 b2 (fin (fpres cfg parse_float r))) /\ accessor b2 = cfg_accessor cfg.
  Proof. unfold fpres. cbn [flat_map]. apply fin_fpre. Qed.
  Lemma fchain_node_seg x r : fstep_ok x = true ->
    exists b1 b2, fchain_node cfg parse_float (x :: r) = fseg x b1 b2 (fin (fpres cfg parse_float r)) /\ accessor b2 = cfg_accessor cfg.
  Proof.
    intros Hok. unfold fchain_node, node_of, fpres. cbn [flat_map]. destruct x as [[s|s]|i|i o lit|i|d|y|i g0 a o b g1 lit|neg g0 gn i g1|g0' d'|t']; cbn [fpre_of rstep_pre app fin fst snd fseg ChainAddr.seg].
    - eexists (pre_basic cfg s), _. split; reflexivity.
    - eexists _, _. split; [reflexivity|]. destruct s as [q k|k|ds|[|]|sa sb sc|u us]; reflexivity.
    - eexists (filt_basic cfg i), _. split; reflexivity.
    - eexists (filt_basic cfg i), _. split; reflexivity.
    - eexists (filt_basic cfg i), _. split; reflexivity.
    - eexists (fq_basic cfg d), _. split; reflexivity.
    - cbn [fstep_ok] in Hok. apply andb_true_iff in Hok. destruct Hok as [Hf _].
      destruct y as [y0|i|i o lit|i|d|y0|i g0 a o b g1 lit|neg g0 gn i g1|g0' d'|t']; try discriminate Hf; cbn [fpre_of app fin fst snd fseg]; eexists _, _; (split; reflexivity).
    - eexists (filt_basic cfg i), _. split; reflexivity.
    - eexists (filt_basic cfg i), _. split; reflexivity.
    - eexists (filt_basic cfg []), _. split; reflexivity.
    - eexists (filt_basic cfg []), _. split; reflexivity.
  Qed.

  Lemma sp_fchain : forall r x b1 b2, forallb fstep_ok (x :: r) = true -> accessor b2 = cfg_accessor cfg ->
    exists B, accessor B = cfg_accessor cfg /\ forall root p v, small root -> small v ->
      sp (fseg x b1 b2 (fin (fpres cfg parse_float r))) root (Some p, v) =
      map (fun lv => (B, true, (Some (fst lv), snd lv))) (nav_allf root (x :: r) (p, v)).
  Proof.
    induction r as [|y r IH]; intros x b1 b2 Hs Hb; cbn [forallb] in Hs; apply andb_true_iff in Hs; destruct Hs as [H1 H2].
    - exists b2. split; [exact Hb|]. intros root p v Hr Hsm. change (fin (fpres cfg parse_float [])) with ONone. rewrite sp_fseg by assumption.
      cbn [nav_allf]. rewrite <- flat_map_single, flat_map_flat_map. apply flat_map_ext'. intros lv. reflexivity.
    - assert (Hy : fstep_ok y = true) by (cbn [forallb] in H2; apply andb_true_iff in H2; exact (proj1 H2)).
      destruct (fin_fpres_f y r Hy) as (c1 & c2 & Ef & Hc). destruct (IH y c1 c2 H2 Hc) as (B & HB & Hsp).
      exists B. split; [exact HB|]. intros root p v Hr Hsm. rewrite Ef, sp_fseg by assumption.
      cbn [nav_allf]. rewrite map_flat_map'. apply flat_map_ext_in'. intros [l z] Hin. unfold ChainAddr.fwd. cbn [fst snd]. apply Hsp; [exact Hr|].
      pose proof (nav1f_small root x p v Hsm) as Hn. rewrite Forall_forall in Hn. exact (Hn (l, z) Hin).
  Qed.

  Lemma spec_fchain x r doc : forallb fstep_ok (x :: r) = true -> small doc ->
    spec_results ffun afun regex_match (fchain_node cfg parse_float (x :: r)) doc = map (loc_result cfg) (nav_allf doc (x :: r) ([], doc)).
  Proof.
    intros Hs Hsm. assert (Hx : fstep_ok x = true) by (cbn [forallb] in Hs; apply andb_true_iff in Hs; exact (proj1 Hs)).
    destruct (fchain_node_seg x r Hx) as (b1 & b2 & En & Hb). destruct (sp_fchain r x b1 b2 Hs Hb) as (B & HB & Hsp).
    unfold spec_results. rewrite En, Hsp by exact Hsm. rewrite map_map. apply map_ext. intros [l z].
    cbn [wrap fst snd]. rewrite HB. unfold loc_result. cbn [fst snd]. destruct (cfg_accessor cfg); reflexivity.
  Qed.

  Theorem fchain_retrieval x r doc st : forallb fstep_ok (x :: r) = true -> forallb (fstep_okp parse_float regex_ok) (x :: r) = true -> small doc -> ok st ->
    exists t, parse (fchain_path (x :: r)) = ParseOk t /\
              match nav_allf doc (x :: r) ([], doc) with
              | [] => exists e, fst (eval_run t doc st) = OErr e
              | l => fst (eval_run t doc st) = OOk (map (loc_result cfg) l)
              end.
  Proof.
    intros Hs Hokp Hd Hok. exists (fchain_node cfg parse_float (x :: r)).
    pose proof (parse_fchain_path cfg parse_float regex_ok x r Hs Hokp) as Hp. split; [exact Hp|].
    pose proof (retrieve_end_to_end cfg parse_float regex_ok ffun afun regex_match ffun_small afun_small (fchain_path (x :: r)) doc st Hd Hok) as H.
    rewrite Hp in H. rewrite (spec_fchain x r doc Hs Hd) in H.
    destruct (nav_allf doc (x :: r) ([], doc)) as [|a l] eqn:En.
    - destruct (fst (eval_run (fchain_node cfg parse_float (x :: r)) doc st)) as [rs|e|pn].
      + destruct H as [H1 [H2 _]]. contradiction (H2 H1).
      + exists e. reflexivity.
      + contradiction.
    - destruct (fst (eval_run (fchain_node cfg parse_float (x :: r)) doc st)) as [rs|e|pn].
      + destruct H as [H _]. rewrite H. reflexivity.
      + destruct H as [H _]. discriminate.
      + contradiction.
  Qed.

  (* a path without filters is a path of the old kind *)
  Lemma nav_allf_plain root steps lv : nav_allf root (map FS steps) lv = nav_all steps lv.
  Proof. revert lv. induction steps as [|x r IH]; intros lv; [reflexivity|]. cbn [map nav_allf nav_all nav1f]. apply flat_map_ext'. exact IH. Qed.

  (* steps whose filters mention the document root nowhere select the same whatever the root is *)
  Definition bq_rootfree (b : bq) : bool := match b with BRE _ | BRN _ | BCR _ _ _ | BPQ _ _ _ | BRL _ _ _ => false | _ => true end.
  Fixpoint fstep_rootfree (x : fstep) : bool := match x with FQ d => forallb (forallb bq_rootfree) d | FQS _ d => forallb (forallb bq_rootfree) (unspace_dnf d) | FT t => qt_leaves bq_rootfree t | FR y => fstep_rootfree y | _ => true end.
  Lemma dnf_test_rootfree root root' d : forallb (forallb bq_rootfree) d = true ->
    forall vals v, dnf_test parse_float regex_match root vals d v = dnf_test parse_float regex_match root' vals d v.
  Proof.
    intros H vals v. unfold dnf_test. induction d as [|c d IH]; [reflexivity|]. cbn [forallb] in H. apply andb_true_iff in H. destruct H as [H1 H2].
    cbn [existsb]. rewrite (IH H2). f_equal. clear -H1. induction c as [|b c IH]; [reflexivity|]. cbn [forallb] in H1. apply andb_true_iff in H1. destruct H1 as [Hb Hc].
    cbn [forallb]. rewrite (IH Hc). f_equal. destruct b; try discriminate Hb; reflexivity.
  Qed.
  Lemma qt_test_rootfree root root' t : qt_leaves bq_rootfree t = true ->
    forall vals v, qt_test parse_float regex_match root vals t v = qt_test parse_float regex_match root' vals t v.
  Proof.
    intros H vals v. induction t as [b|q IH|l IHl r IHr|l IHl r IHr]; cbn [qt_leaves qt_test] in *.
    - destruct b; try discriminate H; reflexivity.
    - apply IH. exact H.
    - apply andb_true_iff in H. destruct H as [Hl Hr]. rewrite (IHl Hl), (IHr Hr). reflexivity.
    - apply andb_true_iff in H. destruct H as [Hl Hr]. rewrite (IHl Hl), (IHr Hr). reflexivity.
  Qed.
  Lemma navp_ext' h h' lv : (forall v, h v = h' v) -> navp h lv = navp h' lv.
  Proof.
    intros E. unfold navp. destruct (snd lv); try reflexivity.
    - apply flat_map_ext'. intros iv. rewrite E. reflexivity.
    - apply flat_map_ext'. intros k. destruct (lookup _ k); [rewrite E|]; reflexivity.
  Qed.
  Lemma nav1f_rootfree root root' x : forall lv, fstep_rootfree x = true -> nav1f root x lv = nav1f root' x lv.
  Proof.
    induction x as [y|i|i o lit|i|d|y IH|i g0 a o b g1 lit|neg g0 gn i g1|g0' d'|t']; intros lv H; cbn [nav1f]; try reflexivity.
    2: { cbn [fstep_rootfree] in H. apply flat_map_ext'. intros cu. apply IH. exact H. }
    - cbn [fstep_rootfree] in H. apply navp_ext'. intros v. apply dnf_test_rootfree. exact H.
    - cbn [fstep_rootfree] in H. apply navp_ext'. intros v. apply dnf_test_rootfree. exact H.
    - cbn [fstep_rootfree] in H. apply navp_ext'. intros v. apply qt_test_rootfree. exact H.
  Qed.
  Lemma nav_allf_rootfree root root' q : forallb fstep_rootfree q = true -> forall lv, nav_allf root q lv = nav_allf root' q lv.
  Proof.
    induction q as [|x r IH]; intros H lv; [reflexivity|]. cbn [forallb] in H. apply andb_true_iff in H. destruct H as [H1 H2].
    cbn [nav_allf]. rewrite (nav1f_rootfree root root' x lv H1). apply flat_map_ext'. intros a. apply IH. exact H2.
  Qed.
End FiltChainAddr.
