(* QueryTree.v — a filter over a query with parenthesised sub-queries: [?((@.a||@.b)&&@.c)].  The grammar reads
   query = andQuery (`||` andQuery)*, andQuery = basicQuery (`&&` basicQuery)*, basicQuery = `(` query `)` | a basic query;
   a tree `qt` in that shape (`wf`: `&&` and `||` associate to the left, a right operand of `&&` is basic or parenthesised,
   a right operand of `||` has no `||` outside parentheses).  The derivation is by induction on the tree, with the
   repetitions in continuation form (what the star does after this sub-tree is a parameter). *)
From JP Require Import Peg Grammar Text Tree Actions PegFacts PegMono PegEv FuelRules ParseFacts KeyDefs KeyParse IdxParse SliceParse UnionParse WildParse RecParse ChainParse SpacePath FunParse AggParse Frame FiltParse CmpParse CmpSpace NegFilt LitParse RootOp RegexOp QueryParse.
From Coq Require Import Lia.
Local Open Scope N_scope.
Open Scope list_scope.

(* level 0: basic or parenthesised; level 1: a conjunction of those; level 2: a disjunction of conjunctions *)
Fixpoint wf (k : nat) (t : qt) : bool :=
  match t with
  | TB b => bq_ok b
  | TP q => wf 2 q
  | TA l r => Nat.leb 1 k && wf 1 l && wf 0 r
  | TO l r => Nat.leb 2 k && wf 2 l && wf 1 r
  end.
Fixpoint qt_tokens (p : nat) (t : qt) : list token :=
  match t with
  | TB b => bq_tokens p b
  | TP q => qt_tokens (p + 1) q
  | TA l r => qt_tokens p l ++ qt_tokens (p + List.length (qt_text l) + 2) r ++ [TAct 25]
  | TO l r => qt_tokens p l ++ qt_tokens (p + List.length (qt_text l) + 2) r ++ [TAct 24]
  end.

Lemma wf_up t : forall k k', (k <= k')%nat -> wf k t = true -> wf k' t = true.
Proof.
  destruct t as [b|q|l r|l r]; intros k k' Hk H; cbn [wf] in *; try exact H.
  - apply andb_true_iff in H. destruct H as [H H3]. apply andb_true_iff in H. destruct H as [H1 H2]. apply Nat.leb_le in H1.
    rewrite H2, H3. replace (Nat.leb 1 k') with true by (symmetry; apply Nat.leb_le; lia). reflexivity.
  - apply andb_true_iff in H. destruct H as [H H3]. apply andb_true_iff in H. destruct H as [H1 H2]. apply Nat.leb_le in H1.
    rewrite H2, H3. replace (Nat.leb 2 k') with true by (symmetry; apply Nat.leb_le; lia). reflexivity.
Qed.

Lemma qt_head t : forall k, wf k t = true -> exists x r, qt_text t = x :: r /\ x <> 32.
Proof.
  induction t as [b|q IH|l IHl r IHr|l IHl r IHr]; intros k H; cbn [wf qt_text] in *.
  - apply bq_head. exact H.
  - eexists _, _. split; [reflexivity|discriminate].
  - apply andb_true_iff in H. destruct H as [H _]. apply andb_true_iff in H. destruct H as [_ H].
    destruct (IHl _ H) as (x & s & E & Hx). rewrite E. eexists _, _. split; [reflexivity|exact Hx].
  - apply andb_true_iff in H. destruct H as [H _]. apply andb_true_iff in H. destruct H as [_ H].
    destruct (IHl _ H) as (x & s & E & Hx). rewrite E. eexists _, _. split; [reflexivity|exact Hx].
Qed.

Notation X25 := (PSeq (PRef 37) (PSeq (PRef 35) (PAct 25))).
Notation X24 := (PSeq (PRef 36) (PSeq (PRef 34) (PAct 24))).

Lemma star25_stop c t pos : cend c -> evG (PStar X25) (c :: t) pos (POk (c :: t) pos []).
Proof.
  intros Hc. apply ev_star_stop. apply ev_seq_fail. eapply ev_ref; [reflexivity|].
  eapply ev_seq_fail2; [apply ev_space_stop; destruct Hc as [E|E]; subst c; discriminate|].
  apply ev_seq_fail. apply (ev_lit_fail G [38; 38]). destruct Hc as [E|E]; subst c; reflexivity.
Qed.
Lemma star24_stop t pos : evG (PStar X24) (41 :: t) pos (POk (41 :: t) pos []).
Proof.
  apply ev_star_stop. apply ev_seq_fail. eapply ev_ref; [reflexivity|].
  eapply ev_seq_fail2; [apply ev_space_stop; discriminate|]. apply ev_seq_fail. apply (ev_lit_fail G [124; 124]). reflexivity.
Qed.

Definition P0 (t : qt) : Prop := wf 0 t = true -> forall c rest pos, qend c ->
  evG (PRef 35) (qt_text t ++ c :: rest) pos (POk (c :: rest) (pos + List.length (qt_text t)) (qt_tokens pos t)).
Definition P1 (t : qt) : Prop := wf 1 t = true -> forall c rest pos s' pos' toks', qend c ->
  evG (PStar X25) (c :: rest) (pos + List.length (qt_text t)) (POk s' pos' toks') ->
  evG (PSeq (PRef 35) (PStar X25)) (qt_text t ++ c :: rest) pos (POk s' pos' (qt_tokens pos t ++ toks')).
Definition P2 (t : qt) : Prop := wf 2 t = true -> forall c rest pos s' pos' toks', cend c ->
  evG (PStar X24) (c :: rest) (pos + List.length (qt_text t)) (POk s' pos' toks') ->
  evG (PSeq (PRef 34) (PStar X24)) (qt_text t ++ c :: rest) pos (POk s' pos' (qt_tokens pos t ++ toks')).

Lemma P1_of_P0 t : P0 t -> wf 0 t = true -> forall c rest pos s' pos' toks', qend c ->
  evG (PStar X25) (c :: rest) (pos + List.length (qt_text t)) (POk s' pos' toks') ->
  evG (PSeq (PRef 35) (PStar X25)) (qt_text t ++ c :: rest) pos (POk s' pos' (qt_tokens pos t ++ toks')).
Proof. intros H0 Hw c rest pos s' pos' toks' Hc Hs. eapply ev_seq_ok; [apply (H0 Hw c rest pos Hc)|exact Hs|reflexivity]. Qed.

(* rule 34 on a conjunction that ends before `)` or `||` *)
Lemma ev34_of_P1 t : P1 t -> wf 1 t = true -> forall c rest pos, cend c ->
  evG (PRef 34) (qt_text t ++ c :: rest) pos (POk (c :: rest) (pos + List.length (qt_text t)) (qt_tokens pos t)).
Proof.
  intros H1 Hw c rest pos Hc. eapply ev_ref; [reflexivity|].
  eapply ev_conv; [apply (H1 Hw c rest pos _ _ _ (cend_qend c Hc) (star25_stop c rest _ Hc))|]. rewrite app_nil_r. reflexivity.
Qed.
Lemma P2_of_P1 t : P1 t -> wf 1 t = true -> forall c rest pos s' pos' toks', cend c ->
  evG (PStar X24) (c :: rest) (pos + List.length (qt_text t)) (POk s' pos' toks') ->
  evG (PSeq (PRef 34) (PStar X24)) (qt_text t ++ c :: rest) pos (POk s' pos' (qt_tokens pos t ++ toks')).
Proof. intros H1 Hw c rest pos s' pos' toks' Hc Hs. eapply ev_seq_ok; [apply (ev34_of_P1 t H1 Hw c rest pos Hc)|exact Hs|reflexivity]. Qed.

Lemma ev_tree t : P0 t /\ P1 t /\ P2 t.
Proof.
  induction t as [b|q IHq|l IHl r IHr|l IHl r IHr].
  - assert (H0 : P0 (TB b)) by (intros Hw c rest pos Hc; cbn [wf qt_text qt_tokens] in *; apply (ev35_bq b c rest pos Hw Hc)).
    assert (H1 : P1 (TB b)) by (intros Hw; apply (P1_of_P0 _ H0 Hw)).
    split; [exact H0|]. split; [exact H1|]. intros Hw. apply (P2_of_P1 _ H1 Hw).
  - destruct IHq as (_ & _ & Q2).
    assert (H0 : P0 (TP q)).
    { intros Hw c rest pos Hc. cbn [wf qt_text qt_tokens] in *. destruct (qt_head q 2 Hw) as (x & s & Ex & Hx).
      replace ((40 :: qt_text q ++ [41]) ++ c :: rest) with (40 :: qt_text q ++ 41 :: c :: rest) by (cbn [app]; rewrite <- app_assoc; reflexivity).
      eapply ev_conv.
      - eapply ev_ref; [reflexivity|]. apply ev_alt_l.
        eapply ev_seq_ok; [| |reflexivity].
        + eapply ev_ref; [reflexivity|]. eapply ev_seq_ok; [apply (ev_lit_ok G [40]); apply strip1_ok| |reflexivity].
          rewrite Ex. cbn [app]. apply ev_space_stop. exact Hx.
        + eapply ev_seq_ok; [| |reflexivity].
          * eapply ev_ref; [reflexivity|]. change (x :: s ++ 41 :: c :: rest) with ((x :: s) ++ 41 :: c :: rest). rewrite <- Ex.
            apply (Q2 Hw 41 (c :: rest) _ _ _ _ (or_introl eq_refl) (star24_stop _ _)).
          * eapply ev_ref; [reflexivity|]. eapply ev_seq_ok; [apply ev_space_stop; discriminate|apply (ev_lit_ok G [41]); apply strip1_ok|reflexivity].
      - cbn [List.length app]. rewrite app_length. cbn [List.length]. rewrite !app_nil_r. f_equal; try lia. }
    assert (H1 : P1 (TP q)) by (intros Hw; apply (P1_of_P0 _ H0 Hw)).
    split; [exact H0|]. split; [exact H1|]. intros Hw. apply (P2_of_P1 _ H1 Hw).
  - destruct IHl as (_ & L1 & _). destruct IHr as (R0 & _ & _).
    assert (H1 : P1 (TA l r)).
    { intros Hw c rest pos s' pos' toks' Hc Hs. cbn [wf] in Hw. apply andb_true_iff in Hw. destruct Hw as [Hw Hr]. apply andb_true_iff in Hw. destruct Hw as [_ Hl].
      cbn [qt_text qt_tokens]. rewrite <- !app_assoc. cbn [app].
      destruct (qt_head r 0 Hr) as (x & s & Ex & Hx).
      assert (E1 : evG X25 (38 :: 38 :: qt_text r ++ c :: rest) (pos + List.length (qt_text l))
                       (POk (c :: rest) (pos + List.length (qt_text l) + 2 + List.length (qt_text r)) (qt_tokens (pos + List.length (qt_text l) + 2) r ++ [TAct 25]))).
      { eapply ev_conv.
        - eapply ev_seq_ok; [| |reflexivity].
          + eapply ev_ref; [reflexivity|].
            eapply ev_seq_ok; [apply ev_space_stop; discriminate| |reflexivity].
            eapply ev_seq_ok; [apply (ev_lit_ok G [38; 38]); cbn [strip_prefix]; rewrite !N.eqb_refl; reflexivity| |reflexivity].
            assert (Esp : forall q0 rest0, evG (PRef 58) (qt_text r ++ rest0) q0 (POk (qt_text r ++ rest0) q0 []))
              by (intros q0 rest0; rewrite Ex; cbn [app]; apply ev_space_stop; exact Hx).
            apply Esp.
          + eapply ev_seq_ok; [apply (R0 Hr c rest _ Hc)|apply ev_act|reflexivity].
        - cbn [List.length app Nat.add]. rewrite ?app_nil_r. f_equal; lia. }
      assert (Hs' : evG (PStar X25) (c :: rest) (pos + List.length (qt_text l) + 2 + List.length (qt_text r)) (POk s' pos' toks')).
      { cbn [qt_text] in Hs. rewrite !app_length in Hs. cbn [List.length] in Hs.
        replace (pos + List.length (qt_text l) + 2 + List.length (qt_text r))%nat with (pos + (List.length (qt_text l) + S (S (List.length (qt_text r)))))%nat by lia. exact Hs. }
      pose proof (ev_star_step G _ _ _ _ _ _ _ _ _ E1 ltac:(lia) Hs') as E2.
      eapply ev_conv; [apply (L1 Hl 38 (38 :: qt_text r ++ c :: rest) pos _ _ _ (or_intror (or_introl eq_refl)) E2)|].
      rewrite <- !app_assoc. reflexivity. }
    split; [intros Hw; discriminate Hw|]. split; [exact H1|]. intros Hw. apply (P2_of_P1 _ H1).
    cbn [wf] in *. apply andb_true_iff in Hw. destruct Hw as [Hw Hr]. apply andb_true_iff in Hw. destruct Hw as [_ Hl]. rewrite Hl, Hr. reflexivity.
  - destruct IHl as (_ & _ & L2). destruct IHr as (_ & R1 & _).
    split; [intros Hw; discriminate Hw|]. split; [intros Hw; discriminate Hw|].
    intros Hw c rest pos s' pos' toks' Hc Hs. cbn [wf] in Hw. apply andb_true_iff in Hw. destruct Hw as [Hw Hr]. apply andb_true_iff in Hw. destruct Hw as [_ Hl].
    cbn [qt_text qt_tokens]. rewrite <- !app_assoc. cbn [app].
    destruct (qt_head r 1 Hr) as (x & s & Ex & Hx).
    assert (E1 : evG X24 (124 :: 124 :: qt_text r ++ c :: rest) (pos + List.length (qt_text l))
                     (POk (c :: rest) (pos + List.length (qt_text l) + 2 + List.length (qt_text r)) (qt_tokens (pos + List.length (qt_text l) + 2) r ++ [TAct 24]))).
    { eapply ev_conv.
      - eapply ev_seq_ok; [| |reflexivity].
        + eapply ev_ref; [reflexivity|].
          eapply ev_seq_ok; [apply ev_space_stop; discriminate| |reflexivity].
          eapply ev_seq_ok; [apply (ev_lit_ok G [124; 124]); cbn [strip_prefix]; rewrite !N.eqb_refl; reflexivity| |reflexivity].
          assert (Esp : forall q0 rest0, evG (PRef 58) (qt_text r ++ rest0) q0 (POk (qt_text r ++ rest0) q0 []))
            by (intros q0 rest0; rewrite Ex; cbn [app]; apply ev_space_stop; exact Hx).
          apply Esp.
        + eapply ev_seq_ok; [apply (ev34_of_P1 r R1 Hr c rest _ Hc)|apply ev_act|reflexivity].
      - cbn [List.length app Nat.add]. rewrite ?app_nil_r. f_equal; lia. }
    assert (Hs' : evG (PStar X24) (c :: rest) (pos + List.length (qt_text l) + 2 + List.length (qt_text r)) (POk s' pos' toks')).
    { cbn [qt_text] in Hs. rewrite !app_length in Hs. cbn [List.length] in Hs.
      replace (pos + List.length (qt_text l) + 2 + List.length (qt_text r))%nat with (pos + (List.length (qt_text l) + S (S (List.length (qt_text r)))))%nat by lia. exact Hs. }
    pose proof (ev_star_step G _ _ _ _ _ _ _ _ _ E1 ltac:(lia) Hs') as E2.
    eapply ev_conv; [apply (L2 Hl 124 (124 :: qt_text r ++ c :: rest) pos _ _ _ (or_intror eq_refl) E2)|].
    rewrite <- !app_assoc. reflexivity.
Qed.

Lemma ev33_tree t rest pos : wf 2 t = true ->
  evG (PRef 33) (qt_text t ++ 41 :: rest) pos (POk (41 :: rest) (pos + List.length (qt_text t)) (qt_tokens pos t)).
Proof.
  intros Hw. destruct (ev_tree t) as (_ & _ & H2). eapply ev_ref; [reflexivity|].
  eapply ev_conv; [apply (H2 Hw 41 rest pos _ _ _ (or_introl eq_refl) (star24_stop _ _))|]. rewrite app_nil_r. reflexivity.
Qed.

Definition ft_tokens (p : nat) (t : qt) : list token :=
  qt_tokens (p + 3) t ++ [TAct 23; TText p (p + 5 + List.length (qt_text t)); TAct 7].
Lemma ft_text_len t : List.length (ft_text t) = (5 + List.length (qt_text t))%nat.
Proof. unfold ft_text. cbn [app List.length]. rewrite app_length. cbn [List.length]. lia. Qed.
Lemma ev_rule7_ft t r pos : wf 2 t = true ->
  evG (PRef 7) (ft_text t ++ r) pos (POk r (pos + List.length (ft_text t)) (ft_tokens pos t)).
Proof.
  intros Hw. destruct (qt_head t 2 Hw) as (x & xr & Ex & Hx).
  replace (ft_text t ++ r) with ([91; 63; 40] ++ qt_text t ++ [41; 93] ++ r) by (unfold ft_text; cbn [app]; rewrite <- !app_assoc; reflexivity).
  eapply ev_conv; [apply (ev_rule7_of33 (qt_text t) r pos (qt_tokens (pos + 3) t))|].
  - intros x0 r0 E. rewrite Ex in E. inversion E; subst. exact Hx.
  - rewrite Ex. discriminate.
  - apply (ev33_tree t (93 :: r) (pos + 3) Hw).
  - rewrite ft_text_len. unfold ft_tokens. f_equal. lia.
Qed.

(* a query in disjunctive form is the tree without parentheses: same text, well-formed *)
Definition conj_tree (b : bq) (bs : list bq) : qt := fold_left (fun t x => TA t (TB x)) bs (TB b).
Definition dnf_tree (b : bq) (bs : list bq) (cs : list (bq * list bq)) : qt :=
  fold_left (fun t c => TO t (conj_tree (fst c) (snd c))) cs (conj_tree b bs).
Lemma conj_fold_text bs : forall t, qt_text (fold_left (fun t x => TA t (TB x)) bs t) = qt_text t ++ and_tail bs.
Proof.
  induction bs as [|x r IH]; intros t; cbn [fold_left and_tail flat_map]; [rewrite app_nil_r; reflexivity|]. fold (and_tail r).
  rewrite IH. cbn [qt_text]. rewrite <- !app_assoc. reflexivity.
Qed.
Lemma conj_tree_text b bs : qt_text (conj_tree b bs) = and_text (b :: bs).
Proof. unfold conj_tree. rewrite conj_fold_text. reflexivity. Qed.
Lemma dnf_fold_text cs : forall t, qt_text (fold_left (fun t c => TO t (conj_tree (fst c) (snd c))) cs t) =
  qt_text t ++ or_tail (map (fun c : bq * list bq => fst c :: snd c) cs).
Proof.
  induction cs as [|x r IH]; intros t; cbn [fold_left map or_tail flat_map]; [rewrite app_nil_r; reflexivity|].
  fold (or_tail (map (fun c : bq * list bq => fst c :: snd c) r)).
  rewrite IH. cbn [qt_text]. rewrite conj_tree_text, <- !app_assoc. reflexivity.
Qed.
Lemma dnf_tree_text b bs cs : qt_text (dnf_tree b bs cs) = q_text ((b :: bs) :: map (fun c : bq * list bq => fst c :: snd c) cs).
Proof. unfold dnf_tree. rewrite dnf_fold_text, conj_tree_text. reflexivity. Qed.
Lemma conj_fold_wf bs : forall t, wf 1 t = true -> forallb bq_ok bs = true -> wf 1 (fold_left (fun t x => TA t (TB x)) bs t) = true.
Proof.
  induction bs as [|x r IH]; intros t Ht Hs; [exact Ht|]. cbn [forallb] in Hs. apply andb_true_iff in Hs. destruct Hs as [H1 H2].
  cbn [fold_left]. apply IH; [|exact H2]. cbn [wf Nat.leb]. rewrite Ht, H1. reflexivity.
Qed.
Lemma conj_tree_wf b bs : forallb bq_ok (b :: bs) = true -> wf 1 (conj_tree b bs) = true.
Proof. cbn [forallb]. intros H. apply andb_true_iff in H. destruct H as [H1 H2]. apply conj_fold_wf; [exact H1|exact H2]. Qed.
Lemma dnf_fold_wf cs : forall t, wf 2 t = true -> forallb (fun c : bq * list bq => forallb bq_ok (fst c :: snd c)) cs = true ->
  wf 2 (fold_left (fun t c => TO t (conj_tree (fst c) (snd c))) cs t) = true.
Proof.
  induction cs as [|x r IH]; intros t Ht Hs; [exact Ht|]. cbn [forallb] in Hs. apply andb_true_iff in Hs. destruct Hs as [H1 H2].
  cbn [fold_left]. apply IH; [|exact H2]. cbn [wf Nat.leb]. rewrite Ht, (conj_tree_wf _ _ H1). reflexivity.
Qed.
Lemma dnf_tree_wf b bs cs : forallb bq_ok (b :: bs) = true -> forallb (fun c : bq * list bq => forallb bq_ok (fst c :: snd c)) cs = true ->
  wf 2 (dnf_tree b bs cs) = true.
Proof. intros H1 H2. apply dnf_fold_wf; [apply (wf_up _ 1 2); [lia|apply conj_tree_wf; exact H1]|exact H2]. Qed.

(* ---------- the tokens replayed ---------- *)
Fixpoint qt_leaves (f : bq -> bool) (t : qt) : bool :=
  match t with TB b => f b | TP q => qt_leaves f q | TA l r | TO l r => qt_leaves f l && qt_leaves f r end.
Lemma wf_leaves t : forall k, wf k t = true -> qt_leaves bq_ok t = true.
Proof.
  induction t as [b|q IH|l IHl r IHr|l IHl r IHr]; intros k H; cbn [wf qt_leaves] in *.
  - exact H.
  - exact (IH _ H).
  - apply andb_true_iff in H. destruct H as [H Hr]. apply andb_true_iff in H. destruct H as [_ Hl]. rewrite (IHl _ Hl), (IHr _ Hr). reflexivity.
  - apply andb_true_iff in H. destruct H as [H Hr]. apply andb_true_iff in H. destruct H as [_ Hl]. rewrite (IHl _ Hl), (IHr _ Hr). reflexivity.
Qed.

Section QueryTreeExec.
  Variable cfg : config.
  Variable parse_float : string -> option num.
  Variable regex_ok : string -> bool.
  Notation execute := (execute cfg parse_float regex_ok).
  Notation exec_action := (exec_action cfg parse_float regex_ok).
  Notation bq_query := (bq_query cfg parse_float).

  Definition qt_okp (t : qt) : bool := qt_leaves (bq_okp parse_float regex_ok) t.
  Fixpoint qt_query (t : qt) : query :=
    match t with TB b => bq_query b | TP q => qt_query q | TA l r => QAnd (qt_query l) (qt_query r) | TO l r => QOr (qt_query l) (qt_query r) end.

  Lemma exec_qt input t : forall p rest ps toks cps bg, qt_leaves bq_ok t = true -> qt_okp t = true -> skipn p input = qt_text t ++ rest ->
    exists cps' b', execute (qt_tokens p t ++ toks) input cps bg (mk ps) = execute toks input cps' b' (mk (ps ++ [IQuery (qt_query t)])).
  Proof.
    unfold qt_okp. induction t as [b|q IH|l IHl r IHr|l IHl r IHr]; intros p rest ps toks cps bg Hs Hp Hin; cbn [qt_leaves qt_tokens qt_text qt_query] in *.
    - apply (exec_bq cfg parse_float regex_ok input p b rest ps toks cps bg Hs Hp Hin).
    - apply (IH (p + 1)%nat ([41] ++ rest) ps toks cps bg Hs Hp).
      pose proof (skipn_next input p [40] (qt_text q ++ [41] ++ rest)) as H. cbn [List.length] in H. apply H.
      rewrite Hin. cbn [app]. rewrite <- app_assoc. reflexivity.
    - apply andb_true_iff in Hs. destruct Hs as [Sl Sr]. apply andb_true_iff in Hp. destruct Hp as [Pl Pr]. rewrite <- !app_assoc in Hin.
      rewrite <- !app_assoc.
      destruct (IHl p _ ps (qt_tokens (p + List.length (qt_text l) + 2) r ++ [TAct 25] ++ toks) cps bg Sl Pl Hin) as (c1 & b1 & E1). rewrite E1. clear E1.
      assert (Hin2 : skipn (p + List.length (qt_text l) + 2) input = qt_text r ++ rest).
      { pose proof (skipn_next input p (qt_text l ++ [38; 38]) (qt_text r ++ rest)) as H. rewrite app_length in H. cbn [List.length] in H.
        replace (p + (List.length (qt_text l) + 2))%nat with (p + List.length (qt_text l) + 2)%nat in H by lia. apply H. rewrite Hin, <- !app_assoc. reflexivity. }
      destruct (IHr _ rest (ps ++ [IQuery (qt_query l)]) ([TAct 25] ++ toks) c1 b1 Sr Pr Hin2) as (c2 & b2 & E2). rewrite E2. clear E2.
      cbn [app Actions.execute].
      assert (E25 : forall c0 b0, exec_action 25 c0 b0 (mk ((ps ++ [IQuery (qt_query l)]) ++ [IQuery (qt_query r)])) = AOk (mk (ps ++ [IQuery (QAnd (qt_query l) (qt_query r))]))).
      { intros c0 b0. cbn [Actions.exec_action]. unfold pop_query. rewrite pop_mk. cbn [abind]. rewrite pop_mk. reflexivity. }
      rewrite E25. cbn [abind]. eexists _, _. reflexivity.
    - apply andb_true_iff in Hs. destruct Hs as [Sl Sr]. apply andb_true_iff in Hp. destruct Hp as [Pl Pr]. rewrite <- !app_assoc in Hin.
      rewrite <- !app_assoc.
      destruct (IHl p _ ps (qt_tokens (p + List.length (qt_text l) + 2) r ++ [TAct 24] ++ toks) cps bg Sl Pl Hin) as (c1 & b1 & E1). rewrite E1. clear E1.
      assert (Hin2 : skipn (p + List.length (qt_text l) + 2) input = qt_text r ++ rest).
      { pose proof (skipn_next input p (qt_text l ++ [124; 124]) (qt_text r ++ rest)) as H. rewrite app_length in H. cbn [List.length] in H.
        replace (p + (List.length (qt_text l) + 2))%nat with (p + List.length (qt_text l) + 2)%nat in H by lia. apply H. rewrite Hin, <- !app_assoc. reflexivity. }
      destruct (IHr _ rest (ps ++ [IQuery (qt_query l)]) ([TAct 24] ++ toks) c1 b1 Sr Pr Hin2) as (c2 & b2 & E2). rewrite E2. clear E2.
      cbn [app Actions.execute].
      assert (E24 : forall c0 b0, exec_action 24 c0 b0 (mk ((ps ++ [IQuery (qt_query l)]) ++ [IQuery (qt_query r)])) = AOk (mk (ps ++ [IQuery (QOr (qt_query l) (qt_query r))]))).
      { intros c0 b0. cbn [Actions.exec_action]. unfold pop_query. rewrite pop_mk. cbn [abind]. rewrite pop_mk. reflexivity. }
      rewrite E24. cbn [abind]. eexists _, _. reflexivity.
  Qed.

  Definition ft_kind (t : qt) : kind := KFilter (qt_query t).
  Definition ft_basic (t : qt) : basic := mk_basic (text_of (ft_text t)) true (cfg_accessor cfg).
  Definition ft_node (t : qt) : node := Node (ft_kind t) (ft_basic t) ONone.

  Lemma exec_ft input p t rest ps toks cps bg : qt_leaves bq_ok t = true -> qt_okp t = true -> skipn p input = ft_text t ++ rest ->
    exists cps' b', execute (ft_tokens p t ++ toks) input cps bg (mk ps) = execute toks input cps' b' (mk (ps ++ [INode (ft_node t)])).
  Proof.
    intros Hs Hp Hin.
    assert (Hin' : skipn p input = [91; 63; 40] ++ qt_text t ++ [41; 93] ++ rest) by (rewrite Hin; unfold ft_text; cbn [app]; rewrite <- !app_assoc; reflexivity).
    pose proof (skipn_next input p [91; 63; 40] _ Hin') as Hin3. cbn [List.length] in Hin3.
    unfold ft_tokens. rewrite <- app_assoc.
    destruct (exec_qt input t (p + 3) _ ps ([TAct 23; TText p (p + 5 + List.length (qt_text t)); TAct 7] ++ toks) cps bg Hs Hp Hin3) as (c1 & b1 & E1).
    rewrite E1. clear E1. cbn [app Actions.execute].
    assert (E23 : forall c0 b0 q0, exec_action 23 c0 b0 (mk (ps ++ [IQuery q0])) = AOk (mk (ps ++ [INode (Node (KFilter q0) (mk_basic "" true (cfg_accessor cfg)) ONone)]))).
    { intros c0 b0 q0. cbn [Actions.exec_action]. unfold pop_query. rewrite pop_mk. reflexivity. }
    rewrite E23. cbn [abind].
    assert (Et : sub_list input p (p + 5 + List.length (qt_text t)) = ft_text t).
    { pose proof (sub_at input p 0 [] (ft_text t) rest) as H. rewrite Nat.add_0_r in H.
      replace (p + 5 + List.length (qt_text t))%nat with (p + List.length (ft_text t))%nat by (rewrite ft_text_len; lia).
      apply H; [exact Hin|reflexivity]. }
    rewrite Et.
    assert (E7 : forall b0 q0, exec_action 7 (ft_text t) b0 (mk (ps ++ [INode (Node (KFilter q0) (mk_basic "" true (cfg_accessor cfg)) ONone)])) =
                              AOk (mk (ps ++ [INode (Node (KFilter q0) (ft_basic t) ONone)]))).
    { intros b0 q0. cbn [Actions.exec_action]. unfold set_last_node_text, pop_node. rewrite pop_mk. reflexivity. }
    rewrite E7. cbn [abind]. eexists _, _. reflexivity.
  Qed.
End QueryTreeExec.
