(* ErrTop.v — C15 for whole calls of the evaluator model (Eval.eval_run): the error a failing retrieval
   returns is the error of the specification, it is one of the failure events of the path on this
   document, names a step of the path as written, no failure event lies further along the path, and a
   type mismatch is reported only if every failure at that depth is one. *)
From JP Require Import Eval WF Spec ErrSpec ErrFacts ErrSelect EvalInv1 EvalInv3 EvalInv4 EvalTop Refine1 Refine2 ErrRefine ErrReal.
Open Scope list_scope.

Section ErrTop.
  Variable ffun : string -> value -> option value.
  Variable afun : string -> list value -> option value.
  Variable regex_match : string -> string -> bool.
  Hypothesis ffun_small : forall f v w, small v -> ffun f v = Some w -> small w.
  Hypothesis afun_small : forall f l w, Forall small l -> afun f l = Some w -> small w.
  Notation eval_run := (eval_run ffun afun regex_match).
  Notation spec_error := (spec_error ffun afun regex_match).
  Notation events := (events ffun afun regex_match).
  Notation sp := (sp ffun afun regex_match).

  (* the outcome of a call, as far as errors go *)
  Theorem eval_run_error t doc st : wf_node t = true -> small doc -> ok st ->
    match fst (eval_run t doc st) with
    | OErr e => spec_error t doc = Some e
    | OOk _ => spec_error t doc = None
    | OPanic _ => False
    end.
  Proof.
    intros Hwf Hs Hok. unfold Eval.eval_run.
    pose proof (retrieve_error ffun afun regex_match ffun_small afun_small t doc (Some [], doc) st Hwf Hs (cur_ok_root doc Hs) Hok) as He.
    pose proof (A_node ffun afun regex_match ffun_small afun_small t doc (Some [], doc) Hwf Hs (cur_ok_root doc Hs) [] st Hok) as Hp.
    unfold post in Hp. unfold ErrSpec.spec_error.
    destruct (Eval.retrieve ffun afun regex_match t doc (Some [], doc) [] st) as [[c e] st']. cbn [fst snd] in *.
    destruct Hp as [Hfr _].
    assert (Hpn : panicked st' = None) by (destruct Hfr as (_ & _ & _ & F4 & _); destruct Hok as [_ Hp]; congruence).
    rewrite Hpn. destruct e as [err|]; cbn [fst]; symmetry; exact He.
  Qed.

  (* the specification reports an error exactly when the path selects nothing *)
  Theorem spec_error_iff_empty t doc : wf_node t = true -> small doc ->
    (spec_error t doc = None <-> sp t doc (Some [], doc) <> []).
  Proof.
    intros Hwf Hs.
    pose proof (retrieve_error ffun afun regex_match ffun_small afun_small t doc (Some [], doc) st_init Hwf Hs (cur_ok_root doc Hs) ok_init) as He.
    pose proof (A_node ffun afun regex_match ffun_small afun_small t doc (Some [], doc) Hwf Hs (cur_ok_root doc Hs) [] st_init ok_init) as Hp.
    pose proof (R_node ffun afun regex_match ffun_small afun_small t Hwf doc (Some [], doc) Hs (cur_ok_root doc Hs) [] st_init ok_init) as Hr.
    unfold post in Hp. unfold ErrSpec.spec_error.
    destruct (Eval.retrieve ffun afun regex_match t doc (Some [], doc) [] st_init) as [[c e] st']. cbn [fst snd app] in *.
    destruct Hp as [_ [r [Hc [H1 [H2 _]]]]]. cbn [app] in Hc. subst r. rewrite <- He. subst c.
    split.
    - intros ->. intros Hn. apply (H2 eq_refl). rewrite Hn. reflexivity.
    - intros Hn. destruct e as [err|]; [|reflexivity]. exfalso.
      assert (Hm : map Spec.wrap (sp t doc (Some [], doc)) = []) by (apply H1; discriminate).
      destruct (sp t doc (Some [], doc)); [apply Hn; reflexivity|discriminate].
  Qed.

  Theorem eval_run_error_real t doc st e : wf_node t = true -> ctext_ok t = true -> small doc -> ok st ->
    fst (eval_run t doc st) = OErr e ->
    In e (events t doc (Some [], doc)) /\
    In (err_basic e) (basics t) /\
    (forall x, In x (events t doc (Some [], doc)) -> depth_len e <= depth_len x)%nat /\
    (is_type_err e = true -> forall x, In x (events t doc (Some [], doc)) -> depth_len x = depth_len e -> is_type_err x = true).
  Proof.
    intros Hwf Hct Hs Hok Hrun. pose proof (eval_run_error t doc st Hwf Hs Hok) as H. rewrite Hrun in H.
    destruct (reported_error_is_best ffun afun regex_match t doc (Some [], doc) e Hct H) as (H1 & H2 & H3).
    split; [exact H1|]. split; [|split; assumption].
    apply (proj1 (events_name_steps ffun afun regex_match) t doc (Some [], doc) e H1).
  Qed.
End ErrTop.
