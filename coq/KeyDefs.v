(* KeyDefs.v — how a caller spells a member name between quotes (C16): the quote and the backslash get a
   backslash, control characters become \u00XX, every other code point (all planes) is written verbatim.
   These definitions are extracted with the model: the harness asks the driver to confirm that the paths it
   sends to the library are exactly key_path of the key. *)
From Coq Require Import List NArith.
From JP Require Import Peg.
Import ListNotations.
Local Open Scope N_scope.
Open Scope list_scope.

Definition hexd (n : N) : N := if n <? 10 then 48 + n else 87 + n.
Definition esc_json_byte (q b : N) : list N :=
  if b =? q then [92; b]
  else if b =? 92 then [92; 92]
  else if b <? 32 then [92; 117; 48; 48; hexd (b / 16); hexd (b mod 16)]
  else [b].
(* the escaped text of a key given as code points, inside the quote q *)
Definition esc_cps (q : N) (k : list N) : list N := flat_map (esc_json_byte q) k.
(* the path text $["k"] (q = 34) or $['k'] (q = 39) *)
Definition key_path (q : N) (k : list N) : list N := 36 :: 91 :: q :: esc_cps q k ++ [q; 93].

(* the dot spelling: every symbol character (signsWithoutHyphenUnderscore of the grammar) gets a backslash *)
Definition dot_ranges : list (N * N) := [(32, 44); (46, 46); (47, 47); (58, 64); (91, 94); (96, 96); (123, 126)].
Definition dot_sym (c : N) : bool := in_ranges c dot_ranges.
Definition esc_dot_cps (k : list N) : list N := flat_map (fun c => if dot_sym c then [92; c] else [c]) k.
(* the path text $.k *)
Definition dot_path (k : list N) : list N := 36 :: 46 :: esc_dot_cps k.
(* keys the dot spelling is defined for: no control character *)
Definition dot_char (c : N) : bool := negb (in_ranges c [(0, 31); (127, 127)]).

(* a path of name steps, each in one of the three spellings, index steps [digits], wildcard steps .* / [*], slice steps [a:b] / [a:b:c], each possibly after `..`:  $ step step ...  *)
(* the text between the brackets of a slice: start ':' end, then ':' step when written *)
Definition slice_body (a b : list N) (c : option (list N)) : list N :=
  a ++ 58 :: b ++ match c with Some t => 58 :: t | None => [] end.
(* one subscript of a union: an index (optionally signed), a slice, or the wildcard *)
Inductive usub := UIdx (t : list N) | USlice (a b : list N) (c : option (list N)) | UWild.
Definition render_sub (u : usub) : list N :=
  match u with UIdx t => t | USlice a b c => slice_body a b c | UWild => [42] end.
Definition render_union (u : usub) (us : list usub) : list N := render_sub u ++ flat_map (fun v => 44 :: render_sub v) us.
Inductive kstep := SBr (q : N) (k : list N) | SDot (k : list N) | SIdx (ds : list N) | SWild (dot : bool)
                 | SSlice (a b : list N) (c : option (list N))
                 | SUnion (u : usub) (us : list usub).
Definition render_step (s : kstep) : list N :=
  match s with
  | SBr q k => 91 :: q :: esc_cps q k ++ [q; 93]
  | SDot k => 46 :: esc_dot_cps k
  | SIdx ds => 91 :: ds ++ [93]
  | SWild true => [46; 42]
  | SWild false => [91; 42; 93]
  | SSlice a b c => 91 :: slice_body a b c ++ [93]
  | SUnion u us => 91 :: render_union u us ++ [93]
  end.
Definition step_cps (s : kstep) : list N := match s with SBr _ k | SDot k => k | SIdx ds => ds | SWild _ => [] | SSlice _ _ _ => [] | SUnion _ _ => [] end.
(* a step, or `..` followed by a step *)
Inductive rstep := RPlain (s : kstep) | RRec (s : kstep).
(* after `..` a dot name is written without its dot, and the wildcard as a bare * *)
Definition rec_body (s : kstep) : list N :=
  match s with SDot k => esc_dot_cps k | SWild true => [42] | _ => render_step s end.
Definition render_rstep (x : rstep) : list N :=
  match x with RPlain s => render_step s | RRec s => 46 :: 46 :: rec_body s end.
Definition render_steps (steps : list rstep) : list N := flat_map render_rstep steps.
Definition chain_path (steps : list rstep) : list N := 36 :: render_steps steps.
(* the same path written without its leading $ (the first step is then written as after `..`) *)
Definition chain_path0 (s : kstep) (r : list rstep) : list N := rec_body s ++ render_steps r.
(* the same path with blanks before and after *)
Definition blanks (n : nat) : list N := repeat 32 n.
Definition padded_path (n1 n2 : nat) (steps : list rstep) : list N := blanks n1 ++ chain_path steps ++ blanks n2.
(* trailing functions:  .name()  *)
Definition fun_text (f : list N) : list N := 46 :: f ++ [40; 41].
Definition render_funs (fs : list (list N)) : list N := flat_map fun_text fs.
Definition chain_fun_path (steps : list rstep) (fs : list (list N)) : list N := chain_path steps ++ render_funs fs.

(* a step of a path, or an existence filter over a path of steps: [?(@ steps)] *)
Definition filt_text (isteps : list rstep) : list N := [91; 63; 40; 64] ++ render_steps isteps ++ [41; 93].
(* a comparison filter [?(@ steps OP number)] *)
Inductive cmpop := OEq | ONe | OLt | OLe | OGt | OGe.
Definition op_text (o : cmpop) : list N :=
  match o with OEq => [61; 61] | ONe => [33; 61] | OLt => [60] | OLe => [60; 61] | OGt => [62] | OGe => [62; 61] end.
Definition cmp_text (isteps : list rstep) (o : cmpop) (lit : list N) : list N :=
  [91; 63; 40; 64] ++ render_steps isteps ++ op_text o ++ lit ++ [41; 93].
(* a negated existence filter [?(!@ steps)] *)
Definition neg_text (isteps : list rstep) : list N := [91; 63; 40; 33; 64] ++ render_steps isteps ++ [41; 93].
(* a filter over a query in disjunctive form: [?(b && b ... || b && ... )], every b an existence test, its negation or a comparison *)
(* a string, boolean or null literal as written: the quote and the plain body; the value and which of the three spellings *)
Inductive litv := LStr (q : N) (body : list N) | LBool (b : bool) (sp : nat) | LNull (sp : nat).
Definition litv_text (l : litv) : list N :=
  match l with
  | LStr q body => q :: body ++ [q]
  | LBool true 0 => [116; 114; 117; 101] | LBool true 1 => [84; 114; 117; 101] | LBool true _ => [84; 82; 85; 69]
  | LBool false 0 => [102; 97; 108; 115; 101] | LBool false 1 => [70; 97; 108; 115; 101] | LBool false _ => [70; 65; 76; 83; 69]
  | LNull 0 => [110; 117; 108; 108] | LNull 1 => [78; 117; 108; 108] | LNull _ => [78; 85; 76; 76]
  end.
Inductive bq := BE (isteps : list rstep) | BN (isteps : list rstep) | BC (isteps : list rstep) (o : cmpop) (lit : list N)
              | BL (isteps : list rstep) (ne : bool) (l : litv)
              | BRE (j : list rstep) | BRN (j : list rstep)            (* existence of a `$`-rooted path, and its negation *)
              | BCR (isteps : list rstep) (o : cmpop) (j : list rstep)   (* @steps OP $steps, OP an ordering operator *)
              | BPQ (isteps : list rstep) (ne : bool) (j : list rstep)   (* @steps == $steps, @steps != $steps *)
              | BX (isteps : list rstep) (body : list N)               (* @steps =~ /body/ *)
              | BCL (lit : list N) (o : cmpop) (isteps : list rstep)    (* number OP @steps: the literal on the left *)
              | BLL (l : litv) (ne : bool) (isteps : list rstep)        (* 'text' == @steps, true != @steps, null == @steps *)
              | BRL (j : list rstep) (o : cmpop) (isteps : list rstep). (* $steps OP @steps: the `$` path on the left *)
Definition bq_text (b : bq) : list N :=
  match b with
  | BE i => 64 :: render_steps i
  | BN i => 33 :: 64 :: render_steps i
  | BC i o lit => 64 :: render_steps i ++ op_text o ++ lit
  | BL i ne l => 64 :: render_steps i ++ (if ne then [33; 61] else [61; 61]) ++ litv_text l
  | BRE j => 36 :: render_steps j
  | BRN j => 33 :: 36 :: render_steps j
  | BCR i o j => 64 :: render_steps i ++ op_text o ++ 36 :: render_steps j
  | BPQ i ne j => 64 :: render_steps i ++ (if ne then [33; 61] else [61; 61]) ++ 36 :: render_steps j
  | BX i body => 64 :: render_steps i ++ [61; 126; 47] ++ body ++ [47]
  | BCL lit o i => lit ++ op_text o ++ 64 :: render_steps i
  | BLL l ne i => litv_text l ++ (if ne then [33; 61] else [61; 61]) ++ 64 :: render_steps i
  | BRL j o i => 36 :: render_steps j ++ op_text o ++ 64 :: render_steps i
  end.
Definition and_text (c : list bq) : list N :=
  match c with [] => [] | b :: bs => bq_text b ++ flat_map (fun x => [38; 38] ++ bq_text x) bs end.
Definition q_text (d : list (list bq)) : list N :=
  match d with [] => [] | c :: cs => and_text c ++ flat_map (fun x => [124; 124] ++ and_text x) cs end.
Definition fq_text (d : list (list bq)) : list N := [91; 63; 40] ++ q_text d ++ [41; 93].
(* basic queries that may be written with blanks: an existence test (negated: `!`, gn blanks after it) or a comparison with a
   number (a / b blanks around the operator); in a spaced query every basic query is followed by some blanks, and every `&&`
   and `||` by some more *)
Inductive sbq := SBE (neg : bool) (gn : nat) (isteps : list rstep)
              | SBC (isteps : list rstep) (a : nat) (o : cmpop) (b : nat) (lit : list N).
Definition sbq_text (b : sbq) : list N :=
  match b with
  | SBE neg gn i => (if neg then 33 :: blanks gn else []) ++ 64 :: render_steps i
  | SBC i a o b lit => 64 :: render_steps i ++ blanks a ++ op_text o ++ blanks b ++ lit
  end.
(* a query with parenthesised sub-queries, in the grammar's shape: `&&` and `||` associate to the left *)
Inductive qt := TB (b : bq) | TP (q : qt) | TA (l r : qt) | TO (l r : qt).
Fixpoint qt_text (t : qt) : list N :=
  match t with TB b => bq_text b | TP q => 40 :: qt_text q ++ [41] | TA l r => qt_text l ++ [38; 38] ++ qt_text r | TO l r => qt_text l ++ [124; 124] ++ qt_text r end.
Definition ft_text (t : qt) : list N := [91; 63; 40] ++ qt_text t ++ [41; 93].
Definition selem := (sbq * nat)%type.
Definition sconj := (selem * list (nat * selem))%type.
Definition sdnf := (sconj * list (nat * sconj))%type.
Inductive fstep := FS (x : rstep) | FE (isteps : list rstep) | FC (isteps : list rstep) (o : cmpop) (lit : list N) | FN (isteps : list rstep)
                 | FQ (d : list (list bq))
                 | FR (x : fstep)           (* `..` before a filter: the filter applied to every container below, in pre-order *)
                 | FCS (isteps : list rstep) (g0 a : nat) (o : cmpop) (b g1 : nat) (lit : list N)   (* a comparison with blanks: g0 after `?(`, a / b around the operator, g1 before `)` *)
                 | FES (neg : bool) (g0 gn : nat) (isteps : list rstep) (g1 : nat)   (* an existence test (negated: `!`) with blanks: after `?(`, after `!`, before `)` *)
                 | FQS (g0 : nat) (d : sdnf)   (* a query in disjunctive form with blanks after `?(`, after every basic query, after every `&&` and `||` *)
                 | FT (t : qt).   (* a filter over a query with parenthesised sub-queries *)
Definition scmp_inner (i : list rstep) (a : nat) (o : cmpop) (b : nat) (lit : list N) : list N :=
  64 :: render_steps i ++ blanks a ++ op_text o ++ blanks b ++ lit.
Definition scmp_text (i : list rstep) (g0 a : nat) (o : cmpop) (b g1 : nat) (lit : list N) : list N :=
  [91; 63; 40] ++ blanks g0 ++ scmp_inner i a o b lit ++ blanks g1 ++ [41; 93].
Definition fes_inner (neg : bool) (gn : nat) (i : list rstep) (g1 : nat) : list N :=
  (if neg then 33 :: blanks gn else []) ++ 64 :: render_steps i ++ blanks g1.
Definition fes_text (neg : bool) (g0 gn : nat) (i : list rstep) (g1 : nat) : list N :=
  [91; 63; 40] ++ blanks g0 ++ fes_inner neg gn i g1 ++ [41; 93].
Definition selem_core (e : sbq * nat) : list N := sbq_text (fst e) ++ blanks (snd e).
Definition sconj_text (c : (sbq * nat) * list (nat * (sbq * nat))) : list N :=
  selem_core (fst c) ++ flat_map (fun gx : nat * (sbq * nat) => [38; 38] ++ blanks (fst gx) ++ selem_core (snd gx)) (snd c).
Definition sdnf_text (d : ((sbq * nat) * list (nat * (sbq * nat))) * list (nat * ((sbq * nat) * list (nat * (sbq * nat))))) : list N :=
  sconj_text (fst d) ++ flat_map (fun gc : nat * ((sbq * nat) * list (nat * (sbq * nat))) => [124; 124] ++ blanks (fst gc) ++ sconj_text (snd gc)) (snd d).
Definition sfq_text (g0 : nat) (d : ((sbq * nat) * list (nat * (sbq * nat))) * list (nat * ((sbq * nat) * list (nat * (sbq * nat))))) : list N :=
  [91; 63; 40] ++ blanks g0 ++ sdnf_text d ++ [41; 93].
Fixpoint render_fstep (x : fstep) : list N :=
  match x with FS y => render_rstep y | FE i => filt_text i | FC i o lit => cmp_text i o lit | FN i => neg_text i | FQ d => fq_text d
             | FR y => 46 :: 46 :: render_fstep y | FCS i g0 a o b g1 lit => scmp_text i g0 a o b g1 lit | FES neg g0 gn i g1 => fes_text neg g0 gn i g1 | FQS g0 d => sfq_text g0 d | FT t => ft_text t end.
Definition render_fsteps (l : list fstep) : list N := flat_map render_fstep l.
Definition fchain_path (l : list fstep) : list N := 36 :: render_fsteps l.
Definition fchain_fun_path (l : list fstep) (fs : list (list N)) : list N := fchain_path l ++ render_funs fs.
Definition fchain_path0 (s : kstep) (l : list fstep) : list N := rec_body s ++ render_fsteps l.   (* the leading `$` omitted: the first step written bare *)
Definition fpadded_path (n1 n2 : nat) (l : list fstep) : list N := blanks n1 ++ fchain_path l ++ blanks n2.
Definition fchain_fun_path0 (s : kstep) (l : list fstep) (fs : list (list N)) : list N := rec_body s ++ render_fsteps l ++ render_funs fs.
Definition fpadded_fun_path (n1 n2 : nat) (l : list fstep) (fs : list (list N)) : list N := blanks n1 ++ fchain_path l ++ render_funs fs ++ blanks n2.
