(* ErrSteps.v — the runtime error of a path of name and index steps, from the path text (C15): the call fails at the FIRST step
   that cannot be taken.  A name step on an object without that member, or an index step on an array without that element:
   "member did not exist" naming that step as written.  A name step on a value that is not an object, or an index step on a
   value that is not an array: "type unmatched" — expected object / array, found the Go type of the value — naming that step.
   first_fail2 is defined on the document alone. *)
From JP Require Import Peg Grammar Slice Text Tree Actions Json Eval WF Spec ErrSpec SortFacts EvalInv1 EvalInv4 EvalTop EndToEnd Codec KeyDefs KeyParse ChainParse ChainAddr ErrNames.
From Coq Require Import Lia ZArith.
Open Scope list_scope.

Definition is_loc_step (s : kstep) : bool := match s with SBr _ _ | SDot _ | SIdx _ => true | _ => false end.

(* the element an index selects; none when out of range (the negative branch mirrors get_indexes_index; step_ok admits digits only, so under the
   theorems' premises it is never taken) *)
Definition idx_pick (xs : list value) (n : Z) : option value :=
  let len := Z.of_nat (List.length xs) in
  let i := if (n <? 0)%Z then Slice.wrap (n + len)%Z else n in
  if ((i <? 0) || (i >=? len))%Z then None else nth_value xs i.

Fixpoint first_fail2 (v : value) (steps : list kstep) : option (kstep * option (string * string)) :=
  match steps with
  | [] => None
  | s :: r =>
      match s with
      | SIdx ds => match v with
                   | VArr xs => match idx_pick xs (step_idx ds) with Some x => first_fail2 x r | None => Some (s, None) end
                   | _ => Some (s, Some ("array"%string, go_type v))
                   end
      | _ => match v with
             | VObj m => match lookup m (step_key s) with Some x => first_fail2 x r | None => Some (s, None) end
             | _ => Some (s, Some ("object"%string, go_type v))
             end
      end
  end.

Lemma loop_err_single b o : loop_err b [of_opt o] = o.
Proof. destruct o as [e|]; reflexivity. Qed.

Section ErrSteps.
  Variable cfg : config.
  Variable parse_float : string -> option num.
  Variable regex_ok : string -> bool.
  Variable ffun : string -> value -> option value.
  Variable afun : string -> list value -> option value.
  Variable regex_match : string -> string -> bool.
  Hypothesis ffun_small : forall f v w, small v -> ffun f v = Some w -> small w.
  Hypothesis afun_small : forall f l w, Forall small l -> afun f l = Some w -> small w.
  Notation parse := (parse_with cfg parse_float regex_ok jsonpath_grammar).
  Notation eval_run := (eval_run ffun afun regex_match).
  Notation serr := (serr ffun afun regex_match).

  Definition err_matches2 (o : option rerr) (f : option (kstep * option (string * string))) : Prop :=
    match f with
    | None => o = None
    | Some (s, None) => exists b, o = Some (EMember b) /\ text b = step_text s
    | Some (s, Some (ex, ty)) => exists b, o = Some (EType b ex ty) /\ text b = step_text s
    end.

  (* a chain of the steps' nodes whose texts are those of the steps *)
  Fixpoint steps_shape (steps : list kstep) (o : onode) : Prop :=
    match steps, o with
    | [], ONone => True
    | s :: r, OSome (Node k b nx) => k = step_kind s /\ text b = step_text s /\ steps_shape r nx
    | _, _ => False
    end.

  Lemma serr_steps : forall steps n root (ol : option (list pstep)) v, forallb is_loc_step steps = true -> steps_shape steps (OSome n) ->
    err_matches2 (serr n root (@pair (option (list pstep)) value ol v)) (first_fail2 v steps).
  Proof.
    induction steps as [|s r IH]; intros n root ol v Hn Hsh; [contradiction|].
    destruct n as [k b nx]. destruct Hsh as (Ek & Et & Hr). subst k. cbn [forallb] in Hn. apply andb_true_iff in Hn. destruct Hn as [Hs Hn].
    assert (Hfwd : forall cu x, err_matches2 (match nx with OSome n' => serr n' root (cu, x) | ONone => None end) (first_fail2 x r)).
    { intros cu x. destruct nx as [|n']; [destruct r; [reflexivity|contradiction]|]. apply IH; assumption. }
    destruct s as [q key|key|ds|w|sa sb sc|u us]; try discriminate Hs.
    - (* bracket name *)
      cbn [first_fail2 step_kind]. destruct v as [|bb|x|s0 x|s0|xs|m|t i s0];
        try (cbn [ErrSpec.serr snd err_matches2]; eexists; split; [reflexivity|exact Et]).
      cbn [ErrSpec.serr snd fst]. destruct (lookup m (step_key (SBr q key))) as [x|] eqn:El.
      + apply Hfwd.
      + cbn [err_matches2]. eexists. split; [reflexivity|exact Et].
    - (* dot name *)
      cbn [first_fail2 step_kind]. destruct v as [|bb|x|s0 x|s0|xs|m|t i s0];
        try (cbn [ErrSpec.serr snd err_matches2]; eexists; split; [reflexivity|exact Et]).
      cbn [ErrSpec.serr snd fst]. destruct (lookup m (step_key (SDot key))) as [x|] eqn:El.
      + apply Hfwd.
      + cbn [err_matches2]. eexists. split; [reflexivity|exact Et].
    - (* index *)
      cbn [first_fail2 step_kind]. destruct v as [|bb|x|s0 x|s0|xs|m|t i s0];
        try (cbn [ErrSpec.serr snd err_matches2]; eexists; split; [reflexivity|exact Et]).
      cbn [ErrSpec.serr snd fst flat_map get_indexes]. rewrite app_nil_r. unfold get_indexes_index, idx_pick.
      set (len := Z.of_nat (List.length xs)). set (i := if (step_idx ds <? 0)%Z then Slice.wrap (step_idx ds + len) else step_idx ds).
      destruct ((i <? 0) || (i >=? len))%Z eqn:Eo.
      + cbn [flat_map]. cbn [err_matches2]. eexists. split; [reflexivity|exact Et].
      + apply orb_false_iff in Eo. destruct Eo as [E1 E2]. apply Z.ltb_ge in E1. rewrite Z.geb_leb in E2. apply Z.leb_gt in E2.
        destruct (nth_value_some xs i ltac:(subst len; lia)) as (x & Ex). cbn [flat_map app]. rewrite Ex, app_nil_r. rewrite loop_err_single. cbn [fst snd]. apply Hfwd.
  Qed.

  Lemma fin_steps r : steps_shape r (fin (pres cfg (map RPlain r))).
  Proof.
    induction r as [|s r IH]; [exact I|].
    unfold pres. cbn [map flat_map rstep_pre app fin fst snd steps_shape]. split; [reflexivity|]. split; [reflexivity|]. exact IH.
  Qed.
  Lemma chain_steps s r : steps_shape (s :: r) (OSome (chain_node cfg (map RPlain (s :: r)))).
  Proof.
    unfold chain_node, pres. cbn [map flat_map rstep_pre app fst snd steps_shape]. split; [reflexivity|]. split; [reflexivity|]. apply (fin_steps r).
  Qed.

  Theorem loc_path_error s r doc st : forallb step_ok (s :: r) = true -> forallb is_loc_step (s :: r) = true -> small doc -> ok st ->
    exists t, parse (chain_path (map RPlain (s :: r))) = ParseOk t /\
              match first_fail2 doc (s :: r) with
              | None => exists rs, fst (eval_run t doc st) = OOk rs
              | Some (x, None) => exists b, fst (eval_run t doc st) = OErr (EMember b) /\ text b = step_text x
              | Some (x, Some (ex, ty)) => exists b, fst (eval_run t doc st) = OErr (EType b ex ty) /\ text b = step_text x
              end.
  Proof.
    intros Hs Hn Hd Hok. pose proof (plain_ok (s :: r) Hs) as Hs'. cbn [map] in Hs'.
    exists (chain_node cfg (map RPlain (s :: r))).
    pose proof (parse_chain_path cfg parse_float regex_ok (RPlain s) (map RPlain r) Hs') as Hp. split; [exact Hp|].
    pose proof (retrieve_end_to_end cfg parse_float regex_ok ffun afun regex_match ffun_small afun_small (chain_path (map RPlain (s :: r))) doc st Hd Hok) as H.
    cbn [map] in H. rewrite Hp in H.
    pose proof (serr_steps (s :: r) (chain_node cfg (map RPlain (s :: r))) doc (@Some (list pstep) []) doc Hn (chain_steps s r)) as He.
    cbn [map] in He. unfold ErrSpec.spec_error in H. cbn [map].
    destruct (fst (eval_run (chain_node cfg (RPlain s :: map RPlain r)) doc st)) as [rs|e|pn]; [| |contradiction].
    - destruct H as (_ & _ & Hnone). rewrite Hnone in He. destruct (first_fail2 doc (s :: r)) as [[x [[ex ty]|]]|].
      + destruct He as (b & E & _). discriminate E.
      + destruct He as (b & E & _). discriminate E.
      + exists rs. reflexivity.
    - destruct H as (_ & Hsome). rewrite Hsome in He. destruct (first_fail2 doc (s :: r)) as [[x [[ex ty]|]]|].
      + destruct He as (b & E & Hb). inversion E; subst. exists b. split; [reflexivity|exact Hb].
      + destruct He as (b & E & Hb). inversion E; subst. exists b. split; [reflexivity|exact Hb].
      + discriminate He.
  Qed.
End ErrSteps.

(* ---------- a step taken on a value that is not JSON (C20) ---------- *)
(* the value a path of name and index steps reaches *)
Fixpoint walk (v : value) (steps : list kstep) : option value :=
  match steps with
  | [] => Some v
  | s :: r =>
      match s with
      | SIdx ds => match v with VArr xs => match idx_pick xs (step_idx ds) with Some x => walk x r | None => None end | _ => None end
      | _ => match v with VObj m => match lookup m (step_key s) with Some x => walk x r | None => None end | _ => None end
      end
  end.

Lemma first_fail2_app pre : forall doc v rest, walk doc pre = Some v -> first_fail2 doc (pre ++ rest) = first_fail2 v rest.
Proof.
  induction pre as [|s r IH]; intros doc v rest H.
  - cbn [walk] in H. inversion H; subst. reflexivity.
  - cbn [app]. destruct s as [q key|key|ds|w|sa sb sc|u us]; cbn [walk first_fail2] in *;
      try (destruct doc as [|bb|x|s0 x|s0|xs|m|t i s0]; try discriminate H;
           match type of H with context [lookup ?m ?k] => destruct (lookup m k) as [y|]; [apply IH; exact H|discriminate H] end).
    destruct doc as [|bb|x|s0 x|s0|xs|m|t i s0]; try discriminate H.
    destruct (idx_pick xs (step_idx ds)) as [y|]; [apply IH; exact H|discriminate H].
Qed.

Definition expected_container (x : kstep) : string := match x with SIdx _ => "array" | _ => "object" end.
Lemma first_fail2_opaque x post ty i s : is_loc_step x = true ->
  first_fail2 (VOpaque ty i s) (x :: post) = Some (x, Some (expected_container x, ty)).
Proof. destruct x; intros H; try discriminate H; reflexivity. Qed.

Section ErrForeign.
  Variable cfg : config.
  Variable parse_float : string -> option num.
  Variable regex_ok : string -> bool.
  Variable ffun : string -> value -> option value.
  Variable afun : string -> list value -> option value.
  Variable regex_match : string -> string -> bool.
  Hypothesis ffun_small : forall f v w, small v -> ffun f v = Some w -> small w.
  Hypothesis afun_small : forall f l w, Forall small l -> afun f l = Some w -> small w.

  (* a path of name and index steps that reaches a value which is not JSON and has a further step to take there fails with
     "type unmatched" naming that step: expected object (array for an index), found the Go type of the value — never a panic *)
  Theorem foreign_value_step_error pre x post doc ty i s st :
    forallb step_ok (pre ++ x :: post) = true -> forallb is_loc_step (pre ++ x :: post) = true -> small doc -> ok st ->
    walk doc pre = Some (VOpaque ty i s) ->
    exists t b, parse_with cfg parse_float regex_ok jsonpath_grammar (chain_path (map RPlain (pre ++ x :: post))) = ParseOk t /\
                fst (eval_run ffun afun regex_match t doc st) = OErr (EType b (expected_container x) ty) /\ text b = step_text x.
  Proof.
    intros Hs Hn Hd Hok Hw.
    assert (Hx : is_loc_step x = true).
    { rewrite forallb_app in Hn. apply andb_true_iff in Hn. destruct Hn as [_ Hn]. cbn [forallb] in Hn. apply andb_true_iff in Hn. exact (proj1 Hn). }
    destruct (pre ++ x :: post) as [|s0 r0] eqn:El; [destruct pre; discriminate El|].
    destruct (loc_path_error cfg parse_float regex_ok ffun afun regex_match ffun_small afun_small s0 r0 doc st Hs Hn Hd Hok) as (t & Hp & H).
    rewrite <- El in H. rewrite (first_fail2_app pre doc _ (x :: post) Hw), (first_fail2_opaque x post ty i s Hx) in H.
    destruct H as (b & He & Hb). exists t, b. split; [exact Hp|]. split; [exact He|exact Hb].
  Qed.
End ErrForeign.
