(* PegFacts.v — facts about the PEG interpreter (Peg.v) that hold for every grammar: unfolding
   equations, position accounting of results and tokens, and the totality of a catch-all
   second alternative of the shape `e / e? <.*> !. {action}`. *)
From JP Require Import Peg.
From Coq Require Import Lia.

Lemma run_0 g e rest pos : run g 0 e rest pos = PFuel.
Proof. reflexivity. Qed.

Lemma run_seq g f a b rest pos :
  run g (S f) (PSeq a b) rest pos =
  match run g (S f) a rest pos with
  | POk r p t => match run g (S f) b r p with POk r' p' t' => POk r' p' (t ++ t') | x => x end
  | x => x
  end.
Proof. reflexivity. Qed.
Lemma run_alt g f a b rest pos :
  run g (S f) (PAlt a b) rest pos =
  match run g (S f) a rest pos with PFail => run g (S f) b rest pos | x => x end.
Proof. reflexivity. Qed.
Lemma run_opt g f a rest pos :
  run g (S f) (POpt a) rest pos = match run g (S f) a rest pos with PFail => POk rest pos [] | x => x end.
Proof. reflexivity. Qed.
Lemma run_cap g f a rest pos :
  run g (S f) (PCap a) rest pos =
  match run g (S f) a rest pos with POk r p t => POk r p (t ++ [TText pos p]) | x => x end.
Proof. reflexivity. Qed.
Lemma run_ref g f n rest pos :
  run g (S f) (PRef n) rest pos = match nth_error g n with Some body => run g f body rest pos | None => PFail end.
Proof. reflexivity. Qed.
Lemma run_act g f n rest pos : run g (S f) (PAct n) rest pos = POk rest pos [TAct n].
Proof. reflexivity. Qed.
Lemma run_not g f a rest pos :
  run g (S f) (PNot a) rest pos =
  match run g (S f) a rest pos with PFail => POk rest pos [] | PFuel => PFuel | POk _ _ _ => PFail end.
Proof. reflexivity. Qed.
Lemma run_star g f a rest pos :
  run g (S f) (PStar a) rest pos =
  match run g (S f) a rest pos with
  | PFail => POk rest pos []
  | PFuel => PFuel
  | POk r p t => if Nat.eqb p pos then PFuel
                 else match run g f (PStar a) r p with POk r' p' t' => POk r' p' (t ++ t') | x => x end
  end.
Proof. reflexivity. Qed.
Lemma run_any g f rest pos :
  run g (S f) PAny rest pos = match rest with _ :: r => POk r (S pos) [] | [] => PFail end.
Proof. reflexivity. Qed.

(* `.*` never fails; when it succeeds it has consumed the whole input and produced no token *)
Lemma run_star_any g : forall f rest pos,
  match run g f (PStar PAny) rest pos with
  | PFail => False
  | PFuel => True
  | POk r p t => r = [] /\ p = pos + length rest /\ t = []
  end.
Proof.
  induction f as [|f IH]; intros rest pos; [exact I|].
  rewrite run_star, run_any. destruct rest as [|c rest].
  - repeat split. cbn. lia.
  - destruct (Nat.eqb (S pos) pos) eqn:E; [exact I|].
    specialize (IH rest (S pos)). destruct (run g f (PStar PAny) rest (S pos)) as [| |r p t]; try exact IH.
    destruct IH as (-> & -> & ->). repeat split. cbn. lia.
Qed.

(* ---------- position accounting ---------- *)
Definition tok_ok (lo hi : nat) (t : token) : Prop :=
  match t with TText b e => lo <= b /\ b <= e /\ e <= hi | TAct _ => True end.

Lemma strip_prefix_length : forall p s r, strip_prefix p s = Some r -> length s = length p + length r.
Proof.
  induction p as [|c p IH]; intros s r H; cbn [strip_prefix] in H; [inversion H; reflexivity|].
  destruct s as [|d s]; [discriminate|]. destruct (N.eqb c d); [|discriminate].
  apply IH in H. cbn [length]. lia.
Qed.

Lemma Forall_tok_weaken lo hi lo' hi' ts : lo' <= lo -> hi <= hi' -> Forall (tok_ok lo hi) ts -> Forall (tok_ok lo' hi') ts.
Proof.
  intros H1 H2 H. eapply Forall_impl; [|exact H]. intros [b e|n]; cbn [tok_ok]; [lia|trivial].
Qed.

(* a successful match advances the position by exactly what it consumed, and every capture
   token lies between the start and the end of the match *)
Lemma run_accounting g : forall f e rest pos r p t,
  run g f e rest pos = POk r p t ->
  pos + length rest = p + length r /\ pos <= p /\ Forall (tok_ok pos p) t.
Proof.
  induction f as [|f IHf]; intros e; [intros; discriminate|].
  induction e as [ |s|neg rs|a IHa b IHb|a IHa b IHb|a IHa|a IHa|a IHa|a IHa|a IHa|n|a IHa|n| ];
    intros rest pos r p t H.
  - rewrite run_any in H. destruct rest; inversion H; subst. cbn [length]. repeat split; try lia. constructor.
  - change (run g (S f) (PLit s) rest pos) with
      (match strip_prefix s rest with Some r => POk r (pos + length s) [] | None => PFail end) in H.
    destruct (strip_prefix s rest) eqn:E; inversion H; subst. apply strip_prefix_length in E.
    repeat split; try lia. constructor.
  - change (run g (S f) (PCls neg rs) rest pos) with
      (match rest with c :: r => if xorb neg (in_ranges c rs) then POk r (S pos) [] else PFail | [] => PFail end) in H.
    destruct rest as [|c rest']; [discriminate|]. destruct (xorb neg (in_ranges c rs)); inversion H; subst.
    cbn [length]. repeat split; try lia. constructor.
  - rewrite run_seq in H. destruct (run g (S f) a rest pos) as [| |r1 p1 t1] eqn:Ea; try discriminate.
    destruct (run g (S f) b r1 p1) as [| |r2 p2 t2] eqn:Eb; try discriminate. inversion H; subst.
    destruct (IHa _ _ _ _ _ Ea) as (A1 & A2 & A3). destruct (IHb _ _ _ _ _ Eb) as (B1 & B2 & B3).
    repeat split; try lia. apply Forall_app. split; [eapply Forall_tok_weaken; [| |exact A3]; lia|eapply Forall_tok_weaken; [| |exact B3]; lia].
  - rewrite run_alt in H. destruct (run g (S f) a rest pos) as [| |r1 p1 t1] eqn:Ea; try discriminate.
    + eapply IHb; eassumption.
    + inversion H; subst. eapply IHa; eassumption.
  - (* star: induction on the inner fuel is the outer induction *)
    rewrite run_star in H. destruct (run g (S f) a rest pos) as [| |r1 p1 t1] eqn:Ea; try discriminate.
    + inversion H; subst. repeat split; try lia. constructor.
    + destruct (Nat.eqb p1 pos); [discriminate|].
      destruct (run g f (PStar a) r1 p1) as [| |r2 p2 t2] eqn:Es; try discriminate. inversion H; subst.
      destruct (IHa _ _ _ _ _ Ea) as (A1 & A2 & A3). destruct (IHf _ _ _ _ _ _ Es) as (B1 & B2 & B3).
      repeat split; try lia. apply Forall_app. split; [eapply Forall_tok_weaken; [| |exact A3]; lia|eapply Forall_tok_weaken; [| |exact B3]; lia].
  - change (run g (S f) (PPlus a) rest pos) with
      (match run g (S f) a rest pos with
       | POk r p t => if Nat.eqb p pos then PFuel
                      else match run g f (PStar a) r p with POk r' p' t' => POk r' p' (t ++ t') | x => x end
       | x => x end) in H.
    destruct (run g (S f) a rest pos) as [| |r1 p1 t1] eqn:Ea; try discriminate.
    destruct (Nat.eqb p1 pos); [discriminate|].
    destruct (run g f (PStar a) r1 p1) as [| |r2 p2 t2] eqn:Es; try discriminate. inversion H; subst.
    destruct (IHa _ _ _ _ _ Ea) as (A1 & A2 & A3). destruct (IHf _ _ _ _ _ _ Es) as (B1 & B2 & B3).
    repeat split; try lia. apply Forall_app. split; [eapply Forall_tok_weaken; [| |exact A3]; lia|eapply Forall_tok_weaken; [| |exact B3]; lia].
  - rewrite run_opt in H. destruct (run g (S f) a rest pos) as [| |r1 p1 t1] eqn:Ea; try discriminate.
    + inversion H; subst. repeat split; try lia. constructor.
    + inversion H; subst. eapply IHa; eassumption.
  - rewrite run_not in H. destruct (run g (S f) a rest pos); try discriminate.
    inversion H; subst. repeat split; try lia. constructor.
  - change (run g (S f) (PAnd a) rest pos) with
      (match run g (S f) a rest pos with POk _ _ _ => POk rest pos [] | x => x end) in H.
    destruct (run g (S f) a rest pos); try discriminate. inversion H; subst. repeat split; try lia. constructor.
  - rewrite run_ref in H. destruct (nth_error g n) as [body|]; [|discriminate]. eapply IHf; eassumption.
  - rewrite run_cap in H. destruct (run g (S f) a rest pos) as [| |r1 p1 t1] eqn:Ea; try discriminate.
    inversion H; subst. destruct (IHa _ _ _ _ _ Ea) as (A1 & A2 & A3). repeat split; try lia.
    apply Forall_app. split; [exact A3|]. constructor; [cbn; lia|constructor].
  - rewrite run_act in H. inversion H; subst. repeat split; try lia. constructor; [exact I|constructor].
  - change (run g (S f) PEps rest pos) with (POk rest pos []) in H. inversion H; subst. repeat split; try lia. constructor.
Qed.

(* ---------- a catch-all second alternative makes the start rule total ---------- *)
Definition catch_all_shape (g : grammar) : Prop :=
  exists a j k, nth_error g 0 = Some (PAlt a (PSeq (POpt j) (PSeq (PCap (PStar PAny)) (PSeq (PRef 1) (PAct k)))))
                /\ nth_error g 1 = Some (PNot PAny).

Theorem catch_all_never_fails g : catch_all_shape g ->
  forall fuel s pos, run g fuel (PRef 0) s pos <> PFail.
Proof.
  intros (a & j & k & H0 & H1) fuel s pos.
  destruct fuel as [|f]; [discriminate|]. rewrite run_ref, H0.
  destruct f as [|f]; [discriminate|]. rewrite run_alt.
  destruct (run g (S f) a s pos); try discriminate.
  rewrite run_seq, run_opt.
  assert (Hrest : forall r p t0, match run g (S f) (PSeq (PCap (PStar PAny)) (PSeq (PRef 1) (PAct k))) r p with
                                 | POk r' p' t' => POk r' p' (t0 ++ t') | x => x end <> PFail).
  { intros r p t0. rewrite run_seq, run_cap.
    pose proof (run_star_any g (S f) r p) as Hs.
    destruct (run g (S f) (PStar PAny) r p) as [| |r1 p1 t1]; [contradiction|discriminate|].
    destruct Hs as (-> & -> & ->). rewrite run_seq, run_ref, H1.
    destruct f as [|f]; [discriminate|]. rewrite run_not, run_any, run_act. discriminate. }
  destruct (run g (S f) j s pos) as [| |r p t]; [apply Hrest|discriminate|apply Hrest].
Qed.
